import jax; jax.config.update('jax_enable_x64', True)
import numpy as np
from dinosaur import primitive_equations as pe, sigma_coordinates as sc
rs = np.random.RandomState(0)
for name,b in [('equi5', np.linspace(0,1,6)), ('uneven5', np.array([0,0.1,0.25,0.5,0.8,1.0])), ('uneven3', np.array([0,0.2,0.7,1.0]))]:
  c = sc.SigmaCoordinates(b)
  n=c.layers
  for tname,T in [('const',np.full(n,250.)),('lin',np.linspace(200,300,n)),('rand',200+100*rs.rand(n))]:
    d = rs.randn(n,3,4)
    a = pe.get_temperature_implicit(d,c,T,0.2857,method='dense')
    s = pe.get_temperature_implicit(d,c,T,0.2857,method='sparse')
    t = rs.randn(n,3,4)
    ga = pe.get_geopotential_diff(t,c,287.,method='dense'); gs=pe.get_geopotential_diff(t,c,287.,method='sparse')
    print(name,tname,'temp impl rel err', float(np.abs(a-s).max()/np.abs(a).max()), 'geopot rel err', float(np.abs(ga-gs).max()/np.abs(ga).max()))
