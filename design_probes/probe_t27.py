from common import *
rs=np.random.RandomState(0)
for sp in ('gauss','equiangular'):
 for N in (11, 21, 41, 81):
  g = sh.Grid(longitude_wavenumbers=5,total_wavenumbers=6,longitude_nodes=16,latitude_nodes=N,latitude_spacing=sp)
  vor = rand_modal(rs,g,(1,),zero_mean=True); div=rand_modal(rs,g,(1,),zero_mean=True)
  u,v = sh.vor_div_to_uv_nodal(g, vor, div)
  v2,d2 = sh.uv_nodal_to_vor_div_modal(g,u,v)
  # scalar roundtrip
  x = rand_modal(rs,g,(1,),lmax=5)
  print(sp, N, 'uv roundtrip err', float(np.abs(np.asarray(v2)-vor).max()), float(np.abs(np.asarray(d2)-div).max()), 'scalar rt', float(np.abs(np.asarray(g.to_modal(g.to_nodal(x)))-x).max()))
