import jax; jax.config.update('jax_enable_x64', True)
import numpy as np, jax.numpy as jnp
from dinosaur import spherical_harmonic as sh, sigma_coordinates as sc, coordinate_systems as cs
from dinosaur import primitive_equations as pe, scales, time_integration as ti
units = scales.units

def rand_sigma(rs, n, uneven=True):
  if not uneven: return sc.SigmaCoordinates.equidistant(n)
  t = rs.uniform(0.3, 1.0, size=n); b = np.concatenate([[0], np.cumsum(t)/t.sum()]); b[-1]=1.0
  return sc.SigmaCoordinates(b)

def rand_modal(rs, grid, shape_prefix, lmax=None, amp=1.0, zero_mean=False, decay=0.0):
  m, l = grid.modal_mesh
  x = rs.standard_normal(shape_prefix + grid.modal_shape) * grid.mask
  L = grid.total_wavenumbers
  if lmax is None: lmax = L-2   # top wavenumber clipped
  x = x * (l <= lmax)
  x = x * amp / (1.0 + l)**decay
  if zero_mean: x[..., 0, 0] = 0   # note fast layout row 1 is masked anyway
  return x

def make_state(rs, coords, amp=1e-2, lmax=None, tracers=(), with_time=False, t_amp=5.0, lnps_amp=0.05, q_amp=0.01):
  g = coords.horizontal; n = coords.vertical.layers
  vor = rand_modal(rs, g, (n,), lmax, amp, zero_mean=True)
  div = rand_modal(rs, g, (n,), lmax, amp, zero_mean=True)
  tv = rand_modal(rs, g, (n,), lmax, t_amp)
  lsp = rand_modal(rs, g, (1,), lmax, lnps_amp)
  tr = {k: rand_modal(rs, g, (n,), lmax, q_amp) for k in tracers}
  if with_time:
    return pe.StateWithTime(vor, div, tv, lsp, sim_time=0.0, tracers=tr)
  return pe.State(vor, div, tv, lsp, tracers=tr)
