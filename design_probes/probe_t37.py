from common import *
import math
rs = np.random.RandomState(41)
# ---- C06 leapfrog consistency: exact u(-h), u(0) -> u(h) error O(h^3)
d=3
A = rs.randn(d,d)*0.5; B = rs.randn(d,d,d)*0.3; c = rs.randn(d)*0.2; Gm = rs.randn(d,d)*0.7
F = lambda u: A@u + jnp.einsum('ijk,j,k->i',B,u,u) + c
eq = ti.ImplicitExplicitODE.from_functions(F, lambda u: Gm@u, lambda u,s: jnp.linalg.solve(jnp.eye(d)-s*Gm, u))
rhs = lambda u: F(u)+Gm@u
def exact_coeffs(u0, order):
  g = rhs; out=[u0, rhs(u0)]
  for k in range(2, order+1):
    g = (lambda g_: (lambda u: jax.jvp(g_, (u,), (rhs(u),))[1]))(g)
    out.append(g(u0)/math.factorial(k))
  return out
u0 = rs.randn(d); ex = exact_coeffs(u0, 5)
def flow(h): return sum(ex[k]*h**k for k in range(6))   # Taylor poly (exact up to h^5)
for alpha in (0.5, 0.7, 1.0):
  def lf(h):
    step = ti.semi_implicit_leapfrog(eq, h, alpha)
    return step((flow(-h), u0))[1]
  coefs=[lf(0.0)]; f=lf
  for k in range(1,5):
    f = jax.jacfwd(f); coefs.append(f(0.0)/math.factorial(k))
  errs=[float(np.abs(np.asarray(a)-np.asarray(b)).max()) for a,b in zip(coefs, ex)]
  print('leapfrog alpha',alpha,'taylor errs', errs)
# ---- C03 reference solve
from dinosaur import sigma_coordinates as sc
for (Ltot, n, uneven, eta) in [(64,5,False,0.3),(128,8,False,-2.0),(32,3,False,50.0)]:
  grid = sh.Grid(longitude_wavenumbers=2,total_wavenumbers=Ltot, radius=1.0)
  vert = rand_sigma(rs,n,uneven); coords = cs.CoordinateSystem(grid,vert)
  specs = pe.PrimitiveEquationsSpecs.from_si()
  Tref = 250+50*rs.rand(n)
  eq = pe.PrimitiveEquations(Tref, np.zeros(grid.modal_shape), coords, specs)
  # state vector per l at row m index 0: [div(n), T(n), lsp(1)]
  N = 2*n+1
  def to_state(vecs):  # vecs [batch?]. build for all l simultaneously: X[l, N]
    X = vecs
    z = np.zeros((n,)+grid.modal_shape); dv=z.copy(); tv=z.copy(); ls_=np.zeros((1,)+grid.modal_shape)
    dv[:,0,:] = X[:, :n].T; tv[:,0,:] = X[:, n:2*n].T; ls_[0,0,:] = X[:,2*n]
    return pe.State(z, dv, tv, ls_)
  def from_state(s): return np.concatenate([np.asarray(s.divergence)[:,0,:].T, np.asarray(s.temperature_variation)[:,0,:].T, np.asarray(s.log_surface_pressure)[:,0,:].T],axis=1)
  # operator matrix per l: apply to unit vectors j (same for all l simultaneously)
  Amat = np.zeros((Ltot,N,N))
  for j in range(N):
    X = np.zeros((Ltot,N)); X[:,j]=1
    Amat[:,:,j] = from_state(eq.implicit_terms(to_state(X)))
  Xr = rs.randn(Ltot,N)
  rhs_ = Xr - eta*np.einsum('lij,lj->li',Amat,Xr)
  for method in ('split','stacked','blockwise'):
    got = from_state(eq.implicit_inverse(to_state(rhs_), eta, method=method))
    ref = np.stack([np.linalg.solve(np.eye(N)-eta*Amat[l], rhs_[l]) for l in range(Ltot)])
    cond = max(np.linalg.cond(np.eye(N)-eta*Amat[l]) for l in range(Ltot))
    print((Ltot,n,eta),method,'err vs X', float(np.abs(got-Xr).max()), 'err vs numpy ref', float(np.abs(got-ref).max()), 'cond', cond, 'scale', float(np.abs(Xr).max()))
