import os
os.environ['XLA_FLAGS']='--xla_force_host_platform_device_count=8'
from common import *
import functools, itertools
from dinosaur import shallow_water as sw, layer_coordinates as lc, jax_numpy_utils as jnu
rs = np.random.RandomState(61)
# ---- C09 options
M=9
base = sh.Grid.with_wavenumbers(M, spherical_harmonics_impl=sh.RealSphericalHarmonics)
x = rand_modal(rs, base, (3,))
ref_nodal = np.asarray(base.to_nodal(x))
def r2f(a, g):  # real layout -> fast layout of grid g
  a = np.asarray(a); out = np.zeros(a.shape[:-2]+g.modal_shape)
  out[...,0,:a.shape[-1]] = a[...,0,:]; out[...,2:2+a.shape[-2]-1,:a.shape[-1]] = a[...,1:,:]
  return out
worst=0
for bsm, stk, rev, prec in itertools.product((None,1,2,3,8),(None,True,False),(None,True,False),('tensorfloat32','float32','highest')):
  impl = functools.partial(sh.FastSphericalHarmonics, base_shape_multiple=bsm, stacked_fourier_transforms=stk, reverse_einsum_arg_order=rev, transform_precision=prec)
  g = sh.Grid.with_wavenumbers(M, spherical_harmonics_impl=impl)
  xf = r2f(x, g)
  nod = np.asarray(g.to_nodal(xf))[..., :base.nodal_shape[0], :base.nodal_shape[1]]
  back = np.asarray(g.to_modal(g.to_nodal(xf)))
  dl = np.asarray(g.d_dlon(xf)); dl_ref = r2f(base.d_dlon(x), g)
  cl = np.asarray(g.cos_lat_d_dlat(xf)); cl_ref = r2f(base.cos_lat_d_dlat(x), g)
  worst = max(worst, np.abs(nod-ref_nodal).max(), np.abs(back-xf).max(), np.abs(dl-dl_ref).max(), np.abs(cl-cl_ref).max())
print('C09 options worst', worst)
# ---- C12 SW scale invariance
outs={}
g0 = sh.Grid.with_wavenumbers(6)
vor = rand_modal(rs,g0,(2,),amp=1e-5,zero_mean=True); div=rand_modal(rs,g0,(2,),amp=1e-6,zero_mean=True); pot=rand_modal(rs,g0,(2,),amp=50.0); oro=rand_modal(rs,g0,(),amp=100.0)
for name, scale in (('A',scales.DEFAULT_SCALE),('B',scales.Scale(1234.5*units.km, 3.7*units.hour, 2.2e7*units.kg, 13.0*units.degK))):
  specs = sw.ShallowWaterSpecs.from_si(np.array([900.,1000.])*units.kg/units.m**3, scale=scale)
  grid = sh.Grid.with_wavenumbers(6, radius=specs.radius)
  coords = cs.CoordinateSystem(grid, lc.LayerCoordinates(2))
  nd = specs.nondimensionalize
  st = sw.State(nd(vor/units.s), nd(div/units.s), nd(pot*units.m**2/units.s**2))
  eq = sw.ShallowWaterEquations(coords, specs, nd(oro*units.m**2/units.s**2), nd(np.array([3e4,5e4])*units.m**2/units.s**2))
  e=eq.explicit_terms(st); i=eq.implicit_terms(st)
  dim = lambda a,u: np.asarray(specs.dimensionalize(np.asarray(a), units(u)).m)
  outs[name] = [dim(e.vorticity+i.vorticity,'1/s**2'), dim(e.divergence+i.divergence,'1/s**2'), dim(e.potential+i.potential,'m**2/s**3')]
print('C12 SW rel diffs', [float(np.abs(a-b).max()/np.abs(a).max()) for a,b in zip(outs['A'],outs['B'])])
# ---- C07 sharded einsum generic sizes
P = jax.sharding.PartitionSpec
fam = [
 ('ij,jk->ik', ('x','y'), lambda s: ((s['x']*2, s['x']*3),(s['x']*3, s['y']*2)), P('x','y'), P('x','y')),
 ('mjl,zsml->zsmj', ('z','x','y'), lambda s: ((s['x']*2, s['y']*3, s['y']*2),(s['z']*2,2,s['x']*2,s['y']*2)), P('z',None,'x','y'), P('z',None,'x','y')),
 ('ism,zsmj->zij', ('z','x','y'), lambda s: ((s['x']*3,2,s['x']*2),(s['z'],2,s['x']*2,s['y']*5)), P('z',None,'x','y'), P('z','x','y')),
 ('ism,zij->zsmj', ('z','x','y'), lambda s: ((s['x']*3,2,s['x']*2),(s['z']*3,s['x']*3,s['y']*2)), P('z','x','y'), P('z',None,'x','y')),
 ('mjl,zsmj->zsml', ('z','x','y'), lambda s: ((s['x']*2, s['y']*3, s['y']*2),(s['z']*2,2,s['x']*2,s['y']*3)), P('z',None,'x','y'), P('z',None,'x','y')),
 ('gh,hml->gml', ('z','x','y'), lambda s: ((s['z']*2,s['z']*2),(s['z']*2,s['x']*3,s['y'])), P('z','x','y'), P('z','x','y')),
 ('lgh,hml->gml', ('z','x','y'), lambda s: ((s['y']*2,s['z']*3,s['z']*3),(s['z']*3,s['x']*2,s['y']*2)), P('z','x','y'), P('z','x','y')),
]
nbad=0; ncase=0
for (z,xx,y) in [(1,2,2),(2,2,2),(1,4,2),(4,1,2),(8,1,1),(2,1,4),(1,1,8),(1,6,1),(2,4,1),(1,1,1)]:
  for sub, names, shp, rspec, ospec in fam:
    sizes = dict(z=z,x=xx,y=y)
    if names==('x','y'):
      if z!=1: continue
      devs = np.array(jax.devices()[:xx*y]).reshape((xx,y)); mesh = jax.sharding.Mesh(devs, names)
    else:
      devs = np.array(jax.devices()[:z*xx*y]).reshape((z,xx,y)); mesh = jax.sharding.Mesh(devs, names)
    ls_, rs_ = shp(sizes)
    lhs = rs.randn(*ls_); rhs = rs.randn(*rs_)
    exp = np.einsum(sub, lhs, rhs)
    for gi in (None, True, False):
      for rev in (False, True):
        ncase+=1
        try:
          act = np.asarray(jnu.sharded_einsum(sub, lhs, rhs, mesh=mesh, rhs_spec=rspec, out_spec=ospec, gather_inputs=gi, reverse_arg_order=rev))
          if np.abs(act-exp).max()>1e-10: nbad+=1; print('MISMATCH', (z,xx,y), sub, gi, rev, np.abs(act-exp).max())
        except Exception as e:
          nbad+=1; print('EXC', (z,xx,y), sub, gi, rev, type(e).__name__, str(e)[:120])
print('sharded einsum cases', ncase, 'bad', nbad)
