import numpy as np
from dinosaur import associated_legendre as al, spherical_harmonic as sh
for spacing in ('gauss','equiangular','equiangular_with_poles'):
  for n in (8,16,32,48,64,96,128,192,256):
    x,w = sh.get_latitude_nodes(n, spacing)
    D = 2*n-1 if spacing=='gauss' else (n-1 if n%2==0 else n)
    L = D//2+1   # l in [0, L)
    p = al.evaluate(n_m=L,n_l=L,x=x)  # [m,node,l]
    G = np.einsum('mjl,j,mjk->mlk',p,w,p)
    m,l = np.meshgrid(np.arange(L),np.arange(L),indexing='ij')
    I = (np.eye(L)[None]*(l>=m)[:,:,None])
    print(spacing,n,L,'gram err',np.abs(G-I).max(), 'wmin',w.min())
