from common import *
rs = np.random.RandomState(11)
const = np.sqrt(4*np.pi)
def total(eq, s):
  e = eq.explicit_terms(s); i = eq.implicit_terms(s)
  return jax.tree_util.tree_map(lambda a,b: np.asarray(a)+np.asarray(b), e, i)
M=8; n=5
grid = sh.Grid.with_wavenumbers(M, radius=1.0)
vert = rand_sigma(rs, n)
coords = cs.CoordinateSystem(grid, vert)
specs = pe.PrimitiveEquationsSpecs.from_si()
oro = rand_modal(rs, grid, (), amp=0.01)
tr = ('specific_humidity','specific_cloud_liquid_water_content','specific_cloud_ice_water_content')
T1 = 250 + 50*rs.rand(n); T2 = 250+50*rs.rand(n)
s1 = make_state(rs, coords, tracers=tr, with_time=True)
tv2 = np.array(s1.temperature_variation); tv2[:,0,0] += (T1-T2)*const
s2 = s1.replace(temperature_variation=tv2)
cls = pe.MoistPrimitiveEquationsWithCloudMoisture
eq1 = cls(T1, oro, coords, specs); eq2 = cls(T2, oro, coords, specs)
t1 = total(eq1, s1); t2 = total(eq2, s2)
# predicted: tendency_k(Tref) includes -curl/div[ R T'(1+mc-c) grad lnps ]; T'1 - T'2 = -(T1-T2)
g = grid
c_nodal = g.to_nodal(s1.tracers[tr[1]]) + g.to_nodal(s1.tracers[tr[2]])
glnps = g.to_nodal(g.cos_lat_grad(s1.log_surface_pressure, clip=False))
dT = (T1-T2)[:,None,None]
# term in eq1 minus term in eq2: rTv1 - rTv2 = R (T'1 - T'2)(1+mc-c) = -R dT (1+mc-c); the (1+mc) part cancels elsewhere; remaining: +R dT c
ru = specs.R*dT*c_nodal*glnps[0]*g.sec2_lat; rv = specs.R*dT*c_nodal*glnps[1]*g.sec2_lat
cu, cv = g.to_modal(ru), g.to_modal(rv)
pred_vort = -g.curl_cos_lat((cu,cv), clip=False); pred_div = -g.div_cos_lat((cu,cv), clip=False)
pred_vort = np.asarray(g.clip_wavenumbers(pred_vort)); pred_div=np.asarray(g.clip_wavenumbers(pred_div))
dv = t1.vorticity - t2.vorticity; dd = t1.divergence - t2.divergence
print('vort diff', np.abs(dv).max(), 'resid after prediction', np.abs(dv-pred_vort).max(), np.abs(dv+pred_vort).max())
print('div diff', np.abs(dd).max(), 'resid after prediction', np.abs(dd-pred_div).max(), np.abs(dd+pred_div).max())
print('other leaves', np.abs(t1.temperature_variation-t2.temperature_variation).max(), np.abs(t1.log_surface_pressure-t2.log_surface_pressure).max(), max(np.abs(t1.tracers[k]-t2.tracers[k]).max() for k in tr))
