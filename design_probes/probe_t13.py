import time
from common import *
rs = np.random.RandomState(4)
M=6
grid = sh.Grid.with_wavenumbers(M)
vert = rand_sigma(rs, 3)
coords = cs.CoordinateSystem(grid, vert)
specs = pe.PrimitiveEquationsSpecs.from_si()
oro = rand_modal(rs, grid, (), amp=0.01)
T = 250+50*rs.rand(3)
eq = pe.PrimitiveEquations(T, oro, coords, specs)
s = make_state(rs, coords, tracers=('q',))
v = make_state(rs, coords, tracers=('q',))
w = make_state(rs, coords, tracers=('q',))
dt = 0.01
for name, mk in [('sil3', ti.imex_rk_sil3), ('cnrk3', ti.crank_nicolson_rk3), ('bfe', ti.backward_forward_euler)]:
  step = jax.jit(mk(eq, dt))
  t=time.time()
  y, jv = jax.jvp(step, (s,), (v,))
  y2, vjp = jax.vjp(step, s); (wt,) = vjp(w)
  dot = lambda a,b: sum(float(np.vdot(np.asarray(x),np.asarray(y))) for x,y in zip(jax.tree_util.tree_leaves(a), jax.tree_util.tree_leaves(b)))
  lhs, rhs = dot(jv,w), dot(v,wt)
  eps=1e-6
  sp = jax.tree_util.tree_map(lambda a,b: a+eps*b, s, v); sm = jax.tree_util.tree_map(lambda a,b: a-eps*b, s, v)
  fd = jax.tree_util.tree_map(lambda a,b: (a-b)/(2*eps), step(sp), step(sm))
  err = max(float(np.abs(np.asarray(a)-np.asarray(b)).max()) for a,b in zip(jax.tree_util.tree_leaves(fd), jax.tree_util.tree_leaves(jv)))
  sc_ = max(float(np.abs(np.asarray(a)).max()) for a in jax.tree_util.tree_leaves(jv))
  print(name, 'adjoint', lhs, rhs, abs(lhs-rhs)/abs(lhs), 'fd err', err, 'scale', sc_, 't', round(time.time()-t,2))
