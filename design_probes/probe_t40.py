from common import *
from dinosaur import shallow_water as sw, layer_coordinates as lc
rs = np.random.RandomState(71)
const=np.sqrt(4*np.pi)
for impl in (sh.RealSphericalHarmonics, sh.FastSphericalHarmonics):
  M=7; n=4
  grid = sh.Grid.with_wavenumbers(M, spherical_harmonics_impl=impl); L=grid.total_wavenumbers
  vert = rand_sigma(rs,n); coords=cs.CoordinateSystem(grid,vert)
  specs = pe.PrimitiveEquationsSpecs.from_si()
  Tref = 250+40*rs.rand(n)
  oro = rand_modal(rs,grid,(),amp=0.01)
  s = make_state(rs, coords, tracers=('specific_humidity','u'), with_time=True, amp=3e-2)
  u = np.zeros(coords.modal_shape); u[:,0,0]=0.7*const
  s = s.replace(tracers={'specific_humidity': s.tracers['specific_humidity'], 'u': u})
  eq = pe.MoistPrimitiveEquations(Tref, oro, coords, specs)
  dt=0.02
  filters=[ti.exponential_step_filter(grid, dt), ti.horizontal_diffusion_step_filter(grid, dt, tau=0.05, order=2)]
  for name, mk in [('sil3',ti.imex_rk_sil3),('cnrk3',ti.crank_nicolson_rk3),('bfe',ti.backward_forward_euler)]:
    step = jax.jit(ti.step_with_filters(mk(eq, dt), filters))
    x = s; mask = grid.mask
    v00 = np.asarray(x.vorticity)[:,0,0].copy(); d00=np.asarray(x.divergence)[:,0,0].copy()
    worst_mask=0; worst_top=0; worst_u=0
    for k in range(10):
      x = step(x)
      for leaf in jax.tree_util.tree_leaves(x):
        a=np.asarray(leaf)
        if a.ndim>=2:
          worst_mask=max(worst_mask, np.abs(a*(~mask)).max()); worst_top=max(worst_top, np.abs(a[..., L-1]).max())
      uu = np.asarray(x.tracers['u']); 
      worst_u = max(worst_u, np.abs(uu - u).max())
    print(impl.__name__, name, 'mask leak', worst_mask, 'top', worst_top, 'vort00 drift', float(np.abs(np.asarray(x.vorticity)[:,0,0]-v00).max()), 'div00 drift', float(np.abs(np.asarray(x.divergence)[:,0,0]-d00).max()), 'uniform tracer dev', worst_u, 'time', float(x.sim_time), 'div max', float(np.abs(np.asarray(x.divergence)).max()))
# shallow water mass
grid = sh.Grid.with_wavenumbers(8); swc = cs.CoordinateSystem(grid, lc.LayerCoordinates(3))
swspecs = sw.ShallowWaterSpecs.from_si(np.array([0.8,0.9,1.0])*scales.WATER_DENSITY)
def swstate(): return sw.State(rand_modal(rs,grid,(3,),amp=1e-2,zero_mean=True), rand_modal(rs,grid,(3,),amp=1e-2,zero_mean=True), rand_modal(rs,grid,(3,),amp=1e-2))
dt=0.01
stepsw = ti.step_with_filters(sw.shallow_water_leapfrog_step(swc, dt, swspecs, np.array([0.1,0.2,0.3]), rand_modal(rs,grid,(),amp=1e-2)), sw.default_filters(grid, dt))
a = swstate(); x=(a,a); p00=np.asarray(a.potential)[:,0,0].copy()
stepsw=jax.jit(stepsw)
for k in range(20): x=stepsw(x)
print('SW pot00 drift', float(np.abs(np.asarray(x[1].potential)[:,0,0]-p00).max()), 'mask leak', float(np.abs(np.asarray(x[1].potential)*(~grid.mask)).max()), 'top', float(np.abs(np.asarray(x[1].divergence)[...,-1]).max()))
