from common import *
rs = np.random.RandomState(1)
const = 3.5449077018110318  # sqrt(4 pi)
def total(eq, s):
  e = eq.explicit_terms(s); i = eq.implicit_terms(s)
  return jax.tree_util.tree_map(lambda a,b: np.asarray(a)+np.asarray(b), e, i)
for M in (8,):
  grid = sh.Grid.with_wavenumbers(M)
  vert = rand_sigma(rs, 5)
  coords = cs.CoordinateSystem(grid, vert)
  specs = pe.PrimitiveEquationsSpecs.from_si()
  oro = rand_modal(rs, grid, (), amp=0.01)
  print('pe const factor', pe._CONSTANT_NORMALIZATION_FACTOR, 'grid', grid.modal_shape, grid.nodal_shape)
  for cls, tracers, wt in [(pe.PrimitiveEquations, ('a',), False), (pe.PrimitiveEquationsWithTime, (), True), (pe.MoistPrimitiveEquations, ('specific_humidity',), True), (pe.MoistPrimitiveEquationsWithCloudMoisture, ('specific_humidity','specific_cloud_liquid_water_content','specific_cloud_ice_water_content'), True)]:
    for lmax in (None, 3):
      T1 = 250 + 50*rs.rand(5); T2 = 250+50*rs.rand(5)
      s1 = make_state(rs, coords, tracers=tracers, with_time=wt, lmax=lmax)
      # same physical state with T2: T' shift
      tv2 = np.array(s1.temperature_variation); tv2[:,0,0] += (T1-T2)*const
      s2 = s1.replace(temperature_variation=tv2)
      eq1 = cls(T1, oro, coords, specs); eq2 = cls(T2, oro, coords, specs)
      t1 = total(eq1, s1); t2 = total(eq2, s2)
      d = jax.tree_util.tree_map(lambda a,b: float(np.abs(a-b).max()), t1, t2)
      sc_ = jax.tree_util.tree_map(lambda a: float(np.abs(a).max()), t1)
      print(cls.__name__, 'lmax',lmax, '\n  diff', d, '\n  scale', sc_)
