import jax; jax.config.update('jax_enable_x64', True)
import numpy as np, jax.numpy as jnp, math, time
from dinosaur import time_integration as ti
rs = np.random.RandomState(0)
d=3
A = rs.randn(d,d)*0.5; B = rs.randn(d,d,d)*0.3; c = rs.randn(d)*0.2; Gm = rs.randn(d,d)*0.7
def mkF(kind):
  if kind=='nonlinear': return lambda u: A@u + jnp.einsum('ijk,j,k->i',B,u,u) + c + 0.1*jnp.sin(u)
  if kind=='linear': return lambda u: A@u + c
  if kind=='zero': return lambda u: 0*u
def taylor_coeffs(fun, order):
  out=[fun(0.0)]; f=fun
  for k in range(1,order+1):
    f = jax.jacfwd(f)
    out.append(f(0.0)/math.factorial(k))
  return out
def exact_coeffs(rhs, u0, order):
  # derivatives of solution: u^(k+1) = d/dt (u^(k)) using Lie derivative: g_{k+1}(u) = Dg_k(u) rhs(u)
  g = rhs; out=[u0, rhs(u0)]
  for k in range(2, order+1):
    g = (lambda g_: (lambda u: jax.jvp(g_, (u,), (rhs(u),))[1]))(g)
    out.append(g(u0)/math.factorial(k))
  return out
u0 = rs.randn(d)
t=time.time()
for Fk in ('nonlinear','linear','zero'):
  for Gk in ('G','0'):
    G = Gm if Gk=='G' else 0*Gm
    F = mkF(Fk)
    eq = ti.ImplicitExplicitODE.from_functions(F, lambda u: G@u, lambda u,s: jnp.linalg.solve(jnp.eye(d)-s*G, u))
    ex = exact_coeffs(lambda u: F(u)+G@u, u0, 5)
    row=[]
    for name, mk in [('bfe',ti.backward_forward_euler),('cnrk2',ti.crank_nicolson_rk2),('cnrk3',ti.crank_nicolson_rk3),('cnrk4',ti.crank_nicolson_rk4),('sil3',ti.imex_rk_sil3)]:
      num = taylor_coeffs(lambda h: mk(eq, h)(u0), 5)
      errs = [float(np.abs(np.asarray(a)-np.asarray(b)).max()) for a,b in zip(num, ex)]
      order = next((k-1 for k,e in enumerate(errs) if e>1e-9), 5)
      row.append((name, order))
    print(Fk, Gk, row)
print('t',time.time()-t)
