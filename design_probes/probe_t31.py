import jax; jax.config.update('jax_enable_x64', True)
import numpy as np, jax.numpy as jnp, itertools
from dinosaur import time_integration as ti
step = lambda s: {'a': 0.9*s['a'] + jnp.sin(s['b']).sum()*0.1, 'b': s['b']*1.01 + 0.1*s['a'].mean(), 't': s['t']+1}
s0 = {'a': jnp.arange(3.0), 'b': jnp.ones((2,2)), 't': jnp.asarray(0.0)}
def loop(s,n):
  out=[s]
  for _ in range(n): s=step(s); out.append(s)
  return out
bad=0
for outer,inner,swi in itertools.product(range(0,5), range(1,5), (False,True)):
  try:
    final, traj = ti.trajectory_from_step(step, outer, inner, start_with_input=swi)(s0)
  except Exception as e:
    print(outer,inner,swi,'EXC',type(e).__name__, str(e)[:100]); continue
  ref = loop(s0, outer*inner)
  exp_frames = [ref[k*inner] if swi else ref[(k+1)*inner] for k in range(outer)]
  ok = all(np.allclose(final[k], ref[-1][k]) for k in final)
  for k in range(outer):
    ok &= all(np.allclose(traj[key][k], exp_frames[k][key]) for key in final)
  if not ok: bad+=1; print('MISMATCH', outer, inner, swi)
print('bad', bad)
# repeated(steps=0)?
for n in (0,1,2,5):
  try:
    r = ti.repeated(step, n)(s0); print('repeated',n, np.allclose(r['a'], loop(s0,n)[-1]['a']))
  except Exception as e: print('repeated',n,'EXC',type(e).__name__)
# nested scan grads
def f(c, x): 
  c2 = jnp.tanh(c*x['u'] + x['v'].sum()); return c2, {'y': c2*2, 'z': x['u']}
xs = {'u': jnp.linspace(0.5,1.5,12), 'v': jnp.ones((12,2))*0.1}
def run(nl): 
  def g(c0, xs):
    c, out = ti.nested_checkpoint_scan(f, c0, xs, nested_lengths=nl); return c + out['y'].sum(), (c,out)
  return g
ref_val, ref_aux = run([12])(0.3, xs); ref_g = jax.grad(lambda c0,xs: run([12])(c0,xs)[0], argnums=(0,1))(0.3,xs)
for nl in ([12],[3,4],[4,3],[2,2,3],[12,1],[1,12],[2,3,2],[1,1,12]):
  val, aux = run(nl)(0.3,xs); g = jax.grad(lambda c0,xs: run(nl)(c0,xs)[0], argnums=(0,1))(0.3,xs)
  d = max(float(np.abs(np.asarray(a)-np.asarray(b)).max()) for a,b in zip(jax.tree_util.tree_leaves((val,aux,g)), jax.tree_util.tree_leaves((ref_val,ref_aux,ref_g))))
  print(nl, d)
