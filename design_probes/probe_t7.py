import numpy as np
from dinosaur import primitive_equations as pe, scales
ps = pe.PrimitiveEquationsSpecs.from_si()
n=200000
td = np.arange(n).astype('timedelta64[s]')
nd = ps.nondimensionalize_timedelta64(td)
back = ps.dimensionalize_timedelta64(nd)
bad = np.nonzero(back!=td)[0]
print(len(bad)/n, bad[:20])
# scalar path
cnt=0
for s in range(0,2000):
  t=np.timedelta64(s,'s'); b=ps.dimensionalize_timedelta64(ps.nondimensionalize_timedelta64(t))
  cnt+= (b!=t)
print('scalar bad', cnt)
raw = ps.scale.dimensionalize(nd, scales.units('s')).m
print('max abs err', np.abs(raw-np.arange(n)).max(), 'rel', (np.abs(raw-np.arange(n))[1:]/np.arange(n)[1:]).max())
big = np.array([10**9+7, 3*10**9+1, 10**10+3]).astype('timedelta64[s]')
rawb = ps.scale.dimensionalize(ps.nondimensionalize_timedelta64(big), scales.units('s')).m
print(rawb - big.astype(int))
