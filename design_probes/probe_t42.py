from common import *
from dinosaur import sigma_coordinates as sc, vertical_interpolation as vi, pytree_utils as pu
import functools, traceback
rs=np.random.RandomState(81)
def attempt(name, fn):
  try:
    r = fn(); print(name, 'OK', r if r is not None else '')
  except Exception as e:
    print(name, 'EXC', type(e).__name__, str(e)[:150])
# (f) edge grids
for impl in (sh.RealSphericalHarmonics, sh.FastSphericalHarmonics):
  for (M,L,NL,N) in [(1,1,1,1),(1,2,1,2),(1,2,2,3),(2,2,3,2),(2,3,4,3),(1,5,1,5),(3,3,5,3)]:
    def f():
      g = sh.Grid(longitude_wavenumbers=M,total_wavenumbers=L,longitude_nodes=NL,latitude_nodes=N,spherical_harmonics_impl=impl)
      x = rand_modal(rs,g,(2,),lmax=L-1)
      y = np.asarray(g.to_modal(g.to_nodal(x)))
      d = np.asarray(g.d_dlon(x)); c=np.asarray(g.cos_lat_d_dlat(x)); cl=np.asarray(g.clip_wavenumbers(x)); il=np.asarray(g.inverse_laplacian(x))
      return (g.modal_shape, g.nodal_shape, float(np.abs(y-x).max()))
    attempt(f'{impl.__name__[:4]} grid {(M,L,NL,N)}', f)
# (e) one/two layer vertical calculus
for n in (1,2):
  c = sc.SigmaCoordinates.equidistant(n)
  x = rs.randn(n,2,3); w = rs.randn(n-1,2,3)
  attempt(f'n={n} centered_difference', lambda: np.asarray(sc.centered_difference(x,c)).shape)
  attempt(f'n={n} centered_vertical_advection', lambda: np.asarray(sc.centered_vertical_advection(w,x,c)).shape)
  attempt(f'n={n} upwind', lambda: np.asarray(sc.upwind_vertical_advection(w,x,c)).shape)
  attempt(f'n={n} cumulative_sigma_integral', lambda: np.asarray(sc.cumulative_sigma_integral(x,c)).shape)
  attempt(f'n={n} cumulative_log_sigma_integral', lambda: np.asarray(sc.cumulative_log_sigma_integral(x,c)).shape)
  attempt(f'n={n} geopotential sparse', lambda: float(np.abs(np.asarray(pe.get_geopotential_diff(x,c,287.,method="sparse"))-np.asarray(pe.get_geopotential_diff(x,c,287.,method="dense"))).max()))
  attempt(f'n={n} temp implicit sparse', lambda: float(np.abs(np.asarray(pe.get_temperature_implicit(x,c,np.full(n,250.),0.28,method="sparse"))-np.asarray(pe.get_temperature_implicit(x,c,np.full(n,250.),0.28,method="dense"))).max()))
  # (h) PE with n layers: explicit terms + implicit inverse
  def f():
    grid = sh.Grid.with_wavenumbers(5); coords=cs.CoordinateSystem(grid,c); specs=pe.PrimitiveEquationsSpecs.from_si()
    eq = pe.PrimitiveEquations(np.full(n,250.), np.zeros(grid.modal_shape), coords, specs)
    s = make_state(rs, coords)
    e = eq.explicit_terms(s); i = eq.implicit_terms(s)
    out={}
    for m in ('split','stacked','blockwise'):
      r = eq.implicit_inverse(jax.tree_util.tree_map(lambda a,b: a-0.1*b, s, i), 0.1, method=m)
      out[m]=max(float(np.abs(np.asarray(a)-np.asarray(b)).max()) for a,b in zip(jax.tree_util.tree_leaves(r), jax.tree_util.tree_leaves(s)))
    return out
  attempt(f'n={n} PE explicit/implicit/inverse', f)
# (a) pressure<->sigma round trip on affine columns
def f():
  pc = vi.PressureCoordinates(np.array([50.,100,200,300,500,700,850,925,1000])); sg = sc.SigmaCoordinates(np.array([0,0.2,0.45,0.7,0.9,1.0]))
  sp = rs.uniform(950,1040,size=(1,3,2))
  field = (0.3*pc.centers+7)[:,None,None]*np.ones((1,3,2))
  onsig = vi.interp_pressure_to_sigma({'t': field}, pc, sg, sp)['t']
  expect = 0.3*(sg.centers[:,None,None]*sp)+7
  back = vi.interp_sigma_to_pressure({'t': onsig}, pc, sg, sp)['t']
  return float(np.nanmax(np.abs(np.asarray(onsig)-expect))), int(np.isnan(np.asarray(onsig)).sum()), float(np.nanmax(np.abs(np.asarray(back)-field))), int(np.isnan(np.asarray(back)).sum())
attempt('pressure->sigma->pressure affine', f)
def f():
  pc = vi.PressureCoordinates(np.array([100.,300,500,700,850,1000]))
  # geopotential affine in p: phi = a - b p ; orography: g*h; surface pressure where phi == g h
  a_, b_ = 9000., 9.0; g_=9.8
  geo = (a_ - b_*pc.centers)[:,None,None]*np.ones((1,4,3))
  oro = rs.uniform(-50, 400, size=(1,4,3))
  spres = np.asarray(vi.get_surface_pressure(pc, geo, oro, g_))
  expect = (a_ - g_*oro)/b_
  return float(np.abs(spres-expect).max()), spres.shape
attempt('get_surface_pressure affine', f)
# (b) pytree utils
def f():
  tree = {'a': rs.randn(2,3,4), 'b': {'c': rs.randn(5,3,4), 'd': rs.randn(1,3,4)}}
  packed = pu.pack_pytree(tree); un = pu.unpack_to_pytree(packed, pu.shape_structure(tree))
  ok1 = all(np.array_equal(x,y) for x,y in zip(jax.tree_util.tree_leaves(tree), jax.tree_util.tree_leaves(un)))
  t2 = {'a': rs.randn(3,4), 'b': (rs.randn(3,4), rs.randn(3,4))}
  st_ = pu.stack_pytree(t2, axis=1); un2 = pu.unstack_to_pytree(st_, pu.shape_structure(t2), axis=1)
  ok2 = all(np.array_equal(x,y) for x,y in zip(jax.tree_util.tree_leaves(t2), jax.tree_util.tree_leaves(un2)))
  a,b = pu.split_along_axis(tree, 2, axis=1); cat = pu.concat_along_axis([a,b], axis=1)
  ok3 = all(np.array_equal(x,y) for x,y in zip(jax.tree_util.tree_leaves(tree), jax.tree_util.tree_leaves(cat)))
  parts = pu.split_axis(t2, axis=0, keep_dims=True); cat2 = pu.concat_along_axis(parts, axis=0)
  ok4 = all(np.array_equal(x,y) for x,y in zip(jax.tree_util.tree_leaves(t2), jax.tree_util.tree_leaves(cat2)))
  return ok1, ok2, ok3, ok4, pu.pack_pytree({}), pu.stack_pytree({'a': {}})
attempt('pytree utils', f)
