import numpy as np, math
from numpy.polynomial import legendre as npl
from dinosaur import associated_legendre as al, spherical_harmonic as sh
import jax; jax.config.update('jax_enable_x64', True)

def oracle_plm(l, m, mu):
  """normalised P_l^m with sign (-1)^m, and (1-mu^2) d/dmu of it. unit L2[-1,1]."""
  c = np.zeros(l+1); c[l]=1
  Q = npl.Legendre(c).deriv(m) if m>0 else npl.Legendre(c)
  Qp = Q.deriv(1)
  s = (1-mu**2)
  # log-normalisation
  lognorm = 0.5*(math.log((2*l+1)/2) + math.lgamma(l-m+1) - math.lgamma(l+m+1))
  norm = math.exp(lognorm)*(-1)**m
  val = norm * s**(m/2) * Q(mu)
  dval = norm * s**(m/2) * (-m*mu*Q(mu) + s*Qp(mu))   # (1-mu^2) d/dmu
  return val, dval

for L in (8, 24, 48):
  x,w = al.gauss_legendre_nodes(2*L+4)
  p = al.evaluate(n_m=L,n_l=L,x=x)
  err=0; 
  for m in range(L):
    for l in range(m,L):
      v,_ = oracle_plm(l,m,x)
      err=max(err, np.abs(v-p[m,:,l]).max())
  print(L,'basis oracle vs code', err)

# derivative matrices vs oracle for a grid
M,L=10,12
g = sh.Grid(longitude_wavenumbers=M,total_wavenumbers=L,longitude_nodes=2*M+3,latitude_nodes=L+3,radius=3.0)
xq,wq = al.gauss_legendre_nodes(2*L+4)
e = np.eye(np.prod(g.modal_shape)).reshape((-1,)+g.modal_shape)
A = np.asarray(g.cos_lat_d_dlat(e))   # [in, m, l]
B = np.asarray(g.sec_lat_d_dlat_cos2(e))
ms, ls = g.modal_axes
errA=errB=0
for im, m in enumerate(ms):
  am=abs(m)
  for l in range(am, L):
    vin, dvin = oracle_plm(l,am,xq)
    idx = im*L + l
    for lp in range(am, L-1):   # below top wavenumber
      vout,_ = oracle_plm(lp,am,xq)
      # cos d/dtheta Y = (1-mu^2) dP/dmu
      ref = (wq*vout*dvin).sum()
      errA=max(errA, abs(A[idx,im,lp]-ref))
      # sec d/dtheta (cos^2 Y) = d/dmu((1-mu^2)P) = -2 mu P + (1-mu^2)P'
      ref2 = (wq*vout*(-2*xq*vin+dvin)).sum()
      errB=max(errB, abs(B[idx,im,lp]-ref2))
print('cos_lat_d_dlat err',errA,'sec_lat_d_dlat_cos2 err',errB)
