import jax; jax.config.update('jax_enable_x64', True)
import numpy as np
from dinosaur import horizontal_interpolation as hi
def brute(src, tgt):
  # cells by periodic midpoints; overlap lengths via fine sampling-free exact interval arithmetic on unrolled circle
  P=2*np.pi
  def bounds(x):
    x = x%P; n=len(x)
    up = x + ((np.roll(x,-1)-x)%P)/2; lo = x - ((x-np.roll(x,1))%P)/2
    return lo, up
  sl, su = bounds(src); tl, tu = bounds(tgt)
  W = np.zeros((len(tgt), len(src)))
  for i in range(len(tgt)):
    for j in range(len(src)):
      tot=0
      for k in (-2,-1,0,1,2):
        tot += max(0, min(tu[i], su[j]+k*P) - max(tl[i], sl[j]+k*P))
      W[i,j]=tot
  return W/W.sum(1,keepdims=True), W
rs=np.random.RandomState(0)
nbad=0
for trial in range(3000):
  ns, nt = rs.randint(1,9), rs.randint(1,9)
  src = np.linspace(0,2*np.pi,ns,endpoint=False)+rs.choice([0, rs.uniform(-7,7)])
  tgt = np.linspace(0,2*np.pi,nt,endpoint=False)+rs.choice([0, rs.uniform(-7,7)])
  try:
    w = np.asarray(hi.conservative_longitude_weights(src,tgt))
  except Exception as e:
    print('exc', ns, nt, e); continue
  ref,_ = brute(src,tgt)
  if not np.allclose(w, ref, atol=1e-10, equal_nan=False):
    nbad+=1
    if nbad<12: print('mismatch ns',ns,'nt',nt, 'src0', round(src[0],3),'tgt0', round(tgt[0],3), 'maxdiff', np.nanmax(abs(w-ref)), 'nan', np.isnan(w).any())
print('nbad', nbad)
print('---- by (ns,nt) with both >=3')
from collections import Counter
c=Counter(); tot=Counter()
for trial in range(6000):
  ns, nt = rs.randint(3,12), rs.randint(3,12)
  src = np.linspace(0,2*np.pi,ns,endpoint=False)+rs.choice([0, rs.uniform(-7,7)])
  tgt = np.linspace(0,2*np.pi,nt,endpoint=False)+rs.choice([0, rs.uniform(-7,7)])
  w = np.asarray(hi.conservative_longitude_weights(src,tgt)); ref,_=brute(src,tgt)
  tot[(min(ns,nt))]+=1
  if not np.allclose(w,ref,atol=1e-10): c[(ns,nt)]+=1
print(sorted(c.items()))
