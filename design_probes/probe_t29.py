from common import *
from dinosaur import filtering
rs=np.random.RandomState(0)
g = sh.Grid.with_wavenumbers(10, spherical_harmonics_impl=sh.FastSphericalHarmonics)
x = rs.randn(3,4,*g.modal_shape)
att = rs.uniform(0.5,20,size=(3,1,1,1))
out = np.asarray(filtering.exponential_filter(g, attenuation=att, order=3, cutoff=0.2)(x))
print(max(float(np.abs(out[i]-np.asarray(filtering.exponential_filter(g, attenuation=float(att[i,0,0,0]), order=3, cutoff=0.2)(x[i]))).max()) for i in range(3)))
sc_ = rs.uniform(0.001,0.1,size=(3,1,1,1))
out = np.asarray(filtering.horizontal_diffusion_filter(g, scale=sc_, order=2)(x))
print(max(float(np.abs(out[i]-np.asarray(filtering.horizontal_diffusion_filter(g, scale=float(sc_[i,0,0,0]), order=2)(x[i]))).max()) for i in range(3)))
# mixed pytree
tree = {'a': x, 't': 3.0, 'v': rs.randn(5), 'w': rs.randn(g.modal_shape[1]), 'z': rs.randn(2, g.modal_shape[1])}
f = filtering.exponential_filter(g, 16, 2)
o = f(tree)
for k in tree: print(k, np.shape(tree[k]), 'changed', not np.array_equal(np.asarray(o[k]), np.asarray(tree[k])))
