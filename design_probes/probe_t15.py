import jax; jax.config.update('jax_enable_x64', True)
import numpy as np, jax.numpy as jnp
from dinosaur import vertical_interpolation as vi
rs = np.random.RandomState(0)
bad=0
for trial in range(300):
  n = rs.randint(2,9)
  xp = np.cumsum(rs.uniform(0.05,1,size=n)); fp = rs.randn(n)
  xs = np.concatenate([xp, (xp[1:]+xp[:-1])/2, [xp[0]-1, xp[-1]+2, xp[0]-1e-9, xp[-1]+1e-9], rs.uniform(xp[0]-1,xp[-1]+1,5)])
  for x in xs:
    a = float(vi._dot_interp(x, xp, fp)); b=float(np.interp(x,xp,fp)); c=float(vi.interp(x,xp,fp))
    if abs(a-b)>1e-12 or abs(c-b)>1e-12: bad+=1; print('dot mismatch', n, x, a, b, c)
    d = float(vi.linear_interp_with_linear_extrap(x,xp,fp))
    # reference linear extrap
    if x<xp[0]: ref = fp[0]+(fp[1]-fp[0])/(xp[1]-xp[0])*(x-xp[0])
    elif x>xp[-1]: ref = fp[-1]+(fp[-1]-fp[-2])/(xp[-1]-xp[-2])*(x-xp[-1])
    else: ref=b
    if abs(d-ref)>1e-10*(1+abs(ref)): bad+=1; print('linextrap mismatch', n,x,d,ref)
    for k in (1,2):
      e = float(vi._linear_interp_with_safe_extrap(x,xp,fp,n=k))
      lo = xp[0]-k*(xp[1]-xp[0]); hi = xp[-1]+k*(xp[-1]-xp[-2])
      if x<lo or x>hi:
        if not np.isnan(e): bad+=1; print('safe extrap expected nan', k, x, e)
      else:
        if not abs(e-ref)<1e-10*(1+abs(ref)): bad+=1; print('safe extrap mismatch',k,n,x,e,ref, lo, hi)
print('bad',bad)
