import jax; jax.config.update('jax_enable_x64', True)
import numpy as np, jax.numpy as jnp
from dinosaur import radiation as rad, spherical_harmonic as sh
rs=np.random.RandomState(0)
for spacing in ('gauss','equiangular','equiangular_with_poles'):
  for M in (4,8,16,32,64):
    g = sh.Grid.with_wavenumbers(M, latitude_spacing=spacing)
    lon, sl = g.nodal_mesh; lat=np.arcsin(sl)
    worst=0
    for t in range(40):
      ot = rad.OrbitalTime(rs.uniform(0,2*np.pi), rs.uniform(0,2*np.pi))
      fl = rad.get_radiation_flux(ot, lon, lat, 1361.0, 47.0)
      S = rad.get_direct_solar_irradiance(ot.orbital_phase, 1361.0, 47.0)
      mean = float(g.integrate(fl))/(4*np.pi)
      worst=max(worst, abs(mean/(S/4)-1))
    print(spacing, M, g.nodal_shape, 'worst rel err', worst)
