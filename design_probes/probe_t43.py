import os
os.environ['XLA_FLAGS']='--xla_force_host_platform_device_count=8'
from common import *
from dinosaur import filtering
rs=np.random.RandomState(0)
g = sh.Grid.with_wavenumbers(8)
for order in (2, 1.25):
  f = filtering.exponential_filter(g, 16, order, cutoff=0.5)
  print('order', order, 'nan count', int(np.isnan(np.asarray(f(np.ones(g.modal_shape)))).sum()))
g2 = sh.Grid.with_wavenumbers(8, longitude_offset=0.37)
x = rand_modal(rs,g,(2,))
print('offset invariance', float(np.abs(np.asarray(g.to_nodal(x))-np.asarray(g2.to_nodal(x))).max()), g2.longitudes[:2])
d = np.array(jax.devices()[:4]).reshape((1,2,2)); mesh = jax.sharding.Mesh(d,['z','x','y'])
c = cs.CoordinateSystem(sh.Grid.with_wavenumbers(8, spherical_harmonics_impl=sh.FastSphericalHarmonics), rand_sigma(rs,4), spmd_mesh=mesh)
gm = c.horizontal
tree = {'a': rs.randn(4,*gm.modal_shape), 'b': rs.randn(1,*gm.nodal_shape), 'c': rs.randn(*gm.modal_shape), 't': 1.5, 'key': jax.random.PRNGKey(0)}
out = jax.jit(c.with_dycore_sharding)(tree)
print('identity', all(np.array_equal(np.asarray(a),np.asarray(b)) for a,b in zip(jax.tree_util.tree_leaves(tree), jax.tree_util.tree_leaves(out))))
out = jax.jit(c.dycore_to_physics_sharding)(tree); print('identity2', all(np.array_equal(np.asarray(a),np.asarray(b)) for a,b in zip(jax.tree_util.tree_leaves(tree), jax.tree_util.tree_leaves(out))))
try:
  jax.jit(c.with_dycore_sharding)({'bad': rs.randn(2,4,*gm.modal_shape)}); print('4D accepted')
except ValueError as e: print('4D ValueError', str(e)[:80])
