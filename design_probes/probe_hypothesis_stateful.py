import os, json, hypothesis
from hypothesis import settings, strategies as st, seed, HealthCheck
from hypothesis.stateful import RuleBasedStateMachine, rule, invariant, precondition, run_state_machine_as_test, initialize
SEED=int(os.environ.get('VERIF_SEED','1'))
LOG=[]
class M(RuleBasedStateMachine):
  def __init__(self):
    super().__init__(); self.hist=[]; self.t=0.0; self.n=0
  @initialize(dt=st.sampled_from([0.1,0.25]))
  def init(self, dt): self.dt=dt; self.hist.append(['init',dt])
  @rule(k=st.integers(1,3))
  def step(self,k):
    for _ in range(k): self.t+=self.dt; self.n+=1
    self.hist.append(['step',k])
  @rule()
  def filt(self):
    self.hist.append(['filter'])
    if self.n>=4: self.t+=1e-3   # injected bug: filter touches time after 4 steps
  @invariant()
  def time_ok(self):
    if hasattr(self,'dt') and abs(self.t-self.n*self.dt)>1e-9:
      LOG.append(list(self.hist)); raise AssertionError('sim_time drift')
def run():
  LOG.clear()
  try:
    run_state_machine_as_test(seed(SEED)(M), settings=settings(max_examples=100, stateful_step_count=12, database=None, deadline=None, suppress_health_check=list(HealthCheck), print_blob=False, report_multiple_bugs=False))
    return 'pass', None
  except AssertionError:
    return 'fail', LOG[-1]
print(run()); print(run()==run())
