import os, time, json, hypothesis
from hypothesis import given, settings, strategies as st, seed, HealthCheck, Phase
from hypothesis import errors as herr
SEED = int(os.environ.get('VERIF_SEED','1'))
case_st = st.fixed_dictionaries({'n': st.integers(1,50), 'xs': st.lists(st.tuples(st.integers(0,5), st.floats(-1,1,allow_nan=False)), max_size=8), 'noise_amp': st.floats(0,1), 'noise_seed': st.integers(0,2**31-1)})
def run(case):
  # fails when n>=7 and some x entry has first index 3 and |amp|>0.1
  return not (case['n']>=7 and any(i==3 and abs(a)>0.1 for i,a in case['xs']))
def drive(budget_s, max_examples=300):
  rec = {'fails': [], 'n': 0, 't0': None, 'exhausted': False}
  @seed(SEED)
  @settings(max_examples=max_examples, database=None, deadline=None, derandomize=False, report_multiple_bugs=False, suppress_health_check=list(HealthCheck), print_blob=False)
  @given(case_st)
  def test(case):
    rec['n']+=1
    if rec['t0'] is not None and time.time()-rec['t0']>budget_s:
      rec['exhausted']=True
      return   # stop failing: shrinker gives up
    ok = run(case)
    if not ok:
      if rec['t0'] is None: rec['t0']=time.time()
      rec['fails'].append(case)
      raise AssertionError('violation')
  try:
    test(); outcome='pass'
  except AssertionError: outcome='fail'
  except (herr.Flaky, herr.FlakyFailure) as e: outcome='flaky:'+type(e).__name__
  except BaseException as e: outcome='other:'+type(e).__name__
  best = min(rec['fails'], key=lambda c: len(json.dumps(c))) if rec['fails'] else None
  return outcome, rec['n'], len(rec['fails']), rec['fails'][-1] if rec['fails'] else None, best, rec['exhausted']
for b in (30, 0.0):
  print('budget', b, drive(b))
# determinism
a = drive(30); b2 = drive(30); print('deterministic', a==b2)
