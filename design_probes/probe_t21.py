import jax; jax.config.update('jax_enable_x64', True)
import numpy as np, jax.numpy as jnp
from dinosaur import time_integration as ti
rs = np.random.RandomState(0)
mag = 10**rs.uniform(-3,6,20000); ang = rs.uniform(np.pi/2, 3*np.pi/2, 20000)
ang[:2000]=np.pi/2; ang[2000:4000]=3*np.pi/2; ang[4000:6000]=np.pi
z = mag*np.exp(1j*ang)
z = np.where(z.real>0, 1j*z.imag, z)
def amp(mk, z):
  eq = ti.ImplicitExplicitODE.from_functions(lambda x: 0*x, lambda x: z*x, lambda x,s: x/(1-s*z))
  return np.asarray(mk(eq, 1.0)(jnp.ones_like(z)))
for name, mk in [('bfe',ti.backward_forward_euler),('cnrk2',ti.crank_nicolson_rk2),('cnrk3',ti.crank_nicolson_rk3),('cnrk4',ti.crank_nicolson_rk4),('sil3',ti.imex_rk_sil3)]:
  r = np.abs(amp(mk, z)); print(name, 'max |R|-1', r.max()-1, 'at', z[r.argmax()])
for alpha in (0.5,0.6,1.0):
  eq = ti.ImplicitExplicitODE.from_functions(lambda x: 0*x, lambda x: z*x, lambda x,s: x/(1-s*z))
  step = ti.semi_implicit_leapfrog(eq, 1.0, alpha)
  # companion matrix columns
  c1 = step((jnp.ones_like(z), jnp.zeros_like(z)))  # prev=1,cur=0 -> (cur, future)
  c2 = step((jnp.zeros_like(z), jnp.ones_like(z)))
  Mx = np.stack([np.stack([np.asarray(c1[0]), np.asarray(c2[0])],-1), np.stack([np.asarray(c1[1]), np.asarray(c2[1])],-1)],-2)
  ev = np.abs(np.linalg.eigvals(Mx)).max(-1)
  print('leapfrog alpha',alpha,'max spectral radius-1', ev.max()-1)
