import numpy as np, scipy.special as sps
class Oracle:
  """Independent real SH basis + gradients on a fine Gauss grid."""
  def __init__(self, L, nlat, nlon):
    self.L=L
    mu, w = np.polynomial.legendre.leggauss(nlat)
    self.mu, self.wlat = mu, w
    self.lam = np.arange(nlon)*2*np.pi/nlon; self.wlon = 2*np.pi/nlon
    n = np.arange(L)[:,None,None]; m=np.arange(L)[None,:,None]
    out = sps.assoc_legendre_p(n, m, mu[None,None,:], norm=True, diff_n=1)
    self.P = np.where(m<=n, out[0], 0); self.dP = np.where(m<=n, out[1], 0)
    self.cos = np.sqrt(1-mu**2)
    self._cache={}
  def Y(self, m, l):
    key=(m,l)
    if key in self._cache: return self._cache[key]
    am=abs(m); P=self.P[l,am]; dP=self.dP[l,am]
    if m==0: f=np.full_like(self.lam,1/np.sqrt(2*np.pi)); df=0*self.lam
    elif m>0: f=np.cos(am*self.lam)/np.sqrt(np.pi); df=-am*np.sin(am*self.lam)/np.sqrt(np.pi)
    else: f=np.sin(am*self.lam)/np.sqrt(np.pi); df=am*np.cos(am*self.lam)/np.sqrt(np.pi)
    r = (f[:,None]*P[None,:], df[:,None]*P[None,:], f[:,None]*((1-self.mu**2)*dP)[None,:])
    self._cache[key]=r; return r
  def integrate(self, z): return (z*self.wlat[None,:]).sum()*self.wlon
  def synth(self, coef, ms, L):
    v=0;dl=0;dt=0
    for im,m in enumerate(ms):
      for l in range(abs(int(m)), L):
        c = coef[im,l]
        if c==0: continue
        y,yl,yt = self.Y(int(m),l); v=v+c*y; dl=dl+c*yl; dt=dt+c*yt
    z = np.zeros((len(self.lam), len(self.mu)))
    return v+z, dl+z, dt+z
