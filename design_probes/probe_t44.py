import jax, numpy as np, jax.numpy as jnp
from dinosaur import spherical_harmonic as sh, filtering
rs=np.random.RandomState(0)
for name, g in [('T21', sh.Grid.T21()), ('T42 fast', sh.Grid.T42(spherical_harmonics_impl=sh.FastSphericalHarmonics)), ('TL63', sh.Grid.TL63()), ('eq M=16', sh.Grid(longitude_wavenumbers=16,total_wavenumbers=17,longitude_nodes=50,latitude_nodes=36,latitude_spacing='equiangular'))]:
  L=g.total_wavenumbers
  D = 2*g.latitude_nodes-1 if g.latitude_spacing=='gauss' else (g.latitude_nodes-1 if g.latitude_nodes%2==0 else g.latitude_nodes)
  lmax = min(L-2, D-(L-1))
  m,l = g.modal_mesh
  x = (rs.standard_normal((3,)+g.modal_shape)*g.mask*(l<=lmax)).astype(np.float32)
  y = np.asarray(g.to_modal(g.to_nodal(x)))
  vor = x.copy(); vor[:,0,0]=0; vor = vor*(l<=min(lmax, (D+2)//2-2))
  u,v = sh.vor_div_to_uv_nodal(g, vor, 0*vor, clip=False); v2,d2 = sh.uv_nodal_to_vor_div_modal(g,u,v)
  print(name, y.dtype, 'roundtrip err', float(np.abs(y-x).max()), 'uv rt err', float(np.abs(np.asarray(v2)-vor).max()), 'scale', float(np.abs(x).max()), 'lmax', lmax)
