from common import *
from dinosaur import held_suarez, shallow_water as sw, layer_coordinates as lc, vertical_interpolation as vi, filtering
rs = np.random.RandomState(51)
def dot(a,b): return sum(float(np.vdot(np.asarray(x),np.asarray(y))) for x,y in zip(jax.tree_util.tree_leaves(a), jax.tree_util.tree_leaves(b)))
def check(name, f, x, v, w_like=None, eps=1e-6):
  y, jv = jax.jvp(f, (x,), (v,))
  y2, vjp = jax.vjp(f, x)
  w = jax.tree_util.tree_map(lambda a: np.asarray(rs.standard_normal(np.shape(a))), y)
  (wt,) = vjp(w)
  lhs, rhs = dot(jv,w), dot(v,wt)
  xp = jax.tree_util.tree_map(lambda a,b: a+eps*b, x, v); xm = jax.tree_util.tree_map(lambda a,b: a-eps*b, x, v)
  fd = jax.tree_util.tree_map(lambda a,b: (np.asarray(a)-np.asarray(b))/(2*eps), f(xp), f(xm))
  err = max(float(np.abs(np.asarray(a)-np.asarray(b)).max()) for a,b in zip(jax.tree_util.tree_leaves(fd), jax.tree_util.tree_leaves(jv)))
  sc_ = max(float(np.abs(np.asarray(a)).max()) for a in jax.tree_util.tree_leaves(jv))
  fin = all(np.isfinite(np.asarray(a)).all() for a in jax.tree_util.tree_leaves((jv,wt)))
  print(f'{name:28s} finite={fin} adjoint rel={abs(lhs-rhs)/max(abs(lhs),1e-300):.1e} fd err={err:.2e} scale={sc_:.2e}')
M=6; n=4
specs = pe.PrimitiveEquationsSpecs.from_si()
grid = sh.Grid.with_wavenumbers(M); vert = rand_sigma(rs,n); coords=cs.CoordinateSystem(grid,vert)
Tref = 250+40*rs.rand(n)
p0 = specs.nondimensionalize(1e5*units.pascal)
def mk(with_time=False, tracers=()):
  s = make_state(rs, coords, tracers=tracers, with_time=with_time)
  l = np.array(s.log_surface_pressure); l[0,0,0] = np.log(p0)*np.sqrt(4*np.pi)
  return s.replace(log_surface_pressure=l)
hs = held_suarez.HeldSuarezForcing(coords, specs, Tref)
s = mk(); v = make_state(rs, coords); 
check('HS explicit_terms', hs.explicit_terms, s, v)
eq = pe.PrimitiveEquations(Tref, rand_modal(rs,grid,(),amp=0.01), coords, specs)
comp = ti.compose_equations([eq, hs])
dt=0.01
check('PE+HS sil3 step+filters', jax.jit(ti.step_with_filters(ti.imex_rk_sil3(comp, dt), [ti.exponential_step_filter(grid, dt), ti.horizontal_diffusion_step_filter(grid, dt, tau=0.1, order=2)])), s, v)
check('semi-lagrangian vert step', lambda st: pe.semi_lagrangian_vertical_advection_step(st, coords, dt), s, v)
equp = pe.PrimitiveEquations(Tref, rand_modal(rs,grid,(),amp=0.01), coords, specs, vertical_advection=__import__('dinosaur.sigma_coordinates',fromlist=['x']).upwind_vertical_advection)
check('upwind explicit_terms', equp.explicit_terms, s, v)
sm = mk(True, ('specific_humidity',)); vm = make_state(rs, coords, tracers=('specific_humidity',), with_time=True)
eqm = pe.MoistPrimitiveEquations(Tref, rand_modal(rs,grid,(),amp=0.01), coords, specs)
check('moist cnrk3 step', jax.jit(ti.crank_nicolson_rk3(eqm, dt)), sm, vm)
# trajectory with nested checkpoint scan
import functools
step = ti.crank_nicolson_rk2(eq, dt)
traj = ti.trajectory_from_step(step, 2, 3, outer_scan_fn=functools.partial(ti.nested_checkpoint_scan, nested_lengths=[2]), inner_scan_fn=functools.partial(ti.nested_checkpoint_scan, nested_lengths=[3,1]))
check('trajectory 2x3 nested ckpt', jax.jit(lambda st: traj(st)[1]), s, v)
# shallow water leapfrog
swc = cs.CoordinateSystem(grid, lc.LayerCoordinates(2))
swspecs = sw.ShallowWaterSpecs.from_si(np.array([0.9,1.0])*scales.WATER_DENSITY)
def swstate(): return sw.State(rand_modal(rs,grid,(2,),amp=1e-2,zero_mean=True), rand_modal(rs,grid,(2,),amp=1e-2,zero_mean=True), rand_modal(rs,grid,(2,),amp=1e-2))
stepsw = sw.shallow_water_leapfrog_step(swc, dt, swspecs, np.array([0.1,0.2]), rand_modal(rs,grid,(),amp=1e-2))
stepsw = ti.step_with_filters(stepsw, sw.default_filters(grid, dt))
a,b = swstate(), swstate()
check('SW leapfrog+filters', jax.jit(stepsw), (a,b), (swstate(), swstate()))
# DFI
dfi = ti.digital_filter_initialization(eq, ti.imex_rk_sil3, [ti.exponential_step_filter(grid, dt)], time_span=6*dt, cutoff_period=6*dt, dt=dt)
check('DFI', jax.jit(dfi), s, v)
# vertical interpolation
xp = np.cumsum(rs.uniform(0.1,1,6)); fp = rs.randn(6); x = rs.uniform(xp[0], xp[-1], 5)
for nm, fn in [('interp', vi.interp), ('_dot_interp', vi._dot_interp), ('lin_extrap', vi.linear_interp_with_linear_extrap), ('safe_extrap', vi._linear_interp_with_safe_extrap)]:
  f = lambda args: jax.vmap(lambda xx: fn(xx, args['xp'], args['fp']))(args['x'])
  check('vi.'+nm, f, {'x':x,'xp':xp,'fp':fp}, {'x':rs.randn(5),'xp':0.01*rs.randn(6),'fp':rs.randn(6)}, eps=1e-7)
# at node exactly
for nm, fn in [('interp', vi.interp), ('_dot_interp', vi._dot_interp), ('lin_extrap', vi.linear_interp_with_linear_extrap)]:
  g_ = jax.grad(lambda xx, fpp: fn(xx, xp, fpp), argnums=(0,1))(xp[2], fp)
  print('  at node', nm, 'grad finite', bool(np.isfinite(g_[0])) and bool(np.isfinite(np.asarray(g_[1])).all()), float(g_[0]))
