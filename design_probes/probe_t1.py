import numpy as np
from dinosaur import associated_legendre as al, spherical_harmonic as sh
np.set_printoptions(linewidth=200)
# exactness degree of latitude quadrature: integrate P_k (m=0) for k up to 3N
for spacing in ('gauss','equiangular','equiangular_with_poles'):
  out=[]
  for n in range(2,26):
    x,w = sh.get_latitude_nodes(n, spacing)
    K=3*n
    p = al.evaluate(n_m=1,n_l=K,x=x)[0]  # [node, l]
    integ = w@p   # should be sqrt(2) delta_k0
    integ[0]-=np.sqrt(2)
    bad = np.nonzero(np.abs(integ)>1e-9)[0]
    D = bad[0]-1 if len(bad) else K
    out.append((n,int(D), float(w.min())))
  print(spacing, out)
