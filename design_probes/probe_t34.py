from common import *
from oracle import Oracle
rs = np.random.RandomState(21)
M=8; n=4; a=1.3
grid = sh.Grid.with_wavenumbers(M, radius=a); L=grid.total_wavenumbers
vert = rand_sigma(rs, n); coords = cs.CoordinateSystem(grid, vert)
specs0 = pe.PrimitiveEquationsSpecs.from_si()
specs = pe.PrimitiveEquationsSpecs(a, 0.37, 1.9, 0.8, 1.3, 2.9, 0.29, specs0.scale)
R, kappa, g, Om = specs.R, specs.kappa, specs.g, specs.angular_velocity
s_lim=3
ms, ls = grid.modal_axes
vor = rand_modal(rs, grid,(n,),lmax=s_lim,amp=0.3,zero_mean=True); div = rand_modal(rs,grid,(n,),lmax=s_lim,amp=0.2,zero_mean=True)
tv = rand_modal(rs,grid,(n,),lmax=s_lim,amp=0.4); lsp = rand_modal(rs,grid,(1,),lmax=s_lim,amp=0.1); q = rand_modal(rs,grid,(n,),lmax=s_lim,amp=0.3)
oro = rand_modal(rs,grid,(),lmax=s_lim,amp=0.2)
Tref = 1.5+0.5*rs.rand(n)
st = pe.State(vor,div,tv,lsp,tracers={'q':q})
eq = pe.PrimitiveEquations(Tref, oro, coords, specs)
e = eq.explicit_terms(st); i = eq.implicit_terms(st)
tot = jax.tree_util.tree_map(lambda x,y: np.asarray(x)+np.asarray(y), e, i)

orc = Oracle(L, 48, 72)
cosl = orc.cos[None,:]; sinl = orc.mu[None,:]
def inv_lap(c):
  lam = -ls*(ls+1)/a**2
  with np.errstate(divide='ignore'): inv=np.where(ls>0,1/lam,0)
  return c*inv
S = lambda c: orc.synth(c, ms, L)
b = vert.boundaries; dsig = np.diff(b); cen=(b[1:]+b[:-1])/2
# nodal fields
Z=[];Dv=[];U=[];V=[];T=[];Q=[]
for k in range(n):
  Z.append(S(vor[k])[0]); Dv.append(S(div[k])[0]); T.append(S(tv[k])[0]); Q.append(S(q[k])[0])
  _,pl,pt = S(inv_lap(vor[k])); _,cl,ct = S(inv_lap(div[k]))
  U.append((cl-pt)/a); V.append((ct+pl)/a)
lp, lpl, lpt = S(lsp[0]); glu, glv = lpl/a, lpt/a   # cos*grad lnps components
orov = S(oro)[0]
G = [(U[k]*glu+V[k]*glv)/cosl**2 for k in range(n)]
Dfull=[Dv[k]+G[k] for k in range(n)]
Sfull = sum(Dfull[k]*dsig[k] for k in range(n))
C=[]; acc=0
for k in range(n): acc=acc+Dfull[k]*dsig[k]; C.append(acc)
sdot = [b[k+1]*Sfull - C[k] for k in range(n-1)]   # interface k+1/2
def adv(x):  # tendency -sdot dx/dsigma at centers
  out=[]
  for k in range(n):
    t=0
    if k<n-1: t = t + sdot[k]*(x[k+1]-x[k])/(cen[k+1]-cen[k])
    if k>0: t = t + sdot[k-1]*(x[k]-x[k-1])/(cen[k]-cen[k-1])
    out.append(-0.5*t)
  return out
advU, advV = adv(U), adv(V)
Tfull = [T[k]+Tref[k] for k in range(n)]
advT = adv(Tfull); advQ = adv(Q)
alpha = np.zeros(n)
for k in range(n-1): alpha[k] = 0.5*np.log(cen[k+1]/cen[k])
alpha[n-1] = -np.log(cen[n-1])
# geopotential from T' (trapezoid in log sigma): Phi'_k = R[ alpha_k T'_k + sum_{j>k} (alpha_j+alpha_{j-1}) T'_j ]
Phi=[R*(alpha[k]*T[k] + sum((alpha[j]+alpha[j-1])*T[j] for j in range(k+1,n))) for k in range(n)]
omega_p = [G[k] - (alpha[k]*C[k] + (alpha[k-1]*C[k-1] if k>0 else 0))/dsig[k] for k in range(n)]
f = 2*Om*sinl
res = dict(vor=np.zeros_like(vor), div=np.zeros_like(vor), T=np.zeros_like(vor), q=np.zeros_like(vor), lsp=np.zeros_like(lsp))
for im,m in enumerate(ms):
  for l in range(abs(int(m)), L-1):
    y,yl,yt = orc.Y(int(m),l)
    gdot = lambda A,B: orc.integrate((yl*A+yt*B)/(a*cosl**2))
    lapl = -l*(l+1)/a**2
    res['lsp'][0,im,l] = orc.integrate(y*(-Sfull))
    for k in range(n):
      Fu = -(Z[k]+f)*V[k] - advU[k] + R*T[k]*glu
      Fv = (Z[k]+f)*U[k] - advV[k] + R*T[k]*glv
      KE = (U[k]**2+V[k]**2)/(2*cosl**2)
      res['vor'][k,im,l] = gdot(Fv, -Fu)
      res['div'][k,im,l] = gdot(Fu, Fv) - lapl*orc.integrate(y*(KE + g*orov + Phi[k] + R*Tref[k]*lp))
      res['T'][k,im,l] = orc.integrate(y*(T[k]*Dv[k] + advT[k] + kappa*Tfull[k]*omega_p[k])) + gdot(U[k]*T[k], V[k]*T[k])
      res['q'][k,im,l] = orc.integrate(y*(Q[k]*Dv[k] + advQ[k])) + gdot(U[k]*Q[k], V[k]*Q[k])
for name, t in (('vor',tot.vorticity),('div',tot.divergence),('T',tot.temperature_variation),('lsp',tot.log_surface_pressure),('q',tot.tracers['q'])):
  print(name, 'scale', float(np.abs(t).max()), 'err', float(np.abs(res[name]-t).max()))
