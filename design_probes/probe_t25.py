from common import *
import scipy.special as sps
from dinosaur import shallow_water as sw, layer_coordinates as lc
rs = np.random.RandomState(7)

class Oracle:
  """Independent real SH basis + gradients on a fine Gauss grid. Layout-agnostic: index by (m signed, l)."""
  def __init__(self, L, nlat, nlon):
    self.L=L
    mu, w = np.polynomial.legendre.leggauss(nlat)
    self.mu, self.wlat = mu, w
    self.lam = np.arange(nlon)*2*np.pi/nlon; self.wlon = 2*np.pi/nlon
    n = np.arange(L)[:,None,None]; m=np.arange(L)[None,:,None]
    out = sps.assoc_legendre_p(n, m, mu[None,None,:], norm=True, diff_n=1)
    self.P = np.where(m<=n, out[0], 0)   # [l,m,j], unit L2[-1,1]
    self.dP = np.where(m<=n, out[1], 0)  # d/dmu
    self.cos = np.sqrt(1-mu**2)
  def Y(self, m, l):
    """returns Y, dY/dlam, cos*dY/dtheta  on [nlon,nlat]"""
    am=abs(m); P=self.P[l,am]; dP=self.dP[l,am]
    if m==0: f=np.full_like(self.lam,1/np.sqrt(2*np.pi)); df=0*self.lam
    elif m>0: f=np.cos(am*self.lam)/np.sqrt(np.pi); df=-am*np.sin(am*self.lam)/np.sqrt(np.pi)
    else: f=np.sin(am*self.lam)/np.sqrt(np.pi); df=am*np.cos(am*self.lam)/np.sqrt(np.pi)
    return f[:,None]*P[None,:], df[:,None]*P[None,:], f[:,None]*((1-self.mu**2)*dP)[None,:]
  def integrate(self, z): return (z*self.wlat[None,:]).sum()*self.wlon

M=6
grid = sh.Grid.with_wavenumbers(M, radius=1.7)   # L=7
a = grid.radius
L = grid.total_wavenumbers
orc = Oracle(L, 40, 64)
ms, ls = grid.modal_axes
# random low-degree state, band limit s
s_lim = 3
def rnd(shape, zero_mean=False, amp=1.0):
  x = rand_modal(rs, grid, shape, lmax=s_lim, amp=amp, zero_mean=zero_mean); return x
nl=2
vort = rnd((nl,),True,0.3); div = rnd((nl,),True,0.2); pot = rnd((nl,),False,0.5); oro = rnd((),False,0.2)
dens = np.array([0.8,1.0])
specs = sw.ShallowWaterSpecs(densities=dens, radius=a, angular_velocity=0.37, gravity_acceleration=2.3, scale=scales.DEFAULT_SCALE)
coords = cs.CoordinateSystem(grid, lc.LayerCoordinates(nl))
refpot = np.array([1.3, 2.1])
eq = sw.ShallowWaterEquations(coords, specs, oro, refpot)
st = sw.State(vort, div, pot)
e = eq.explicit_terms(st); i = eq.implicit_terms(st)
tot = jax.tree_util.tree_map(lambda x,y: np.asarray(x)+np.asarray(y), e, i)
# oracle evaluation: synthesize fields and derivatives on fine grid
def synth(coef):  # coef [m_idx,l] -> value, dlam, cos dtheta
  v=0;dl=0;dt=0
  for im,m in enumerate(ms):
    for l in range(abs(m), L):
      c = coef[im,l]
      if c==0: continue
      y,yl,yt = orc.Y(int(m),l); v=v+c*y; dl=dl+c*yl; dt=dt+c*yt
  return v,dl,dt
def inv_lap(coef):
  lam = -ls*(ls+1)/a**2
  with np.errstate(divide='ignore'): inv = np.where(ls>0, 1/lam, 0)
  return coef*inv
Om = specs.angular_velocity
cosl = orc.cos[None,:]; sinl = orc.mu[None,:]
res_v=np.zeros((nl,)+grid.modal_shape); res_d=np.zeros_like(res_v); res_p=np.zeros_like(res_v)
R = np.minimum(dens[None,:]/dens[:,None],1.0); np.fill_diagonal(R,0)   # D[i,j]: density[i]/density[j] if i<j ; 1 if i>j
# docstring: D[i,j] = density[i]/density[j] if i<j, 0 if i==j, 1 if i>j
D = np.zeros((nl,nl))
for ii in range(nl):
  for jj in range(nl):
    D[ii,jj] = 1.0 if ii<jj else (0 if ii==jj else dens[jj]/dens[ii])
fields=[]
for k in range(nl):
  z,_,_ = synth(vort[k]); dv,_,_ = synth(div[k])
  psi = inv_lap(vort[k]); chi = inv_lap(div[k])
  _, psil, psit = synth(psi); _, chil, chit = synth(chi)
  # U = u cos = (1/a)(dchi/dlam - cos dpsi/dtheta), V = v cos = (1/a)(cos dchi/dtheta + dpsi/dlam)
  U = (chil - psit)/a; V = (chit + psil)/a
  ph,_,_ = synth(pot[k])
  fields.append((z,dv,U,V,ph))
for k in range(nl):
  z,dv,U,V,ph = fields[k]
  f = 2*Om*sinl
  # pressure p_k = sum_j D[k,j] phi_j + orography
  pk = sum(D[k,j]*fields[j][4] for j in range(nl)) + synth(oro)[0]
  KE = (U**2+V**2)/(2*cosl**2)
  for im,m in enumerate(ms):
    for l in range(abs(m), L-1):
      y,yl,yt = orc.Y(int(m),l)
      # grad Y . W  where W = (Wu, Wv) physical components; cos*Wu = A, cos*Wv = B: gradY.W = (yl*A + yt*B)/(a cos^2)
      def gdot(A,B): return orc.integrate((yl*A + yt*B)/(a*cosl**2))
      # dzeta/dt = -div((zeta+f) v)  -> + int gradY.((zeta+f)v)
      res_v[k,im,l] = gdot((z+f)*U, (z+f)*V)
      # ddelta/dt = k.curl((zeta+f)v) - lap(p+KE) ; int Y k.curl(F) = int gradY . (F x k)?  F x k = (Fv, -Fu)
      # k.curl F = div(F x k)  => int Y div(Fxk) = - int gradY.(Fxk) = -int gradY.(Fv,-Fu)
      Fu, Fv = (z+f)*U, (z+f)*V
      lapl = -l*(l+1)/a**2
      res_d[k,im,l] = -gdot(Fv, -Fu) - lapl*orc.integrate(y*(pk+KE+ph))
      # dphi/dt = -div(phi v) - refpot*delta   (total)
      res_p[k,im,l] = gdot(ph*U, ph*V) - refpot[k]*orc.integrate(y*dv)
for name, r, t in (('vort',res_v,tot.vorticity),('div',res_d,tot.divergence),('pot',res_p,tot.potential)):
  print(name, 'scale', np.abs(t).max(), 'err', np.abs(r-t).max())
