from common import *
from dinosaur import shallow_water as sw, layer_coordinates as lc
rs = np.random.RandomState(5)
M=8
for impl in (sh.RealSphericalHarmonics, sh.FastSphericalHarmonics):
  grid = sh.Grid.with_wavenumbers(M, spherical_harmonics_impl=impl)
  vert = rand_sigma(rs, 4)
  coords = cs.CoordinateSystem(grid, vert)
  specs = pe.PrimitiveEquationsSpecs.from_si()
  oro = rand_modal(rs, grid, (), amp=0.01)
  T = 250+50*rs.rand(4)
  m, l = grid.modal_mesh
  # parity: row index parity for sin/cos: mirror factor (-1)^(l+|m|)
  mirror = (-1.0)**(l+np.abs(m))
  def rot(x, k):
    # rotate field by k grid steps eastward: f'(lam) = f(lam - k*dlam)
    a = np.abs(m)*k*2*np.pi/grid.longitude_nodes
    ms, _ = grid.modal_axes
    x = np.asarray(x); out = np.zeros_like(x)
    # pair rows (cos m, sin m)
    rows = {}
    for i, mm in enumerate(ms):
      rows.setdefault(abs(mm), []).append((i, mm))
    for am, lst in rows.items():
      if am==0:
        for i,_ in lst: out[..., i, :] = x[..., i, :]
        continue
      (ic, mc), (is_, msn) = sorted(lst, key=lambda t:-t[1])  # +m is cos row, -m sin row
      ang = am*k*2*np.pi/grid.longitude_nodes
      c, s = np.cos(ang), np.sin(ang)
      # f = a cos(m lam) + b sin(m lam); f(lam - d) = a cos(m lam - md) + b sin(m lam - md)
      out[..., ic, :] = x[..., ic, :]*c - x[..., is_, :]*s
      out[..., is_, :] = x[..., ic, :]*s + x[..., is_, :]*c
    return out
  # validate rot and mirror against nodal ops
  x = rand_modal(rs, grid, (2,))
  print(impl.__name__, 'rot check', float(np.abs(np.roll(np.asarray(grid.to_nodal(x)), 3, axis=-2) - np.asarray(grid.to_nodal(rot(x,3)))).max()),
        'mirror check', float(np.abs(np.asarray(grid.to_nodal(x))[..., ::-1] - np.asarray(grid.to_nodal(x*mirror))).max()))
  for cls, tracers, wt in [(pe.PrimitiveEquations, ('a',), False), (pe.MoistPrimitiveEquations, ('specific_humidity',), True)]:
    s = make_state(rs, coords, tracers=tracers, with_time=wt)
    eq = cls(T, oro, coords, specs)
    def tot(eq, s):
      e=eq.explicit_terms(s); i=eq.implicit_terms(s); return jax.tree_util.tree_map(lambda a,b: np.asarray(a)+np.asarray(b), e,i)
    t0 = tot(eq, s)
    # rotation
    k=5
    R = lambda tree: jax.tree_util.tree_map(lambda a: rot(a,k) if np.ndim(a)>=2 else a, tree)
    eqr = cls(T, rot(oro,k), coords, specs)
    tr = tot(eqr, R(s))
    d = jax.tree_util.tree_map(lambda a,b: float(np.abs(a-b).max()), R(t0), tr)
    print(' ', cls.__name__, 'rot diff', d)
    # mirror
    def Mi(tree):
      t2 = jax.tree_util.tree_map(lambda a: a*mirror if np.ndim(a)>=2 else a, tree)
      return t2.replace(vorticity=-t2.vorticity)
    eqm = cls(T, oro*mirror, coords, specs)
    tm = tot(eqm, Mi(s))
    d = jax.tree_util.tree_map(lambda a,b: float(np.abs(a-b).max()), Mi(t0), tm)
    print(' ', cls.__name__, 'mirror diff', d)
