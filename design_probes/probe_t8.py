from dinosaur import pytree_utils as pu
for d in [{'ab':{}, 'ac':{}}, {'a':{'x':{}, 'xy':{}}}, {'':{'x':1}}, {'a':{'':{}}}, {'a':{}, 'b':{'c':{}}}, {'a':1,'b':{'a':2}}]:
  try:
    f,e = pu.flatten_dict(d); r = pu.unflatten_dict(f,e)
    print(d, '->', f, e, '->', r, r==d)
  except Exception as ex:
    print(d, 'EXC', type(ex).__name__, ex)
