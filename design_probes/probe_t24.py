import os
os.environ['XLA_FLAGS']='--xla_force_host_platform_device_count=8'
import time
from common import *
rs = np.random.RandomState(3)
def mesh(z,x,y):
  d = np.array(jax.devices()[:z*x*y]).reshape((z,x,y))
  return jax.sharding.Mesh(d, ['z','x','y'])
M=10; n=6
specs = pe.PrimitiveEquationsSpecs.from_si()
g1 = sh.Grid.with_wavenumbers(M, spherical_harmonics_impl=sh.FastSphericalHarmonics)
for uneven in (False, True):
  vert = rand_sigma(rs, n, uneven)
  c1 = cs.CoordinateSystem(g1, vert)
  T = 250+50*rs.rand(n)
  oro1 = rand_modal(rs, g1, (), amp=0.01)
  s1 = make_state(rs, c1, tracers=('specific_humidity',), with_time=True)
  eq1 = pe.MoistPrimitiveEquations(T, oro1, c1, specs)
  dt=0.01
  filt1 = [ti.exponential_step_filter(g1, dt)]
  step1 = jax.jit(ti.step_with_filters(ti.imex_rk_sil3(eq1, dt), filt1))
  r1 = step1(s1)
  for (z,x,y) in [(2,1,1),(1,2,2),(2,2,2),(3,1,2)]:
    t=time.time()
    try:
      cm = cs.CoordinateSystem(g1, vert, spmd_mesh=mesh(z,x,y)); gm = cm.horizontal
      def emb(a):
        a=np.asarray(a)
        if a.ndim<2: return a
        pad=[(0,0)]*(a.ndim-2)+[(0,p-q) for p,q in zip(gm.modal_shape,g1.modal_shape)]
        return np.pad(a,pad)
      def crop(a):
        a=np.asarray(a)
        if a.ndim<2: return a
        return a[..., :g1.modal_shape[0], :g1.modal_shape[1]]
      sm = jax.tree_util.tree_map(emb, s1)
      eqm = pe.MoistPrimitiveEquations(T, emb(oro1), cm, specs)
      stepm = jax.jit(ti.step_with_filters(ti.imex_rk_sil3(eqm, dt), [ti.exponential_step_filter(gm, dt)]))
      rm = stepm(cm.with_dycore_sharding(sm)) if z in (1,2,3) and n%z==0 else stepm(sm)
      d = jax.tree_util.tree_map(lambda a,b: float(np.abs(crop(a)-np.asarray(b)).max()), rm, r1)
      fin = all(bool(np.isfinite(np.asarray(a)).all()) for a in jax.tree_util.tree_leaves(rm))
      print('uneven',uneven,(z,x,y), gm.modal_shape, 'maxdiff', max(jax.tree_util.tree_leaves(d)), 'finite', fin, 't', round(time.time()-t,1))
    except Exception as e:
      print('uneven',uneven,(z,x,y),'EXC', type(e).__name__, str(e)[:300])
