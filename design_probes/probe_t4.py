import numpy as np
import scipy.special as sps
from dinosaur import associated_legendre as al
for L in (8,48,128,256):
  x,w = al.gauss_legendre_nodes(L+2)
  p = al.evaluate(n_m=L,n_l=L,x=x)
  err=0;derr=0
  n = np.arange(L)[:,None,None]; m=np.arange(L)[None,:,None]
  out = sps.assoc_legendre_p(n, m, x[None,None,:], norm=True, diff_n=1)
  v = out[0]; dv=out[1]   # [l, m, node]
  v = np.where(m<=n, v, 0)
  # sign convention? compare
  ref = np.transpose(p,(2,0,1)) # [l,m,node]
  print(L, 'max abs diff', np.abs(v-ref).max(), 'with (-1)^m', np.abs(v*(-1.0)**m-ref).max())
