from common import *
from dinosaur import filtering
g = sh.Grid.with_wavenumbers(10)
f = filtering.exponential_filter(g, 16, 2)
for shp in [(), (1,), (11,), (5,), (2,), (3,11), (21,1), (4,21,11), (4,5,6), (21,11,1)]:
  try:
    o = f({'x': np.ones(shp)}); print(shp, 'ok changed=', not np.array_equal(np.asarray(o['x']), np.ones(shp)))
  except Exception as e: print(shp, 'EXC', type(e).__name__)
print(g.modal_shape)
