from common import *
rs = np.random.RandomState(12)
const = np.sqrt(4*np.pi)
def total(eq, s):
  e = eq.explicit_terms(s); i = eq.implicit_terms(s)
  return e, i, jax.tree_util.tree_map(lambda a,b: np.asarray(a)+np.asarray(b), e, i)
def mx(t): return {k: float(np.abs(np.asarray(v)).max()) for k,v in zip(['vor','div','T','lsp']+['tr%d'%i for i in range(9)], jax.tree_util.tree_leaves(t))}
for M, nl, radius in [(8,5,1.0),(5,3,2.7),(12,1,0.5),(10,2,1.0)]:
  specs0 = pe.PrimitiveEquationsSpecs.from_si()
  specs = pe.PrimitiveEquationsSpecs(radius, 0.37, 1.9, 0.8, 1.3, 2.9, 0.29, specs0.scale)
  grid = sh.Grid.with_wavenumbers(M, radius=radius)
  vert = rand_sigma(rs, nl); coords = cs.CoordinateSystem(grid, vert)
  lon, sl = grid.nodal_mesh
  # (i) rest isothermal over orography
  T0 = 1.7; Tref = T0 + 0.3*rs.randn(nl)
  h = rand_modal(rs, grid, (), lmax=grid.total_wavenumbers-2, amp=0.05)
  lsp = (-specs.g*h/(specs.R*T0))[None]; lsp[0,0,0] += 2.0*const
  tv = np.zeros(coords.modal_shape); tv[:,0,0] = (T0-Tref)*const
  z = np.zeros(coords.modal_shape)
  for cls, tr in [(pe.PrimitiveEquations, {}), (pe.MoistPrimitiveEquations, {'specific_humidity': z.copy()})]:
    wt = cls is not pe.PrimitiveEquations
    st = pe.StateWithTime(z,z,tv,lsp,sim_time=0.0,tracers=tr) if wt else pe.State(z,z,tv,lsp,tracers=tr)
    eq = cls(Tref, h, coords, specs)
    e,i,t = total(eq, st)
    print('rest', cls.__name__, (M,nl,radius), 'total', mx(t), '| explicit', mx(e)['div'], 'implicit', mx(i)['div'])
  # (ii) solid body rotation
  ws = 0.11; Om = specs.angular_velocity; a=radius
  zeta_n = np.broadcast_to(2*ws*sl, (nl,)+sl.shape)
  vor = np.asarray(grid.to_modal(zeta_n)); vor = np.asarray(grid.clip_wavenumbers(vor))
  gh_n = (2*Om+ws)*ws*a**2*(1-sl**2)/2
  h2 = np.asarray(grid.to_modal(gh_n/specs.g))
  Tk = 1.5+0.5*rs.rand(nl); Tref2 = 1.5+0.5*rs.rand(nl)
  tv = np.zeros(coords.modal_shape); tv[:,0,0] = (Tk-Tref2)*const
  lsp = np.zeros(coords.surface_modal_shape); lsp[0,0,0]=1.3*const
  q = np.zeros(coords.modal_shape); q[:,0,0] = 0.013*const
  cw = np.zeros(coords.modal_shape); cw[:,0,0]=0.002*const
  for cls, tr in [(pe.PrimitiveEquations, {'x': q}), (pe.MoistPrimitiveEquations, {'specific_humidity': q}), (pe.MoistPrimitiveEquationsWithCloudMoisture, {'specific_humidity': q, 'specific_cloud_liquid_water_content': cw, 'specific_cloud_ice_water_content': cw})]:
    wt = cls is not pe.PrimitiveEquations
    st = pe.StateWithTime(vor,z,tv,lsp,sim_time=0.0,tracers=tr) if wt else pe.State(vor,z,tv,lsp,tracers=tr)
    eq = cls(Tref2, h2, coords, specs)
    e,i,t = total(eq, st)
    print('solid', cls.__name__, 'total', mx(t), '| explicit div', mx(e)['div'], 'oro term', float(np.abs(np.asarray(eq.orography_tendency())).max()))
