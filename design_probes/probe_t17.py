import jax; jax.config.update('jax_enable_x64', True)
import numpy as np, jax.numpy as jnp, itertools
from dinosaur import horizontal_interpolation as hi, spherical_harmonic as sh
rs = np.random.RandomState(0)
def cell_areas(grid):
  lat = grid.latitudes; lon = grid.longitudes % (2*np.pi)
  lb = np.concatenate([[-np.pi/2], (lat[:-1]+lat[1:])/2, [np.pi/2]])
  wlat = np.sin(lb[1:])-np.sin(lb[:-1])
  n=len(lon)
  nxt = np.roll(lon,-1); prv=np.roll(lon,1)
  dn = (nxt-lon)%(2*np.pi); dp=(lon-prv)%(2*np.pi)
  wlon = (dn+dp)/2
  return wlon[:,None]*wlat[None,:]
worst=0
for trial in range(400):
  def rg():
    nlon = rs.randint(4, 24); nlat = rs.randint(2,14)
    return sh.Grid(longitude_nodes=nlon, latitude_nodes=nlat, latitude_spacing=rs.choice(['gauss','equiangular','equiangular_with_poles']), longitude_offset=float(rs.choice([0.0, rs.uniform(0,2*np.pi), rs.uniform(-1,1)])))
  s, t = rg(), rg()
  r = hi.ConservativeRegridder(s,t)
  f = rs.randn(2, *s.nodal_shape)
  out = np.asarray(r(f))
  lw, aw = np.asarray(r.lon_weights), np.asarray(r.lat_weights)
  As, At = cell_areas(s), cell_areas(t)
  i_s = (f*As).sum((-1,-2)); i_t=(out*At).sum((-1,-2))
  rowsum = max(abs(lw.sum(1)-1).max(), abs(aw.sum(1)-1).max())
  e = abs(i_s-i_t).max()/ (abs(f).mean()*4*np.pi)
  const = np.asarray(r(np.ones(s.nodal_shape)))
  rng_ok = (out.max()<=f.max()+1e-12) and (out.min()>=f.min()-1e-12)
  flag = e>1e-10 or rowsum>1e-12 or lw.min()<0 or aw.min()<0 or abs(const-1).max()>1e-12 or not rng_ok
  if flag: print('trial',trial, s.nodal_shape, s.latitude_spacing, round(s.longitude_offset,3), '->', t.nodal_shape, t.latitude_spacing, round(t.longitude_offset,3), 'integral err', e, 'rowsum', rowsum, 'min', lw.min(), aw.min(), 'const', abs(const-1).max(), rng_ok, 'area sums', As.sum()/(4*np.pi), At.sum()/(4*np.pi))
  worst=max(worst,e)
print('worst', worst)
