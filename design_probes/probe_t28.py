from common import *
rs=np.random.RandomState(0)
for sp in ('gauss','equiangular'):
 for (M,L,NL,N) in [(5,6,16,6),(5,6,16,12),(5,6,16,13),(16,17,50,17),(16,17,50,34),(16,17,50,35),(42,44,128,64),(42,44,128,90),(63,64,192,128)]:
  g = sh.Grid(longitude_wavenumbers=M,total_wavenumbers=L,longitude_nodes=NL,latitude_nodes=N,latitude_spacing=sp, radius=2.0)
  D = 2*N-1 if sp=='gauss' else (N-1 if N%2==0 else N)
  vor = rand_modal(rs,g,(1,),zero_mean=True, lmax=L-2); div=rand_modal(rs,g,(1,),zero_mean=True,lmax=L-2)
  u,v = sh.vor_div_to_uv_nodal(g, vor, div, clip=False)
  v2,d2 = sh.uv_nodal_to_vor_div_modal(g,u,v)
  print(sp, (M,L,NL,N), 'D',D,'need',2*L-2, 'uv rt err', float(max(np.abs(np.asarray(v2)-vor).max(), np.abs(np.asarray(d2)-div).max())), 'sec2max', float(g.sec2_lat.max()))
