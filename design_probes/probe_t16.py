import jax
import numpy as np, jax.numpy as jnp, datetime
from dinosaur import radiation, primitive_equations as pe, spherical_harmonic as sh, sigma_coordinates as sc, coordinate_systems as cs, xarray_utils as xu, scales
for x64 in (False, True):
  jax.config.update('jax_enable_x64', x64)
  specs = pe.PrimitiveEquationsSpecs.from_si()
  coords = cs.CoordinateSystem(sh.Grid.with_wavenumbers(4), sc.SigmaCoordinates.equidistant(2))
  sr = radiation.SolarRadiation(coords, specs, datetime.datetime(1979,1,1))
  rs = np.random.RandomState(0)
  ts = np.concatenate([rs.uniform(0, 1e5, 200000), rs.uniform(-1e4,0,1000), np.arange(0,5000)*specs.nondimensionalize(1*scales.units.day)])
  f = jax.jit(jax.vmap(lambda t: sr.time_to_orbital_time(t)))
  ot = f(jnp.asarray(ts))
  for name, ph in (('orbital', ot.orbital_phase), ('synodic', ot.synodic_phase)):
    ph = np.asarray(ph)
    print('x64',x64,name, ph.dtype, 'min', ph.min(), 'max', ph.max(), 'n<0', (ph<0).sum(), 'n>=2pi', (ph>=2*np.pi).sum(), '2pi', 2*np.pi, np.float32(2*np.pi))
# datetime roundtrip
jax.config.update('jax_enable_x64', True)
ref = np.datetime64('1979-01-01T00:00:00')
rs = np.random.RandomState(1)
mins = rs.randint(-30*365*1440, 60*365*1440, size=200000)
times = ref + mins.astype('timedelta64[m]')
nd = xu.datetime64_to_nondim_time(times, specs, ref)
back = xu.nondim_time_to_datetime64(nd, specs, ref)
print('datetime roundtrip bad', (back!=times).sum(), nd.dtype)
nd32 = nd.astype(np.float32)
back32 = xu.nondim_time_to_datetime64(nd32, specs, ref)
print('float32 roundtrip bad frac', (back32!=times).mean())
