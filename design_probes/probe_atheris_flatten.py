import sys, os, json
sys.path.insert(0, os.environ.get('VF_DEPS', '/verif/.deps'))
import atheris
with atheris.instrument_imports(include=['dinosaur.pytree_utils']):
  from dinosaur import pytree_utils as pu
from hypothesis import given, strategies as st, settings, HealthCheck
keys = st.text(alphabet='abxy_', min_size=1, max_size=3)
leaves = st.integers(0,3)
dicts = st.recursive(st.dictionaries(keys, leaves, max_size=3), lambda ch: st.dictionaries(keys, st.one_of(leaves, ch), max_size=3), max_leaves=8)
@settings(database=None, deadline=None, suppress_health_check=list(HealthCheck))
@given(dicts)
def test(d):
  f, e = pu.flatten_dict(d)
  assert pu.unflatten_dict(f, e) == d
def one(data):
  try:
    test.hypothesis.fuzz_one_input(data)
  except Exception as ex:
    print('FOUND', type(ex).__name__, str(ex)[:100]); sys.stdout.flush(); os._exit(7)
atheris.Setup([sys.argv[0], '-runs=200000', '-seed=1', '-max_len=256'], one)
atheris.Fuzz()
