from common import *
from dinosaur import held_suarez
rs = np.random.RandomState(31)
# ---- C20 HS
M=10; n=6
specs = pe.PrimitiveEquationsSpecs.from_si()
grid = sh.Grid.with_wavenumbers(M); L=grid.total_wavenumbers
vert = rand_sigma(rs,n); coords=cs.CoordinateSystem(grid,vert)
Tref = 250+40*rs.rand(n)
hs = held_suarez.HeldSuarezForcing(coords, specs, Tref)
st = make_state(rs, coords, lmax=L-3)
st = pe.State(st.vorticity, st.divergence, st.temperature_variation, st.log_surface_pressure)
# set lnps mean to ln(p0)
lsp = np.array(st.log_surface_pressure); lsp[0,0,0] = np.log(specs.nondimensionalize(1e5*units.pascal))*np.sqrt(4*np.pi); st = st.replace(log_surface_pressure=lsp)
t = hs.explicit_terms(st)
kv = hs.kv()[:,0,0]
print('kv', kv, 'sigma', vert.centers)
print('HS vort err', float(np.abs(np.asarray(t.vorticity) + kv[:,None,None]*st.vorticity).max()), 'scale', float(np.abs(np.asarray(t.vorticity)).max()))
print('HS div err', float(np.abs(np.asarray(t.divergence) + kv[:,None,None]*st.divergence).max()))
print('lsp tendency', float(np.abs(np.asarray(t.log_surface_pressure)).max()), 'kt range', float(hs.kt().min()), float(hs.kt().max()), 'ka ks', hs.ka, hs.ks)
# with lmax = L-2 (top-but-one): expected mismatch at l=L-2?
st2 = make_state(rs, coords, lmax=L-2); st2 = pe.State(st2.vorticity, st2.divergence, st2.temperature_variation, lsp)
t2 = hs.explicit_terms(st2)
d = np.abs(np.asarray(t2.vorticity) + kv[:,None,None]*st2.vorticity)
print('lmax=L-2: err by l', d.max(axis=(0,1)))
# ---- C13 geopotential relation
from dinosaur import sigma_coordinates as sc
T = rs.randn(n,3,4)
a1 = np.asarray(pe.get_geopotential_diff(T, vert, 287.0))
a2 = 287.0*np.asarray(sc.cumulative_log_sigma_integral(T, vert, downward=False))
print('geopot vs R*cumlogsig(up)', float(np.abs(a1-a2).max()), float(np.abs(a1+a2).max()))
