import jax; jax.config.update('jax_enable_x64', True)
import numpy as np
from dinosaur import primitive_equations as pe, sigma_coordinates as sc
for b in ([0,0.25,1.0],[0,0.25,0.5,1.0],[0,0.5,0.75,1.0]):
  c = sc.SigmaCoordinates(np.array(b)); n=c.layers
  T = np.full(n,250.)
  for lev in range(n):
    d = np.zeros((n,1,1)); d[lev]=1.0
    a = np.asarray(pe.get_temperature_implicit(d,c,T,0.2857,method='dense'))[:,0,0]
    s = np.asarray(pe.get_temperature_implicit(d,c,T,0.2857,method='sparse'))[:,0,0]
    print(b, 'unit div level', lev, 'dense', np.round(a,4), 'sparse', np.round(s,4), 'maxerr', np.abs(a-s).max(), 'scale', np.abs(a).max())
