from common import *
rs=np.random.RandomState(0)
for sp in ('equiangular','equiangular_with_poles'):
  g = sh.Grid(longitude_wavenumbers=5,total_wavenumbers=6,longitude_nodes=16,latitude_nodes=21,latitude_spacing=sp)
  print(sp, 'sec2 max', np.max(g.sec2_lat), 'cos min', g.cos_lat.min())
  vor = rand_modal(rs,g,(1,),zero_mean=True); div=rand_modal(rs,g,(1,),zero_mean=True)
  u,v = sh.vor_div_to_uv_nodal(g, vor, div)
  print('  uv finite', bool(np.isfinite(u).all()))
  v2,d2 = sh.uv_nodal_to_vor_div_modal(g,u,v)
  print('  roundtrip err', float(np.nanmax(np.abs(np.asarray(v2)-vor))), 'nan count', int(np.isnan(np.asarray(v2)).sum()))
