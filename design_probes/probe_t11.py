from common import *
from dinosaur import held_suarez
rs = np.random.RandomState(2)
M=8
def build(scale):
  specs = pe.PrimitiveEquationsSpecs.from_si(scale=scale)
  grid = sh.Grid.with_wavenumbers(M, radius=specs.radius)
  return specs, grid
sA = scales.DEFAULT_SCALE
sB = scales.Scale(1234.5*units.km, 3.7*units.hour, 2.2e7*units.kg, 13.0*units.degK)
vert = rand_sigma(rs, 4)
# SI state (modal coefficients of SI fields)
g0 = sh.Grid.with_wavenumbers(M)
n=4
vor = rand_modal(rs,g0,(n,),amp=1e-5,zero_mean=True); div = rand_modal(rs,g0,(n,),amp=1e-6,zero_mean=True)
tv = rand_modal(rs,g0,(n,),amp=3.0); lnps_var = rand_modal(rs,g0,(1,),amp=0.02); lnps_var[...,0,0]=0
q = rand_modal(rs,g0,(n,),amp=0.002)
ps0 = 1e5  # Pa
Tref = 250+40*rs.rand(n)
oro_si = rand_modal(rs,g0,(),amp=300.0)  # m
const = np.sqrt(4*np.pi)
out={}
for name,scale in (('A',sA),('B',sB)):
  specs, grid = build(scale)
  coords = cs.CoordinateSystem(grid, vert)
  nd = specs.nondimensionalize
  lsp = lnps_var.copy(); lsp[...,0,0] = np.log(nd(ps0*units.pascal))*const
  st = pe.StateWithTime(nd(vor/units.s), nd(div/units.s), nd(tv*units.degK), lsp, sim_time=0.0, tracers={'specific_humidity': q})
  eq = pe.MoistPrimitiveEquations(nd(Tref*units.degK), nd(oro_si*units.m), coords, specs)
  hs = held_suarez.HeldSuarezForcing(coords, specs, nd(Tref*units.degK))
  e = eq.explicit_terms(st); i = eq.implicit_terms(st)
  st0 = pe.State(st.vorticity, st.divergence, st.temperature_variation, st.log_surface_pressure)
  h = hs.explicit_terms(st0)
  dim = lambda x,u: np.asarray(specs.dimensionalize(np.asarray(x), units(u)).m)
  res = dict(vor=dim(e.vorticity+i.vorticity,'1/s**2'), div=dim(e.divergence+i.divergence,'1/s**2'), T=dim(e.temperature_variation+i.temperature_variation,'K/s'),
             lsp=dim(e.log_surface_pressure+i.log_surface_pressure,'1/s'), q=dim(e.tracers['specific_humidity'],'1/s'),
             hs_vor=dim(h.vorticity,'1/s**2'), hs_div=dim(h.divergence,'1/s**2'), hs_T=dim(h.temperature_variation,'K/s'))
  # one step
  dt = nd(600*units.s)
  step = ti.imex_rk_sil3(eq, dt)
  s1 = step(st)
  res.update(step_vor=dim(s1.vorticity,'1/s'), step_T=dim(s1.temperature_variation,'K'), step_lsp=np.asarray(s1.log_surface_pressure)-lsp*0 , step_time=dim(s1.sim_time,'s'))
  res['step_lsp'] = np.asarray(s1.log_surface_pressure) - np.asarray(st.log_surface_pressure)
  out[name]=res
for k in out['A']:
  a,b = out['A'][k], out['B'][k]
  print(k, 'scale', float(np.abs(a).max()), 'rel diff', float(np.abs(a-b).max()/np.abs(a).max()))
