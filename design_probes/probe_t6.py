import jax; jax.config.update('jax_enable_x64', True)
import numpy as np, warnings
from dinosaur import spherical_harmonic as sh, time_integration as ti, filtering
import functools
impl = functools.partial(sh.FastSphericalHarmonics, base_shape_multiple=8)
g = sh.Grid(longitude_wavenumbers=6,total_wavenumbers=7,longitude_nodes=16,latitude_nodes=9, spherical_harmonics_impl=impl)
print(g.modal_shape, g.modal_axes, g.laplacian_eigenvalues)
f = ti.horizontal_diffusion_step_filter(g, dt=0.1, tau=1.0, order=1)
x = np.ones(g.modal_shape)
print(np.asarray(f(None, x))[0])
f2 = ti.exponential_step_filter(g, dt=0.1)
print(np.asarray(f2(None,x))[0])
g0 = sh.Grid(longitude_wavenumbers=6,total_wavenumbers=7,longitude_nodes=16,latitude_nodes=9, spherical_harmonics_impl=sh.FastSphericalHarmonics)
print(np.asarray(ti.horizontal_diffusion_step_filter(g0, dt=0.1, tau=1.0, order=1)(None,np.ones(g0.modal_shape)))[0])
print(np.asarray(ti.exponential_step_filter(g0, dt=0.1)(None,np.ones(g0.modal_shape)))[0])
