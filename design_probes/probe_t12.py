import os
os.environ['XLA_FLAGS']='--xla_force_host_platform_device_count=8'
import time
from common import *
print(len(jax.devices()))
rs = np.random.RandomState(3)
def mesh(z,x,y):
  d = np.array(jax.devices()[:z*x*y]).reshape((z,x,y))
  return jax.sharding.Mesh(d, ['z','x','y'])
M=10
for (z,x,y) in [(1,1,1),(2,1,1),(1,2,1),(1,1,2),(2,2,2),(1,4,2),(4,2,1),(8,1,1),(1,2,4)]:
  t=time.time()
  try:
    mm = mesh(z,x,y)
    g1 = sh.Grid.with_wavenumbers(M, spherical_harmonics_impl=sh.FastSphericalHarmonics)
    vert = rand_sigma(rs, 6)
    c1 = cs.CoordinateSystem(g1, vert)
    cm = cs.CoordinateSystem(g1, vert, spmd_mesh=mm)
    gm = cm.horizontal
    # field on unpadded grid
    xm = rand_modal(rs, g1, (6,))
    # embed into padded layout
    pad = [(0,0)] + [(0, a-b) for a,b in zip(gm.modal_shape, g1.modal_shape)]
    xp = np.pad(xm, pad)
    n1 = g1.to_nodal(xm); 
    f = jax.jit(lambda v: gm.to_nodal(v))
    xs = jax.device_put(xp, cm.dycore_sharding)
    nm = f(xs)
    nm_c = np.asarray(nm)[:, :g1.nodal_shape[0], :g1.nodal_shape[1]]
    back = np.asarray(jax.jit(gm.to_modal)(nm))
    dl = np.asarray(jax.jit(gm.d_dlon)(xs))[:, :g1.modal_shape[0], :g1.modal_shape[1]]
    print((z,x,y), gm.modal_shape, gm.nodal_shape, 'nodal err', float(np.abs(nm_c-n1).max()), 'roundtrip', float(np.abs(back-xp).max()), 'dlon', float(np.abs(dl-np.asarray(g1.d_dlon(xm))).max()), 'finite', bool(np.isfinite(np.asarray(nm)).all()), 't', round(time.time()-t,2))
  except Exception as e:
    print((z,x,y), 'EXC', type(e).__name__, str(e)[:300])
