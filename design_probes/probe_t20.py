import jax; jax.config.update('jax_enable_x64', True)
import numpy as np, dataclasses
from dinosaur import xarray_utils as xu, spherical_harmonic as sh, sigma_coordinates as sc, coordinate_systems as cs, layer_coordinates as lc, vertical_interpolation as vi, primitive_equations as pe
rs = np.random.RandomState(0)
for trial in range(12):
  M = rs.randint(2,8)
  impl = [sh.RealSphericalHarmonics, sh.FastSphericalHarmonics][trial%2]
  g = sh.Grid(longitude_wavenumbers=M, total_wavenumbers=M+1, longitude_nodes=3*M+1, latitude_nodes=int(rs.randint(M+1, 2*M+3)), latitude_spacing=rs.choice(['gauss','equiangular','equiangular_with_poles']), longitude_offset=float(rs.uniform(0,1)), radius=float(rs.uniform(0.5,3)), spherical_harmonics_impl=impl)
  n = rs.randint(2,6)
  vert = [sc.SigmaCoordinates(np.concatenate([[0],np.sort(rs.uniform(0.01,0.99,n-1)),[1]])), lc.LayerCoordinates(n), vi.PressureCoordinates(np.sort(rs.uniform(1,1000,n)))][trial%3]
  c = cs.CoordinateSystem(g, vert)
  d = c.asdict()
  c2 = xu.coordinate_system_from_attrs(d)
  same_h = all(getattr(c2.horizontal,f.name)==getattr(g,f.name) for f in dataclasses.fields(g) if f.name not in ('spherical_harmonics_impl','spmd_mesh'))
  print(type(vert).__name__, impl.__name__, 'horizontal same', same_h, 'vertical eq', c2.vertical==vert, 'impl', c2.horizontal.spherical_harmonics_impl.__name__)
  # state roundtrip
  T=3
  st = dict(vorticity=rs.randn(T,n,*g.modal_shape), divergence=rs.randn(T,n,*g.modal_shape), temperature_variation=rs.randn(T,n,*g.modal_shape), log_surface_pressure=rs.randn(T,1,*g.modal_shape), sim_time=rs.randn(T), tracers={'q': rs.randn(T,n,*g.modal_shape)})
  try:
    ds = xu.data_to_xarray(st, coords=c, times=np.arange(T)*1.0)
    back = xu.xarray_to_primitive_equations_with_time_data(ds, tracers_to_include=('q',))
    ok = all(np.array_equal(a,b) for a,b in zip(jax.tree_util.tree_leaves(st), jax.tree_util.tree_leaves(back)))
    print('   dims', {k: ds[k].dims for k in ds}, 'bit-identical', ok)
  except Exception as e:
    print('   EXC', type(e).__name__, str(e)[:200])
