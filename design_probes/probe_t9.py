import jax; jax.config.update('jax_enable_x64', True)
import numpy as np, itertools
from dinosaur import time_integration as ti
eq = ti.ImplicitExplicitODE.from_functions(lambda x: -x, lambda x: 0*x, lambda x, s: x)
for la,lb,lg in itertools.product(range(1,6),range(0,5),range(0,5)):
  consistent = (la-1==lb==lg)
  try:
    f = ti.low_storage_runge_kutta_crank_nicolson([0.1]*la,[0.1]*lb,[0.1]*lg,eq,0.1)
    try:
      f(np.ones(2)); res='ran'
    except Exception as e:
      res='step-exc '+type(e).__name__
  except ValueError as e:
    res='ValueError'
  if (res=='ValueError') == consistent or (not consistent and res=='ran'):
    print(la,lb,lg,consistent,res)
