import jax; jax.config.update('jax_enable_x64', True)
import numpy as np, jax.numpy as jnp
from dinosaur import horizontal_interpolation as hi, spherical_harmonic as sh, vertical_interpolation as vi, sigma_coordinates as sc
rs = np.random.RandomState(0)
# identity & constants
for trial in range(30):
  def rg():
    return sh.Grid(longitude_nodes=rs.randint(4,20), latitude_nodes=rs.randint(2,12), latitude_spacing=rs.choice(['gauss','equiangular','equiangular_with_poles']), longitude_offset=float(rs.choice([0.0, rs.uniform(0,1)])))
  s,t = rg(), rg()
  f = rs.randn(3,*s.nodal_shape)
  for R in (hi.BilinearRegridder, hi.NearestRegridder, hi.ConservativeRegridder):
    same = np.asarray(R(s,s)(f)); c = np.asarray(R(s,t)(np.full(s.nodal_shape, 2.5)))
    o = np.asarray(R(s,t)(f))
    ok = np.abs(same-f).max()<1e-12 and np.abs(c-2.5).max()<1e-12 and o.max()<=f.max()+1e-12 and o.min()>=f.min()-1e-12
    if not ok: print(R.__name__, s.nodal_shape, s.latitude_spacing, s.longitude_offset, t.nodal_shape, np.abs(same-f).max(), np.abs(c-2.5).max())
print('horiz done')
# vertical conservative
hyb = vi.HybridCoordinates.ECMWF137()
for trial in range(20):
  n = rs.randint(1,12)
  t_ = rs.uniform(0.2,1,n); b=np.concatenate([[0],np.cumsum(t_)/t_.sum()]); b[-1]=1
  sig = sc.SigmaCoordinates(b)
  sp = rs.uniform(500,1050,size=(3,2))
  f = rs.randn(hyb.layers,3,2)
  out = np.asarray(vi.regrid_hybrid_to_sigma(f, hyb, sig, sp))
  const = np.asarray(vi.regrid_hybrid_to_sigma(np.ones_like(f), hyb, sig, sp))
  # integral check per column
  err=0
  for i in range(3):
    for j in range(2):
      hb = hyb.get_sigma_boundaries(sp[i,j])
      # covered range
      lo, hi_ = max(hb[0], b[0]), min(hb[-1], b[-1])
      # integral of piecewise-constant source over [lo,hi]
      src_int = sum(f[k,i,j]*max(0,min(hb[k+1],hi_)-max(hb[k],lo)) for k in range(hyb.layers))
      # target: out * covered thickness in each target cell
      tgt_int = sum(out[k,i,j]*max(0,min(b[k+1],hi_)-max(b[k],lo)) for k in range(n))
      err=max(err,abs(src_int-tgt_int))
  print(n, 'nan', np.isnan(out).any(), 'const err', np.abs(const-1).max(), 'int err', err, 'hb range', hb[0], hb[-1])
