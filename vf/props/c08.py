"""C08 Forward- and reverse-mode derivatives are finite, mutually adjoint and correct.

One *case* = (configuration of one differentiable entry point, list of (x, v, w) triples). The configuration
is compiled once (`jax.jit` of the primal, of `jax.jvp` and of `jax.vjp`, with state / tangent / cotangent as
*inputs*), then every triple of the case is pushed through the three compiled functions.

Oracles per triple
  (a) `jax.jvp` against a Richardson-extrapolated central finite difference of the primal (float64, steps h and
      h/2), for the full tangent and for the tangent restricted to each single input field, judged per output
      field with rtol 1e-6 relative to the largest derivative block of that output field;
  (b) adjointness `<J v, w> == <v, J^T w>` (J v from jvp, J^T w from vjp) to 1e-10 relative to sum|Jv||w|, for
      the full pair and for every (input field, output field) block;
  (c) primal, J v and J^T w finite; differentiation must not raise;
  (d) (scan sub-checks) values, J v and J^T w through `nested_checkpoint_scan` for every ordered factorisation
      of the scan length equal those of a flat `lax.scan`; `jax.checkpoint` on/off gives the same.
Kinks (`maximum(minT, .)` in Held-Suarez, upwind `maximum/minimum(w, 0)`, interpolation nodes, the sign of the
semi-Lagrangian displacement) are constructed around: mode 'fd' inputs are moved until every kink argument is
at least KINK_DELTA (normalised) away from the kink and stays on its side for all finite-difference points;
mode 'kink' inputs sit exactly on the kink and only (b) and (c) are required there.
"""
from __future__ import annotations

import functools

from hypothesis import strategies as st
import numpy as np

from vf import core, gens
from vf.core import Outcome, Subcheck

RTOL_FD = 1e-6
RTOL_ADJ = 1e-10
RTOL_LIN = 1e-11     # J v == f(v) for linear entry points
RTOL_SAME = 1e-12    # nested / checkpointed scan against flat scan
KINK_DELTA = 3e-4    # minimal normalised distance from a kink for the finite-difference comparison
MAX_NUDGES = 12

RULE = ('Hypothesis draws a configuration of one differentiable entry point (grid M<=6/L<=8 quick, sigma levels, '
        'equation class, integrator, filters, step pattern, interpolator ...) and a list of (x, v, w) triples '
        '(sparse spectral entries + seeded noise; w dense from a drawn seed). Oracles: jvp vs Richardson central '
        'finite difference (rtol 1e-6 per output field, full tangent and every single-field tangent), '
        '<Jv,w> == <v,J^T w> to 1e-10 (full and per input-field x output-field block), everything finite, '
        'differentiation does not raise; nested_checkpoint_scan (all ordered factorisations) and jax.checkpoint '
        'on/off reproduce the flat lax.scan values and derivatives to 1e-12. distinct = hash of the canonical JSON '
        'case; non-trivial = at least one triple of the case has tangent and cotangent non-zero in >= 2 fields '
        '(all fields when the entry point has fewer) and <Jv,w> != 0.')
ASSUMPTIONS = [
    'finite differences are only compared where every kink argument (T_eq - minT; upwind sigma_dot_full and '
    'sigma_dot_explicit - the latter advects the reference temperature profile; semi-Lagrangian velocity; '
    'query - interpolation node; regridding cell bounds) is >= 3e-4 (normalised) from the kink at x and keeps '
    'its sign at all points x +- h v used by the difference; inputs are nudged (count in labels) until this holds; '
    'on the kink only finiteness and adjointness are required, with one exception: where the kink argument is '
    'exactly zero by construction (upwind advection of a non-divergent state with uniform surface pressure: '
    'sigma_dot == 0 everywhere) the jvp must also agree with the central finite difference within the difference '
    "quotient's own O(h) convergence (jnp.maximum/minimum use 1/2 at a tie, which is the central-difference limit); "
    'exact ties of maximum(minT, T_eq) and interpolation-node kinks are not reproducible / one-sided by convention '
    'and stay at finiteness + adjointness',
    'grids have no node at a pole for vector operations and dynamics (equiangular_with_poles only for scalar '
    'transforms)',
    'interpolation nodes are strictly increasing; queries of the NaN-extrapolating interpolators stay inside the '
    'range the routine supports (n cells beyond the ends)',
    'semi-Lagrangian step: dt*|velocity| is smaller than the level spacing so that departure points stay ordered',
    'implicit_inverse step size is a static Python float (the code requires it)',
    'exponential filter order is an integer (signature); attenuation may be an array (documented)',
    'an exception raised by jax.jvp / jax.vjp on an entry point whose primal evaluates is a violation '
    '(the property asserts both derivatives exist); exceptions of the primal are harness errors',
]
MANIFEST = {
    'text': ('For generated configurations of every differentiable entry point (transforms, dry/moist/cloud/'
             'shallow-water tendencies, implicit terms and solves, filters, one and k steps of all six integrators '
             'with filters, Held-Suarez forcing, semi-Lagrangian step, vertical interpolators/regridders, DFI, '
             'nested-checkpoint trajectories) and generated states/tangents/cotangents, jvp matched a Richardson '
             'central difference to 1e-6 per field block, jvp and vjp were adjoint to 1e-10 per field block, '
             'all derivatives were finite also exactly on the kinks, and nested/checkpointed scans reproduced '
             'flat-scan derivatives to 1e-12.'),
    'note': ('trusted base: jax.jit / jvp / vjp machinery itself, float64 finite differences of the same primal '
             '(a primal bug is invisible here: C05 covers the primal), numpy dot products'),
    'technique': 'property-based differential testing: jvp vs finite difference, jvp/vjp adjointness, scan-nesting metamorphic relation',
}


# ----------------------------------------------------------------------------
# tree helpers (jax imported lazily)


def _jax():
  import jax
  return jax


def _leaves(t):
  return [np.asarray(a, dtype=np.float64) for a in _jax().tree_util.tree_leaves(t)]


def _names(t):
  """Readable leaf names in flattening order (dataclass fields, sorted dict keys, sequence indices)."""
  import dataclasses
  jax = _jax()

  def rec(x, prefix):
    if x is None:
      return []
    if dataclasses.is_dataclass(x) and not isinstance(x, type):
      return [n for f in dataclasses.fields(x) for n in rec(getattr(x, f.name), f'{prefix}.{f.name}' if prefix else f.name)]
    if isinstance(x, dict):
      return [n for k in sorted(x) for n in rec(x[k], f'{prefix}[{k}]')]
    if isinstance(x, (tuple, list)):
      return [n for i, v in enumerate(x) for n in rec(v, f'{prefix}[{i}]')]
    return [prefix or '<root>']
  names = rec(t, '')
  if len(names) == len(jax.tree_util.tree_leaves(t)):
    return names
  return [jax.tree_util.keystr(p) or '<root>' for p, _ in jax.tree_util.tree_flatten_with_path(t)[0]]


def _f64(t):
  return _jax().tree_util.tree_map(lambda a: np.asarray(a, dtype=np.float64), t)


def _axpy(x, h, v):
  return _jax().tree_util.tree_map(lambda a, b: np.asarray(a) + h * np.asarray(b), x, v)


def _only(t, i):
  jax = _jax()
  leaves, td = jax.tree_util.tree_flatten(t)
  return td.unflatten([np.asarray(l) if k == i else np.zeros_like(np.asarray(l)) for k, l in enumerate(leaves)])


def _absmax(a):
  return float(np.max(np.abs(a))) if a.size else 0.0


def _first_nonfinite(t):
  for name, a in zip(_names(t), _leaves(t)):
    if not np.all(np.isfinite(a)):
      bad = ~np.isfinite(a)
      return {'leaf': name, 'count': int(bad.sum()), 'size': int(a.size),
              'first_index': [int(i) for i in np.argwhere(bad)[0]] if a.ndim else []}
  return None


def _same_structure(a, b):
  jax = _jax()
  la, ta = jax.tree_util.tree_flatten(a)
  lb, tb = jax.tree_util.tree_flatten(b)
  return ta == tb and all(np.shape(p) == np.shape(q) for p, q in zip(la, lb))


# ----------------------------------------------------------------------------
# the engine: three compiled functions per configuration, many triples per compile


class Engine:
  """primal / jvp / vjp of `f` (pytree -> pytree) with state, tangent and cotangent as inputs."""

  def __init__(self, f, jit=True, kink=None, linear=False):
    jax = _jax()
    wrap = jax.jit if jit else (lambda g: g)
    self.F = wrap(f)
    self.JVP = wrap(lambda x, v: jax.jvp(f, (x,), (v,)))
    self.VJP = wrap(lambda x, w: jax.vjp(f, x)[1](w)[0])
    self.kink = kink          # x -> 1-D array of normalised kink arguments (kink at 0), or None
    self.linear = linear


def check_point(eng, x, v, wseed, mode, h):
  """All oracles for one (x, v, w). Returns (failure detail | None, info)."""
  jax = _jax()
  info = {'nontrivial': False, 'fd_tangents': 0, 'fd_skipped': 0, 'kink_hits': 0}
  x, v = _f64(x), _f64(v)
  assert _same_structure(x, v), 'generator bug: tangent structure differs from the state'
  xn = _names(x)
  y = eng.F(x)   # exceptions of the primal are harness errors
  yn = _names(y)
  yl = _leaves(y)
  rng = np.random.default_rng([int(wseed), 11])
  w = jax.tree_util.tree_unflatten(jax.tree_util.tree_structure(y), [rng.standard_normal(a.shape) for a in yl])
  try:
    y2, jv = eng.JVP(x, v)
  except Exception as e:   # pylint: disable=broad-except
    return {'what': 'jax.jvp raised on a differentiable entry point', 'error': repr(e)[:600]}, info
  try:
    wt = eng.VJP(x, w)
  except Exception as e:   # pylint: disable=broad-except
    return {'what': 'jax.vjp raised on a differentiable entry point', 'error': repr(e)[:600]}, info
  # (c) finiteness
  for what, t in (('primal', y), ('jvp', jv), ('vjp', wt)):
    bad = _first_nonfinite(t)
    if bad:
      return dict(what=f'non-finite {what}', mode=mode, **bad), info
  jl, wl, vl, wtl = _leaves(jv), _leaves(w), _leaves(v), _leaves(wt)
  for name, a, b in zip(yn, yl, _leaves(y2)):
    if core.relerr(b, a, scale=max(_absmax(a), 1e-300)) > 1e-11:
      return {'what': 'primal returned by jax.jvp differs from the primal', 'leaf': name,
              'relerr': core.relerr(b, a)}, info
  # (b) adjointness, full pair
  lhs = sum(float(np.vdot(a, b)) for a, b in zip(jl, wl))
  rhs = sum(float(np.vdot(a, b)) for a, b in zip(vl, wtl))
  s_full = max(sum(float(np.sum(np.abs(a) * np.abs(b))) for a, b in zip(jl, wl)),
               sum(float(np.sum(np.abs(a) * np.abs(b))) for a, b in zip(vl, wtl)))
  if abs(lhs - rhs) > RTOL_ADJ * s_full:
    return {'what': '<Jv,w> != <v,J^T w>', 'mode': mode, 'lhs': lhs, 'rhs': rhs, 'scale': s_full,
            'relerr': abs(lhs - rhs) / s_full, 'rtol': RTOL_ADJ}, info
  nz_in = [i for i, a in enumerate(vl) if np.any(a != 0)]
  nz_out = [j for j, a in enumerate(wl) if np.any(a != 0)]
  need_in, need_out = min(2, len(vl)), min(2, len(wl))
  info['nontrivial'] = len(nz_in) >= need_in and len(nz_out) >= need_out and lhs != 0.0
  # blocks: tangent restricted to one input field, cotangent restricted to one output field
  jv_i = {}
  for i in nz_in:
    jv_i[i] = _leaves(eng.JVP(x, _only(v, i))[1]) if len(vl) > 1 else jl
  wt_j = {}
  for j in nz_out:
    wt_j[j] = _leaves(eng.VJP(x, _only(w, j))) if len(wl) > 1 else wtl
  A = np.zeros((len(vl), len(wl)))
  B = np.zeros_like(A)
  S = np.zeros_like(A)
  for i in nz_in:
    for j in nz_out:
      A[i, j] = float(np.vdot(jv_i[i][j], wl[j]))
      B[i, j] = float(np.vdot(vl[i], wt_j[j][i]))
      S[i, j] = max(float(np.sum(np.abs(jv_i[i][j]) * np.abs(wl[j]))),
                    float(np.sum(np.abs(vl[i]) * np.abs(wt_j[j][i]))))
  for t in list(jv_i.values()) + list(wt_j.values()):
    if not all(np.all(np.isfinite(a)) for a in t):
      return {'what': 'non-finite single-field jvp/vjp', 'mode': mode}, info
  if S.size:
    floor = 1e-4 * float(S.max())
    viol = np.abs(A - B) > RTOL_ADJ * np.maximum(S, floor)
    if np.any(viol):
      i, j = [int(k) for k in np.argwhere(viol)[0]]
      return {'what': 'block adjointness <J v_i, w_j> != <v_i, J^T w_j>', 'mode': mode, 'input_field': xn[i],
              'output_field': yn[j], 'lhs': A[i, j], 'rhs': B[i, j], 'scale': float(max(S[i, j], floor)),
              'rtol': RTOL_ADJ}, info
  # linear entry points: J v == f(v)
  if eng.linear:
    fv = _leaves(eng.F(v))
    for name, a, b in zip(yn, jl, fv):
      sc = max(_absmax(a), _absmax(b))
      if core.relerr(a, b, scale=sc) > RTOL_LIN:
        return {'what': 'linear entry point: J v != f(v)', 'leaf': name, 'relerr': core.relerr(a, b, scale=sc)}, info
  if eng.kink is not None:
    a0 = np.asarray(eng.kink(x), dtype=np.float64).ravel()
    info['kink_hits'] = int(np.sum(a0 == 0.0))
    info['kink_margin'] = float(np.min(np.abs(a0))) if a0.size else float('inf')
    info['kink_sides'] = (int(np.sum(a0 > 0)), int(np.sum(a0 < 0)))
  if mode != 'fd':
    on_kink = mode == 'kink' and eng.kink is not None and a0.size and info['kink_hits'] == a0.size
    if getattr(eng, 'kink_fd', False) and on_kink:   # every kink argument exactly zero (state at rest)
      det = _kink_fd_consistency(eng, x, v, jl, yl, yn, h)
      if det is not None:
        det['mode'] = mode
        return det, info
      info['kink_fd_checked'] = 1
    return None, info
  # (a) finite differences
  tangents = [('<all>', v, jl)]
  if len(vl) > 1:
    tangents += [(xn[i], _only(v, i), jv_i[i]) for i in nz_in]
  results = []
  ymag = [_absmax(a) for a in yl]
  for name, t, jt in tangents:
    pts = [_axpy(x, s * hh, t) for hh in (h, 0.5 * h) for s in (1.0, -1.0)]
    if eng.kink is not None and a0.size:
      sg = np.sign(a0)
      if info['kink_margin'] < KINK_DELTA or any(
          np.any(np.sign(np.asarray(eng.kink(p)).ravel()) != sg) for p in pts[:2]):
        info['fd_skipped'] += 1
        continue
    fp, fm, fp2, fm2 = [_leaves(eng.F(p)) for p in pts]
    fd1 = [(a - b) / (2 * h) for a, b in zip(fp, fm)]
    fd2 = [(a - b) / h for a, b in zip(fp2, fm2)]
    rich = [(4 * b - a) / 3 for a, b in zip(fd1, fd2)]
    results.append((name, jt, rich, fd1, fd2))
    info['fd_tangents'] += 1
    for j in range(len(yl)):
      ymag[j] = max(ymag[j], _absmax(fp[j]), _absmax(fm[j]))
  if not results:
    return None, info
  scale = [max(max(_absmax(jt[j]), _absmax(rich[j])) for _, jt, rich, _, _ in results) for j in range(len(yl))]
  # rounding floor of a float64 central difference: eps * |primal| / h (own field, plus 1e-6 of the largest field)
  eps = np.finfo(np.float64).eps
  floor = [100 * eps * (ymag[j] + 1e-6 * max(ymag)) / h for j in range(len(yl))]
  for name, jt, rich, fd1, fd2 in results:
    for j in range(len(yl)):
      # a difference quotient cannot certify more than its own resolution: where D(h) and D(h/2) still differ
      # (truncation not yet in the h^2 regime, or rounding noise of a long multi-step primal) the entry-wise
      # tolerance is widened by twice that difference
      resid = np.abs(np.asarray(jt[j]) - np.asarray(rich[j])) - 2.0 * np.abs(np.asarray(fd1[j]) - np.asarray(fd2[j]))
      top = float(np.max(np.maximum(resid, 0.0))) if np.size(resid) else 0.0
      den = scale[j] + floor[j] / RTOL_FD
      err = (top / den) if den > 0 else (0.0 if top == 0.0 else float('inf'))
      if not np.all(np.isfinite(resid)):
        err = float('inf')
      if not err <= RTOL_FD:
        idx = core.argmax_index(jt[j], rich[j])
        return {'what': 'jvp differs from the central finite difference', 'tangent_field': name,
                'output_field': yn[j], 'relerr': err, 'rtol': RTOL_FD, 'scale': scale[j], 'rounding_floor': floor[j], 'index': idx,
                'jvp': float(jt[j][tuple(idx)]) if jt[j].ndim else float(jt[j]),
                'fd_richardson': float(rich[j][tuple(idx)]) if jt[j].ndim else float(rich[j]),
                'fd_h': float(fd1[j][tuple(idx)]) if jt[j].ndim else float(fd1[j]),
                'fd_h/2': float(fd2[j][tuple(idx)]) if jt[j].ndim else float(fd2[j]), 'h': h}, info
  return None, info


def _kink_fd_consistency(eng, x, v, jl, yl, yn, h):
  """Exactly on a maximum/minimum-type kink (upwind velocity sign, Held-Suarez temperature floor) the code's
  derivative convention (jnp.maximum / jnp.minimum: 1/2 at a tie) coincides with the limit of the *central* finite
  difference, which is what the property states. The central difference converges only like O(h) there, so the
  comparison is made against the difference quotient's own convergence: with D(4h), D(2h), D(h),
  |Jv - D(h)| <= 2 max(|D(4h)-D(2h)|, |D(2h)-D(h)|) + rounding floor + 1e-6 scale, entry by entry
  (for an error c h^p, p >= 1, the left side is at most the bracket). Interpolation-node kinks are not checked this
  way: jnp.interp documents a one-sided convention there."""
  D = []
  ymag = [_absmax(a) for a in yl]
  for hh in (4 * h, 2 * h, h):
    fp = _leaves(eng.F(_axpy(x, hh, v)))
    fm = _leaves(eng.F(_axpy(x, -hh, v)))
    D.append([(a - b) / (2 * hh) for a, b in zip(fp, fm)])
    ymag = [max(m, _absmax(a), _absmax(b)) for m, a, b in zip(ymag, fp, fm)]
  eps = np.finfo(np.float64).eps
  for j, name in enumerate(yn):
    d1 = np.abs(D[0][j] - D[1][j])
    d2 = np.abs(D[1][j] - D[2][j])
    scale = max(_absmax(jl[j]), _absmax(D[2][j]))
    floor = 100 * eps * (ymag[j] + 1e-6 * max(ymag)) / h
    tol = 2 * np.maximum(d1, d2) + floor + 1e-6 * scale
    err = np.abs(np.asarray(jl[j]) - D[2][j])
    if np.any(err > tol):
      idx = [int(i) for i in np.unravel_index(int(np.argmax(err - tol)), err.shape)] if err.ndim else []
      pick = (lambda a: float(a[tuple(idx)]) if np.ndim(a) else float(a))   # noqa: E731
      return {'what': 'on a max/min kink the jvp differs from the central finite difference beyond the difference '
                      "quotient's own convergence", 'output_field': name, 'index': idx,
              'jvp': pick(np.asarray(jl[j])), 'fd_4h': pick(D[0][j]), 'fd_2h': pick(D[1][j]), 'fd_h': pick(D[2][j]),
              'tolerance': pick(tol), 'h': h, 'scale': scale}
  return None


class Ctx:
  """What a sub-check needs for one configuration (cached per canonical cfg)."""

  def __init__(self, eng, make_x, make_v, kink_x=None, labels=(), admissible=None):
    self.eng, self.make_x, self.make_v, self.kink_x = eng, make_x, make_v, kink_x
    self.labels = list(labels)
    self.admissible = admissible   # x -> bool (preconditions that depend on the state), or None


def run_entry(case, build):
  ctx = build(core.canon(case['cfg']))
  out = Outcome(labels=list(ctx.labels), units=0, nontrivial=False)
  labs = set()
  n_nt = n_fd = n_kink = 0
  for k, inp in enumerate(case['inputs']):
    mode = inp.get('mode', 'fd')
    if mode == 'kink' and ctx.kink_x is None:
      mode = 'fd'
    x = ctx.kink_x(inp) if mode == 'kink' else ctx.make_x(inp, 0)
    v = ctx.make_v(inp)
    if ctx.admissible is not None and not ctx.admissible(x):
      labs.add('input_outside_domain_skipped')
      continue
    if mode == 'fd' and ctx.eng.kink is not None:
      nudges = 0
      while nudges < MAX_NUDGES:
        a0 = np.asarray(ctx.eng.kink(x)).ravel()
        if a0.size == 0 or float(np.min(np.abs(a0))) >= KINK_DELTA:
          break
        nudges += 1
        x = ctx.make_x(inp, nudges)
      if nudges:
        labs.add('nudged_away_from_kink')
      if nudges == MAX_NUDGES:
        mode = 'nofd'
        labs.add('no_margin_found:finite+adjoint_only')
    detail, info = check_point(ctx.eng, x, v, inp.get('wseed', 0), mode, float(inp.get('h', 1e-5)))
    out.units += 1
    n_nt += bool(info['nontrivial'])
    if mode == 'fd' and info['fd_tangents']:
      n_fd += 1
      labs.add('mode=fd')
      if ctx.eng.kink is not None:
        labs.add('fd_at_least_delta_from_kink')
        if min(info.get('kink_sides', (1, 1))) > 0:
          labs.add('kink_args_on_both_sides')
    if info['fd_skipped']:
      labs.add('fd_tangent_skipped_straddles_kink')
    if mode == 'kink':
      n_kink += 1
      labs.add('mode=kink')
      labs.add('kink_exact_hits>0' if info['kink_hits'] else 'kink_exact_hits=0')
    if detail is not None:
      detail['input_index'] = k
      out.labels = list(out.labels) + sorted(labs)
      return out.fail(**detail)
  out.nontrivial = n_nt >= 1
  out.labels = list(out.labels) + sorted(labs) + [f'fd_points={min(n_fd, 6)}']
  return out


def run_family(case, key, build):
  """Runs `run_entry` for every entry point listed in cfg[key + 's'] with otherwise identical configuration/inputs."""
  cfg = dict(case['cfg'])
  names = cfg.pop(key + 's')
  total = Outcome(labels=[], units=0, nontrivial=True)
  labs = []
  for name in names:
    out = run_entry({'cfg': dict(cfg, **{key: name}), 'inputs': case['inputs']}, build)
    total.units += out.units
    labs += [l for l in out.labels if l not in labs]
    total.nontrivial = total.nontrivial and out.nontrivial
    if not out.ok:
      total.labels = labs
      return total.fail(**dict(out.detail, **{key: name}))
  total.labels = labs
  return total


# ----------------------------------------------------------------------------
# input descriptions


def _pick(options):
  """Near-uniform choice (a 16-bit integer modulo the number of options); shrinks towards the first option."""
  options = list(options)
  return st.integers(0, 2 ** 16 - 1).map(lambda i: options[i % len(options)])


@st.composite
def _descr(draw, fields, n_levels, M, L, tangent=False):
  d = {'sparse': draw(gens.sparse_entries(fields, n_levels, M, L, L - 1, max_entries=3))}
  # states shrink towards the rest state + sparse entries, tangents towards seeded noise (so that the minimal
  # example Hypothesis always starts with is already a non-trivial derivative check)
  amps = [1.0, 0.0, 1.0, 1.0, 0.3, 3.0] if tangent else [0.0, 1.0, 1.0, 1.0, 0.3, 3.0]
  d['noise_amp'] = draw(st.sampled_from(amps))
  d['noise_seed'] = draw(st.integers(0, 2 ** 16))
  d['slope'] = draw(st.sampled_from([0, 0, 1, 2]))
  return d


@st.composite
def _triples(draw, tier, fields, n_levels, M, L, kinky=False, hs=(1e-5, 3e-5)):
  lo, hi = (2, 5) if tier == 'quick' else (4, 16)
  n = draw(st.integers(lo, hi))
  out = []
  for _ in range(n):
    t = {'x': draw(_descr(fields, n_levels, M, L)), 'v': draw(_descr(fields, n_levels, M, L, tangent=True)),
         'wseed': draw(st.integers(0, 2 ** 16)), 'amp': draw(st.sampled_from([1.0, 1.0, 0.1, 10.0])),
         'h': draw(st.sampled_from(list(hs)))}
    t['mode'] = draw(st.sampled_from(['fd', 'fd', 'kink'])) if kinky else 'fd'
    out.append(t)
  if kinky and out and not any(t['mode'] == 'kink' for t in out):
    out[-1]['mode'] = 'kink'    # every configuration of a kinky entry point also sits exactly on the kink once
  if kinky and out and not any(t['mode'] == 'fd' for t in out):
    out[0]['mode'] = 'fd'
  return out


def _dyn_grid(tier, min_m=3):
  max_m = 6 if tier == 'quick' else 10
  return st.sampled_from(['vector', 'vector', 'scalar', 'quadratic']).flatmap(
      lambda kind: gens.grid_configs(kind=kind, max_m=max_m if kind != 'quadratic' else min(max_m, 5), min_m=min_m,
                                     spacings=('gauss', 'gauss', 'equiangular'), allow_radius=False, max_slack=3))


def _levels(tier, lo=1):
  return gens.sigma_boundaries(lo, 3 if tier == 'quick' else 6)


_AMP = {'vorticity': 1e-2, 'divergence': 1e-2, 'temperature_variation': 5.0, 'log_surface_pressure': 0.05,
        'potential': 1e-2, 'q': 1e-2, 'specific_humidity': 1e-2, 'specific_cloud_liquid_water_content': 2e-3,
        'specific_cloud_ice_water_content': 2e-3}
_PE_FIELDS = ('vorticity', 'divergence', 'temperature_variation', 'log_surface_pressure')
_SW_FIELDS = ('vorticity', 'divergence', 'potential')


def _shift(descr, k):
  """A different but related input description (used to nudge a state away from a kink)."""
  if not k:
    return descr
  d = dict(descr)
  d['noise_seed'] = int(descr.get('noise_seed', 0)) + 7919 * k
  d['noise_amp'] = max(float(descr.get('noise_amp', 0.0)), 0.3)
  return d


def pe_state(grid, n, descr, amp, tracers=(), with_time=False, tangent=False, lnps00=0.0, nudge=0, sim_time=0.25):
  from dinosaur import primitive_equations as pe
  base = descr

  def fld(name, prefix, zero_mean=False):
    a = gens.modal_field(grid, prefix, base, name, None, zero_mean and not tangent, _AMP[name] * amp)
    if nudge:
      a = a + 0.2 * gens.modal_field(grid, prefix, _shift(base, nudge), name, None, zero_mean, _AMP[name] * amp)
    return a
  lsp = fld('log_surface_pressure', (1,))
  if lnps00 and not tangent:
    lsp[0, 0, 0] += lnps00
  kw = dict(vorticity=fld('vorticity', (n,), True), divergence=fld('divergence', (n,), True),
            temperature_variation=fld('temperature_variation', (n,)), log_surface_pressure=lsp,
            tracers={t: fld(t, (n,)) for t in tracers})
  if with_time:
    return pe.StateWithTime(sim_time=np.float64(1.0 if tangent else sim_time), **kw)
  return pe.State(**kw)


def sw_state(grid, n, descr, amp, tangent=False):
  from dinosaur import shallow_water as sw
  f = lambda name, zm: gens.modal_field(grid, (n,), descr, name, None, zm and not tangent, _AMP[name] * amp)  # noqa: E731
  return sw.State(f('vorticity', True), f('divergence', True), f('potential', False))


def _cfg_rng(cfg, tag):
  return np.random.default_rng([int(cfg.get('pseed', 0)), tag])


# ----------------------------------------------------------------------------
# A. transforms and spectral operators


_TRANSFORM_OPS = ('to_nodal', 'to_modal', 'product', 'uv', 'vordiv', 'modal_ops')


@st.composite
def _transform_case(draw, tier):
  poles_ok = draw(st.sampled_from([False, False, True]))
  g = draw(gens.grid_configs(kind=draw(st.sampled_from(['scalar', 'vector'])) if poles_ok else 'vector',
                             max_m=6 if tier == 'quick' else 12, min_m=1,
                             spacings=gens.SPACINGS if poles_ok else ('gauss', 'equiangular'), max_slack=3))
  if g['radius'] is not None and not (0.1 <= g['radius'] <= 100):
    g['radius'] = 2.5
  cfg = {'grid': g, 'ops': list(_TRANSFORM_OPS[:3] if poles_ok else _TRANSFORM_OPS), 'levels': draw(st.integers(1, 3))}
  return {'cfg': cfg, 'inputs': draw(_triples(tier, ('a', 'b'), cfg['levels'], g['M'], g['L']))}


@functools.lru_cache(maxsize=16)
def _transform_ctx(cfg_s):
  import json
  from dinosaur import spherical_harmonic as sh
  cfg = json.loads(cfg_s)
  grid = gens.build_grid(cfg['grid'])
  op, n = cfg['op'], cfg['levels']
  nodal_in = op in ('to_modal', 'vordiv')
  if op == 'to_nodal':
    f, linear = grid.to_nodal, True
  elif op == 'to_modal':
    f, linear = grid.to_modal, True
  elif op == 'product':
    f = lambda d: {'ab': grid.to_modal(grid.to_nodal(d['a']) * grid.to_nodal(d['b'])),   # noqa: E731
                   'aa': grid.to_modal(grid.to_nodal(d['a']) ** 2)}
    linear = False
  elif op == 'uv':
    f = lambda d: dict(zip('uv', sh.vor_div_to_uv_nodal(grid, d['a'], d['b'][None] * np.ones((n, 1, 1)))))   # noqa: E731
    linear = True
  elif op == 'vordiv':
    f = lambda d: dict(zip(('vor', 'div'), sh.uv_nodal_to_vor_div_modal(grid, d['a'], d['b'][None] * np.ones((n, 1, 1)))))   # noqa: E731
    linear = True
  else:
    def f(d):
      g0, g1 = grid.cos_lat_grad(d['b'])
      return {'lap': grid.laplacian(d['a']), 'ilap': grid.inverse_laplacian(d['a']), 'grad0': g0, 'grad1': g1,
              'div': grid.div_cos_lat((d['a'], d['b'][None])), 'curl': grid.curl_cos_lat((d['b'][None], d['a'])),
              'dlon': grid.d_dlon(d['b']), 'clip': grid.clip_wavenumbers(d['a'])}
    linear = True

  def mk(descr, amp):
    if nodal_in:
      rng = np.random.default_rng([int(descr['noise_seed']), 5])
      a = rng.standard_normal((n,) + grid.nodal_shape) * descr['noise_amp']
      b = rng.standard_normal(grid.nodal_shape) * descr['noise_amp']
      for _, lev, m, l, amp_s in descr['sparse']:   # sparse nodal entries: (lev, m, l) reused as (level, lon, lat)
        a[min(lev, n - 1), abs(m) % grid.nodal_shape[0], l % grid.nodal_shape[1]] += amp_s
        b[abs(m) % grid.nodal_shape[0], l % grid.nodal_shape[1]] += amp_s
      return {'a': a * amp, 'b': b * amp}
    return {'a': gens.modal_field(grid, (n,), descr, 'a', None, False, amp),
            'b': gens.modal_field(grid, (), descr, 'b', None, False, amp)}
  eng = Engine(f, linear=linear)
  return Ctx(eng, lambda inp, k: mk(_shift(inp['x'], k), inp['amp']), lambda inp: mk(inp['v'], 1.0),
             labels=[f'op={op}'] + gens.grid_labels(cfg['grid']))


def run_transforms(case):
  return run_family(case, 'op', _transform_ctx)


# ----------------------------------------------------------------------------
# B. filters


_FILTER_KINDS = ('exponential', 'exponential_array', 'diffusion', 'diffusion_array', 'exp_step', 'diffusion_step',
                 'exp_leapfrog_step', 'robert_asselin')


@st.composite
def _filter_case(draw, tier):
  g = draw(_dyn_grid(tier, min_m=2))   # L = 1 has no wavenumber to normalise by (filters are C15's subject)
  n = draw(st.integers(1, 3))
  cfg = {'grid': g, 'kinds': list(_FILTER_KINDS), 'levels': n, 'order': draw(st.integers(1, 6)),
         'cutoff': draw(st.sampled_from([0.0, 0.0, 0.3, 0.6])), 'strength': draw(st.sampled_from([16.0, 2.0, 0.3])),
         'r': draw(st.sampled_from([0.05, 0.2])), 'dt': draw(st.sampled_from([0.01, 0.1]))}
  return {'cfg': cfg, 'inputs': draw(_triples(tier, _PE_FIELDS, n, g['M'], g['L']))}


@functools.lru_cache(maxsize=16)
def _filter_ctx(cfg_s):
  import json
  from dinosaur import filtering, time_integration as ti
  cfg = json.loads(cfg_s)
  grid = gens.build_grid(cfg['grid'])
  n, kind, order = cfg['levels'], cfg['kind'], cfg['order']
  tracers = ('q',)
  pair = kind in ('exp_step', 'diffusion_step', 'exp_leapfrog_step', 'robert_asselin')
  leap = kind in ('exp_leapfrog_step', 'robert_asselin')
  with_param = kind in ('exponential', 'exponential_array', 'diffusion', 'diffusion_array')
  pshape = (n, 1, 1) if kind.endswith('_array') else ()
  eig = float(np.abs(grid.laplacian_eigenvalues).max())

  def f(inp):
    if kind in ('exponential', 'exponential_array'):
      return filtering.exponential_filter(grid, inp['strength'], order, cfg['cutoff'])(inp['state'])
    if kind in ('diffusion', 'diffusion_array'):
      return filtering.horizontal_diffusion_filter(grid, inp['strength'] / eig ** min(order, 2), min(order, 2))(inp['state'])
    if kind == 'exp_step':
      flt = ti.exponential_step_filter(grid, cfg['dt'], tau=cfg['dt'] / cfg['strength'], order=order, cutoff=cfg['cutoff'])
    elif kind == 'diffusion_step':
      flt = ti.horizontal_diffusion_step_filter(grid, cfg['dt'], tau=cfg['dt'] / cfg['strength'], order=min(order, 2))
    elif kind == 'exp_leapfrog_step':
      flt = ti.exponential_leapfrog_step_filter(grid, cfg['dt'], tau=cfg['dt'] / cfg['strength'], order=order,
                                                cutoff=cfg['cutoff'])
    else:
      flt = ti.robert_asselin_leapfrog_filter(cfg['r'])
    return flt(inp['u'], inp['u_next'])

  def mk(inp, which, k=0):
    tangent = which == 'v'
    d = _shift(inp[which], k)
    amp = 1.0 if tangent else inp['amp']
    st_ = lambda s: pe_state(grid, n, dict(d, noise_seed=d['noise_seed'] + s), amp, tracers, True, tangent)   # noqa: E731
    if pair:
      if leap:
        return {'u': (st_(0), st_(1)), 'u_next': (st_(2), st_(3))}
      return {'u': st_(0), 'u_next': st_(1)}
    out = {'state': st_(0)}
    if with_param:
      rng = np.random.default_rng([int(d['noise_seed']), 3])
      out['strength'] = (rng.standard_normal(pshape) if tangent
                         else cfg['strength'] * (1 + 0.5 * rng.random(pshape)))
    return out
  eng = Engine(f, linear=not with_param)
  return Ctx(eng, lambda inp, k: mk(inp, 'x', k), lambda inp: mk(inp, 'v'),
             labels=[f'filter={kind}', f'order={min(order, 3)}{"+" if order > 3 else ""}',
                     'cutoff>0' if cfg['cutoff'] else 'cutoff=0'] + gens.grid_labels(cfg['grid']))


def run_filters(case):
  return run_family(case, 'kind', _filter_ctx)


# ----------------------------------------------------------------------------
# C-H. tendencies: primitive equations (dry, moist, cloud, upwind), implicit terms / solves, shallow water,
#      Held-Suarez


_CLOUD = ('specific_humidity', 'specific_cloud_liquid_water_content', 'specific_cloud_ice_water_content')


def _pe_objects(cfg):
  """grid, coords, specs, reference temperature, orography for a PE configuration."""
  from dinosaur import coordinate_systems as cs, primitive_equations as pe
  grid = gens.build_grid(cfg['grid'])
  vert = gens.build_sigma(cfg['boundaries'])
  coords = cs.CoordinateSystem(grid, vert)
  specs = pe.PrimitiveEquationsSpecs.from_si()
  rng = _cfg_rng(cfg, 1)
  tref = 220.0 + 80.0 * rng.random(vert.layers)
  oro = rng.standard_normal(grid.modal_shape) * grid.mask * 1e-3
  return grid, coords, specs, tref, oro


def _pe_equation(cfg, kind, coords, specs, tref, oro):
  from dinosaur import primitive_equations as pe, sigma_coordinates as sc, time_integration as ti, held_suarez
  kw = {}
  if cfg.get('matmul'):
    kw['vertical_matmul_method'] = cfg['matmul']
  if kind == 'dry':
    return pe.PrimitiveEquations(tref, oro, coords, specs, **kw), ('q',), False
  if kind == 'dry_no_vadv':
    return pe.PrimitiveEquations(tref, oro, coords, specs, include_vertical_advection=False, **kw), ('q',), False
  if kind == 'dry_upwind':
    return pe.PrimitiveEquations(tref, oro, coords, specs, vertical_advection=sc.upwind_vertical_advection, **kw), ('q',), False
  if kind == 'dry_time':
    return pe.PrimitiveEquationsWithTime(tref, oro, coords, specs, **kw), ('q',), True
  if kind == 'moist':
    return pe.MoistPrimitiveEquations(tref, oro, coords, specs, **kw), ('specific_humidity',), True
  if kind == 'cloud':
    return pe.MoistPrimitiveEquationsWithCloudMoisture(tref, oro, coords, specs, **kw), _CLOUD, True
  if kind == 'reversed':
    return ti.TimeReversedImExODE(pe.PrimitiveEquations(tref, oro, coords, specs, **kw)), ('q',), False
  if kind == 'dry_hs':
    eq = pe.PrimitiveEquations(tref, oro, coords, specs, **kw)
    hs = _hs_forcing(cfg, coords, specs, tref)
    return ti.compose_equations([eq, hs]), (), False
  raise ValueError(kind)


def _hs_forcing(cfg, coords, specs, tref, min_t=None):
  from dinosaur import held_suarez, scales
  u = scales.units
  hs = held_suarez.HeldSuarezForcing(coords, specs, tref, sigma_b=cfg.get('sigma_b', 0.7),
                                     minT=cfg.get('minT', 200.0) * u.degK)
  if min_t is not None:
    hs.minT = min_t
  return hs


def _lnps00(specs):
  from dinosaur import scales
  return float(np.log(specs.nondimensionalize(1e5 * scales.units.pascal)) * np.sqrt(4 * np.pi))


@st.composite
def _pe_terms_case(draw, tier, kinds, terms, kinky=False, min_levels=1):
  g = draw(_dyn_grid(tier))
  b = draw(_levels(tier, min_levels))
  kind = draw(_pick(kinds))
  term = draw(_pick(terms))
  cfg = {'grid': g, 'boundaries': b, 'kind': kind, 'term': term, 'pseed': draw(st.integers(0, 999))}
  if term == 'implicit_inverse':
    cfg['eta'] = draw(st.sampled_from([0.01, 0.1, -0.05, 1.0]))
    cfg['method'] = draw(st.sampled_from(['split', 'stacked', 'blockwise']))
  if term in ('implicit_terms', 'implicit_inverse'):
    cfg['matmul'] = draw(st.sampled_from([None, 'dense', 'sparse']))
  tr = {'dry': ('q',), 'dry_no_vadv': ('q',), 'dry_upwind': ('q',), 'dry_time': ('q',), 'moist': ('specific_humidity',),
        'cloud': _CLOUD, 'reversed': ('q',)}[kind]
  return {'cfg': cfg, 'inputs': draw(_triples(tier, _PE_FIELDS + tr, len(b) - 1, g['M'], g['L'], kinky=kinky))}


def _flat_state(descr):
  """Description of a state with zero divergence and uniform surface pressure (sigma_dot == 0 everywhere)."""
  d = dict(descr)
  d['sparse'] = [e for e in descr.get('sparse', []) if e[0] not in ('divergence', 'log_surface_pressure')]
  return d


def _zero_fields(state, names, keep00=('log_surface_pressure',)):
  kw = {}
  for nme in names:
    a = np.zeros_like(np.asarray(getattr(state, nme)))
    if nme in keep00:
      a[..., 0, 0] = np.asarray(getattr(state, nme))[..., 0, 0] + 0.1
    kw[nme] = a
  return state.replace(**kw)


@functools.lru_cache(maxsize=4)
def _pe_terms_ctx(cfg_s):
  import json
  import jax
  from dinosaur import primitive_equations as pe
  cfg = json.loads(cfg_s)
  grid, coords, specs, tref, oro = _pe_objects(cfg)
  n = coords.vertical.layers
  eq, tracers, with_time = _pe_equation(cfg, cfg['kind'], coords, specs, tref, oro)
  term = cfg['term']
  kink = None
  if term == 'explicit_terms':
    f, linear = eq.explicit_terms, False
    if cfg['kind'] == 'dry_upwind' and n >= 2:
      def kink_raw(x):
        # both velocities that go through maximum/minimum(w, 0): sigma_dot_full (all advected fields) and
        # sigma_dot_explicit (advection of the reference temperature profile)
        s = pe.State(x.vorticity, x.divergence, x.temperature_variation, x.log_surface_pressure)
        d = pe.compute_diagnostic_state(s, coords)
        return d.sigma_dot_full, d.sigma_dot_explicit
      kink_j = jax.jit(kink_raw)

      def kink(x):
        out = []
        for a in kink_j(x):
          a = np.asarray(a).ravel()
          m = float(np.max(np.abs(a))) if a.size else 0.0
          out.append(a / m if m > 0 else a)
        return np.concatenate(out)
  elif term == 'implicit_terms':
    f, linear = eq.implicit_terms, True
  else:
    eta = float(cfg['eta'])
    if cfg['kind'] in ('dry', 'dry_no_vadv', 'dry_upwind'):
      f = lambda s: eq.implicit_inverse(s, eta, method=cfg['method'])   # noqa: E731
    else:
      f = lambda s: eq.implicit_inverse(s, eta)   # noqa: E731
    linear = True
  eng = Engine(f, kink=kink, linear=linear)
  eng.kink_fd = kink is not None   # upwind: maximum/minimum(w, 0) kinks -> central-FD consistency also on the kink
  mk = lambda d, amp, tangent, k=0: pe_state(grid, n, d, amp, tracers, with_time, tangent, nudge=k)   # noqa: E731

  def kink_x(inp):
    x = mk(_flat_state(inp['x']), inp['amp'], False)
    return _zero_fields(x, ('divergence', 'log_surface_pressure'))
  labels = [f"eq={cfg['kind']}", f'term={term}'] + gens.grid_labels(cfg['grid']) + gens.sigma_labels(cfg['boundaries'])
  if term == 'implicit_inverse':
    labels += [f"method={cfg['method']}", f"matmul={cfg.get('matmul')}", 'eta<0' if cfg['eta'] < 0 else 'eta>0']
  return Ctx(eng, lambda inp, k: mk(inp['x'], inp['amp'], False, k), lambda inp: mk(inp['v'], 1.0, True),
             kink_x=kink_x if kink is not None else None, labels=labels)


def run_pe_terms(case):
  return run_entry(case, _pe_terms_ctx)


# shallow water ------------------------------------------------------------


@st.composite
def _sw_terms_case(draw, tier):
  g = draw(_dyn_grid(tier))
  n = draw(st.integers(1, 3))
  cfg = {'grid': g, 'layers': n, 'term': draw(st.sampled_from(['explicit_terms', 'explicit_terms', 'implicit_terms',
                                                                 'implicit_inverse'])),
         'eta': draw(st.sampled_from([0.01, 0.1, -0.05, 1.0])), 'pseed': draw(st.integers(0, 999)),
         'orography': draw(st.booleans())}
  return {'cfg': cfg, 'inputs': draw(_triples(tier, _SW_FIELDS, n, g['M'], g['L']))}


def _sw_objects(cfg):
  from dinosaur import coordinate_systems as cs, layer_coordinates as lc, shallow_water as sw, scales
  grid = gens.build_grid(cfg['grid'])
  n = cfg['layers']
  coords = cs.CoordinateSystem(grid, lc.LayerCoordinates(n))
  rng = _cfg_rng(cfg, 2)
  dens = np.sort(1.0 - 0.3 * rng.random(n))
  dens[-1] = 1.0
  specs = sw.ShallowWaterSpecs.from_si(dens * scales.WATER_DENSITY)
  ref = 0.05 + 0.3 * rng.random(n)
  oro = rng.standard_normal(grid.modal_shape) * grid.mask * 1e-2 if cfg.get('orography') else None
  return grid, coords, specs, ref, oro


@functools.lru_cache(maxsize=4)
def _sw_terms_ctx(cfg_s):
  import json
  from dinosaur import shallow_water as sw
  cfg = json.loads(cfg_s)
  grid, coords, specs, ref, oro = _sw_objects(cfg)
  n = cfg['layers']
  eq = sw.ShallowWaterEquations(coords, specs, oro, ref)
  term = cfg['term']
  if term == 'explicit_terms':
    f, linear = eq.explicit_terms, False
  elif term == 'implicit_terms':
    f, linear = eq.implicit_terms, True
  else:
    f, linear = (lambda s: eq.implicit_inverse(s, float(cfg['eta']))), True
  eng = Engine(f, linear=linear)
  return Ctx(eng, lambda inp, k: sw_state(grid, n, _shift(inp['x'], k), inp['amp']),
             lambda inp: sw_state(grid, n, inp['v'], 1.0, True),
             labels=['eq=shallow_water', f'term={term}', f'layers={n}', 'orography' if oro is not None else 'flat']
             + gens.grid_labels(cfg['grid']))


def run_sw_terms(case):
  return run_entry(case, _sw_terms_ctx)


# Held-Suarez ---------------------------------------------------------------


@st.composite
def _hs_case(draw, tier):
  g = draw(_dyn_grid(tier))
  b = draw(_levels(tier, 2))
  cfg = {'grid': g, 'boundaries': b, 'pseed': draw(st.integers(0, 999)),
         'sigma_b': draw(st.sampled_from([0.7, 0.7, 0.4])), 'minT': draw(st.sampled_from([200.0, 200.0, 230.0, 260.0]))}
  inputs = draw(_triples(tier, _PE_FIELDS, len(b) - 1, g['M'], g['L'], kinky=True))
  for t in inputs:
    t['node'] = draw(st.integers(0, 10 ** 6))
  return {'cfg': cfg, 'inputs': inputs}


class _HS:
  """Held-Suarez forcing of one configuration; the on-kink part runs un-jitted so that an exact tie can be built."""

  def __init__(self, cfg):
    self.cfg = cfg
    self.grid, self.coords, self.specs, self.tref, _ = _pe_objects(cfg)
    self.n = self.coords.vertical.layers
    self.lnps00 = _lnps00(self.specs)
    self.hs = _hs_forcing(cfg, self.coords, self.specs, self.tref)
    # lower bound 0 K never clips (the radiative-equilibrium temperature is positive): the code's own formula
    self.free = _hs_forcing(cfg, self.coords, self.specs, self.tref, min_t=0.0)

  def _ps(self, x):
    import jax.numpy as jnp
    return jnp.exp(self.grid.to_nodal(x.log_surface_pressure))

  def temperature(self, x):
    """Unclipped radiative-equilibrium temperature at every node, evaluated by the code's own formula."""
    return np.asarray(self.free.equilibrium_temperature(self._ps(x)))

  def state(self, descr, amp, tangent=False, nudge=0):
    return pe_state(self.grid, self.n, descr, amp, (), False, tangent, lnps00=self.lnps00, nudge=nudge)

  def tie(self, x, idx):
    """A forcing whose lower bound equals, bit for bit, the temperature the code computes at node `idx`.

    Fixed-point iteration m <- T_eq(m)[idx] (op-by-op, so that the same primitives with the same inputs are used by
    the derivative evaluation); the tie is confirmed by lowering the bound by one ulp, which must un-clip the node.
    """
    ps = self._ps(x)
    hs = _hs_forcing(self.cfg, self.coords, self.specs, self.tref, min_t=0.0)
    m = 0.0
    for _ in range(8):
      hs.minT = m
      got = float(np.asarray(hs.equilibrium_temperature(ps))[idx])
      if got == m:
        break
      m = got
    below = float(np.nextafter(m, -np.inf))
    hs.minT = below
    exact = float(np.asarray(hs.equilibrium_temperature(ps))[idx]) > below
    hs.minT = m
    return hs, m, bool(exact)


@functools.lru_cache(maxsize=4)
def _hs_obj(cfg_s):
  import json
  return _HS(json.loads(cfg_s))


def run_held_suarez(case):
  """Away from the kink: jitted, full oracle set. On the kink: op-by-op with minT set to the value the code itself
  computes at a drawn node (exact tie of `maximum(minT, T)`), finiteness and adjointness only."""
  cfg_s = core.canon(case['cfg'])
  H = _hs_obj(cfg_s)
  min_t = float(H.hs.minT)
  span = 50.0

  def kink(x):
    return ((H.temperature(x) - min_t) / span).ravel()
  eng = _hs_engine(cfg_s)
  eng.kink = kink
  ctx = Ctx(eng, lambda inp, k: H.state(inp['x'], inp['amp'], nudge=k), lambda inp: H.state(inp['v'], 1.0, True),
            labels=[f"minT={case['cfg']['minT']}", f"sigma_b={case['cfg']['sigma_b']}"]
            + gens.grid_labels(case['cfg']['grid']) + gens.sigma_labels(case['cfg']['boundaries']))
  fd_inputs = [i for i in case['inputs'] if i.get('mode', 'fd') != 'kink']
  out = run_entry({'cfg': case['cfg'], 'inputs': fd_inputs}, lambda _: ctx) if fd_inputs else Outcome(
      labels=list(ctx.labels), units=0, nontrivial=False)
  if not out.ok:
    return out
  labs = set(out.labels)
  for k, inp in enumerate(case['inputs']):
    if inp.get('mode', 'fd') != 'kink':
      continue
    x = H.state(inp['x'], inp['amp'])
    T = H.temperature(x)
    idx = tuple(int(i) for i in np.unravel_index(int(inp.get('node', 0)) % T.size, T.shape))
    hs_tie, m, exact = H.tie(x, idx)
    e2 = Engine(hs_tie.explicit_terms, jit=False, kink=lambda s, m=m: ((H.temperature(s) - m) / span).ravel())
    # no central-FD consistency here (e2.kink_fd stays False): an exact floating-point tie of maximum(minT, T_eq)
    # is not reproducible between the primal and the jvp evaluation (T_eq ends a rounding above or below minT),
    # so the jvp legitimately equals one of the one-sided derivatives; only finiteness and adjointness are claimed
    detail, info = check_point(e2, x, H.state(inp['v'], 1.0, True), inp.get('wseed', 0), 'kink', 1e-5)
    out.units += 1
    labs.add('mode=kink')
    labs.add('kink_exact_hits>0' if exact else 'kink_exact_hits=0')
    if min(info.get('kink_sides', (0, 0))) > 0:
      labs.add('kink_args_on_both_sides')
    out.nontrivial = out.nontrivial or info['nontrivial']
    if detail is not None:
      detail['input_index'] = k
      detail['tie_node'] = list(idx)
      detail['tie_is_exact'] = exact
      out.labels = sorted(labs)
      return out.fail(**detail)
  out.labels = sorted(labs)
  return out


@functools.lru_cache(maxsize=4)
def _hs_engine(cfg_s):
  return Engine(_hs_obj(cfg_s).hs.explicit_terms)


# ----------------------------------------------------------------------------
# I. one and k steps of every integrator, with filters


_INTEGRATORS = ('backward_forward_euler', 'crank_nicolson_rk2', 'crank_nicolson_rk3', 'crank_nicolson_rk4',
                'imex_rk_sil3', 'semi_implicit_leapfrog')
_EQ_TRACERS = {'dry': ('q',), 'dry_time': ('q',), 'moist': ('specific_humidity',), 'cloud': _CLOUD, 'reversed': ('q',),
               'dry_hs': (), 'dry_no_vadv': ('q',)}


@st.composite
def _pattern(draw):
  kind = draw(st.sampled_from(['single', 'single', 'repeated', 'trajectory', 'trajectory']))
  if kind == 'single':
    return {'kind': 'single'}
  if kind == 'repeated':
    return {'kind': 'repeated', 'k': draw(st.integers(2, 3)), 'nested': draw(st.booleans())}
  outer, inner = draw(st.sampled_from([(2, 1), (2, 2), (4, 1), (1, 3), (3, 1)]))
  return {'kind': 'trajectory', 'outer': outer, 'inner': inner, 'swi': draw(st.booleans()),
          'nested': draw(st.booleans())}


@st.composite
def _step_case(draw, tier, integrator):
  leap = integrator == 'semi_implicit_leapfrog'
  eq = draw(_pick(['dry', 'moist', 'sw', 'dry_hs', 'cloud', 'dry_time', 'reversed', 'sw']))
  g = draw(_dyn_grid(tier))
  cfg = {'grid': g, 'integrator': integrator, 'eq': eq, 'dt': draw(st.sampled_from([0.01, 0.05, 0.2])),
         'pseed': draw(st.integers(0, 999)), 'pattern': draw(_pattern())}
  if eq == 'sw':
    cfg['layers'] = draw(st.integers(1, 2))
    cfg['orography'] = draw(st.booleans())
    n, fields = cfg['layers'], _SW_FIELDS
  else:
    cfg['boundaries'] = draw(_levels(tier, 2 if eq == 'dry_hs' else 1))
    n, fields = len(cfg['boundaries']) - 1, _PE_FIELDS + _EQ_TRACERS[eq]
  if eq == 'dry_hs':
    cfg['minT'] = draw(st.sampled_from([100.0, 200.0]))
    cfg['sigma_b'] = 0.7
  if leap:
    cfg['alpha'] = draw(st.sampled_from([0.5, 0.7]))
    fl = st.sampled_from([{'kind': 'exp', 'tau': 0.02, 'order': 3, 'cutoff': 0.0}, {'kind': 'exp', 'tau': 0.1, 'order': 1, 'cutoff': 0.4},
                          {'kind': 'ra', 'r': 0.05}, {'kind': 'ra', 'r': 0.2}])
  else:
    fl = st.sampled_from([{'kind': 'exp', 'tau': 0.02, 'order': 3, 'cutoff': 0.0}, {'kind': 'exp', 'tau': 0.1, 'order': 1, 'cutoff': 0.4},
                          {'kind': 'hdiff', 'tau': 0.1, 'order': 1}, {'kind': 'hdiff', 'tau': 0.5, 'order': 2}])
  cfg['filters'] = draw(st.lists(fl, min_size=0, max_size=2))
  return {'cfg': cfg, 'inputs': draw(_triples(tier, fields, n, g['M'], g['L'], kinky=False))}


def _equation_for(cfg):
  """(equation, grid, n, make_state(descr, amp, tangent, nudge), hs-kink(state) | None) for a step/DFI configuration."""
  from dinosaur import shallow_water as sw
  if cfg['eq'] == 'sw':
    grid, coords, specs, ref, oro = _sw_objects(cfg)
    n = cfg['layers']
    eq = sw.ShallowWaterEquations(coords, specs, oro, ref)
    return eq, grid, n, (lambda d, amp, tangent=False, k=0: sw_state(grid, n, _shift(d, k), amp, tangent)), None
  grid, coords, specs, tref, oro = _pe_objects(cfg)
  n = coords.vertical.layers
  eq, tracers, with_time = _pe_equation(cfg, cfg['eq'], coords, specs, tref, oro)
  l00 = _lnps00(specs) if cfg['eq'] == 'dry_hs' else 0.0
  mk = lambda d, amp, tangent=False, k=0: pe_state(grid, n, d, amp, tracers, with_time, tangent, lnps00=l00, nudge=k)   # noqa: E731
  hs_kink = None
  if cfg['eq'] == 'dry_hs':
    import jax.numpy as jnp
    free = _hs_forcing(cfg, coords, specs, tref, min_t=0.0)
    min_t = float(_hs_forcing(cfg, coords, specs, tref).minT)

    def hs_kink(state):
      ps = jnp.exp(grid.to_nodal(state.log_surface_pressure))
      return ((np.asarray(free.equilibrium_temperature(ps)) - min_t) / 50.0).ravel()
  return eq, grid, n, mk, hs_kink


def _step_filters(cfg, grid, leap):
  from dinosaur import time_integration as ti
  out = []
  for f in cfg.get('filters', []):
    if f['kind'] == 'exp':
      mk = ti.exponential_leapfrog_step_filter if leap else ti.exponential_step_filter
      out.append(mk(grid, cfg['dt'], tau=f['tau'], order=f['order'], cutoff=f['cutoff']))
    elif f['kind'] == 'hdiff':
      out.append(ti.horizontal_diffusion_step_filter(grid, cfg['dt'], tau=f['tau'], order=f['order']))
    else:
      out.append(ti.robert_asselin_leapfrog_filter(f['r']))
  return out


def _nested_lengths(n):
  """A non-trivial nesting of a scan of length n (includes a factor 1 for primes)."""
  for a in (2, 3):
    if n % a == 0 and n // a > 1:
      return [a, n // a]
  return [1, n] if n % 2 else [n, 1]


@functools.lru_cache(maxsize=3)
def _step_ctx(cfg_s):
  import json
  from dinosaur import time_integration as ti
  cfg = json.loads(cfg_s)
  leap = cfg['integrator'] == 'semi_implicit_leapfrog'
  eq, grid, n, mk, hs_kink = _equation_for(cfg)
  if leap:
    step = ti.semi_implicit_leapfrog(eq, cfg['dt'], cfg['alpha'])
  else:
    step = getattr(ti, cfg['integrator'])(eq, cfg['dt'])
  step = ti.step_with_filters(step, _step_filters(cfg, grid, leap))
  pat = cfg['pattern']
  if pat['kind'] == 'single':
    f = step
  elif pat['kind'] == 'repeated':
    scan = (functools.partial(ti.nested_checkpoint_scan, nested_lengths=_nested_lengths(pat['k']))
            if pat.get('nested') else _jax().lax.scan)
    f = ti.repeated(step, pat['k'], scan)
  else:
    kw = {}
    if pat.get('nested'):
      kw['outer_scan_fn'] = functools.partial(ti.nested_checkpoint_scan, nested_lengths=_nested_lengths(pat['outer']))
      if pat['inner'] > 1:
        kw['inner_scan_fn'] = functools.partial(ti.nested_checkpoint_scan, nested_lengths=_nested_lengths(pat['inner']))
    if leap:
      kw['post_process_fn'] = lambda s: s[0]
    f = ti.trajectory_from_step(step, pat['outer'], pat['inner'], start_with_input=pat['swi'], **kw)

  def state(inp, which, k=0):
    tangent = which == 'v'
    amp = 1.0 if tangent else inp['amp']
    d = inp[which]
    if leap:
      return (mk(d, amp, tangent, k), mk(dict(d, noise_seed=d['noise_seed'] + 1), amp, tangent, k))
    return mk(d, amp, tangent, k)
  eng = Engine(f)
  if hs_kink is not None:
    cur = (lambda s: s[1]) if leap else (lambda s: s)

    def kink(x):
      y = eng.F(x)
      if pat['kind'] == 'trajectory':
        y = y[0]
      return np.concatenate([hs_kink(cur(x)), hs_kink(cur(y))])
    eng.kink = kink
  labels = [f"eq={cfg['eq']}", f"pattern={pat['kind']}{'+nested' if pat.get('nested') else ''}",
            f"filters={'+'.join(sorted(f['kind'] for f in cfg['filters'])) or 'none'}", f"dt={cfg['dt']}"]
  labels += gens.grid_labels(cfg['grid'])[:2]
  if 'boundaries' in cfg:
    labels += gens.sigma_labels(cfg['boundaries'])
  return Ctx(eng, lambda inp, k: state(inp, 'x', k), lambda inp: state(inp, 'v'), labels=labels)


def run_step(case):
  return run_entry(case, _step_ctx)


# ----------------------------------------------------------------------------
# J. semi-Lagrangian vertical advection step


@st.composite
def _semilag_case(draw, tier):
  g = draw(_dyn_grid(tier))
  b = draw(_levels(tier, 2))
  cfg = {'grid': g, 'boundaries': b, 'dt': draw(st.sampled_from([0.01, 0.05])), 'pseed': 0}
  return {'cfg': cfg, 'inputs': draw(_triples(tier, _PE_FIELDS + ('q',), len(b) - 1, g['M'], g['L'], kinky=True))}


@functools.lru_cache(maxsize=4)
def _semilag_ctx(cfg_s):
  import json
  import jax
  from dinosaur import primitive_equations as pe
  cfg = json.loads(cfg_s)
  grid, coords, specs, tref, oro = _pe_objects(cfg)
  n, dt = coords.vertical.layers, cfg['dt']
  f = lambda s: pe.semi_lagrangian_vertical_advection_step(s, coords, dt)   # noqa: E731
  vel = jax.jit(lambda s: pe.compute_vertical_velocity(s, coords))

  def kink(x):
    a = np.asarray(vel(x)).ravel()
    m = float(np.max(np.abs(a))) if a.size else 0.0
    return a / m if m > 0 else a

  def admissible(x):
    return dt * float(np.max(np.abs(np.asarray(vel(x))))) < 0.5 * float(np.min(np.diff(coords.vertical.centers)))
  mk = lambda d, amp, tangent=False, k=0: pe_state(grid, n, d, amp, ('q',), False, tangent, nudge=k)   # noqa: E731

  def kink_x(inp):
    return _zero_fields(mk(_flat_state(inp['x']), inp['amp']), ('divergence', 'log_surface_pressure'))
  return Ctx(Engine(f, kink=kink), lambda inp, k: mk(inp['x'], inp['amp'], False, k), lambda inp: mk(inp['v'], 1.0, True),
             kink_x=kink_x, admissible=admissible,
             labels=[f'dt={dt}'] + gens.grid_labels(cfg['grid'])[:2] + gens.sigma_labels(cfg['boundaries']))


def run_semilag(case):
  return run_entry(case, _semilag_ctx)


# ----------------------------------------------------------------------------
# K. one-dimensional interpolators


_INTERP_FNS = ('interp', '_dot_interp', 'linear_interp_with_linear_extrap', 'safe_extrap_1', 'safe_extrap_2',
               'vertical_interpolation', 'vectorized_interp', 'vectorized_linear_extrap')


@st.composite
def _interp_case(draw, tier):
  cfg = {'fns': list(_INTERP_FNS), 'n': draw(st.integers(2, 8)), 'q': draw(st.integers(1, 6)),
         'cols': draw(st.integers(1, 3))}
  lo, hi = (3, 8) if tier == 'quick' else (8, 30)
  inputs = draw(st.lists(st.fixed_dictionaries({
      'seed': st.integers(0, 2 ** 16), 'vseed': st.integers(0, 2 ** 16), 'wseed': st.integers(0, 2 ** 16),
      'mode': st.sampled_from(['fd', 'fd', 'kink']), 'ratio': st.sampled_from([1.5, 5.0, 30.0]),
      'outside': st.sampled_from([0.0, 0.3, 0.6]), 'h': st.sampled_from([1e-5, 3e-5])}), min_size=lo, max_size=hi))
  return {'cfg': cfg, 'inputs': inputs}


def _interp_range(fn, xp):
  """(lo, hi) outside of which the routine returns NaN by contract (None = unlimited)."""
  if fn.startswith('safe_extrap'):
    k = int(fn[-1])
    return xp[0] - k * (xp[1] - xp[0]), xp[-1] + k * (xp[-1] - xp[-2])
  return None


@functools.lru_cache(maxsize=16)
def _interp_ctx(cfg_s):
  import json
  import jax
  from dinosaur import vertical_interpolation as vi
  cfg = json.loads(cfg_s)
  name, n, q, cols = cfg['fn'], cfg['n'], cfg['q'], cfg['cols']
  vectorized = name.startswith('vectorized')
  if name == 'safe_extrap_1':
    fn = vi._linear_interp_with_safe_extrap   # pylint: disable=protected-access
  elif name == 'safe_extrap_2':
    fn = functools.partial(vi._linear_interp_with_safe_extrap, n=2)   # pylint: disable=protected-access
  elif name == 'vectorized_interp':
    fn = vi.vectorize_vertical_interpolation(vi.interp)
  elif name == 'vectorized_linear_extrap':
    fn = vi.vectorize_vertical_interpolation(vi.linear_interp_with_linear_extrap)
  else:
    fn = getattr(vi, name)
  if vectorized:
    # signature (a,x,y),(b),(b,x,y)->(a,x,y): queries differ per column, nodes are shared
    f = lambda d: fn(d['x'][:, :, None] * np.ones((1, 1, 2)), d['xp'], d['fp'][:, :, None] * np.array([1.0, -2.0]))   # noqa: E731
  else:
    one = jax.vmap(fn, (0, None, None))           # queries
    f = lambda d: jax.vmap(one, (1, None, 1), 1)(d['x'], d['xp'], d['fp'])   # columns   # noqa: E731
  base = 'linear_interp_with_linear_extrap' if name == 'vectorized_linear_extrap' else name

  def mk(inp, k=0):
    rng = np.random.default_rng([int(inp['seed']), 17, k])
    xp = np.cumsum(rng.uniform(1.0, inp['ratio'], n)) / inp['ratio'] + rng.uniform(-3, 3)
    fp = rng.standard_normal((n, cols))
    cell = rng.integers(0, n - 1, (q, cols))
    frac = rng.uniform(0.05, 0.95, (q, cols))
    dx = np.diff(xp)
    x = xp[cell] + frac * dx[cell]
    out = rng.random((q, cols)) < inp['outside']
    side = rng.random((q, cols)) < 0.5
    lim = 0.9 * (int(base[-1]) if base.startswith('safe_extrap') else 3.0)
    below = xp[0] - rng.uniform(0.05, lim, (q, cols)) * dx[0]
    above = xp[-1] + rng.uniform(0.05, lim, (q, cols)) * dx[-1]
    x = np.where(out, np.where(side, below, above), x)
    return {'x': x, 'xp': xp, 'fp': fp}

  def mk_kink(inp):
    d = mk(inp)
    rng = np.random.default_rng([int(inp['seed']), 19])
    xp = d['xp']
    pts = list(xp)
    r = _interp_range(base, xp)
    if r is not None:   # computed exactly as the routine extends the nodes, so the end points are hit exactly
      lo, hi = xp, xp
      for _ in range(int(base[-1])):
        lo = np.concatenate([[lo[0] - (lo[1] - lo[0])], lo])
        hi = np.concatenate([hi, [hi[-1] + (hi[-1] - hi[-2])]])
      pts += [lo[0], hi[-1]] + list(lo[:int(base[-1])]) + list(hi[-int(base[-1]):])
    pts = np.asarray(pts)
    d['x'] = pts[rng.integers(0, len(pts), (q, cols))]
    d['x'][0, 0] = xp[0]
    d['x'][-1, -1] = xp[-1]
    return d

  def mk_v(inp):
    rng = np.random.default_rng([int(inp['vseed']), 23])
    d = mk(inp)
    return {'x': rng.standard_normal((q, cols)) * 0.1, 'xp': rng.standard_normal(n) * 0.01 * float(np.min(np.diff(d['xp']))),
            'fp': rng.standard_normal((n, cols))}

  def kink(d):
    xp = np.asarray(d['xp'])
    span = float(xp[-1] - xp[0])
    a = (np.asarray(d['x'])[..., None] - xp).ravel() / span
    r = _interp_range(base, xp)
    if r is not None:
      a = np.concatenate([a, (np.asarray(d['x']).ravel() - r[0]) / span, (r[1] - np.asarray(d['x']).ravel()) / span])
    return a
  return Ctx(Engine(f, kink=kink), lambda inp, k: mk(inp, k), mk_v, kink_x=mk_kink,
             labels=[f'fn={name}', f'nodes={min(n, 4)}{"+" if n > 4 else ""}'])


def run_interp(case):
  return run_family(case, 'fn', _interp_ctx)


# ----------------------------------------------------------------------------
# L. field-level vertical interpolation / regridding


_FIELD_OPS = ('pressure_to_sigma', 'sigma_to_pressure', 'pressure_to_sigma_constant_extrap', 'hybrid_to_sigma',
              'regrid_hybrid_to_sigma', 'surface_pressure', 'bilinear_regridder', 'conservative_regridder')


@st.composite
def _interp_fields_case(draw, tier):
  cfg = {'ops': list(_FIELD_OPS), 'n_src': draw(st.integers(2, 6)), 'boundaries': draw(gens.sigma_boundaries(2, 5)),
         'nx': draw(st.integers(1, 4)), 'ny': draw(st.integers(1, 3)), 'pseed': draw(st.integers(0, 999)),
         'tie_level': draw(st.booleans())}
  lo, hi = (2, 5) if tier == 'quick' else (5, 16)
  inputs = draw(st.lists(st.fixed_dictionaries({
      'seed': st.integers(0, 2 ** 16), 'vseed': st.integers(0, 2 ** 16), 'wseed': st.integers(0, 2 ** 16),
      'mode': st.just('fd'), 'h': st.sampled_from([1e-5, 3e-5])}), min_size=lo, max_size=hi))
  return {'cfg': cfg, 'inputs': inputs}


@functools.lru_cache(maxsize=16)
def _interp_fields_ctx(cfg_s):
  import json
  from dinosaur import vertical_interpolation as vi
  cfg = json.loads(cfg_s)
  op, ns, nx, ny = cfg['op'], cfg['n_src'], cfg['nx'], cfg['ny']
  sig = gens.build_sigma(cfg['boundaries'])
  nt = sig.layers
  rng0 = _cfg_rng(cfg, 31)
  # pressure levels (hPa): first centre low enough that one extrapolated cell reaches p = 0
  widths = rng0.uniform(60.0, 300.0, ns)
  pc = vi.PressureCoordinates(np.cumsum(widths) - 0.6 * widths[0])
  # synthetic hybrid coordinates: b strictly increasing from 0 to 1, a(0) = a(-1) = 0 and so small that the sigma
  # boundaries a/ps + b stay strictly increasing for every surface pressure >= 600 hPa
  bb = np.concatenate([[0.0], np.cumsum(rng0.uniform(0.5, 1.5, ns))])
  bb = bb / bb[-1]
  tie = bool(cfg['tie_level']) and ns >= 3
  if tie:   # a pure-sigma source boundary placed exactly on a target boundary
    t_val = float(sig.boundaries[min(nt // 2 + 1, nt - 1)])
    k_tie = 1 + int(np.argmin(np.abs(bb[1:-1] - t_val)))
    if bb[k_tie - 1] < t_val < bb[k_tie + 1]:
      bb[k_tie] = t_val
    else:
      tie = False
  gap = float(np.min(np.diff(bb)))
  aa = 0.4 * gap * 600.0 * np.sin(np.pi * np.linspace(0, 1, ns + 1)) ** 2 * rng0.uniform(0.3, 1.0)
  aa[0] = aa[-1] = 0.0
  if tie:
    aa[k_tie] = 0.0
  hyb = vi.HybridCoordinates(a_boundaries=aa, b_boundaries=bb)
  g_acc = 9.80665
  nsrc = {'pressure_to_sigma': ns, 'pressure_to_sigma_constant_extrap': ns, 'sigma_to_pressure': nt,
          'surface_pressure': ns}.get(op, ns)

  def f(d):
    if op == 'pressure_to_sigma':
      return vi.interp_pressure_to_sigma(d['fields'], pc, sig, d['sp'])
    if op == 'pressure_to_sigma_constant_extrap':
      return vi.interp_pressure_to_sigma(d['fields'], pc, sig, d['sp'], _CONST_EXTRAP())
    if op == 'sigma_to_pressure':
      return vi.interp_sigma_to_pressure(d['fields'], pc, sig, d['sp'])
    if op == 'hybrid_to_sigma':
      return vi.interp_hybrid_to_sigma(d['fields'], hyb, sig, d['sp'][0])
    if op == 'regrid_hybrid_to_sigma':
      return vi.regrid_hybrid_to_sigma(d['fields'], hyb, sig, d['sp'][0])
    if op == 'bilinear_regridder':
      return vi.BilinearRegridder(hyb, sig)(d['fields']['t'], d['sp'][0])
    if op == 'conservative_regridder':
      return vi.ConservativeRegridder(hyb, sig)(d['fields']['t'], d['sp'][0])
    return vi.get_surface_pressure(pc, d['fields']['t'], d['sp'], g_acc)

  def mk(inp, k=0):
    rng = np.random.default_rng([int(inp['seed']), 37, k])
    if op == 'surface_pressure':
      # geopotential decreasing with pressure (hydrostatic, T ~ 250..300 K); 'sp' holds the orography height here
      t = rng.uniform(230.0, 300.0, (1, nx, ny))
      phi = 287.0 * t * np.log(1000.0 / pc.centers)[:, None, None] + rng.standard_normal((ns, nx, ny)) * 5.0
      return {'fields': {'t': phi}, 'sp': rng.uniform(-100.0, 2500.0, (1, nx, ny))}
    if op in ('pressure_to_sigma', 'pressure_to_sigma_constant_extrap'):
      top = (pc.centers[-1] + 0.8 * (pc.centers[-1] - pc.centers[-2])) / float(sig.centers[-1])
      sp = rng.uniform(0.75, 1.0, (1, nx, ny)) * (top if op == 'pressure_to_sigma' else 1.3 * top)
    elif op == 'sigma_to_pressure':
      sp = rng.uniform(1.02, 1.4, (1, nx, ny)) * pc.centers[-1]
    else:
      sp = rng.uniform(600.0, 1080.0, (1, nx, ny))
    return {'fields': {'t': rng.standard_normal((nsrc, nx, ny)) * 10 + 250, 'u': rng.standard_normal((nsrc, nx, ny))},
            'sp': sp}

  def mk_v(inp):
    rng = np.random.default_rng([int(inp['vseed']), 41])
    d = mk(inp)
    v = _jax().tree_util.tree_map(lambda a: rng.standard_normal(np.shape(a)), d)
    v['sp'] = v['sp'] * (100.0 if op == 'surface_pressure' else 5.0)
    return v

  def kink(d):
    sp = np.asarray(d['sp'])
    if op in ('pressure_to_sigma', 'pressure_to_sigma_constant_extrap'):
      qy = sig.centers[:, None, None] * sp
      nodes = np.asarray(pc.centers)
    elif op == 'sigma_to_pressure':
      qy = pc.centers[:, None, None] / sp
      nodes = np.asarray(sig.centers)
    elif op in ('hybrid_to_sigma', 'bilinear_regridder'):
      src = hyb.a_boundaries[:, None, None] / sp + hyb.b_boundaries[:, None, None]
      cen = 0.5 * (src[1:] + src[:-1])
      a = (sig.centers[:, None, None, None] - cen[None]).ravel()
      lo = cen[0] - (cen[1] - cen[0])
      hi = cen[-1] + (cen[-1] - cen[-2])
      return np.concatenate([a, (sig.centers[0] - lo).ravel(), (hi - sig.centers[-1]).ravel()])
    elif op in ('regrid_hybrid_to_sigma', 'conservative_regridder'):
      src = hyb.a_boundaries[:, None, None] / sp + hyb.b_boundaries[:, None, None]
      moving = hyb.a_boundaries != 0.0          # pure-sigma source boundaries do not move with surface pressure
      a = (sig.boundaries[:, None, None, None] - src[None][:, moving]).ravel()
      return a if a.size else np.ones(1)
    else:
      rh = sp * g_acc - np.asarray(d['fields']['t'])
      if np.any(np.diff(rh, axis=0) <= 0):
        return np.zeros(1)
      return (rh / (float(np.max(rh) - np.min(rh)) + 1e-300)).ravel()
    span = float(nodes[-1] - nodes[0])
    a = (qy[..., None] - nodes).ravel() / span
    if op != 'pressure_to_sigma_constant_extrap':
      lo = nodes[0] - (nodes[1] - nodes[0])
      hi = nodes[-1] + (nodes[-1] - nodes[-2])
      a = np.concatenate([a, (qy.ravel() - lo) / span, (hi - qy.ravel()) / span])
    return a
  return Ctx(Engine(f, kink=kink), lambda inp, k: mk(inp, k), mk_v,
             labels=[f'op={op}'] + (['source_boundary_on_target_boundary' if tie else 'generic_levels'] if 'hybrid' in op or 'regridder' in op else [])
             + gens.sigma_labels(cfg['boundaries']))


@functools.lru_cache(maxsize=1)
def _CONST_EXTRAP():   # pylint: disable=invalid-name
  from dinosaur import vertical_interpolation as vi
  return vi.vectorize_vertical_interpolation(vi.interp)


def run_interp_fields(case):
  return run_family(case, 'op', _interp_fields_ctx)


# ----------------------------------------------------------------------------
# M/N. nested_checkpoint_scan == flat lax.scan (values and derivatives); jax.checkpoint on/off


def ordered_factorisations(n, with_ones=True):
  """All ordered factorisations of n into factors >= 2, plus the variants [1, n], [n, 1], [a, 1, b]."""
  def rec(m):
    if m == 1:
      return [[]]
    out = []
    for a in range(2, m + 1):
      if m % a == 0:
        out += [[a] + r for r in rec(m // a)]
    return out
  fs = rec(n) if n > 1 else [[1]]
  if with_ones:
    fs = fs + [[1, n], [n, 1]]
    two = [f for f in fs if len(f) == 2 and 1 not in f]
    if two:
      fs.append([two[0][0], 1, two[0][1]])
  return fs


def _compare_trees(what, got, want, rtol, names=None):
  gl, wl = _leaves(got), _leaves(want)
  names = names or _names(want)
  if len(gl) != len(wl):
    return {'what': f'{what}: tree structures differ'}
  for nme, a, b in zip(names, gl, wl):
    if a.shape != b.shape:
      return {'what': f'{what}: shapes differ', 'leaf': nme, 'got': list(a.shape), 'want': list(b.shape)}
    err = core.relerr(a, b, scale=max(_absmax(a), _absmax(b)))
    if not err <= rtol:
      idx = core.argmax_index(a, b)
      return {'what': what, 'leaf': nme, 'relerr': err, 'rtol': rtol, 'index': idx,
              'got': float(a[tuple(idx)]) if a.ndim else float(a), 'want': float(b[tuple(idx)]) if b.ndim else float(b)}
  return None


def _scan_variants(body, length, facts, use_xs):
  """{'flat': G, (tuple(f), ckpt): G} with G(x, v, w) -> (y, jv, wt), x = {'init':..., 'xs':...}."""
  jax = _jax()
  from dinosaur import time_integration as ti

  def make(scan):
    def fn(d):
      return scan(body, d['init'], d['xs'] if use_xs else None, length)
    return fn

  def G(fn):
    def g(x, v, w):
      y, jv = jax.jvp(fn, (x,), (v,))
      return y, jv, jax.vjp(fn, x)[1](w)[0]
    return jax.jit(g)
  out = {'flat': (make(jax.lax.scan), G(make(jax.lax.scan)))}
  for f, ckpt in facts:
    kw = {} if ckpt else {'checkpoint_fn': lambda g: g}
    fn = make(functools.partial(ti.nested_checkpoint_scan, nested_lengths=list(f), **kw))
    out[(tuple(f), ckpt)] = (fn, G(fn))
  return out


def _run_scan_compare(variants, x, v, wseed, out, labs):
  jax = _jax()
  fn0, g0 = variants['flat']
  shp = jax.eval_shape(fn0, x)
  rng = np.random.default_rng([int(wseed), 11])
  w = jax.tree_util.tree_map(lambda s: rng.standard_normal(s.shape), shp)
  ref = g0(x, v, w)
  bad = _first_nonfinite(ref)
  if bad:
    return dict(what='non-finite value/derivative through flat lax.scan', **bad)
  for key, (fn, g) in variants.items():
    if key == 'flat':
      continue
    try:
      got = g(x, v, w)
    except Exception as e:   # pylint: disable=broad-except
      return {'what': 'differentiating through nested_checkpoint_scan raised', 'nested_lengths': list(key[0]),
              'checkpoint': key[1], 'error': repr(e)[:500]}
    for part, a, b in zip(('values (carry, outputs)', 'jvp', 'vjp'), got, ref):
      d = _compare_trees(f'nested_checkpoint_scan {part} differ from flat lax.scan', a, b, RTOL_SAME)
      if d:
        d.update(nested_lengths=list(key[0]), checkpoint=key[1])
        return d
    labs.add(f'depth={len(key[0])}')
    labs.add('checkpoint=on' if key[1] else 'checkpoint=off')
    if 1 in key[0]:
      labs.add('factor_1')
  return None


@st.composite
def _scan_syn_case(draw, tier):
  lengths = [1, 2, 4, 6, 8, 12] if tier == 'quick' else [1, 2, 3, 4, 6, 8, 9, 12, 16, 18, 24]
  cfg = {'length': draw(st.sampled_from(lengths)), 'use_xs': draw(st.booleans()), 'cseed': draw(st.integers(0, 999)),
         'dim': draw(st.integers(1, 4))}
  inputs = draw(st.lists(st.fixed_dictionaries({'seed': st.integers(0, 2 ** 16), 'wseed': st.integers(0, 2 ** 16),
                                                'amp': st.sampled_from([1.0, 0.1, 3.0])}), min_size=1, max_size=3))
  return {'cfg': cfg, 'inputs': inputs}


@functools.lru_cache(maxsize=2)
def _scan_syn_ctx(cfg_s):
  import json
  import jax.numpy as jnp
  cfg = json.loads(cfg_s)
  n, dim = cfg['length'], cfg['dim']
  rng = _cfg_rng({'pseed': cfg['cseed']}, 43)
  A = rng.standard_normal((dim, dim)) * 0.5
  c = rng.standard_normal(3)

  def body(carry, xs):
    u = xs['u'] if xs is not None else 0.7
    fv = xs['f'] if xs is not None else jnp.zeros(dim)
    a = jnp.tanh(A @ carry['a'] * u + fv + c[0] * jnp.sin(carry['b']).sum())
    b = carry['b'] * (1.0 + 0.1 * c[1]) + 0.1 * jnp.outer(a, a)[:carry['b'].shape[0], :carry['b'].shape[1]] * u
    t = carry['t'] + 1.0
    return {'a': a, 'b': b, 't': t}, {'y': a * c[2], 'z': (b ** 2).sum(), 'u': u * t}
  facts = [(f, True) for f in ordered_factorisations(n)] + [(f, False) for f in ordered_factorisations(n, False)[:3]]
  variants = _scan_variants(body, n, facts, cfg['use_xs'])

  def mk(seed, amp):
    r = np.random.default_rng([int(seed), 47])
    return {'init': {'a': r.standard_normal(dim) * amp, 'b': r.standard_normal((min(dim, 2), dim)) * amp, 't': np.float64(0.0)},
            'xs': {'u': 0.5 + r.random(n), 'f': r.standard_normal((n, dim)) * 0.3} if cfg['use_xs'] else {}}
  return variants, mk, facts


def run_scan_synthetic(case):
  variants, mk, facts = _scan_syn_ctx(core.canon(case['cfg']))
  n = case['cfg']['length']
  out = Outcome(units=0, labels=[f'length={n}', 'xs=scanned' if case['cfg']['use_xs'] else 'xs=None', f'factorisations={min(len(facts), 9)}{"+" if len(facts) > 9 else ""}'])
  labs = set()
  for k, inp in enumerate(case['inputs']):
    x, v = mk(inp['seed'], inp['amp']), mk(inp['seed'] + 1, 1.0)
    d = _run_scan_compare(variants, x, v, inp['wseed'], out, labs)
    out.units += len(variants) - 1
    if d:
      d['input_index'] = k
      return out.fail(**d)
  # the nested version itself: jvp vs finite difference, adjointness (first deep factorisation)
  key = max((k for k in variants if k != 'flat'), key=lambda k: (len(k[0]), k[1]))
  eng = _fn_engine(variants[key][0])
  inp = case['inputs'][0]
  d, info = check_point(eng, mk(inp['seed'], inp['amp']), mk(inp['seed'] + 1, 1.0), inp['wseed'], 'fd', 1e-5)
  if d:
    d['nested_lengths'] = list(key[0])
    return out.fail(**d)
  out.nontrivial = n >= 4 and info['nontrivial']
  out.labels = list(out.labels) + sorted(labs)
  return out


def _fn_engine(fn):
  return Engine(fn)


@st.composite
def _scan_dyn_case(draw, tier):
  eq = draw(st.sampled_from(['sw', 'dry', 'sw', 'moist']))
  g = draw(_dyn_grid(tier).map(lambda c: dict(c, M=min(c['M'], 4), L=min(c['L'], 5)) if tier == 'quick' else c))
  cfg = {'grid': g, 'eq': eq, 'integrator': draw(st.sampled_from(['backward_forward_euler', 'crank_nicolson_rk2', 'imex_rk_sil3',
                                                                  'semi_implicit_leapfrog'])),
         'dt': draw(st.sampled_from([0.01, 0.05])), 'pseed': draw(st.integers(0, 999)),
         'length': draw(st.sampled_from([4, 6] if tier == 'quick' else [4, 6, 8, 12])),
         'pick': draw(st.lists(st.integers(0, 50), min_size=2, max_size=2 if tier == 'quick' else 5)),
         'filters': draw(st.lists(st.sampled_from([{'kind': 'exp', 'tau': 0.02, 'order': 3, 'cutoff': 0.0}]), max_size=1)),
         'alpha': 0.5}
  if eq == 'sw':
    cfg['layers'], cfg['orography'] = draw(st.integers(1, 2)), False
    n, fields = cfg['layers'], _SW_FIELDS
  else:
    cfg['boundaries'] = draw(_levels(tier))
    n, fields = len(cfg['boundaries']) - 1, _PE_FIELDS + _EQ_TRACERS[eq]
  inputs = draw(_triples(tier, fields, n, g['M'], g['L']))[:2 if tier == 'quick' else 6]
  return {'cfg': cfg, 'inputs': inputs}


@functools.lru_cache(maxsize=2)
def _scan_dyn_ctx(cfg_s):
  import json
  jax = _jax()
  from dinosaur import time_integration as ti
  cfg = json.loads(cfg_s)
  leap = cfg['integrator'] == 'semi_implicit_leapfrog'
  eq, grid, n, mk, _ = _equation_for(cfg)
  step = (ti.semi_implicit_leapfrog(eq, cfg['dt'], cfg['alpha']) if leap else getattr(ti, cfg['integrator'])(eq, cfg['dt']))
  step = ti.step_with_filters(step, _step_filters(cfg, grid, leap))
  length = cfg['length']
  dirn = mk({'sparse': [], 'noise_amp': 1.0, 'noise_seed': 4242, 'slope': 1}, 1.0, True)
  if leap:
    dirn = (dirn, dirn)

  def body(carry, xs):
    forced = jax.tree_util.tree_map(lambda a, b: a + xs * b, carry, dirn)
    nxt = step(forced)
    return nxt, (nxt[1] if leap else nxt)
  fs = ordered_factorisations(length)
  deep = [f for f in fs if len(f) >= 2]
  picks = []
  for i, p in enumerate(cfg['pick']):
    f = deep[p % len(deep)]
    picks.append((f, i != 1))       # the second pick runs without jax.checkpoint
  variants = _scan_variants(body, length, picks, True)

  def state(inp, which):
    tangent = which == 'v'
    amp = 1.0 if tangent else inp['amp']
    d = inp[which]
    s = mk(d, amp, tangent)
    init = (s, mk(dict(d, noise_seed=d['noise_seed'] + 1), amp, tangent)) if leap else s
    r = np.random.default_rng([int(d['noise_seed']), 53])
    return {'init': init, 'xs': r.standard_normal(length) * (1.0 if tangent else 1e-2)}
  return variants, state, picks


def run_scan_dycore(case):
  variants, state, picks = _scan_dyn_ctx(core.canon(case['cfg']))
  cfg = case['cfg']
  out = Outcome(units=0, labels=[f"eq={cfg['eq']}", f"integrator={cfg['integrator']}", f"length={cfg['length']}"])
  labs = set()
  nt = False
  for k, inp in enumerate(case['inputs']):
    x, v = state(inp, 'x'), state(inp, 'v')
    d = _run_scan_compare(variants, x, v, inp['wseed'], out, labs)
    out.units += len(variants) - 1
    if d:
      d['input_index'] = k
      return out.fail(**d)
    nt = nt or any(np.any(a != 0) for a in _leaves(v['init']))
  # derivative oracles on the nested + checkpointed trajectory itself
  key = (tuple(picks[0][0]), picks[0][1])
  eng = Engine(variants[key][0])
  inp = case['inputs'][0]
  d, info = check_point(eng, state(inp, 'x'), state(inp, 'v'), inp['wseed'], 'fd', float(inp.get('h', 1e-5)))
  out.units += 1
  if d:
    d['nested_lengths'] = list(key[0])
    return out.fail(**d)
  out.nontrivial = bool(nt and info['nontrivial'])
  out.labels = list(out.labels) + sorted(labs)
  return out


# ----------------------------------------------------------------------------
# O. digital filter initialization


@st.composite
def _dfi_case(draw, tier):
  eq = draw(st.sampled_from(['dry', 'sw', 'moist', 'dry_time']))
  g = draw(_dyn_grid(tier))
  cfg = {'grid': g, 'eq': eq, 'integrator': draw(st.sampled_from(['imex_rk_sil3', 'crank_nicolson_rk2', 'backward_forward_euler',
                                                                  'crank_nicolson_rk3'])),
         'dt': draw(st.sampled_from([0.01, 0.05])), 'pseed': draw(st.integers(0, 999)),
         'n_half': draw(st.integers(1, 3)), 'cutoff_factor': draw(st.sampled_from([1.0, 0.5, 2.0])),
         'filters': draw(st.lists(st.sampled_from([{'kind': 'exp', 'tau': 0.02, 'order': 3, 'cutoff': 0.0},
                                                   {'kind': 'hdiff', 'tau': 0.1, 'order': 1}]), max_size=1))}
  if eq == 'sw':
    cfg['layers'], cfg['orography'] = draw(st.integers(1, 2)), draw(st.booleans())
    n, fields = cfg['layers'], _SW_FIELDS
  else:
    cfg['boundaries'] = draw(_levels(tier))
    n, fields = len(cfg['boundaries']) - 1, _PE_FIELDS + _EQ_TRACERS[eq]
  return {'cfg': cfg, 'inputs': draw(_triples(tier, fields, n, g['M'], g['L']))}


@functools.lru_cache(maxsize=2)
def _dfi_ctx(cfg_s):
  import json
  from dinosaur import time_integration as ti
  cfg = json.loads(cfg_s)
  eq, grid, n, mk, _ = _equation_for(cfg)
  span = 2 * cfg['n_half'] * cfg['dt']
  f = ti.digital_filter_initialization(eq, getattr(ti, cfg['integrator']), _step_filters(cfg, grid, False),
                                       time_span=span, cutoff_period=span * cfg['cutoff_factor'], dt=cfg['dt'])
  labels = [f"eq={cfg['eq']}", f"integrator={cfg['integrator']}", f"half_steps={cfg['n_half']}",
            f"filters={'+'.join(f['kind'] for f in cfg['filters']) or 'none'}"]
  return Ctx(Engine(f), lambda inp, k: mk(inp['x'], inp['amp'], False, k), lambda inp: mk(inp['v'], 1.0, True), labels=labels)


def run_dfi(case):
  return run_entry(case, _dfi_ctx)


# ----------------------------------------------------------------------------
# registry




# wall budgets are a safety net only (they truncate the number of cases, never decide pass/fail)
_WALL = {'quick': 300.0, 'thorough': 1800.0}
_NT = 'non-trivial = some triple has tangent and cotangent non-zero in >= 2 fields (all, if fewer) and <Jv,w> != 0'


def _step_sub(integrator, short):
  return Subcheck(f'step_{short}', run_step, strategy=lambda tier, i=integrator: _step_case(tier, i),
                  examples={'quick': 3, 'thorough': 16}, shards={'quick': 1, 'thorough': 4},
                  wall=_WALL, weight=9,
                  rule='non-trivial = some triple has tangent and cotangent non-zero in >= 2 fields and <Jv,w> != 0',
                  doc=f'one / k steps / trajectories of {integrator} with step filters: jvp vs FD, adjointness, finite')



SUBCHECKS = [
    Subcheck('transforms', run_transforms, strategy=_transform_case, examples={'quick': 3, 'thorough': 16},
             shards={'quick': 1, 'thorough': 2}, wall=_WALL, rule=_NT, weight=3,
             doc='to_nodal, to_modal, pseudo-spectral product, vor/div <-> u,v, spectral operators'),
    Subcheck('filters', run_filters, strategy=_filter_case, examples={'quick': 3, 'thorough': 16},
             shards={'quick': 1, 'thorough': 2}, wall=_WALL, rule=_NT, weight=3,
             doc='exponential / diffusion filters (state and array strength), step filters, Robert-Asselin'),
    Subcheck('pe_explicit', run_pe_terms,
             strategy=lambda tier: _pe_terms_case(tier, ('dry', 'dry_time', 'dry_no_vadv', 'reversed'), ('explicit_terms',)),
             examples={'quick': 5, 'thorough': 24}, shards={'quick': 1, 'thorough': 4},
             wall=_WALL, rule=_NT, weight=6),
    Subcheck('pe_moist_explicit', run_pe_terms,
             strategy=lambda tier: _pe_terms_case(tier, ('moist', 'cloud'), ('explicit_terms',)),
             examples={'quick': 4, 'thorough': 20}, shards={'quick': 1, 'thorough': 4},
             wall=_WALL, rule=_NT, weight=7),
    Subcheck('pe_implicit', run_pe_terms,
             strategy=lambda tier: _pe_terms_case(tier, ('dry', 'dry_time', 'moist', 'reversed'),
                                                  ('implicit_terms', 'implicit_inverse', 'implicit_inverse')),
             examples={'quick': 8, 'thorough': 40}, shards={'quick': 1, 'thorough': 2},
             wall=_WALL, rule=_NT, weight=4),
    Subcheck('pe_upwind', run_pe_terms,
             strategy=lambda tier: _pe_terms_case(tier, ('dry_upwind',), ('explicit_terms',), kinky=True, min_levels=2),
             examples={'quick': 4, 'thorough': 20}, shards={'quick': 1, 'thorough': 4},
             wall=_WALL, rule=_NT, weight=6,
             doc='explicit_terms with upwind vertical advection: away from and exactly on the max/min kink'),
    Subcheck('sw_terms', run_sw_terms, strategy=_sw_terms_case, examples={'quick': 8, 'thorough': 40},
             shards={'quick': 1, 'thorough': 2}, wall=_WALL, rule=_NT, weight=4),
    Subcheck('held_suarez', run_held_suarez, strategy=_hs_case, examples={'quick': 4, 'thorough': 20},
             shards={'quick': 1, 'thorough': 4}, wall=_WALL, rule=_NT, weight=6,
             doc='HeldSuarezForcing.explicit_terms away from the maximum(minT, .) kink and exactly on it'),
    _step_sub('backward_forward_euler', 'bfe'),
    _step_sub('crank_nicolson_rk2', 'cnrk2'),
    _step_sub('crank_nicolson_rk3', 'cnrk3'),
    _step_sub('crank_nicolson_rk4', 'cnrk4'),
    _step_sub('imex_rk_sil3', 'sil3'),
    _step_sub('semi_implicit_leapfrog', 'leapfrog'),
    Subcheck('semi_lagrangian', run_semilag, strategy=_semilag_case, examples={'quick': 4, 'thorough': 20},
             shards={'quick': 1, 'thorough': 4}, wall=_WALL, rule=_NT, weight=5),
    Subcheck('interp_1d', run_interp, strategy=_interp_case, examples={'quick': 4, 'thorough': 24},
             shards={'quick': 1, 'thorough': 2}, wall=_WALL, rule=_NT, weight=3,
             doc='interp, _dot_interp, linear/safe extrapolation, vectorised wrappers: between, outside and on the nodes'),
    Subcheck('interp_fields', run_interp_fields, strategy=_interp_fields_case, examples={'quick': 3, 'thorough': 16},
             shards={'quick': 1, 'thorough': 2}, wall=_WALL, rule=_NT, weight=4),
    Subcheck('scan_synthetic', run_scan_synthetic, strategy=_scan_syn_case, examples={'quick': 5, 'thorough': 20},
             shards={'quick': 1, 'thorough': 4}, wall=_WALL, weight=6,
             rule='non-trivial = scan length >= 4 (at least one two-level factorisation) with non-zero tangent',
             doc='every ordered factorisation of the length: values, jvp, vjp == flat lax.scan; checkpoint on/off'),
    Subcheck('scan_dycore', run_scan_dycore, strategy=_scan_dyn_case, examples={'quick': 2, 'thorough': 8},
             shards={'quick': 1, 'thorough': 4}, wall=_WALL, weight=10,
             rule='non-trivial = dycore step scanned >= 4 times, >= 2 nested factorisations, non-zero tangent',
             doc='forced dycore trajectories through nested_checkpoint_scan vs flat scan + derivative oracles'),
    Subcheck('dfi', run_dfi, strategy=_dfi_case, examples={'quick': 2, 'thorough': 8},
             shards={'quick': 1, 'thorough': 4}, wall=_WALL, rule=_NT, weight=10),
]
