"""C11 Structural invariants survive any number of steps (the *history* property).

A case is {config, init, integrator, filters, history}: the configuration fixes the equation class
(PrimitiveEquations / PrimitiveEquationsWithTime / MoistPrimitiveEquations / ShallowWaterEquations), a small
resolved grid, the vertical levels, dt and the initial-state description; `history` is a list of small operation
dictionaries drawn by Hypothesis (step, step_n, apply_filter, implicit_inverse, switch_integrator,
switch_filter_stack). `run(case)` interprets the list directly, so replay == run(case) and shrinking == list
shrinking. After *every* operation (and on every frame of a trajectory) the invariants are evaluated on every state
that became reachable; the first violated invariant and the index of the operation go into the failure detail.

A second, cheap sub-check looks at the mechanisms behind the invariants on single tendency evaluations
(explicit_terms / implicit_terms / implicit_inverse) for many more configurations.
"""
from __future__ import annotations

import functools
import math

from hypothesis import strategies as st
import numpy as np

from vf import core, gens
from vf.core import Outcome, Subcheck

RK_INTEGRATORS = ('imex_rk_sil3', 'crank_nicolson_rk2', 'crank_nicolson_rk3', 'crank_nicolson_rk4',
                  'backward_forward_euler')
LEAPFROG = 'semi_implicit_leapfrog'
INTEGRATORS = RK_INTEGRATORS + (LEAPFROG,)
PE_CLASSES = ('pe', 'pe_time', 'moist')

RTOL_MEAN = 1e-12       # (0,0) coefficients of vorticity / divergence / SW potential, relative to the field scale
RTOL_TRACER = 1e-10     # uniform tracer, times |q| (1 + max|div| t)
_MAX_FLOW = 5.0         # |vorticity|, |divergence| coefficients in units of 2 Omega beyond which a history is ended
RTOL_TIME = 1e-12       # sim_time == t0 + n dt, relative to max(|t0|, |t|, dt)

RULE = ('Hypothesis draws a configuration (equation class, resolved small grid incl. padded Fast layouts, uneven sigma '
        'levels, T_ref profile, orography, dt, t0, admissible clipped initial state) and a history = list of operations '
        '(step / repeated / trajectory_from_step with lax.scan under jit or a Python-loop scan_fn / stand-alone filter / '
        'implicit_inverse / switch integrator / switch filter stack) that run(case) interprets against the real '
        'dinosaur step functions; oracle = the invariants themselves, evaluated with numpy after every operation and on '
        'every trajectory frame: exact zeros outside the clipped triangular truncation; (0,0) coefficient of vorticity '
        'and of the shallow-water potential constant to 1e-12 of the field scale; (0,0) of divergence constant to '
        '1e-12 (1 + n/10) of the largest coefficient of the fields the implicit solve couples it with (divergence, T\', '
        'ln ps); uniform tracer uniform to 1e-10 |q| (1 + max|div| t); sim_time == t0 + n dt to 1e-12 and bit-identical '
        'across spectral filters and implicit solves. distinct = hash of the canonical JSON case; non-trivial = the '
        'history performs >= 3 steps, applies at least one filter and (primitive equations) the visited states have '
        'non-zero divergence. tendency_structure checks the same structure on single explicit/implicit tendency and '
        'implicit_inverse evaluations.')

ASSUMPTIONS = [
    'initial states are admissible: all entries outside the triangular mask and the top total wavenumber l = L-1 are '
    'zero, the (0,0) coefficients of vorticity and divergence are zero (Stokes / Gauss), the uniform tracer has only '
    'its (0,0) coefficient set, equal on all levels',
    'grids resolve the wind round trip and quadratic products of the l=0 budget (latitude quadrature exact to degree '
    '2L-2, longitude_nodes >= 2M-1, no node at a pole): on coarser grids aliasing breaks the flux-form cancellation '
    'behind the uniform tracer and the exact Gauss/Stokes integrals of the moist correction terms; L >= 3',
    'filter parameters are inside the C15 domain (integer order, dt/tau < 50, cutoff < 1); the Robert-Asselin filter '
    'is a three-point time average that algebraically returns sim_time, so across it sim_time is required to be '
    'unchanged to rounding (1e-12), bit-identity is required for the spectral filters and the implicit solve',
    'leapfrog pairs are started properly (previous = state at t - dt: either built that way in the initial state or '
    'produced by one step of the previously selected Runge-Kutta integrator when switching)',
    'amplitudes and dt keep the flow well inside the stable regime (|vorticity| <= 0.3 in units of 2 Omega, dt <= 0.1): '
    'a state that becomes non-finite is reported as a violation',
    'implicit_inverse step sizes are concrete Python floats (tracers are documented to raise)',
    'the primitive-equation implicit solve applies a numerically inverted (np.linalg.inv) matrix whose l=0 block '
    'decouples divergence from temperature / log surface pressure only to rounding (measured <= 3e-16 per solve and '
    'unit of T, lnps): the divergence mean is therefore compared on the scale of the coupled fields with a linear '
    'allowance in the number of steps; vorticity and the shallow-water fields are compared on their own scale',
    'crank_nicolson_rk4 uses Carpenter-Kennedy coefficients tabulated to 13 digits: its clock advances by '
    'dt (1 + 7e-14) per step, inside the 1e-12 tolerance',
]

MANIFEST = {
    'text': 'Randomised operation histories (all six integrators, filter stacks incl. Robert-Asselin, repeated / '
            'trajectory_from_step scans, stand-alone filters and implicit solves, mid-run integrator and filter '
            'switches) over the four equation classes on generated small grids; every reachable state is checked for '
            'exact spectral structure, conserved global means / layer thickness, tracer uniformity and the clock. '
            'Assurance is exploration-level: a violation needs a history of the generated kind; the invariants are '
            'decided exactly (zeros, bit-identity) or 3+ orders of magnitude above measured rounding.',
    'note': 'trusted base: numpy comparisons, grid.mask / grid.modal_axes for the index sets, Hypothesis',
    'technique': 'stateful property-based testing (history interpretation with invariants after every operation)',
}


# ----------------------------------------------------------------------------
# strategies


def _tier_sizes(tier):
  if tier == 'quick':
    return {'max_m': 6, 'max_layers': 3, 'max_ops': 12, 'ns': [2, 3], 'traj': [[2, 1], [2, 2]],
            'scan': ['python', 'python', 'python', 'lax']}
  return {'max_m': 9, 'max_layers': 5, 'max_ops': 40, 'ns': [2, 3, 5, 8], 'traj': [[2, 1], [2, 2], [3, 2], [4, 1]],
          'scan': ['python', 'python', 'lax']}


@st.composite
def _grids(draw, max_m):
  M = draw(st.integers(2, max_m))
  L = max(3, M + draw(st.sampled_from([0, 1, 1, 2])))
  spacing = draw(st.sampled_from(['gauss', 'gauss', 'equiangular']))
  nlat = gens.min_lat_nodes(spacing, gens.required_degree('vector', L)) + draw(st.sampled_from([0, 0, 1, 2, 5]))
  nlon = gens.required_lon_nodes('vector', M) + draw(st.sampled_from([0, 0, 1, 2, 3]))
  impl = draw(st.sampled_from(['real', 'fast']))
  cfg = {'M': M, 'L': L, 'nlon': nlon, 'nlat': nlat, 'spacing': spacing, 'impl': impl,
         'offset': draw(st.sampled_from([0.0, 0.0, 0.3])), 'radius': None}
  if impl == 'fast':
    cfg['bsm'] = draw(st.sampled_from([None, 1, 2, 3]))
  return cfg


@st.composite
def _filter(draw, leapfrog_ok=True):
  kind = draw(st.sampled_from(['exp', 'hdiff', 'exp', 'hdiff', 'ra'] if leapfrog_ok else ['exp', 'hdiff']))
  if kind == 'exp':
    return {'kind': 'exp', 'tau': draw(st.sampled_from([0.010938, 0.05, 1.0])),
            'order': draw(st.sampled_from([1, 2, 6, 18])), 'cutoff': draw(st.sampled_from([0.0, 0.0, 0.4, 0.8]))}
  if kind == 'hdiff':
    return {'kind': 'hdiff', 'tau': draw(st.sampled_from([0.02, 0.1, 1.0])), 'order': draw(st.sampled_from([1, 2, 4]))}
  return {'kind': 'ra', 'r': draw(st.sampled_from([0.05, 0.01, 0.2]))}


def _filter_stacks():
  non_empty = st.lists(_filter(), min_size=1, max_size=3)
  return st.one_of(st.just([]), non_empty, non_empty, non_empty, non_empty, non_empty)


@st.composite
def _init(draw, fields, n_levels, M, L):
  d = draw(gens.input_descr(fields, n_levels, M, L, lmax=L - 2))
  if not d['noise_amp']:
    d['noise_amp'] = draw(st.sampled_from([1.0, 0.0]))
  d['amp'] = draw(st.sampled_from([1.0, 1.0, 0.1, 3.0]))
  return d


@st.composite
def _history(draw, tier, eq):
  sz = _tier_sizes(tier)
  ops = st.one_of(
      st.just({'op': 'step'}), st.just({'op': 'step'}), st.just({'op': 'step'}), st.just({'op': 'step'}),
      st.builds(lambda n, sc: {'op': 'step_n', 'how': 'repeated', 'n': n, 'scan': sc},
                st.sampled_from(sz['ns']), st.sampled_from(sz['scan'])),
      st.builds(lambda oi, sc: {'op': 'step_n', 'how': 'trajectory', 'outer': oi[0], 'inner': oi[1], 'scan': sc},
                st.sampled_from(sz['traj']), st.sampled_from(sz['scan'])),
      st.builds(lambda f: {'op': 'apply_filter', 'filter': f}, _filter(leapfrog_ok=False)),
      st.builds(lambda e, m: {'op': 'implicit_inverse', 'eta': e, 'method': m},
                st.sampled_from([0.5, 1.0, 2.0, -0.5, -1.0, 10.0]),
                st.sampled_from(['split', 'split', 'stacked', 'blockwise'])),
      st.builds(lambda n: {'op': 'switch_integrator', 'to': n}, st.sampled_from(INTEGRATORS)),
      st.builds(lambda s: {'op': 'switch_filter_stack', 'to': s}, _filter_stacks()),
  )
  # Hypothesis lists average ~2*min_size elements whatever max_size is: long histories are built from several chunks
  # (each chunk shrinks to empty on its own, so counterexamples still shrink to a handful of operations)
  chunk = 12
  hist = draw(st.lists(ops, min_size=5, max_size=min(chunk, sz['max_ops'])))
  for _ in range(sz['max_ops'] // chunk - 1):
    hist = hist + draw(st.lists(ops, min_size=0, max_size=chunk))
  return hist[:sz['max_ops']]


@st.composite
def _config(draw, tier, eq):
  sz = _tier_sizes(tier)
  g = draw(_grids(sz['max_m']))
  cfg = {'eq': eq, 'grid': g, 'dt': draw(st.sampled_from([0.01, 0.03, 0.1, 0.005])),
         'lf_alpha': draw(st.sampled_from([0.5, 0.5, 0.75, 1.0])),
         'oro_amp': draw(st.sampled_from([0.0, 1.0])), 'oro_seed': draw(st.integers(0, 99)),
         # the orography is configuration, not state: callers pass `grid.to_modal(nodal_mountain)` without clipping,
         # and the invariants must hold for it too (the tendencies are clipped after the orography term is added)
         'oro_unclipped': draw(st.booleans())}
  if eq == 'sw':
    n = draw(st.integers(1, sz['max_layers']))
    cfg['layers'] = n
    dens = sorted(draw(st.lists(st.sampled_from([0.7, 0.8, 0.9, 1.0]), min_size=n, max_size=n)))
    cfg['densities'] = dens
    cfg['ref_potential'] = [draw(st.sampled_from([0.05, 0.1, 0.3])) for _ in range(n)]
    cfg['no_orography'] = draw(st.booleans())
  else:
    nl = draw(st.sampled_from([k for k in range(1, sz['max_layers'] + 1) for _ in range(k)]))   # favour several layers
    b = draw(gens.sigma_boundaries(nl, nl))
    n = len(b) - 1
    cfg['levels'] = b
    if draw(st.booleans()):
      cfg['tref'] = [draw(st.sampled_from([250.0, 288.0, 200.0]))] * n
    else:
      cfg['tref'] = [draw(st.sampled_from([150.0, 210.0, 250.0, 288.0, 300.0, 350.0])) for _ in range(n)]
    cfg['vmm'] = draw(st.sampled_from([None, None, 'dense', 'sparse']))
    cfg['vadv'] = draw(st.sampled_from([True, True, True, False]))
    cfg['q_uniform'] = draw(st.sampled_from([0.7, 1.0, -2.0, 1e-3]))
    cfg['extra_tracer'] = draw(st.booleans())
    if eq != 'pe':
      cfg['t0'] = draw(st.sampled_from([0.0, 0.0, 2.5, 1000.0, -3.0]))
    if eq == 'moist':
      cfg['uniform_humidity'] = draw(st.sampled_from([False, False, True]))
  return cfg


def _fields(cfg):
  if cfg['eq'] == 'sw':
    return ['vorticity', 'divergence', 'potential']
  f = ['vorticity', 'divergence', 'temperature_variation', 'log_surface_pressure']
  if cfg['eq'] == 'moist' and not cfg.get('uniform_humidity'):
    f.append('specific_humidity')
  if cfg.get('extra_tracer'):
    f.append('tracer_r')
  return f


def _n_levels(cfg):
  return cfg['layers'] if cfg['eq'] == 'sw' else len(cfg['levels']) - 1


@st.composite
def _history_case(draw, tier, eq):
  # the driver seeds every sub-check identically: burn a class-dependent number of draws so that the four history
  # sub-checks do not walk through the same grids / integrators / histories
  for _ in range(3 * (PE_CLASSES + ('sw',)).index(eq)):
    draw(st.integers(0, 7))
  cfg = draw(_config(tier, eq))
  g = cfg['grid']
  integ = draw(st.sampled_from(INTEGRATORS + (LEAPFROG,)))
  stack = draw(_filter_stacks())
  if integ == LEAPFROG and not any(f['kind'] == 'ra' for f in stack) and draw(st.sampled_from([True, True, False])):
    stack = stack[:2] + [{'kind': 'ra', 'r': draw(st.sampled_from([0.05, 0.01, 0.2]))}]   # the usual leapfrog set-up
  return {'config': cfg, 'init': draw(_init(_fields(cfg), _n_levels(cfg), g['M'], g['L'])),
          'integrator': integ, 'filters': stack, 'history': draw(_history(tier, eq))}


@st.composite
def _tendency_case(draw, tier):
  eq = draw(st.sampled_from(PE_CLASSES + ('sw',)))
  cfg = draw(_config(tier, eq))
  g = cfg['grid']
  n_in = 2 if tier == 'quick' else 4
  inits = [draw(_init(_fields(cfg), _n_levels(cfg), g['M'], g['L'])) for _ in range(n_in)]
  return {'config': cfg, 'inits': inits,
          'etas': [draw(st.sampled_from([0.01, 0.05, 0.5, -0.05, 10.0])) for _ in range(2)]}


# ----------------------------------------------------------------------------
# builders

_FIELD_AMP = {'vorticity': 0.03, 'divergence': 0.03, 'temperature_variation': 4.0, 'log_surface_pressure': 0.05,
              'specific_humidity': 0.003, 'tracer_r': 0.5, 'potential': 0.02}
_SQRT4PI = math.sqrt(4.0 * math.pi)


class _Ctx:
  """Everything derived from a configuration (built once per configuration and cached)."""

  def __init__(self, cfg):
    from dinosaur import coordinate_systems as cs
    from dinosaur import layer_coordinates as lc
    from dinosaur import primitive_equations as pe
    from dinosaur import scales
    from dinosaur import shallow_water as sw
    self.cfg = cfg
    self.eq_kind = cfg['eq']
    self.grid = grid = gens.build_grid(cfg['grid'])
    self.L = grid.total_wavenumbers
    _, l = grid.modal_mesh
    self.allowed = np.asarray(grid.mask) & (l <= self.L - 2)    # everything else must be exactly zero
    self.modal_shape = tuple(grid.modal_shape)
    self.dt = float(cfg['dt'])
    rng = np.random.default_rng([int(cfg['oro_seed']), 17])
    oro_mask = np.asarray(grid.mask) if cfg.get('oro_unclipped') else self.allowed
    oro = rng.standard_normal(self.modal_shape) * oro_mask / (1.0 + l) ** 2
    if self.eq_kind == 'sw':
      n = int(cfg['layers'])
      self.coords = cs.CoordinateSystem(grid, lc.LayerCoordinates(n))
      specs = sw.ShallowWaterSpecs.from_si(np.asarray(cfg['densities'], dtype=np.float64) * scales.WATER_DENSITY)
      orography = None if cfg.get('no_orography') else oro * 1e-2 * float(cfg['oro_amp'])
      self.eq = sw.ShallowWaterEquations(self.coords, specs, orography,
                                         np.asarray(cfg['ref_potential'], dtype=np.float64))
      self.has_time = False
    else:
      self.coords = cs.CoordinateSystem(grid, gens.build_sigma(cfg['levels']))
      specs = pe.PrimitiveEquationsSpecs.from_si()
      cls = {'pe': pe.PrimitiveEquations, 'pe_time': pe.PrimitiveEquationsWithTime,
             'moist': pe.MoistPrimitiveEquations}[self.eq_kind]
      self.eq = cls(np.asarray(cfg['tref'], dtype=np.float64), oro * 2e-4 * float(cfg['oro_amp']), self.coords,
                    specs, vertical_matmul_method=cfg.get('vmm'), include_vertical_advection=bool(cfg.get('vadv', True)))
      self.has_time = self.eq_kind != 'pe'
    self.n_levels = _n_levels(cfg)
    self._integ = {}
    self._scan = {}
    self._step = {}

  # -- states ---------------------------------------------------------------
  def initial_state(self, init, sim_time=None):
    from dinosaur import primitive_equations as pe
    from dinosaur import shallow_water as sw
    grid, n, L = self.grid, self.n_levels, self.L
    amp = float(init.get('amp', 1.0))

    def fld(name, prefix, zero_mean=False):
      return gens.modal_field(grid, prefix, init, name, lmax=L - 2, zero_mean=zero_mean, amp=amp * _FIELD_AMP[name])

    vor, div = fld('vorticity', (n,), True), fld('divergence', (n,), True)
    if self.eq_kind == 'sw':
      return sw.State(vor, div, fld('potential', (n,)))
    tracers = {}
    q = float(self.cfg['q_uniform'])
    u = np.zeros((n,) + self.modal_shape)
    u[:, 0, 0] = q
    tracers['tracer_u'] = u
    if self.eq_kind == 'moist':
      if self.cfg.get('uniform_humidity'):
        h = np.zeros((n,) + self.modal_shape)
      else:
        h = fld('specific_humidity', (n,))
      h[:, 0, 0] = 0.01 * _SQRT4PI
      tracers['specific_humidity'] = h
    if self.cfg.get('extra_tracer'):
      tracers['tracer_r'] = fld('tracer_r', (n,))
    args = (vor, div, fld('temperature_variation', (n,)), fld('log_surface_pressure', (1,)))
    if self.has_time:
      return pe.StateWithTime(*args, sim_time=np.float64(sim_time), tracers=tracers)
    return pe.State(*args, tracers=tracers)

  def uniform_tracers(self):
    if self.eq_kind == 'sw':
      return []
    names = ['tracer_u']
    if self.eq_kind == 'moist' and self.cfg.get('uniform_humidity'):
      names.append('specific_humidity')
    return names

  # -- step functions -------------------------------------------------------
  def integrator(self, name):
    from dinosaur import time_integration as ti
    if name not in self._integ:
      if name == LEAPFROG:
        self._integ[name] = ti.semi_implicit_leapfrog(self.eq, self.dt, alpha=float(self.cfg['lf_alpha']))
      else:
        self._integ[name] = getattr(ti, name)(self.eq, self.dt)
    return self._integ[name]

  def step_filter(self, f, leapfrog):
    """One PyTreeStepFilterFn (u, u_next) -> u_next from its JSON description (None: not applicable)."""
    from dinosaur import filtering
    from dinosaur import time_integration as ti
    grid, dt = self.grid, self.dt
    if f['kind'] == 'exp':
      mk = ti.exponential_leapfrog_step_filter if leapfrog else ti.exponential_step_filter
      return mk(grid, dt, tau=float(f['tau']), order=int(f['order']), cutoff=float(f['cutoff']))
    if f['kind'] == 'hdiff':
      # the public constructor is a Runge-Kutta style filter; on a leapfrog pair it (legitimately) filters both slices
      return ti.horizontal_diffusion_step_filter(grid, dt, tau=float(f['tau']), order=int(f['order']))
    if f['kind'] == 'ra':
      return ti.robert_asselin_leapfrog_filter(float(f['r'])) if leapfrog else None
    raise ValueError(f['kind'])

  def filters(self, stack, leapfrog):
    return [x for x in (self.step_filter(f, leapfrog) for f in stack) if x is not None]

  def step_fn(self, integ, stack):
    from dinosaur import time_integration as ti
    key = core.canon([integ, stack])
    if key not in self._step:
      if len(self._step) > 64:
        self._step.clear()
      self._step[key] = ti.step_with_filters(self.integrator(integ), self.filters(stack, integ == LEAPFROG))
    return self._step[key]

  def scan_fn(self, integ, stack, op):
    """repeated / trajectory_from_step of the filtered step.

    scan='lax': the default lax.scan under jax.jit (one compilation per (integrator, stack, lengths), cached);
    scan='python': the same combinators with their public `scan_fn` hooks set to a Python loop, so the steps run
    op-by-op without compiling the whole step (cheap on small grids).
    """
    import jax
    from dinosaur import time_integration as ti
    lax_scan = op.get('scan', 'lax') == 'lax'
    key = core.canon([integ, stack, op['how'], op.get('n'), op.get('outer'), op.get('inner'), lax_scan])
    if key not in self._scan:
      step = self.step_fn(integ, stack)
      kw = {} if lax_scan else {'scan_fn': _python_scan}
      if op['how'] == 'repeated':
        fn = ti.repeated(step, int(op['n']), **kw)
      else:
        kw = {} if lax_scan else {'outer_scan_fn': _python_scan, 'inner_scan_fn': _python_scan}
        fn = ti.trajectory_from_step(step, int(op['outer']), int(op['inner']), **kw)
      if len(self._scan) > 24:
        self._scan.clear()
      self._scan[key] = jax.jit(fn) if lax_scan else fn
    return self._scan[key]


def _python_scan(f, init, xs=None, length=None):
  """lax.scan semantics (xs=None) as a Python loop: returns (final carry, stacked outputs)."""
  import jax
  import jax.numpy as jnp
  assert xs is None
  carry, ys = init, []
  for _ in range(int(length)):
    carry, y = f(carry, None)
    ys.append(y)
  if not ys or ys[0] is None:
    return carry, None
  return carry, jax.tree_util.tree_map(lambda *a: jnp.stack(a), *ys)


@functools.lru_cache(maxsize=4)
def _ctx_cached(cfg_json):
  import json
  return _Ctx(json.loads(cfg_json))


def _ctx(cfg) -> _Ctx:
  return _ctx_cached(core.canon(cfg))


# ----------------------------------------------------------------------------
# invariants


def _np_leaves(x):
  import jax
  return [np.asarray(a) for a in jax.tree_util.tree_leaves(x)]


def _struct(x):
  import jax
  leaves, treedef = jax.tree_util.tree_flatten(x)
  return str(treedef), [(tuple(np.shape(a)), str(np.asarray(a).dtype)) for a in leaves]


class _Invariants:
  """Holds the reference values taken from the initial state and evaluates the invariants on later states."""

  def __init__(self, ctx: _Ctx, x0):
    self.ctx = ctx
    self.struct = _struct(x0)
    self.vor00 = np.asarray(x0.vorticity)[..., 0, 0].copy()
    self.div00 = np.asarray(x0.divergence)[..., 0, 0].copy()
    self.vd_scale = max(float(np.abs(np.asarray(x0.vorticity)).max()), float(np.abs(np.asarray(x0.divergence)).max()))
    self.div_max = float(np.abs(np.asarray(x0.divergence)).max())
    self.coupled_scale = self.vd_scale
    if ctx.eq_kind == 'sw':
      self.pot00 = np.asarray(x0.potential)[..., 0, 0].copy()
      self.pot_scale = float(np.abs(np.asarray(x0.potential)).max())
    self.uniform = {k: np.asarray(x0.tracers[k])[..., 0, 0].copy() for k in ctx.uniform_tracers()}
    self.t0 = float(x0.sim_time) if ctx.has_time else None
    self.states_checked = 0
    self.worst = {'tracer': 0.0, 'time': 0.0}

  def check(self, x, n_steps):
    """Returns None or a JSON-able description of the first violated invariant of state `x` reached after n steps."""
    ctx = self.ctx
    self.states_checked += 1
    st_ = _struct(x)
    if st_ != self.struct:
      return {'invariant': 'state structure (tree, shapes, dtypes) unchanged', 'got': repr(st_)[:600],
              'want': repr(self.struct)[:600]}
    # 1. exact zeros outside the clipped triangular truncation
    import jax
    paths = jax.tree_util.tree_flatten_with_path(x)[0]
    for path, leaf in paths:
      a = np.asarray(leaf)
      name = jax.tree_util.keystr(path)
      if not np.all(np.isfinite(a)):
        return {'invariant': 'state stays finite', 'leaf': name}
      if a.ndim >= 2 and a.shape[-2:] == ctx.modal_shape:
        bad = a[..., ~ctx.allowed]
        if np.any(bad != 0):
          full = np.where(ctx.allowed, 0.0, np.abs(a))
          idx = [int(i) for i in np.unravel_index(int(np.argmax(full)), full.shape)]
          m_ax, l_ax = ctx.grid.modal_axes
          l_val = int(np.asarray(l_ax)[idx[-1]])
          inside_mask = bool(np.asarray(ctx.grid.mask)[idx[-2], idx[-1]])
          return {'invariant': ('top total wavenumber l = L-1 exactly zero' if inside_mask and l_val == ctx.L - 1
                                else 'entries outside the triangular truncation exactly zero'),
                  'leaf': name, 'index': idx, 'm': int(np.asarray(m_ax)[idx[-2]]), 'l': l_val, 'L': ctx.L,
                  'got': float(full.max()), 'want': 0.0}
    # 2. global means of vorticity and divergence
    vor, div = np.asarray(x.vorticity), np.asarray(x.divergence)
    self.vd_scale = max(self.vd_scale, float(np.abs(vor).max()), float(np.abs(div).max()))
    self.div_max = max(self.div_max, float(np.abs(div).max()))
    # The implicit solve couples divergence with temperature and log surface pressure through a numerically inverted
    # matrix whose l=0 block is only decoupled to rounding (measured <= 3e-16 per solve): the rounding scale of the
    # divergence mean is the largest coefficient of the coupled fields, and it accumulates with the number of solves.
    self.coupled_scale = max(self.coupled_scale, self.vd_scale, *(
        [float(np.abs(np.asarray(x.temperature_variation)).max()), float(np.abs(np.asarray(x.log_surface_pressure)).max())]
        if ctx.eq_kind != 'sw' else [0.0]))
    growth = 1.0 + abs(n_steps) / 10.0
    for name, got, want, scale in (('vorticity', vor[..., 0, 0], self.vor00, self.vd_scale),
                                   ('divergence', div[..., 0, 0], self.div00, self.coupled_scale)):
      e = core.relerr(got, want, scale) / growth
      self.worst['mean_' + name] = max(self.worst.get('mean_' + name, 0.0), e)
      if e > RTOL_MEAN:
        return {'invariant': f'(0,0) coefficient (global mean) of {name} unchanged', 'got': got, 'want': want,
                'scale': scale, 'relerr': e * growth, 'rtol': RTOL_MEAN * growth}
    if ctx.eq_kind == 'sw':
      pot = np.asarray(x.potential)
      self.pot_scale = max(self.pot_scale, float(np.abs(pot).max()))
      e = core.relerr(pot[..., 0, 0], self.pot00, self.pot_scale)
      self.worst['mean_potential'] = max(self.worst.get('mean_potential', 0.0), e)
      if e > RTOL_MEAN:
        return {'invariant': '(0,0) coefficient of the layer potential (global mean thickness) unchanged',
                'got': pot[..., 0, 0], 'want': self.pot00, 'scale': self.pot_scale, 'relerr': e, 'rtol': RTOL_MEAN}
    # 3. uniform tracer stays uniform
    t_elapsed = abs(n_steps) * ctx.dt
    for k, q00 in self.uniform.items():
      a = np.asarray(x.tracers[k])
      qs = float(np.abs(q00).max())
      bound = RTOL_TRACER * qs * (1.0 + self.div_max * t_elapsed)
      dev00 = float(np.abs(a[..., 0, 0] - q00).max())
      rest = a.copy()
      rest[..., 0, 0] = 0.0
      dev = float(np.abs(rest).max())
      self.worst['tracer'] = max(self.worst['tracer'], max(dev, dev00) / max(bound, 1e-300) * RTOL_TRACER)
      if dev > bound:
        idx = [int(i) for i in np.unravel_index(int(np.argmax(np.abs(rest))), rest.shape)]
        return {'invariant': f'uniform tracer {k} stays uniform (all coefficients except (0,0) zero)', 'index': idx,
                'got': dev, 'bound': bound, 'q': qs, 'max_div': self.div_max, 't': t_elapsed}
      if dev00 > bound:
        return {'invariant': f'uniform tracer {k}: (0,0) coefficient constant and equal on all levels',
                'got': a[..., 0, 0], 'want': q00, 'bound': bound}
    # 4. clock
    if ctx.has_time:
      t = float(np.asarray(x.sim_time))
      want = self.t0 + n_steps * ctx.dt
      scale = max(abs(self.t0), abs(want), ctx.dt)
      e = abs(t - want) / scale
      self.worst['time'] = max(self.worst['time'], e)
      if e > RTOL_TIME:
        return {'invariant': 'sim_time == t0 + n*dt', 'got': t, 'want': want, 'n': n_steps, 'dt': ctx.dt,
                't0': self.t0, 'relerr': e, 'rtol': RTOL_TIME}
    return None


_LAST_WORST = {}   # worst observed relative errors of the last passing history (read by tuning scripts only)


def _time_bits(x):
  return np.asarray(x.sim_time).tobytes()


def _active(stack, leapfrog):
  return [f for f in stack if f['kind'] != 'ra' or leapfrog]


def _frame(traj, j):
  import jax
  return jax.tree_util.tree_map(lambda a: a[j], traj)


# ----------------------------------------------------------------------------
# the history interpreter


def run_history(case):
  import jax
  cfg = case['config']
  ctx = _ctx(cfg)
  dt = ctx.dt
  t0 = float(cfg.get('t0', 0.0))
  integ = case['integrator']
  stack = list(case['filters'])
  x0 = ctx.initial_state(case['init'], t0)
  inv = _Invariants(ctx, x0)
  labels = {f"eq={cfg['eq']}", f"impl={cfg['grid']['impl']}", f"integrator={integ}"}
  labels.update(gens.grid_labels(cfg['grid'])[0:1])
  if cfg.get('oro_amp') and cfg.get('oro_unclipped') and not cfg.get('no_orography'):
    labels.add('orography_unclipped')
  if cfg['grid'].get('impl') == 'fast':
    labels.add('padded=yes' if (cfg['grid'].get('bsm') or 1) > 1 else 'padded=no')
  if cfg['eq'] != 'sw':
    labels.update(gens.sigma_labels(cfg['levels']))
    labels.add('tref=const' if len(set(cfg['tref'])) == 1 else 'tref=profile')
    if cfg.get('uniform_humidity'):
      labels.add('uniform_humidity')
    if not cfg.get('vadv', True):
      labels.add('no_vertical_advection')
    if cfg.get('t0'):
      labels.add('t0!=0')
  out = Outcome(labels=(), units=0)
  stats = {'steps': 0, 'filtered': False}

  # leapfrog state is (previous, current); n counts steps of `current`
  def make_pair(x):
    prev = x.replace(sim_time=np.float64(t0 - dt)) if ctx.has_time else x
    return (prev, x)

  state = make_pair(x0) if integ == LEAPFROG else x0
  n = 0

  def finish(fail=None):
    out.units = inv.states_checked
    nonzero_div = cfg['eq'] == 'sw' or inv.div_max > 0.0
    out.nontrivial = bool(stats['steps'] >= 3 and stats['filtered'] and nonzero_div)
    out.labels = sorted(labels)
    if fail is not None:
      return out.fail(**fail)
    return out

  def check_state(state, n, is_pair):
    if is_pair:
      if not (isinstance(state, tuple) and len(state) == 2):
        return {'invariant': 'leapfrog state stays a pair', 'got': repr(type(state))}
      return inv.check(state[0], n - 1) or inv.check(state[1], n)
    return inv.check(state, n)

  v = check_state(state, n, integ == LEAPFROG)
  if v is not None:
    raise AssertionError(f'generator bug: the initial state violates an invariant: {v}')

  for i, op in enumerate(case['history']):
    kind = op['op']
    is_pair = integ == LEAPFROG
    where = {'op_index': i, 'op': op, 'integrator': integ, 'filters': stack, 'steps_before': n}
    viol = None
    try:
      if kind == 'step':
        state = ctx.step_fn(integ, stack)(state)
        n += 1
        stats['steps'] += 1
        stats['filtered'] |= bool(_active(stack, is_pair))
      elif kind == 'step_n':
        fn = ctx.scan_fn(integ, stack, op)
        stats['filtered'] |= bool(_active(stack, is_pair))
        labels.add('scan=' + op['how'] + '/' + op.get('scan', 'lax'))
        if op['how'] == 'repeated':
          state = fn(state)
          n += int(op['n'])
          stats['steps'] += int(op['n'])
        else:
          state, traj = fn(state)
          outer, inner = int(op['outer']), int(op['inner'])
          for j in range(outer):   # every saved frame is a reachable state
            viol = check_state(_frame(traj, j), n + (j + 1) * inner, is_pair)
            if viol is not None:
              viol['trajectory_frame'] = j
              break
          n += outer * inner
          stats['steps'] += outer * inner
      elif kind == 'apply_filter':
        f = ctx.step_filter(op['filter'], is_pair)
        labels.add('standalone_filter=' + op['filter']['kind'])
        before = state
        state = f(state, state)
        stats['filtered'] = True
        if ctx.has_time and viol is None:
          pairs = zip(before, state) if is_pair else [(before, state)]
          for b, a in pairs:
            if np.shape(a.sim_time) != () or _time_bits(a) != _time_bits(b):
              viol = {'invariant': 'sim_time bit-identical across a spectral filter',
                      'got': np.asarray(a.sim_time), 'want': np.asarray(b.sim_time)}
              break
      elif kind == 'implicit_inverse':
        eta = float(op['eta']) * dt
        labels.add('implicit_inverse eta<0' if eta < 0 else 'implicit_inverse eta>0')
        cur = state[1] if is_pair else state
        if ctx.eq_kind == 'pe':
          new = ctx.eq.implicit_inverse(cur, eta, method=op.get('method', 'split'))
          labels.add('implicit_inverse method=' + op.get('method', 'split'))
        else:
          new = ctx.eq.implicit_inverse(cur, eta)
        if ctx.has_time and (np.shape(new.sim_time) != () or _time_bits(new) != _time_bits(cur)):
          viol = {'invariant': 'sim_time bit-identical across implicit_inverse',
                  'got': np.asarray(new.sim_time), 'want': np.asarray(cur.sim_time)}
        state = (state[0], new) if is_pair else new
      elif kind == 'switch_integrator':
        to = op['to']
        if to != integ:
          labels.add('switch_integrator')
          if to == LEAPFROG:
            # standard leapfrog start: the pair (x_n, x_{n+1}) with x_{n+1} from the outgoing one-step scheme
            nxt = ctx.step_fn(integ, stack)(state)
            stats['filtered'] |= bool(_active(stack, False))
            state = (state, nxt)
            n += 1
            stats['steps'] += 1
          elif integ == LEAPFROG:
            state = state[1]
          integ = to
          labels.add(f'integrator={integ}')
      elif kind == 'switch_filter_stack':
        stack = list(op['to'])
      else:
        raise ValueError(f'generator bug: unknown op {kind}')
      state = jax.block_until_ready(state)
    except Exception as e:   # pylint: disable=broad-except
      if 'generator bug' in str(e):
        raise
      return finish(dict(where, what='operation raised on an admissible state', error=repr(e)[:600]))
    is_pair = integ == LEAPFROG
    if kind in ('step', 'step_n'):
      for f in _active(stack, is_pair):
        labels.add('stack_filter=' + f['kind'])
    if viol is None:
      viol = check_state(state, n, is_pair)
    if viol is not None:
      return finish(dict(where, what='invariant violated after operation', steps_after=n, **viol))
    if inv.vd_scale > _MAX_FLOW:
      # an undamped explicit scheme left the regime the generator promises (ASSUMPTIONS): the invariants held up to
      # here; long-run stability is not part of the property, so the history ends (counted by this label)
      labels.add('stopped: flow amplitude left the stable regime')
      break
  _LAST_WORST.clear()
  _LAST_WORST.update(inv.worst)
  return finish()


# ----------------------------------------------------------------------------
# mechanism level: single tendency evaluations


def run_tendency(case):
  cfg = case['config']
  ctx = _ctx(cfg)
  eq = ctx.eq
  t0 = float(cfg.get('t0', 0.0))
  labels = {f"eq={cfg['eq']}", f"impl={cfg['grid']['impl']}"}
  if cfg['grid'].get('impl') == 'fast':
    labels.add('padded=yes' if (cfg['grid'].get('bsm') or 1) > 1 else 'padded=no')
  if cfg['eq'] != 'sw':
    labels.update(gens.sigma_labels(cfg['levels']))
  out = Outcome(labels=sorted(labels), units=0)
  nontrivial = False
  for k, init in enumerate(case['inits']):
    x = ctx.initial_state(init, t0)
    nontrivial |= float(np.abs(np.asarray(x.divergence)).max()) > 0 and float(np.abs(np.asarray(x.vorticity)).max()) > 0
    terms = [('explicit_terms', eq.explicit_terms(x), 1.0), ('implicit_terms', eq.implicit_terms(x), 0.0)]
    for eta in case['etas']:
      terms.append((f'implicit_inverse(eta={eta})', eq.implicit_inverse(x, float(eta)), None))
    for name, y, time_want in terms:
      out.units += 1
      where = {'input': k, 'term': name}
      if _struct(y)[0] != _struct(x)[0] or [s for s, _ in _struct(y)[1]] != [s for s, _ in _struct(x)[1]]:
        return out.fail(what='tendency does not have the structure of the state', got=repr(_struct(y))[:500], **where)
      import jax
      for path, leaf in jax.tree_util.tree_flatten_with_path(y)[0]:
        a = np.asarray(leaf)
        if not np.all(np.isfinite(a)):
          return out.fail(what='non-finite tendency', leaf=jax.tree_util.keystr(path), **where)
        if a.ndim >= 2 and a.shape[-2:] == ctx.modal_shape and np.any(a[..., ~ctx.allowed] != 0):
          full = np.where(ctx.allowed, 0.0, np.abs(a))
          idx = [int(i) for i in np.unravel_index(int(np.argmax(full)), full.shape)]
          return out.fail(what='entry outside the clipped triangular truncation is not exactly zero',
                          leaf=jax.tree_util.keystr(path), index=idx, got=float(full.max()), L=ctx.L, **where)
      # (0,0) budget: tendencies of vorticity / divergence (/ SW potential) have no l=0 component; the solve keeps it
      scale = max(float(np.abs(np.asarray(y.vorticity)).max()), float(np.abs(np.asarray(y.divergence)).max()))
      fields = ['vorticity', 'divergence'] + (['potential'] if ctx.eq_kind == 'sw' else [])
      for f in fields:
        got = np.asarray(getattr(y, f))[..., 0, 0]
        sc = max(scale, float(np.abs(np.asarray(getattr(y, f))).max()))
        if time_want is None:
          want = np.asarray(getattr(x, f))[..., 0, 0]
          if f == 'divergence' and ctx.eq_kind != 'sw':   # rounding scale of the coupled solve (see _Invariants.check)
            sc = max(sc, float(np.abs(np.asarray(x.temperature_variation)).max()),
                     float(np.abs(np.asarray(x.log_surface_pressure)).max()))
        else:
          want = np.zeros_like(got)
        e = core.relerr(got, want, sc)
        if e > RTOL_MEAN:
          return out.fail(what=f'(0,0) coefficient of {f} in {name}', got=got, want=want, scale=sc, relerr=e, **where)
      for tk in ctx.uniform_tracers():
        a = np.asarray(y.tracers[tk])
        q = abs(float(cfg['q_uniform'])) if tk == 'tracer_u' else 0.01 * _SQRT4PI
        flow = max(float(np.abs(np.asarray(x.divergence)).max()), float(np.abs(np.asarray(x.vorticity)).max()))
        if time_want is None:
          if not np.array_equal(a, np.asarray(x.tracers[tk])):
            return out.fail(what=f'implicit_inverse changed tracer {tk}', **where)
        elif float(np.abs(a).max()) > RTOL_TRACER * q * flow:
          return out.fail(what=f'tendency of the uniform tracer {tk} is not zero', got=float(np.abs(a).max()),
                          bound=RTOL_TRACER * q * flow, **where)
      if ctx.has_time:
        t = np.asarray(y.sim_time)
        want = t0 if time_want is None else time_want
        if np.shape(t) != () or float(t) != want:
          return out.fail(what=f'sim_time component of {name}', got=t, want=want, **where)
  out.nontrivial = bool(nontrivial)
  return out


# ----------------------------------------------------------------------------

_HIST_RULE = ('history performs >= 3 steps, applies at least one filter (in the stack of a step or stand-alone) and, for '
              'the primitive equations, the visited states have non-zero divergence')


def _hist_sub(eq, quick, thorough, shards_q, shards_t, weight):
  return Subcheck(
      name=f'history_{eq}', run=run_history, strategy=lambda tier, eq=eq: _history_case(tier, eq),
      examples={'quick': quick, 'thorough': thorough}, shards={'quick': shards_q, 'thorough': shards_t},
      wall={'quick': 400.0, 'thorough': 1500.0}, rule=_HIST_RULE, weight=weight,
      doc=f'operation histories on {eq}: invariants after every operation')


SUBCHECKS = [
    _hist_sub('moist', 6, 120, 1, 3, 10),
    _hist_sub('pe_time', 6, 120, 1, 3, 9),
    _hist_sub('pe', 6, 120, 1, 3, 8),
    _hist_sub('sw', 6, 120, 1, 3, 7),
    Subcheck(name='tendency_structure', run=run_tendency, strategy=_tendency_case,
             examples={'quick': 40, 'thorough': 400}, shards={'quick': 1, 'thorough': 2},
             wall={'quick': 400.0, 'thorough': 1500.0},
             rule='input has non-zero vorticity and divergence', weight=3,
             doc='mechanisms: explicit/implicit tendencies and the implicit solve are clipped, masked, have no l=0 '
                 'component in vorticity/divergence/potential, leave a uniform tracer alone, and carry sim_time '
                 'tendencies 1 / 0 / pass-through exactly'),
]
