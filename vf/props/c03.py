"""C03 The implicit solve is the exact inverse of (1 - step * implicit tendency)."""
from __future__ import annotations

import math

from hypothesis import strategies as st
import numpy as np

from vf import core, gens
from vf.core import Outcome, Subcheck
from vf.props import c13 as _c13

RTOL_ALGEBRA = 1e-9     # operator entries vs documented formulas (measured 3e-16)
SOLVE_CU = 1e-13        # C*u in |x_hat - x| <= C u cond(M) ||M^-1|| ||b|| (u = 1.1e-16, C = 900; measured C <= 4)
DEFAULT_R = 0.00033225165572835946   # PrimitiveEquationsSpecs.from_si().R in the default scale
DEFAULT_KAPPA = 0.2857142857142857

RULE = ('Hypothesis draws a configuration: modal-only grid (1-2 longitude wavenumbers, up to 64 (quick) / 128 '
        '(thorough) total wavenumbers, radius, Real or Fast layout), sigma levels (1..12 / 24 layers, uneven), reference '
        'temperature (constant / linear / random 150-350 K), gas constant, kappa, step size of either sign chosen through '
        'the stiffness |eta| ||A|| in [1e-3, 6e3], vertical_matmul_method in {None, dense, sparse}, equation class '
        '(PrimitiveEquations with methods split / stacked / blockwise, PrimitiveEquationsWithTime; always also the '
        'TimeReversedImExODE wrapper); shallow water: 1..5 layers, densities, reference potentials. For every '
        'configuration the complete per-wavenumber operator A of implicit_terms and the complete matrix B of '
        'implicit_inverse are extracted by pushing every unit vector of the coupled fields (field x level) through the '
        'code at every (m, l) simultaneously; that the operators do not couple different (m, l) and are linear is '
        'checked on seeded dense random states and (small grids) on the true full unit basis. Oracle: float64 '
        'numpy.linalg.solve(I - eta A) per wavenumber; A is additionally compared with loop implementations of the '
        'documented G / H formulas. Tolerance 1e-13 * cond_2(M) ||M^-1||_2 ||b||_2 with M = I - eta A_l (forward error '
        'bound of an inverse-based solve). distinct = hash of the canonical JSON case; non-trivial = at least 2 layers '
        'and (uneven levels or non-constant T_ref or eta < 0); shallow water: eta < 0 or >= 2 layers with different '
        'reference potentials.')
ASSUMPTIONS = [
    'step sizes are concrete python floats (the code documents that traced step sizes are rejected)',
    'the generator bounds the stiffness |eta| ||A|| <= 6e3 so that cond(I - eta A) stays below ~1e8; the tolerance '
    'always scales with the condition number of the float64 reference solve; cases with cond >= 1e10 would not be '
    'counted as non-trivial',
    'reference temperatures are positive (150-350 K), shallow-water reference potentials are positive (the Schur '
    'complement 1 - eta^2 Phi lambda is then >= 1, never singular)',
    'entries outside the spectral mask (|m| > l, the sin(0) row and padding of the Fast layout) are not part of the '
    'state space and are not compared',
    'the implicit system acts on (divergence, temperature_variation, log_surface_pressure) / (divergence, potential); '
    'vorticity, tracers and sim_time must pass through the solve bit-for-bit and have zero implicit tendency',
]
MANIFEST = {
    'text': 'Property-based exploration: for generated vertical discretisations, reference profiles, constants, grids '
            'and step sizes of either sign the complete operator of implicit_terms and the complete matrix of '
            'implicit_inverse (every solve method, every vertical matmul method, time-reversed and with-time wrappers, '
            'layered shallow water) are extracted with all unit vectors and compared with a float64 numpy reference '
            'solve per total wavenumber (tolerance scaled by the condition number), with each other, and with loop '
            'implementations of the documented geopotential / temperature coupling matrices.',
    'note': 'trusted base: numpy.linalg.solve / cond in float64, loop formulas in vf/oracles/sigma_ref.py, Hypothesis; '
            'exhaustive over the state basis only per generated configuration; no claim for cond > 1e10',
    'technique': 'property-based differential testing against a dense float64 reference solve, full-basis operator extraction',
}


# ----------------------------------------------------------------------------
# generic machinery: a coupled linear system acting per (m, l)


class _System:
  """Describes which leaves of a state are coupled by the implicit operator and how to build a state."""

  def __init__(self, grid, fields, build, passthrough):
    self.grid = grid
    self.fields = fields                    # [(leaf name, number of levels)]
    self.build = build                      # (dict name -> array[..., lev, R, L], batch or None) -> state
    self.passthrough = passthrough          # names of leaves that must pass through
    self.N = sum(k for _, k in fields)
    self.R, self.L = grid.modal_shape
    self.mask = np.asarray(grid.mask, dtype=bool)

  def slices(self):
    out, o = {}, 0
    for name, k in self.fields:
      out[name] = slice(o, o + k)
      o += k
    return out

  def batch_from_blocks(self, X):
    """X[R, L, N, Nb] -> dict name -> array (Nb, lev, R, L)."""
    return {name: np.ascontiguousarray(np.transpose(X[:, :, sl, :], (3, 2, 0, 1))) for name, sl in self.slices().items()}

  def blocks_from_batch(self, state):
    """state with leaves (Nb, lev, R, L) -> X[R, L, N, Nb]."""
    v = np.concatenate([np.asarray(getattr(state, name), dtype=np.float64) for name, _ in self.fields], axis=1)
    return np.transpose(v, (2, 3, 1, 0))


def _push(fn, sys_, X, extras=None):
  """Applies fn to the batch of states described by X[R, L, N, Nb] (one jitted, vmapped call).

  Returns the coupled leaves of the result as blocks [R, L, N, Nb] and the whole batched result."""
  import jax
  Nb = X.shape[-1]
  state = sys_.build(sys_.batch_from_blocks(X), Nb, extras)
  res = jax.jit(jax.vmap(fn))(state)
  return sys_.blocks_from_batch(res), res


def _push_all(fns, sys_, X, extras=None):
  """Same for several functions of the same batch under one compilation: name -> (blocks, batched result)."""
  import jax
  Nb = X.shape[-1]
  state = sys_.build(sys_.batch_from_blocks(X), Nb, extras)
  res = jax.jit(jax.vmap(lambda s: {name: fn(s) for name, fn in fns.items()}))(state)
  return {name: (sys_.blocks_from_batch(r), r) for name, r in res.items()}


def _unit_blocks(sys_):
  eye = np.eye(sys_.N)
  return np.broadcast_to(eye, (sys_.R, sys_.L, sys_.N, sys_.N)).copy()


def _worst(err, tol, mask):
  """Largest err/tol over masked-in (r, l) blocks; err, tol broadcastable to (R, L, N, Nb)."""
  ratio = np.where(mask[:, :, None, None], err / np.maximum(tol, 1e-300), 0.0)
  ratio = np.where(np.isnan(ratio), np.inf, ratio)
  idx = np.unravel_index(int(np.argmax(ratio)), ratio.shape)
  return float(ratio[idx]), [int(i) for i in idx]


def _dense_blocks(sys_, states):
  """Seeded dense states as blocks [R, L, N, k] (zero outside the spectral mask)."""
  l = np.arange(sys_.L)[None, :, None]
  cols = []
  for sd in states:
    rng = np.random.default_rng([int(sd['seed']), 11])
    v = np.zeros((sys_.R, sys_.L, sys_.N))
    for (name, sl), sc in zip(sys_.slices().items(), sd['scales']):
      k = sl.stop - sl.start
      v[:, :, sl] = rng.standard_normal((sys_.R, sys_.L, k)) * sc / (1.0 + l) ** sd['slope']
    cols.append(v * sys_.mask[:, :, None])
  if not cols:
    return np.zeros((sys_.R, sys_.L, sys_.N, 0))
  return np.stack(cols, axis=-1)


def _passthrough_values(sys_, seed, batch):
  rng = np.random.default_rng([int(seed), 23])
  n = sys_.fields[0][1]
  vals = {}
  for name in sys_.passthrough:
    if name == 'sim_time':
      vals[name] = np.round(rng.uniform(-5, 5, size=(batch,)), 3)
    elif name == 'tracers':
      vals[name] = {'q': rng.standard_normal((batch, n, sys_.R, sys_.L)),
                    'cloud': rng.standard_normal((batch, n, sys_.R, sys_.L))}
    else:
      vals[name] = rng.standard_normal((batch, n, sys_.R, sys_.L))
  return vals


def _leaves(v):
  if isinstance(v, dict):
    return [(k, v[k]) for k in sorted(v)]
  return [('', v)]


def _passthrough_mismatch(sys_, state, extras, zero=False):
  """Name of the first leaf outside the implicit system that is not returned bit-for-bit (zero=True: not == 0)."""
  for name in sys_.passthrough:
    got = getattr(state, name)
    if isinstance(extras[name], dict):
      if sorted(got.keys()) != sorted(extras[name].keys()):
        return name + ': keys changed'
    for (k, g), (_, w) in zip(_leaves(got), _leaves(extras[name])):
      g, w = np.asarray(g), np.asarray(w)
      full = f'{name}{"." + k if k else ""}'
      if g.shape != w.shape:
        return full + f': shape {g.shape} != {w.shape}'
      if zero and np.any(g != 0):
        return full + ': tendency not identically 0'
      if not zero and not np.array_equal(g, w):
        return full
  return None


_STATS = []   # (label, method, kind, worst err/bound) of the last calls: read by calibration scripts only


def _check_resolvent(out, sys_, terms_fn, inv_fns, eta, states, label, reversed_terms_fn=None):
  """Core of C03: every inv_fn is the resolvent of terms_fn. Returns (A, cond_max); failures are recorded in `out`.

  A[R, L, N, N] = matrix of terms_fn per (m, l), from all unit vectors. Acceptance bound for a solve of M x = b
  through (block) inverses in float64 (Higham, Accuracy and Stability of Numerical Algorithms, ch. 14):
  |x_hat - x| <= C u cond_2(M) ||M^-1||_2 ||b||_2, with C u = SOLVE_CU.
  """
  N, mask = sys_.N, sys_.mask
  eye = np.eye(N)
  unit = _unit_blocks(sys_)
  dense = _dense_blocks(sys_, states)
  k = dense.shape[-1]
  seed0 = states[0]['seed'] if states else 0
  ex_t = _passthrough_values(sys_, seed0, N + k)
  tfns = {'forward': terms_fn}
  if reversed_terms_fn is not None:
    tfns['time_reversed'] = reversed_terms_fn
  pushed_t = _push_all(tfns, sys_, np.concatenate([unit, dense], axis=-1), ex_t)
  T, t_state = pushed_t['forward']
  out.units += (N + k) * len(tfns)
  A, tdense = T[..., :N], T[..., N:]
  for nm, (_, ts) in pushed_t.items():
    bad = _passthrough_mismatch(sys_, ts, ex_t, zero=True)
    if bad:
      out.fail(what='implicit tendency of a leaf outside the implicit system is not zero', leaf=bad, label=label,
               equation=nm)
      return A, 1.0
  if reversed_terms_fn is not None and not np.array_equal(pushed_t['time_reversed'][0], -T):
    dev = np.abs(pushed_t['time_reversed'][0] + T)
    r, l, i, j = [int(v) for v in np.unravel_index(int(np.argmax(dev)), dev.shape)]
    out.fail(what='TimeReversedImExODE.implicit_terms is not the negated forward implicit tendency', row_m=r, l=l,
             component_out=i, column=j, forward=T[r, l, i, j], reversed=pushed_t['time_reversed'][0][r, l, i, j])
    return A, 1.0
  Mx = eye - eta * A
  Mx = np.where(mask[:, :, None, None], Mx, eye)        # blocks outside the state space are not compared
  inv_ref = np.linalg.solve(Mx, np.broadcast_to(eye, Mx.shape))
  sv = np.linalg.svd(Mx, compute_uv=False)
  cond = sv[..., 0] / sv[..., -1]
  inv_norm = 1.0 / sv[..., -1]
  cmax = float(cond[mask].max())
  base = (SOLVE_CU * cond * inv_norm)[:, :, None, None] * np.ones((1, 1, N, 1))    # times ||b||_2
  info = {'cond_max': cmax, 'eta': eta, 'label': label}
  rhs = unit - eta * A                                   # e_j - eta * implicit_terms(e_j) as computed by the code
  ydense = dense - eta * tdense
  X = np.concatenate([unit, rhs, ydense], axis=-1)
  bn = np.maximum(np.sqrt(np.sum(X ** 2, axis=-2, keepdims=True)), 1e-300)      # ||b||_2 per right-hand side
  bound = base * bn
  want = np.concatenate([inv_ref, unit, dense], axis=-1)
  kinds = ['unit'] * N + ['roundtrip'] * N + ['dense'] * k
  whats = {'unit': 'implicit_inverse(e_j, eta) != numpy.linalg.solve(I - eta*A, e_j)',
           'roundtrip': 'implicit_inverse(e_j - eta*implicit_terms(e_j), eta) != e_j',
           'dense': 'implicit_inverse(x - eta*implicit_terms(x), eta) != x on a dense state'}
  ex_i = _passthrough_values(sys_, seed0 + 1, 2 * N + k)
  Bs = {}
  pushed = _push_all(inv_fns, sys_, X, ex_i)
  for name in inv_fns:
    got, got_state = pushed[name]
    out.units += 2 * N + k
    Bs[name] = got
    ratio = np.where(mask[:, :, None, None], np.abs(got - want) / bound, 0.0)
    ratio = np.where(np.isnan(ratio), np.inf, ratio)
    for kind in ('unit', 'roundtrip', 'dense'):
      cols = [i for i, kd in enumerate(kinds) if kd == kind]
      if cols:
        _STATS.append((label, name, kind, float(ratio[..., cols].max())))
    if not ratio.max() <= 1.0:
      r, l, i, j = [int(v) for v in np.unravel_index(int(np.argmax(ratio)), ratio.shape)]
      kind = kinds[j]
      jj = j if kind == 'unit' else (j - N if kind == 'roundtrip' else j - 2 * N)
      extra = {'component_in': jj} if kind != 'dense' else {'state': states[jj]}
      out.fail(what=whats[kind], method=name, err_over_bound=float(ratio[r, l, i, j]), row_m=r, l=l,
               component_out=i, got=got[r, l, i, j], want=want[r, l, i, j], cond=cond[r, l],
               bound=float(bound[r, l, i, j]), **extra, **info)
      return A, cmax
    # the inverse of a dense state equals the per-(m,l) matrices applied block by block (locality + linearity)
    if k:
      pred = np.einsum('rlij,rljk->rlik', got[..., :N], ydense)
      w, idx = _worst(np.abs(got[..., 2 * N:] - pred), bound[..., 2 * N:], mask)
      if not w <= 1.0:
        r, l, i, j = idx
        out.fail(what='implicit_inverse couples different (m, l) or is not linear: dense state != block matrices '
                      'applied per wavenumber', method=name, err_over_bound=w, row_m=r, l=l, component=i,
                 got=got[r, l, i, 2 * N + j], want=pred[r, l, i, j], state=states[j], **info)
        return A, cmax
    bad = _passthrough_mismatch(sys_, got_state, ex_i)
    if bad:
      out.fail(what='leaf outside the implicit system was changed by implicit_inverse', leaf=bad, method=name, **info)
      return A, cmax
  names = sorted(Bs)
  for a in range(len(names)):
    for b in range(a + 1, len(names)):
      w, idx = _worst(np.abs(Bs[names[a]] - Bs[names[b]]), 2 * bound, mask)
      if not w <= 1.0:
        r, l, i, j = idx
        out.fail(what='solve methods disagree', methods=[names[a], names[b]], err_over_bound=w, row_m=r, l=l,
                 component_out=i, column=j, column_kind=kinds[j], a=Bs[names[a]][r, l, i, j],
                 b=Bs[names[b]][r, l, i, j], cond=cond[r, l], **info)
        return A, cmax
  return A, cmax


# ----------------------------------------------------------------------------
# primitive equations


def _modal_grid(g):
  from dinosaur import spherical_harmonic as sh
  impl = sh.FastSphericalHarmonics if g.get('impl') == 'fast' else sh.RealSphericalHarmonics
  return sh.Grid(longitude_wavenumbers=g['M'], total_wavenumbers=g['L'], radius=g.get('radius'),
                 spherical_harmonics_impl=impl)


def _pe_system(case, matmul, variant):
  import dataclasses
  from dinosaur import coordinate_systems as cs, primitive_equations as pe
  grid = _modal_grid(case['grid'])
  vert = gens.build_sigma(case['boundaries'])
  coords = cs.CoordinateSystem(grid, vert)
  specs = dataclasses.replace(pe.PrimitiveEquationsSpecs.from_si(), ideal_gas_constant=float(case['R']),
                              kappa=float(case['kappa']))
  t_ref = np.asarray(case['t_ref'], dtype=np.float64)
  n = vert.layers
  cls = pe.PrimitiveEquationsWithTime if variant == 'with_time' else pe.PrimitiveEquations
  eq = cls(t_ref, np.zeros(grid.modal_shape), coords, specs, vertical_matmul_method=matmul)
  R_, L_ = grid.modal_shape
  with_time = variant == 'with_time'

  def build(arrs, batch, extras=None):
    extras = extras or {}
    vort = extras.get('vorticity')
    if vort is None:
      vort = np.zeros((batch, n, R_, L_))
    kw = dict(vorticity=vort, divergence=arrs['divergence'], temperature_variation=arrs['temperature_variation'],
              log_surface_pressure=arrs['log_surface_pressure'], tracers=extras.get('tracers', {}))
    if with_time:
      st_ = extras.get('sim_time')
      return pe.StateWithTime(sim_time=np.zeros(batch) if st_ is None else st_, **kw)
    return pe.State(**kw)

  fields = [('divergence', n), ('temperature_variation', n), ('log_surface_pressure', 1)]
  passthrough = ['vorticity', 'tracers'] + (['sim_time'] if with_time else [])
  return _System(grid, fields, build, passthrough), eq, grid


def _pe_reference_blocks(case, grid):
  from vf.oracles import sigma_ref as ref
  lam = np.asarray(grid.laplacian_eigenvalues, dtype=np.float64)
  b, t_ref = case['boundaries'], case['t_ref']
  n = len(b) - 1
  N = 2 * n + 1
  A = np.stack([ref.pe_implicit_matrix(b, t_ref, case['kappa'], case['R'], float(lam[l])) for l in range(len(lam))])
  # entry-wise scale: largest entry of the same (field-out, field-in) block for that l; zero blocks must be exactly 0
  S = np.zeros_like(A)
  sl = [slice(0, n), slice(n, 2 * n), slice(2 * n, N)]
  for a in sl:
    for c in sl:
      blk = np.abs(A[:, a, c])
      S[:, a, c] = blk.max(axis=(1, 2), keepdims=True)
  return A, S


def _pe_labels(case):
  b, t = case['boundaries'], np.asarray(case['t_ref'])
  labs = gens.sigma_labels(b)
  labs.append('t_ref=' + ('constant' if np.ptp(t) == 0 else ('linear' if len(t) > 2 and np.ptp(np.diff(t)) < 1e-6 * (np.ptp(t) + 1) else 'varying')))
  labs.append('eta<0' if case['eta'] < 0 else 'eta>0')
  labs.append(f"matmul={case.get('matmul')}")
  labs.append(f"impl={case['grid'].get('impl', 'real')}")
  labs.append(f"M={case['grid']['M']}")
  L = case['grid']['L']
  labs.append('L=1' if L == 1 else ('L<=8' if L <= 8 else ('L<=32' if L <= 32 else 'L>32')))
  labs.append('radius=default' if case['grid'].get('radius') in (None, 1.0) else 'radius=other')
  labs.append('R=default' if case['R'] == DEFAULT_R else 'R=other')
  labs.append('kappa=default' if case['kappa'] == DEFAULT_KAPPA else 'kappa=other')
  if 'variant' in case:
    labs.append(f"variant={case['variant']}")
  return labs


def _pe_nontrivial(case):
  d = np.diff(np.asarray(case['boundaries']))
  uneven = len(d) >= 2 and float(d.max() / d.min()) > 1.0001
  return len(d) >= 2 and (uneven or np.ptp(case['t_ref']) > 0 or case['eta'] < 0)


def _sig(x, digits=3):
  if x == 0:
    return 0.0
  return float(f'%.{digits}g' % x)


@st.composite
def _pe_case(draw, tier, with_variant=True):
  maxL = 64 if tier == 'quick' else 128
  L = draw(st.sampled_from([v for v in (1, 2, 3, 5, 8, 16, 33, 64, 128) if v <= maxL]))
  M = draw(st.sampled_from([1, 2, 2])) if L >= 2 else 1
  grid = {'L': L, 'M': M, 'radius': draw(st.sampled_from([None, None, 1.0, 2.5, 0.3])),
          'impl': draw(st.sampled_from(['real', 'real', 'fast']))}
  b = draw(_c13._levels(tier))   # pylint: disable=protected-access
  n = len(b) - 1
  kind = draw(st.sampled_from(['constant', 'linear', 'random', 'random']))
  if kind == 'constant' or n == 1:
    t_ref = [float(draw(st.sampled_from([250.0, 288.0, 150.0, 350.0])))] * n
  elif kind == 'linear':
    t0, t1 = draw(st.sampled_from([(200.0, 300.0), (300.0, 200.0), (150.0, 350.0), (250.0, 260.0)]))
    t_ref = [float(np.round(t0 + (t1 - t0) * k / (n - 1), 3)) for k in range(n)]
  else:
    t_ref = [float(draw(st.integers(150, 350))) for _ in range(n)]
  R = draw(st.sampled_from([DEFAULT_R, DEFAULT_R, 1.0, 0.01, 287.0]))
  kappa = draw(st.sampled_from([DEFAULT_KAPPA, DEFAULT_KAPPA, 0.4, 0.1, 1.0 / 3.0]))
  radius = grid['radius'] or 1.0
  lam_max = L * (L - 1) / radius ** 2
  u = draw(st.sampled_from([-3.0, -2.0, -1.0, -0.5, 0.0, 0.5, 1.0, 1.5, 2.0, 2.5, 3.0]))
  mant = draw(st.sampled_from([1.0, 2.5, 6.0]))
  sign = draw(st.sampled_from([1.0, 1.0, -1.0]))
  # step size through the stiffness |eta| * ||A_lmax||_2 in [1e-3, 6e3] (reference operator from the documented
  # formulas): keeps cond(I - eta A) below ~1e8 while reaching both the non-stiff and the very stiff regime
  from vf.oracles import sigma_ref
  a_norm = float(np.linalg.norm(sigma_ref.pe_implicit_matrix(b, t_ref, kappa, R, -lam_max), 2))
  eta = sign * 10.0 ** u * mant / a_norm
  case = {'grid': grid, 'boundaries': b, 't_ref': t_ref, 'R': R, 'kappa': kappa, 'eta': _sig(eta, 4),
          'matmul': draw(st.sampled_from([None, 'dense', 'sparse', 'sparse']))}
  if with_variant:
    case['variant'] = draw(st.sampled_from(['plain', 'plain', 'with_time']))
    k = draw(st.integers(1, 2))
    case['states'] = [{'seed': draw(st.integers(0, 9999)),
                       'scales': draw(st.sampled_from([[1.0, 1.0, 1.0], [1e-2, 10.0, 0.05], [1.0, 0.0, 0.0], [0.0, 1.0, 1.0]])),
                       'slope': draw(st.sampled_from([0, 0, 1, 2]))} for _ in range(k)]
  return case


def _cond_label(cmax):
  return 'cond<1e3' if cmax < 1e3 else ('cond<1e6' if cmax < 1e6 else ('cond<1e10' if cmax < 1e10 else 'cond>=1e10'))


def run_pe_resolvent(case):
  import functools
  from dinosaur import time_integration as ti
  variant = case.get('variant', 'plain')
  sys_, eq, grid = _pe_system(case, case.get('matmul'), variant)
  rev = ti.TimeReversedImExODE(eq)
  eta = float(case['eta'])
  out = Outcome(nontrivial=_pe_nontrivial(case), labels=_pe_labels(case), units=0)
  if variant == 'plain':
    inv_fns = {m: functools.partial(lambda s, m_: eq.implicit_inverse(s, eta, method=m_), m_=m)
               for m in ('split', 'stacked', 'blockwise')}
  else:
    inv_fns = {variant: lambda s: eq.implicit_inverse(s, eta)}
  # the time-reversed equation has implicit operator -A; its resolvent for the step -eta is again (I - eta A)^-1
  inv_fns['time_reversed(-eta)'] = lambda s: rev.implicit_inverse(s, -eta)
  _, cmax = _check_resolvent(out, sys_, eq.implicit_terms, inv_fns, eta, case.get('states', []), variant,
                             reversed_terms_fn=rev.implicit_terms)
  out.labels = list(out.labels) + [_cond_label(cmax)]
  if cmax >= 1e10:
    out.nontrivial = False
  return out


def run_pe_operator(case):
  """implicit_terms: per-wavenumber matrix equals the documented formulas for every vertical matmul method; linear,
  local in (m, l), independent of m; zero tendency for vorticity / tracers / sim_time."""
  import jax
  out = Outcome(nontrivial=_pe_nontrivial(case), labels=_pe_labels(dict(case, matmul='all')), units=0)
  mats = {}
  n = len(case['boundaries']) - 1
  names = ['divergence'] * n + ['temperature_variation'] * n + ['log_surface_pressure']
  lev = list(range(n)) + list(range(n)) + [0]
  a_, b_ = 0.75, -2.5
  for matmul in (None, 'dense', 'sparse'):
    sys_, eq, grid = _pe_system(case, matmul, 'with_time' if case.get('with_time') else 'plain')
    N = sys_.N
    dense = _dense_blocks(sys_, case.get('states', []))
    k = dense.shape[-1]
    if k:
      other = _dense_blocks(sys_, [dict(sd, seed=sd['seed'] + 1, scales=sd['scales'][::-1], slope=0) for sd in case['states']])
      dense = np.concatenate([dense, other, a_ * dense + b_ * other], axis=-1)
    extras = _passthrough_values(sys_, 3, N + 3 * k)
    T, t_state = _push(eq.implicit_terms, sys_, np.concatenate([_unit_blocks(sys_), dense], axis=-1), extras)
    out.units += N + 3 * k
    A = T[..., :N]
    mats[matmul] = A
    Aref, S = _pe_reference_blocks(case, grid)
    err = np.abs(A - Aref[None])
    tol = RTOL_ALGEBRA * S[None]
    bad = (err > tol) & sys_.mask[:, :, None, None]
    if bad.any():
      r, l, i, j = [int(v[0]) for v in np.nonzero(bad)]
      return out.fail(what='implicit_terms operator differs from the documented implicit tendency '
                           '(-lap(G T + R T_ref lnps), -H div, -sum dsigma div)', vertical_matmul_method=matmul,
                      row_m=r, l=l, out_component=[names[i], lev[i]], in_component=[names[j], lev[j]],
                      got=A[r, l, i, j], want=Aref[l, i, j], scale=S[l, i, j], rtol=RTOL_ALGEBRA)
    # independent of the longitudinal wavenumber row
    dev = np.abs(A - A[:1]) * sys_.mask[:, :, None, None]
    if np.any(dev > 1e-13 * S[None]):
      return out.fail(what='implicit operator depends on the longitudinal wavenumber', vertical_matmul_method=matmul,
                      max_dev=float(dev.max()))
    if k:
      # dense states: locality (block matrices applied per (m, l)) and linearity
      got = T[..., N:]
      pred = np.einsum('rlij,rljk->rlik', A, dense)
      scale = np.einsum('rlij,rljk->rlik', np.abs(A), np.abs(dense)).max(axis=-2, keepdims=True)
      bad = (np.abs(got - pred) > RTOL_ALGEBRA * np.maximum(scale, 1e-300)) & sys_.mask[:, :, None, None]
      if bad.any():
        r, l, i, j = [int(v[0]) for v in np.nonzero(bad)]
        return out.fail(what='implicit_terms couples different (m, l) or is not linear: dense state != block matrices '
                             'applied per wavenumber', vertical_matmul_method=matmul, row_m=r, l=l,
                        component=[names[i], lev[i]], got=got[r, l, i, j], want=pred[r, l, i, j], state_index=j)
      lin = a_ * got[..., :k] + b_ * got[..., k:2 * k]
      lscale = (abs(a_) * np.abs(got[..., :k]) + abs(b_) * np.abs(got[..., k:2 * k])).max(axis=-2, keepdims=True)
      if np.any((np.abs(got[..., 2 * k:] - lin) > RTOL_ALGEBRA * np.maximum(lscale, 1e-300)) & sys_.mask[:, :, None, None]):
        return out.fail(what='implicit_terms(a x + b y) != a implicit_terms(x) + b implicit_terms(y)',
                        vertical_matmul_method=matmul)
    bad = _passthrough_mismatch(sys_, t_state, extras, zero=True)
    if bad:
      return out.fail(what='implicit tendency of a leaf outside the implicit system is not zero', leaf=bad,
                      vertical_matmul_method=matmul)
  # true full unit basis (every field x level x l at a fixed m row) on small systems: block diagonal in l and m
  sys_, eq, grid = _pe_system(case, case.get('full_basis_matmul'), 'plain')
  N, L, R_ = sys_.N, sys_.L, sys_.R
  if N * L <= 600:
    for row in sorted({0, R_ - 1}):
      batch = {}
      o = 0
      for name, kk in sys_.fields:
        arr = np.zeros((N * L, kk, R_, L))
        for lv in range(kk):
          for l in range(L):
            arr[(o + lv) * L + l, lv, row, l] = 1.0
        batch[name] = arr
        o += kk
      res = jax.jit(jax.vmap(eq.implicit_terms))(sys_.build(batch, N * L))
      full = np.concatenate([np.asarray(getattr(res, nm)) for nm, _ in sys_.fields], axis=1)   # (N*L, N, R, L)
      full = full.reshape(N, L, N, R_, L)       # [j_in, l_in, i_out, r_out, l_out]
      out.units += N * L
      want = np.zeros_like(full)
      A = mats[case.get('full_basis_matmul')]
      for l in range(L):
        want[:, l, :, row, l] = A[row, l].T
      if np.any((full != 0) & (want == 0)):
        j, l_in, i, r, l_out = [int(v[0]) for v in np.nonzero((full != 0) & (want == 0))]
        return out.fail(what='implicit_terms couples different wavenumbers: unit vector produces output at another (m, l)',
                        in_component=[names[j], lev[j]], in_l=l_in, in_row=row, out_component=[names[i], lev[i]],
                        out_row=r, out_l=l_out, value=full[j, l_in, i, r, l_out])
      if np.any(np.abs(full - want) > 1e-13 * np.abs(want).max()):
        return out.fail(what='full unit basis disagrees with the simultaneous block probing',
                        max_dev=float(np.abs(full - want).max()))
    out.labels = list(out.labels) + ['full_unit_basis']
  return out


@st.composite
def _pe_operator_case(draw, tier):
  case = draw(_pe_case(tier, with_variant=False))
  case['full_basis_matmul'] = case.pop('matmul')
  case['with_time'] = draw(st.booleans())
  case['states'] = [{'seed': draw(st.integers(0, 9999)),
                     'scales': draw(st.sampled_from([[1.0, 1.0, 1.0], [1e-2, 10.0, 0.05]])),
                     'slope': draw(st.sampled_from([0, 1]))}]
  return case


# ----------------------------------------------------------------------------
# function level: dense == sparse == loop reference (format of DESIGN.md section 2.0, defect #1)


@st.composite
def _dense_sparse_case(draw, tier):
  b = draw(_c13._levels(tier))   # pylint: disable=protected-access
  n = len(b) - 1
  kind = draw(st.sampled_from(['constant', 'linear', 'random']))
  if kind == 'constant' or n == 1:
    t_ref = [250.0] * n
  elif kind == 'linear':
    t_ref = [float(np.round(200.0 + 100.0 * k / (n - 1), 3)) for k in range(n)]
  else:
    t_ref = [float(draw(st.integers(150, 350))) for _ in range(n)]
  cfg = {'boundaries': b, 't_ref': t_ref, 'kappa': draw(st.sampled_from([0.2857, 0.2857, 0.4, 0.1])),
         'R': draw(st.sampled_from([287.0, 1.0, DEFAULT_R])), 'modal_shape': draw(st.sampled_from([[1, 1], [2, 3], [3, 2]]))}
  ms = cfg['modal_shape']
  inputs = []
  for _ in range(draw(st.integers(1, 3))):
    sparse = []
    for _ in range(draw(st.integers(0, 3))):
      sparse.append([draw(st.sampled_from(['divergence', 'temperature'])), draw(st.integers(0, n - 1)),
                     draw(st.integers(0, ms[0] - 1)), draw(st.integers(0, ms[1] - 1)),
                     draw(st.sampled_from([1.0, -1.0, 0.5, 3.0]))])
    inputs.append({'sparse': sparse, 'noise_amp': draw(st.sampled_from([0.0, 1.0, 1.0])),
                   'noise_seed': draw(st.integers(0, 9999))})
  return {'config': cfg, 'inputs': inputs}


def run_dense_sparse(case):
  from dinosaur import primitive_equations as pe
  from vf.oracles import sigma_ref as ref
  cfg = case['config']
  b, t_ref, kappa = cfg['boundaries'], np.asarray(cfg['t_ref'], dtype=np.float64), float(cfg['kappa'])
  R = float(cfg.get('R', 287.0))
  ms = tuple(cfg.get('modal_shape', [1, 1]))
  n = len(b) - 1
  coords = gens.build_sigma(b)
  d = np.diff(np.asarray(b))
  uneven = n >= 3 and float(d.max() / d.min()) > 1.0001
  labs = gens.sigma_labels(b) + ['t_ref=' + ('constant' if np.ptp(t_ref) == 0 else 'varying')]
  out = Outcome(nontrivial=uneven, labels=labs, units=0)
  H = np.asarray(pe.get_temperature_implicit_weights(coords, t_ref, kappa))
  Href = ref.temperature_implicit_weights(b, t_ref, kappa)
  hscale = float(np.abs(Href).max())
  if core.relerr(H, Href, scale=hscale) > RTOL_ALGEBRA:
    idx = core.argmax_index(H, Href)
    return out.fail(what='get_temperature_implicit_weights != documented formula for H', index=idx,
                    got=H[tuple(idx)], want=Href[tuple(idx)], scale=hscale, rtol=RTOL_ALGEBRA)
  G = np.asarray(pe.get_geopotential_weights(coords, R))
  Gref = ref.geopotential_weights(b, R)
  for inp in case['inputs']:
    div = np.zeros((n,) + ms)
    tem = np.zeros((n,) + ms)
    if inp.get('noise_amp'):
      rng = np.random.default_rng(int(inp.get('noise_seed', 0)))
      div += inp['noise_amp'] * rng.standard_normal(div.shape)
      tem += inp['noise_amp'] * rng.standard_normal(tem.shape)
    for f, lev, m, l, a in inp.get('sparse', []):
      tgt = div if f == 'divergence' else tem
      tgt[min(int(lev), n - 1), min(int(m), ms[0] - 1), min(int(l), ms[1] - 1)] += a
    out.units += 2
    want = np.einsum('rs,sml->rml', -Href, div)
    scale = float(np.max(np.einsum('rs,sml->rml', np.abs(Href), np.abs(div)))) or 1.0
    dense = np.asarray(pe.get_temperature_implicit(div, coords, t_ref, kappa, method='dense'))
    sparse = np.asarray(pe.get_temperature_implicit(div, coords, t_ref, kappa, method='sparse'))
    col = lambda a_: [float(v) for v in a_.reshape(n, -1)[:, int(np.argmax(np.abs(dense - sparse).reshape(n, -1).max(axis=0)))]]  # noqa: E731
    for name, got in (('dense', dense), ('sparse', sparse)):
      e = core.relerr(got, want, scale=scale)
      if e > RTOL_ALGEBRA:
        return out.fail(what=f'get_temperature_implicit(method={name}) != -H . divergence (documented H, loops)',
                        dense=col(dense), sparse=col(sparse), want=col(want), scale=scale, rtol=RTOL_ALGEBRA, relerr=e,
                        input=inp)
    e = core.relerr(dense, sparse, scale=scale)
    if e > RTOL_ALGEBRA:
      return out.fail(what='get_temperature_implicit dense != sparse', dense=col(dense), sparse=col(sparse),
                      scale=scale, rtol=RTOL_ALGEBRA, relerr=e, input=inp)
    gwant = np.einsum('rs,sml->rml', Gref, tem)
    gscale = float(np.max(np.einsum('rs,sml->rml', np.abs(Gref), np.abs(tem)))) or 1.0
    gd = np.asarray(pe.get_geopotential_diff(tem, coords, R, method='dense'))
    gs = np.asarray(pe.get_geopotential_diff(tem, coords, R, method='sparse'))
    for name, got in (('dense', gd), ('sparse', gs)):
      e = core.relerr(got, gwant, scale=gscale)
      if e > RTOL_ALGEBRA:
        return out.fail(what=f'get_geopotential_diff(method={name}) != G . temperature (documented G, loops)',
                        relerr=e, scale=gscale, rtol=RTOL_ALGEBRA, input=inp)
  if core.relerr(G, Gref, scale=float(np.abs(Gref).max())) > RTOL_ALGEBRA:
    return out.fail(what='get_geopotential_weights != documented matrix')
  return out


# ----------------------------------------------------------------------------
# shallow water


def _sw_system(case):
  from dinosaur import coordinate_systems as cs, layer_coordinates as lc, scales, shallow_water as sw
  grid = _modal_grid(case['grid'])
  n = len(case['ref_potential'])
  coords = cs.CoordinateSystem(grid, lc.LayerCoordinates(n))
  specs = sw.ShallowWaterSpecs(np.asarray(case['densities'], dtype=np.float64), grid.radius, 0.5, 7.0,
                               scales.DEFAULT_SCALE)
  eq = sw.ShallowWaterEquations(coords, specs, None, np.asarray(case['ref_potential'], dtype=np.float64))
  R_, L_ = grid.modal_shape

  def build(arrs, batch, extras=None):
    vort = (extras or {}).get('vorticity')
    return sw.State(vorticity=np.zeros((batch, n, R_, L_)) if vort is None else vort, divergence=arrs['divergence'],
                    potential=arrs['potential'])
  return _System(grid, [('divergence', n), ('potential', n)], build, ['vorticity']), eq, grid


@st.composite
def _sw_case(draw, tier):
  maxL = 64 if tier == 'quick' else 128
  L = draw(st.sampled_from([v for v in (1, 2, 3, 5, 8, 16, 33, 64, 128) if v <= maxL]))
  M = draw(st.sampled_from([1, 2, 2])) if L >= 2 else 1
  grid = {'L': L, 'M': M, 'radius': draw(st.sampled_from([None, None, 1.0, 2.5, 0.3])),
          'impl': draw(st.sampled_from(['real', 'real', 'fast']))}
  n = draw(st.integers(1, 5))
  dens = list(np.cumsum([draw(st.sampled_from([1.0, 0.5, 0.0, 2.0])) for _ in range(n)]) + 1.0)
  phis = [draw(st.sampled_from([1.0, 0.1, 0.03, 3.0, 1e-3, 10.0])) for _ in range(n)]
  radius = grid['radius'] or 1.0
  lam_max = L * (L - 1) / radius ** 2
  u = draw(st.sampled_from([-3.0, -2.0, -1.0, -0.5, 0.0, 0.5, 1.0, 1.5, 2.0, 2.5, 3.0]))
  mant = draw(st.sampled_from([1.0, 2.5, 6.0]))
  sign = draw(st.sampled_from([1.0, 1.0, -1.0]))
  # |eta| * ||A_lmax||_2 in [1e-3, 6e3]; the per-layer block [[0, -lambda], [-Phi, 0]] has norm max(|lambda|, Phi)
  eta = sign * 10.0 ** u * mant / max(lam_max, max(phis))
  k = draw(st.integers(1, 2))
  return {'grid': grid, 'densities': [float(v) for v in dens], 'ref_potential': phis, 'eta': _sig(eta, 4),
          'states': [{'seed': draw(st.integers(0, 9999)),
                      'scales': draw(st.sampled_from([[1.0, 1.0], [1e-2, 5.0], [1.0, 0.0], [0.0, 1.0]])),
                      'slope': draw(st.sampled_from([0, 0, 1, 2]))} for _ in range(k)]}


def run_sw_resolvent(case):
  from dinosaur import time_integration as ti
  sys_, eq, grid = _sw_system(case)
  rev = ti.TimeReversedImExODE(eq)
  eta = float(case['eta'])
  phis = np.asarray(case['ref_potential'], dtype=np.float64)
  n = len(phis)
  labs = [f'layers={n}', 'eta<0' if eta < 0 else 'eta>0', f"impl={case['grid'].get('impl')}",
          f"M={case['grid']['M']}", 'L=1' if sys_.L == 1 else ('L<=8' if sys_.L <= 8 else 'L>8'),
          'radius=default' if case['grid'].get('radius') in (None, 1.0) else 'radius=other',
          'potentials=' + ('equal' if np.ptp(phis) == 0 else 'different')]
  out = Outcome(nontrivial=(eta < 0 or (n >= 2 and np.ptp(phis) > 0)), labels=labs, units=0)
  inv_fns = {'shallow_water': lambda s: eq.implicit_inverse(s, eta),
             'time_reversed(-eta)': lambda s: rev.implicit_inverse(s, -eta)}
  A, cmax = _check_resolvent(out, sys_, eq.implicit_terms, inv_fns, eta, case.get('states', []), 'shallow_water',
                             reversed_terms_fn=rev.implicit_terms)
  out.labels = list(out.labels) + [_cond_label(cmax)]
  if cmax >= 1e10:
    out.nontrivial = False
  if not out.ok:
    return out
  # documented implicit tendency: d(div_i) = -lap(phi_i), d(phi_i) = -Phi_i div_i (layers couple only explicitly)
  lam = np.asarray(grid.laplacian_eigenvalues, dtype=np.float64)
  Aref = np.zeros((sys_.L, 2 * n, 2 * n))
  for l in range(sys_.L):
    for i in range(n):
      Aref[l, i, n + i] = -lam[l]
      Aref[l, n + i, i] = -phis[i]
  err = np.abs(A - Aref[None])
  bad = (err > RTOL_ALGEBRA * np.abs(Aref[None])) & sys_.mask[:, :, None, None]
  if bad.any():
    r, l, i, j = [int(v[0]) for v in np.nonzero(bad)]
    return out.fail(what='shallow-water implicit_terms operator differs from (-lap(potential), -Phi*divergence)',
                    row_m=r, l=l, out_component=i, in_component=j, got=A[r, l, i, j], want=Aref[l, i, j])
  return out


SUBCHECKS = [
    Subcheck('pe_resolvent', run_pe_resolvent, strategy=lambda tier: _pe_case(tier),
             examples={'quick': 72, 'thorough': 1440}, shards={'quick': 6, 'thorough': 12},
             wall={'quick': 400.0, 'thorough': 1800.0}, weight=5,
             rule='non-trivial = >= 2 layers and (uneven levels or non-constant T_ref or eta < 0), cond < 1e10',
             doc='implicit_inverse (split / stacked / blockwise; with-time; time-reversed) == float64 reference solve of '
                 'I - eta*A with A extracted from implicit_terms; round trip; methods agree; locality; pass-through'),
    Subcheck('pe_implicit_operator', run_pe_operator, strategy=_pe_operator_case,
             examples={'quick': 40, 'thorough': 800}, shards={'quick': 4, 'thorough': 8},
             wall={'quick': 400.0, 'thorough': 1800.0}, weight=4,
             rule='non-trivial = >= 2 layers and (uneven levels or non-constant T_ref or eta < 0)',
             doc='implicit_terms operator for every vertical_matmul_method == documented G / H / R T_ref / dsigma blocks; '
                 'linear, local in (m, l), m-independent; zero tendency of vorticity, tracers, sim_time'),
    Subcheck('temperature_implicit_dense_vs_sparse', run_dense_sparse, strategy=_dense_sparse_case,
             examples={'quick': 150, 'thorough': 5000}, shards={'quick': 2, 'thorough': 6},
             wall={'quick': 400.0, 'thorough': 1500.0}, weight=2,
             rule='non-trivial = at least 3 layers of different thickness',
             doc='get_temperature_implicit / get_geopotential_diff: dense == sparse == loop reference of the documented '
                 'H and G matrices'),
    Subcheck('sw_resolvent', run_sw_resolvent, strategy=_sw_case,
             examples={'quick': 48, 'thorough': 960}, shards={'quick': 3, 'thorough': 6},
             wall={'quick': 400.0, 'thorough': 1500.0}, weight=3,
             rule='non-trivial = eta < 0 or >= 2 layers with different reference potentials, cond < 1e10',
             doc='ShallowWaterEquations.implicit_inverse (and its time-reversed wrapper) == float64 reference solve of the '
                 '2x2-per-layer system; operator == documented implicit tendency; pass-through of vorticity'),
]


# ----------------------------------------------------------------------------
# one-parameter twins in one process (memoisation / stale derived data)


_TWIN_CHANGES = ('radius', 't_ref', 'kappa', 'R', 'boundaries', 'eta', 'matmul')


@st.composite
def _pe_twin_case(draw, tier):
  base = draw(_pe_case(tier))
  return {'base': base, 'change': draw(st.sampled_from(list(_TWIN_CHANGES))), 'factor': draw(st.sampled_from([2.0, 0.5, 1.1])),
          'level': draw(st.integers(0, 11)), 'back_to_base': draw(st.booleans())}


def _twin_of(case):
  import copy
  base = case['base']
  twin = copy.deepcopy(base)
  ch, f = case['change'], float(case['factor'])
  n = len(base['boundaries']) - 1
  if ch == 'radius':
    twin['grid']['radius'] = float((base['grid']['radius'] or 1.0) * f)
  elif ch == 't_ref':
    k = case['level'] % n
    twin['t_ref'][k] = float(base['t_ref'][k] + 10.0 * f)
  elif ch == 'kappa':
    twin['kappa'] = float(base['kappa'] * (1.0 + 0.1 * f))
  elif ch == 'R':
    twin['R'] = float(base['R'] * f)
  elif ch == 'boundaries':
    if n < 2:
      twin['t_ref'][0] = float(base['t_ref'][0] + 10.0)
    else:
      k = 1 + case['level'] % (n - 1)
      b = list(base['boundaries'])
      b[k] = float(np.round(b[k] + 0.3 * (b[k + 1] - b[k]), 6))
      twin['boundaries'] = b
  elif ch == 'eta':
    twin['eta'] = float(-base['eta'] if f == 0.5 else base['eta'] * f)
  else:
    twin['matmul'] = {'sparse': 'dense', 'dense': 'sparse', None: 'sparse'}[base.get('matmul')]
  return twin


def run_pe_twins(case):
  """Evaluates a configuration and then, in the same process, a twin that differs in exactly one parameter
  (optionally the base again afterwards). Each must still be the exact resolvent of its own operator: anything
  memoised or derived once per process from too coarse a key (a cached inverse, eigenvalues of another sphere)
  shows up here and nowhere else, because the other sub-checks draw all parameters afresh for every case."""
  out = run_pe_resolvent(case['base'])
  out.labels = [l for l in out.labels] + [f"twin_change={case['change']}"]
  if not out.ok:
    return out
  seq = [('twin', _twin_of(case))] + ([('base_again', case['base'])] if case.get('back_to_base') else [])
  for which, cfg in seq:
    o2 = run_pe_resolvent(cfg)
    out.units += o2.units
    if not o2.ok:
      det = dict(o2.detail or {})
      det['sequence_position'] = which
      det['changed_parameter'] = case['change']
      return out.fail(**det)
  out.nontrivial = True
  return out


SUBCHECKS.append(
    Subcheck('pe_resolvent_twins', run_pe_twins, strategy=_pe_twin_case,
             examples={'quick': 36, 'thorough': 600}, shards={'quick': 3, 'thorough': 6},
             wall={'quick': 300.0, 'thorough': 2400.0}, weight=6,
             rule='non-trivial = both members of the pair were solved in one process and differ in exactly one of '
                  'radius / T_ref / kappa / R / one sigma boundary / step size / vertical matmul method',
             doc='history of two (three) configurations in one process: each is the exact resolvent of its own operator'))
