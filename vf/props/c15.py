"""C15 Spectral filters are mean-preserving, non-amplifying and step-size consistent."""
from __future__ import annotations

from hypothesis import strategies as st
import numpy as np

from vf import core, gens
from vf.core import Outcome, Subcheck

RULE = ('Hypothesis-generated grids (both layouts, padded or not, any radius) x filter constructors '
        '(exponential_filter, horizontal_diffusion_filter, exponential_step_filter, exponential_leapfrog_step_filter, '
        'horizontal_diffusion_step_filter) x parameters (attenuation / top exponent < 50, integer order, cutoff, dt, tau, '
        'array-shaped strengths) x pytrees mixing spectral leaves, scalars, clocks and unrelated shapes. The scaling is '
        'read off filter(ones) and compared entry-wise with the closed form evaluated in numpy float64 by wavenumber; '
        'range, mean preservation, monotonicity and m-independence are asserted on it; random spectra check that the '
        'filter is exactly this multiplication. distinct = hash of the canonical JSON case; non-trivial rules per sub-check.')
ASSUMPTIONS = [
    'total_wavenumbers >= 2 (with a single total wavenumber the normalised wavenumber k = l/max(l) is 0/0: degenerate grid)',
    'attenuation, scale, dt/tau >= 0 and exponent at the top wavenumber < 50 for the closed-form comparison '
    '(beyond that only 0 <= factor <= 1, factor(0) = 1 and monotonicity are required: underflow)',
    'filter orders are integers 1..20 (documented as int; a fractional 2*order makes (negative)**(2p) NaN below the cutoff)',
    'cutoff in [0, 0.95]',
    'a leaf counts as spectral when its trailing axes can hold the scaling (trailing axis length == padded '
    'total-wavenumber axis): unrelated leaves are generated with a different trailing length',
    'array-shaped strengths carry two trailing singleton axes (for m and l) and act on leaves that have the same leading axes',
]
MANIFEST = {
    'text': 'For generated grids and parameters every spectral filter is shown to be a multiplication by a factor in (0,1] '
            'that depends on total wavenumber only, equals 1 for the global mean, is non-increasing and matches the '
            'documented closed form; leaves without the spectral shape (scalars, clocks, PRNG keys, non-broadcastable or '
            'broadcast-enlarging shapes) are returned untouched without an exception; two half steps equal one full step; '
            'array strengths equal per-slice scalar filters; the (u, u_next) adapters touch only what they should; '
            'Robert-Asselin leaves the newest level and linear-in-time triples unchanged and equals its defining formula.',
    'note': 'trusted base: numpy float64 exp/power for the closed forms',
    'technique': 'unit spectra + closed-form oracle, metamorphic semigroup and per-slice relations under Hypothesis-generated configurations',
}

RTOL = 1e-9
# order matters for generator health: Hypothesis over-samples (and shrinks towards) the first element
FILTERS = ('horizontal_diffusion_step_filter', 'exponential_filter', 'exponential_leapfrog_step_filter',
           'horizontal_diffusion_filter', 'exponential_step_filter')


# ----------------------------------------------------------------------------
# generators


@st.composite
def _grid(draw, tier='quick'):
  # padded Fast layouts first: Hypothesis over-samples the first choice, and defect #2 lives on padded layouts
  layout = draw(st.sampled_from(['fast_padded', 'real', 'fast', 'fast_padded']))
  cfg = draw(gens.grid_configs(kind='modal_only', max_m=10 if tier == 'quick' else 32, max_slack=2,
                               impls=('real',) if layout == 'real' else ('fast',)))
  cfg['L'] = max(cfg['L'], 2)
  # the filters depend on the total wavenumber only: also reach large truncations cheaply (modal-only grids), so that
  # l(l+1)**order passes 2**63 (integer overflow hazards) and the top of realistic spectra (T42 .. TL255) is covered
  cfg['L'] += draw(st.sampled_from([0, 0, 0, 6, 28] if tier == 'quick' else [0, 0, 0, 6, 28, 100, 230]))
  if layout == 'fast_padded':
    cfg['bsm'] = draw(st.sampled_from([4, 2, 3, 8]))
    if cfg['L'] % cfg['bsm'] == 0:
      cfg['L'] += 1                                        # guarantee padding along the total-wavenumber axis
  return cfg


@st.composite
def _params(draw, name=None):
  name = name or draw(st.sampled_from(FILTERS + FILTERS[:1]))   # the step-diffusion filter twice (defect #2)
  p = {'filter': name}
  expo = draw(st.sampled_from([0.0, 0.5, 2.0, 16.0, 16.0, 40.0, 49.9]))   # exponent at the top wavenumber
  if name.startswith('exponential'):
    p['order'] = draw(st.one_of(st.integers(1, 20), st.sampled_from([1, 2, 18])))
    p['cutoff'] = draw(st.one_of(st.sampled_from([0.0, 0.0, 0.5, 0.95]), st.floats(0.0, 0.9375, allow_nan=False, width=32)))
  else:
    p['order'] = draw(st.one_of(st.integers(1, 6), st.sampled_from([4, 8, 10, 12])))
  if name in ('exponential_filter', 'horizontal_diffusion_filter'):
    p['top_exponent'] = expo
  else:
    p['dt'] = draw(st.sampled_from([1.0, 0.1, 3.7e-3, 1200.0]))
    p['top_exponent'] = expo if expo > 0 else 0.5      # tau = dt / exponent must be finite
  return p


def _lmax_eig(grid_cfg):
  L = grid_cfg['L']
  r = grid_cfg.get('radius') or 1.0
  return (L - 1) * L / r ** 2


def _reference_scaling(grid_cfg, p, exponent=None):
  """Closed form by wavenumber l = 0..L-1 (numpy float64), independent of dinosaur."""
  L = grid_cfg['L']
  l = np.arange(L, dtype=np.float64)
  e = p['top_exponent'] if exponent is None else exponent
  if p['filter'].startswith('exponential'):
    k = l / (L - 1)
    c = p['cutoff']
    x = np.where(k > c, (np.maximum(k - c, 0.0) / (1 - c)) ** (2 * p['order']), 0.0)
    return np.exp(-e * x)
  # diffusion: exp(-e * (l(l+1) / (Lmax(Lmax+1)))**order)  (the radius cancels once `scale` is expressed by `e`)
  return np.exp(-e * (l * (l + 1) / ((L - 1) * L)) ** p['order'])


def _make(grid, grid_cfg, p, exponent=None, strength_shape=None):
  """Builds the filter from /repo and returns apply(tree)->tree acting on plain states (adapters hidden)."""
  from dinosaur import filtering, time_integration as ti
  e = p['top_exponent'] if exponent is None else exponent
  e = np.asarray(e, dtype=np.float64)
  name = p['filter']
  if name == 'exponential_filter':
    f = filtering.exponential_filter(grid, attenuation=e if e.ndim else float(e), order=p['order'], cutoff=p['cutoff'])
    return f
  if name == 'horizontal_diffusion_filter':
    scale = e / _lmax_eig(grid_cfg) ** p['order']
    f = filtering.horizontal_diffusion_filter(grid, scale if e.ndim else float(scale), order=p['order'])
    return f
  tau = p['dt'] / e      # e > 0 by construction
  tau = tau if e.ndim else float(tau)
  if name == 'exponential_step_filter':
    f = ti.exponential_step_filter(grid, p['dt'], tau, order=p['order'], cutoff=p['cutoff'])
    return lambda x: f(None, x)
  if name == 'exponential_leapfrog_step_filter':
    return _LeapfrogApply(ti.exponential_leapfrog_step_filter(grid, p['dt'], tau, order=p['order'], cutoff=p['cutoff']))
  f = ti.horizontal_diffusion_step_filter(grid, p['dt'], tau, order=p['order'])
  return lambda x: f(None, x)


class _LeapfrogApply:
  """Applies a leapfrog step filter to (current, future) = (x, x); returns the future level and records whether the
  current level came back untouched (checked by the callers through `_current_untouched`)."""

  def __init__(self, f):
    self.f = f
    self.current_ok = True

  def __call__(self, x):
    cur, fut = self.f(None, (x, x))
    self.current_ok = self.current_ok and _eq_tree(cur, x)
    return fut


def _current_untouched(apply):
  return getattr(apply, 'current_ok', True)


def _param_labels(p):
  labs = [f"filter={p['filter']}", f"order={'1' if p['order'] == 1 else '2-6' if p['order'] <= 6 else '7-20'}",
          f"top_exponent={p['top_exponent']}"]
  if 'cutoff' in p:
    labs.append('cutoff=0' if p['cutoff'] == 0 else 'cutoff>0')
  return labs


def _grid_labels(cfg, grid):
  padded = tuple(grid.modal_shape) != ((2 * cfg['M'] - 1 if cfg['impl'] == 'real' else 2 * cfg['M']), cfg['L'])
  return [f"impl={cfg['impl']}", 'padded' if padded else 'unpadded',
          f"radius={'default' if cfg.get('radius') in (None, 1.0) else 'other'}"], padded


# ----------------------------------------------------------------------------
# 1. scaling: range, mean, m-independence, monotonicity, closed form, multiplication


@st.composite
def _scaling_case(draw, tier='quick'):
  return {'grid': draw(_grid(tier)), 'params': draw(_params()), 'lead': draw(st.sampled_from([[], [], [3], [2, 1]])),
          'seed': draw(st.integers(0, 2 ** 16)), 'extreme': draw(st.sampled_from([None, None, None, 300.0, 1e5]))}


def _check_scaling(out, s2d, ref, L, what, closed_form=True):
  """s2d: filter(ones) of shape modal_shape; ref: closed form for l < L."""
  if not np.all(np.isfinite(s2d)):
    idx = [int(i) for i in np.argwhere(~np.isfinite(s2d))[0]]
    return out.fail(what=what + ': scaling is not finite', index=idx, row0=s2d[0])
  if np.any(s2d != s2d[0:1]):
    return out.fail(what=what + ': scaling depends on the zonal wavenumber row', row0=s2d[0],
                    other=s2d[int(np.argwhere(np.any(s2d != s2d[0:1], axis=1))[0][0])])
  s = s2d[0]
  if s[0] != 1.0:
    return out.fail(what=what + ': global mean (l = 0) is not preserved exactly', factor=s[0])
  if np.any(s > 1.0) or np.any(s < 0.0) or (closed_form and np.any(s[:L] <= 0.0)):
    return out.fail(what=what + ': factor outside (0, 1]', scaling=s)
  if np.any(np.diff(s[:L]) > 0):
    return out.fail(what=what + ': factor increases with total wavenumber', scaling=s[:L])
  if closed_form:
    err = np.max(np.abs(s[:L] - ref) / ref)
    if not err <= RTOL:
      j = int(np.argmax(np.abs(s[:L] - ref) / ref))
      return out.fail(what=what + ': factor differs from the documented closed form', l=j, got=s[j], want=ref[j],
                      relerr=float(err))
  return None


def run_scaling(case):
  cfg, p = case['grid'], dict(case['params'])
  grid = gens.build_grid(cfg)
  L = cfg['L']
  glabs, padded = _grid_labels(cfg, grid)
  out = Outcome(labels=glabs + _param_labels(p) + [f'lead={len(case["lead"])}', 'extreme' if case['extreme'] else 'regular'],
                nontrivial=(L >= 3 and p['top_exponent'] > 0), units=2 * int(np.prod(grid.modal_shape)))
  apply = _make(grid, cfg, p)
  ones = np.ones(grid.modal_shape)
  s2d = np.asarray(apply(ones), dtype=np.float64)
  if s2d.shape != tuple(grid.modal_shape):
    return out.fail(what='filter changed the shape of a spectral leaf', got=list(s2d.shape))
  ref = _reference_scaling(cfg, p)
  bad = _check_scaling(out, s2d, ref, L, p['filter'])
  if bad is not None:
    return bad
  # the filter *is* this multiplication: random spectrum with leading axes, zero outside the mask
  rng = np.random.default_rng(case['seed'])
  x = rng.standard_normal(tuple(case['lead']) + tuple(grid.modal_shape)) * np.asarray(grid.mask)
  y = np.asarray(apply(x), dtype=np.float64)
  full = np.ones(grid.modal_shape[1])
  full[:L] = ref
  want = x * full
  if y.shape != x.shape or core.relerr(y, want, float(np.max(np.abs(x))) or 1.0) > 1e-12:
    return out.fail(what='filter is not the multiplication by the wavenumber factor', relerr=core.relerr(y, want),
                    index=core.argmax_index(y, want))
  if np.any(np.abs(y) > np.abs(x)):
    return out.fail(what='filter amplified a coefficient')
  if not _current_untouched(apply):
    return out.fail(what='leapfrog step filter modified the current time level (only the future level may be filtered)')
  if case['extreme']:
    # far beyond the underflow range: only range, mean and monotonicity are required
    s_ext = np.asarray(_make(grid, cfg, p, exponent=case['extreme'])(ones), dtype=np.float64)
    bad = _check_scaling(out, s_ext, None, L, p['filter'] + ' (exponent %g)' % case['extreme'], closed_form=False)
    if bad is not None:
      return bad
  return out


# ----------------------------------------------------------------------------
# 2. mixed pytrees: non-spectral leaves untouched, no exception


_LEAF_KINDS = ['py_float', 'py_int', 'np_scalar0d', 'int_clock', 'prng_key', 'vec_mismatch', 'enlarging_1', 'column',
               'unrelated_3d', 'nodal_like', 'empty', 'spectral', 'spectral_batched', 'spectral_2lead']


@st.composite
def _pytree_case(draw, tier='quick'):
  kinds = draw(st.lists(st.sampled_from(_LEAF_KINDS), min_size=1, max_size=6))
  kinds.insert(draw(st.integers(0, len(kinds))), draw(st.sampled_from(_LEAF_KINDS[-3:])))   # at least one spectral leaf
  return {'grid': draw(_grid(tier)), 'params': draw(_params()), 'leaves': kinds,
          'structure': draw(st.sampled_from(['dict', 'nested', 'tuple', 'state'])), 'seed': draw(st.integers(0, 2 ** 16))}


def _leaf(kind, grid, rng):
  Mp, Lp = grid.modal_shape
  other = Lp + 1 if Lp != 4 else 7     # a trailing length that is neither Lp nor 1
  if kind == 'py_float':
    return 3.25, False
  if kind == 'py_int':
    return 7, False
  if kind == 'np_scalar0d':
    return np.asarray(rng.standard_normal()), False
  if kind == 'int_clock':
    return np.int64(rng.integers(0, 1000)), False
  if kind == 'prng_key':
    return np.asarray(rng.integers(0, 2 ** 32, size=2 if Lp != 2 else 3), dtype=np.uint32), False
  if kind == 'vec_mismatch':
    return rng.standard_normal(other), False
  if kind == 'enlarging_1':
    return rng.standard_normal(1), False
  if kind == 'column':
    return rng.standard_normal((Mp, 1)), False
  if kind == 'unrelated_3d':
    return rng.standard_normal((4, 5, other)), False
  if kind == 'nodal_like':
    return rng.standard_normal((1, grid.nodal_shape[0], other)), False
  if kind == 'empty':
    return np.zeros((0,)), False
  if kind == 'spectral':
    return rng.standard_normal((Mp, Lp)), True
  if kind == 'spectral_batched':
    return rng.standard_normal((3, Mp, Lp)), True
  return rng.standard_normal((2, 1, Mp, Lp)), True


def _tree(structure, leaves):
  if structure == 'dict':
    return {f'k{i}': v for i, v in enumerate(leaves)}
  if structure == 'tuple':
    return tuple(leaves)
  if structure == 'nested':
    return {'a': leaves[0], 'b': {'c': tuple(leaves[1:]), 'd': {}}}
  return {'state': {'fields': list(leaves[:-1]), 'sim_time': leaves[-1]}, 'aux': ()}


def run_pytree(case):
  import jax
  cfg, p = case['grid'], case['params']
  grid = gens.build_grid(cfg)
  rng = np.random.default_rng(case['seed'])
  pairs = [_leaf(k, grid, rng) for k in case['leaves']]
  leaves = [v for v, _ in pairs]
  tree = _tree(case['structure'], leaves)
  glabs, _ = _grid_labels(cfg, grid)
  n_unrel = sum(1 for _, s in pairs if not s)
  out = Outcome(labels=glabs + [f"filter={p['filter']}", f"structure={case['structure']}"]
                + sorted({f'leaf={k}' for k in case['leaves']}),
                nontrivial=(n_unrel >= 1 and any(s for _, s in pairs)), units=len(leaves))
  apply = _make(grid, cfg, p)
  try:
    res = apply(tree)
  except Exception as e:   # pylint: disable=broad-except
    return out.fail(what='filter raised on a pytree with non-spectral leaves', error=repr(e)[:300],
                    leaf_shapes=[list(np.shape(v)) for v in leaves], leaf_kinds=case['leaves'])
  if not _current_untouched(apply):
    return out.fail(what='leapfrog step filter modified the current time level (only the future level may be filtered)')
  flat_in, tdef_in = jax.tree_util.tree_flatten(tree)
  flat_out, tdef_out = jax.tree_util.tree_flatten(res)
  if tdef_in != tdef_out:
    return out.fail(what='filter changed the pytree structure')
  L = cfg['L']
  full = np.ones(grid.modal_shape[1])
  full[:L] = _reference_scaling(cfg, p)
  for (v, spectral), kind, a, b in zip(pairs, case['leaves'], flat_in, flat_out):
    if spectral:
      want = np.asarray(a) * full
      if np.shape(b) != np.shape(a) or core.relerr(np.asarray(b), want, float(np.max(np.abs(a))) or 1.0) > 1e-12:
        return out.fail(what='spectral leaf not multiplied by the wavenumber factor', kind=kind, shape=list(np.shape(a)))
    else:
      same = (b is a) or (type(b) is type(a) and np.shape(b) == np.shape(a)
                          and np.asarray(b).dtype == np.asarray(a).dtype and np.array_equal(np.asarray(b), np.asarray(a)))
      if not same:
        return out.fail(what='leaf without the spectral shape was modified', kind=kind, shape_in=list(np.shape(a)),
                        shape_out=list(np.shape(b)), type_out=type(b).__name__)
  return out


# ----------------------------------------------------------------------------
# 3. step filters compose like damping over time


@st.composite
def _semigroup_case(draw, tier='quick'):
  name = draw(st.sampled_from(['exponential_step_filter', 'exponential_leapfrog_step_filter',
                               'horizontal_diffusion_step_filter']))
  return {'grid': draw(_grid(tier)), 'params': draw(_params(name)),
          'split': draw(st.sampled_from([0.5, 0.5, 0.25, 0.1])), 'seed': draw(st.integers(0, 2 ** 16))}


def run_semigroup(case):
  from dinosaur import time_integration as ti
  cfg, p = case['grid'], case['params']
  grid = gens.build_grid(cfg)
  rng = np.random.default_rng(case['seed'])
  x = rng.standard_normal((2,) + tuple(grid.modal_shape)) * np.asarray(grid.mask)
  dt, e = p['dt'], p['top_exponent']
  tau = dt / e
  glabs, _ = _grid_labels(cfg, grid)
  out = Outcome(labels=glabs + _param_labels(p) + [f"split={case['split']}"],
                nontrivial=(cfg['L'] >= 3), units=3)

  def build(step):
    if p['filter'] == 'exponential_step_filter':
      f = ti.exponential_step_filter(grid, step, tau, order=p['order'], cutoff=p['cutoff'])
      return lambda s: f(None, s)
    if p['filter'] == 'exponential_leapfrog_step_filter':
      return _LeapfrogApply(ti.exponential_leapfrog_step_filter(grid, step, tau, order=p['order'], cutoff=p['cutoff']))
    f = ti.horizontal_diffusion_step_filter(grid, step, tau, order=p['order'])
    return lambda s: f(None, s)

  a = case['split']
  whole = np.asarray(build(dt)({'x': x, 't': 1.5})['x'], dtype=np.float64)
  two = build(dt * (1 - a))(build(dt * a)({'x': x, 't': 1.5}))
  if float(two['t']) != 1.5:
    return out.fail(what='clock leaf changed by the step filter')
  two = np.asarray(two['x'], dtype=np.float64)
  # compare the per-wavenumber factors relatively (tiny factors must agree too)
  ones = np.ones(grid.modal_shape)
  s_whole = np.asarray(build(dt)(ones))[0, :cfg['L']]
  s_two = np.asarray(build(dt * (1 - a))(build(dt * a)(ones)))[0, :cfg['L']]
  err = np.max(np.abs(s_whole - s_two) / s_whole)
  if not err <= RTOL:
    return out.fail(what='two partial steps do not equal one full step (factors)', relerr=float(err),
                    whole=s_whole, composed=s_two, dt=dt, split=a)
  if core.relerr(two, whole, float(np.max(np.abs(x)))) > 1e-12:
    return out.fail(what='two partial steps do not equal one full step (state)', relerr=core.relerr(two, whole))
  return out


# ----------------------------------------------------------------------------
# 4. array-valued strengths == per-slice scalar filters


@st.composite
def _array_case(draw, tier='quick'):
  p = draw(_params())
  lead = draw(st.sampled_from([[3], [2, 3], [1, 4], [4, 1]]))
  layout = draw(st.sampled_from(['full', 'full', 'last_only', 'padded_1']))
  return {'grid': draw(_grid(tier)), 'params': p, 'lead': lead, 'layout': layout,
          'exponents': [draw(st.sampled_from([0.5, 2.0, 16.0, 40.0, 49.9, 7.3])) for _ in range(int(np.prod(lead)))],
          'array_order': draw(st.booleans()) if p['filter'] == 'exponential_filter' else False,
          'orders': [draw(st.integers(1, 8)) for _ in range(int(np.prod(lead)))], 'seed': draw(st.integers(0, 2 ** 16))}


def run_array(case):
  from dinosaur import filtering
  cfg, p = case['grid'], case['params']
  grid = gens.build_grid(cfg)
  lead = tuple(case['lead'])
  rng = np.random.default_rng(case['seed'])
  x = rng.standard_normal(lead + tuple(grid.modal_shape)) * np.asarray(grid.mask)
  e_full = np.asarray(case['exponents'], dtype=np.float64).reshape(lead)
  o_full = np.asarray(case['orders'], dtype=np.int64).reshape(lead)
  if case['layout'] == 'last_only' and len(lead) == 2:     # strength varies along the last leading axis only
    e_arr = e_full[:1].reshape((lead[1], 1, 1))
    o_arr = o_full[:1].reshape((lead[1], 1, 1))
    e_full = np.broadcast_to(e_full[:1], lead)
    o_full = np.broadcast_to(o_full[:1], lead)
  elif case['layout'] == 'padded_1' and len(lead) == 1:    # extra singleton in front: scaling is broadcast-enlarging
    e_arr = e_full.reshape((1,) + lead + (1, 1))
    o_arr = o_full.reshape((1,) + lead + (1, 1))
    x = x[None]
    e_full, o_full, lead = e_full[None], o_full[None], (1,) + lead
  else:
    e_arr = e_full.reshape(lead + (1, 1))
    o_arr = o_full.reshape(lead + (1, 1))
  glabs, _ = _grid_labels(cfg, grid)
  out = Outcome(labels=glabs + [f"filter={p['filter']}", f"lead={list(case['lead'])}", f"layout={case['layout']}",
                                'array_order' if case['array_order'] else 'scalar_order'],
                nontrivial=(len(set(case['exponents'])) > 1), units=int(np.prod(lead)))
  if case['array_order']:
    f = filtering.exponential_filter(grid, attenuation=e_arr, order=o_arr, cutoff=p['cutoff'])
  else:
    f = _make(grid, cfg, p, exponent=e_arr)
  tree = {'x': x, 'clock': 2.0, 'plain': x[(0,) * len(lead)]}
  res = f(tree)
  got = np.asarray(res['x'], dtype=np.float64)
  if got.shape != x.shape:
    return out.fail(what='array-strength filter changed the leaf shape', got=list(got.shape), want=list(x.shape))
  if float(res['clock']) != 2.0:
    return out.fail(what='array-strength filter changed a scalar leaf')
  if np.shape(res['plain']) != tuple(grid.modal_shape):
    return out.fail(what='array-strength filter enlarged a leaf without the leading axes',
                    got=list(np.shape(res['plain'])))
  L = cfg['L']
  for idx in np.ndindex(*lead):
    q = dict(p)
    if case['array_order']:
      q['order'] = int(o_full[idx])
    sl = np.asarray(_make(grid, cfg, q, exponent=float(e_full[idx]))(x[idx]), dtype=np.float64)
    if core.relerr(got[idx], sl, float(np.max(np.abs(x[idx]))) or 1.0) > 1e-13:
      return out.fail(what='array-valued strength differs from the scalar filter applied to the slice', index=list(idx),
                      relerr=core.relerr(got[idx], sl), exponent=float(e_full[idx]))
    full = np.ones(grid.modal_shape[1])
    full[:L] = _reference_scaling(cfg, q, exponent=float(e_full[idx]))
    if core.relerr(got[idx], x[idx] * full, float(np.max(np.abs(x[idx]))) or 1.0) > 1e-12:
      return out.fail(what='array-valued strength: slice differs from the closed form', index=list(idx))
  return out


# ----------------------------------------------------------------------------
# 5. adapters and the Robert-Asselin filter


@st.composite
def _adapter_case(draw, tier='quick'):
  return {'grid': draw(_grid(tier)), 'params': draw(_params(draw(st.sampled_from(['exponential_filter', 'horizontal_diffusion_filter'])))),
          'r': draw(st.sampled_from([0.0, 0.01, 0.05, 0.2, 0.5, 1.0])),
          'triple': draw(st.sampled_from(['linear', 'random', 'random', 'constant'])), 'seed': draw(st.integers(0, 2 ** 16))}


class _Poison:
  """Stands in for an argument that must never be read."""

  def __getattr__(self, name):
    raise AssertionError('argument that must be ignored was accessed: ' + name)


def _eq_tree(a, b):
  import jax
  la, ta = jax.tree_util.tree_flatten(a)
  lb, tb = jax.tree_util.tree_flatten(b)
  return ta == tb and all(np.shape(x) == np.shape(y) and np.array_equal(np.asarray(x), np.asarray(y)) for x, y in zip(la, lb))


def run_adapters(case):
  import jax
  from dinosaur import time_integration as ti
  cfg, p = case['grid'], case['params']
  grid = gens.build_grid(cfg)
  rng = np.random.default_rng(case['seed'])
  mask = np.asarray(grid.mask)

  def state(scale=1.0):
    return {'vorticity': scale * rng.standard_normal((2,) + tuple(grid.modal_shape)) * mask,
            'tracers': {'q': scale * rng.standard_normal(tuple(grid.modal_shape)) * mask},
            'sim_time': np.float64(scale * rng.standard_normal())}

  glabs, _ = _grid_labels(cfg, grid)
  out = Outcome(labels=glabs + [f"filter={p['filter']}", f"r={case['r']}", f"triple={case['triple']}"],
                nontrivial=(case['r'] > 0 and case['triple'] != 'constant'), units=4)
  state_filter = _make(grid, cfg, p)
  u_next = state()
  want = state_filter(u_next)
  # runge_kutta_step_filter: result = state_filter(u_next), u is not used
  try:
    got = ti.runge_kutta_step_filter(state_filter)(_Poison(), u_next)
  except AssertionError as e:
    return out.fail(what='runge_kutta_step_filter reads the previous state', error=str(e))
  if not _eq_tree(got, want):
    return out.fail(what='runge_kutta_step_filter(f)(u, u_next) != f(u_next)')
  # leapfrog_step_filter: (current, future) -> (current untouched, f(future))
  current = state()
  try:
    got_c, got_f = ti.leapfrog_step_filter(state_filter)(_Poison(), (current, u_next))
  except AssertionError as e:
    return out.fail(what='leapfrog_step_filter reads the previous state', error=str(e))
  if not _eq_tree(got_c, current):
    return out.fail(what='leapfrog_step_filter modified the current time level')
  if not _eq_tree(got_f, want):
    return out.fail(what='leapfrog_step_filter: future level != state_filter(future)')
  # Robert-Asselin
  r = case['r']
  a, b = state(), state(0.3)
  add = lambda s, t, w: jax.tree_util.tree_map(lambda x, y: x + w * y, s, t)   # noqa: E731
  if case['triple'] == 'linear':
    prev, cur, fut = add(a, b, -1.0), a, add(a, b, 1.0)
  elif case['triple'] == 'constant':
    prev, cur, fut = a, a, a
  else:
    prev, cur, fut = state(), a, state()
  fut_copy = jax.tree_util.tree_map(np.array, fut)
  res = ti.robert_asselin_leapfrog_filter(r)((prev, cur), (cur, fut))
  if not (isinstance(res, tuple) and len(res) == 2):
    return out.fail(what='Robert-Asselin filter does not return a (current, future) pair')
  new_cur, new_fut = res
  if not _eq_tree(new_fut, fut_copy):
    return out.fail(what='Robert-Asselin filter changed the newest time level')
  formula = jax.tree_util.tree_map(lambda pp, c, f: (1 - 2 * r) * c + r * (pp + f), prev, cur, fut)
  scale = max(float(np.max(np.abs(np.asarray(x)))) for t in (prev, cur, fut) for x in jax.tree_util.tree_leaves(t))
  for (path, g), w, c in zip(jax.tree_util.tree_flatten_with_path(new_cur)[0], jax.tree_util.tree_leaves(formula),
                             jax.tree_util.tree_leaves(cur)):
    if core.relerr(np.asarray(g), np.asarray(w), scale) > 1e-13:
      return out.fail(what='Robert-Asselin filtered level != (1-2r) c + r (p + f)', leaf=str(path), r=r,
                      relerr=core.relerr(np.asarray(g), np.asarray(w), scale))
    if case['triple'] in ('linear', 'constant') and core.relerr(np.asarray(g), np.asarray(c), scale) > 1e-13:
      return out.fail(what='Robert-Asselin filter changed a sequence that is linear in time', leaf=str(path), r=r,
                      relerr=core.relerr(np.asarray(g), np.asarray(c), scale))
  return out


# ----------------------------------------------------------------------------
# 6. float32 pass (x64 disabled, float32 inputs)


def run_float32(case):
  import jax
  cfg, p = case['grid'], dict(case['params'])
  with jax.enable_x64(False):
    grid = gens.build_grid(cfg)
    L = cfg['L']
    glabs, _ = _grid_labels(cfg, grid)
    out = Outcome(labels=glabs + _param_labels(p), nontrivial=(L >= 3 and p['top_exponent'] > 0),
                  units=int(np.prod(grid.modal_shape)))
    apply = _make(grid, cfg, p)
    res = apply(np.ones(grid.modal_shape, dtype=np.float32))
    s2d = np.asarray(res, dtype=np.float64)
    ref = _reference_scaling(cfg, p)
    if not np.all(np.isfinite(s2d)) or np.any(s2d != s2d[0:1]) or s2d[0, 0] != 1.0 or np.any(s2d > 1) or np.any(s2d < 0):
      return out.fail(what='float32: scaling not finite / not m-independent / mean not preserved / outside [0,1]',
                      row0=s2d[0])
    # absolute 3e-4 on factors in [0,1] plus relative on the exponent where the factor is not tiny
    if np.max(np.abs(s2d[0, :L] - ref)) > 3e-4:
      return out.fail(what='float32: factor differs from the closed form', got=s2d[0, :L], want=ref)
    big = ref > 1e-3
    if np.any(np.abs(s2d[0, :L][big] - ref[big]) > 3e-4 * ref[big] * (1 + p['top_exponent'] * 2 * p['order'])):
      return out.fail(what='float32: factor differs relatively from the closed form', got=s2d[0, :L], want=ref)
    if np.any(np.diff(s2d[0, :L]) > 0):
      return out.fail(what='float32: factor increases with wavenumber', scaling=s2d[0, :L])
  return out


SUBCHECKS = [
    Subcheck('scaling_closed_form', run_scaling, strategy=lambda tier: _scaling_case(tier),
             examples={'quick': 300, 'thorough': 72000}, shards={'quick': 2, 'thorough': 6},
             rule='non-trivial = at least 3 total wavenumbers and a non-zero strength',
             doc='filter(ones): finite, rows identical, factor(0) == 1, in (0,1], non-increasing, closed form; random '
                 'spectra are multiplied by exactly that factor; far-underflow strengths stay in [0,1] and monotone'),
    Subcheck('mixed_pytrees', run_pytree, strategy=lambda tier: _pytree_case(tier),
             examples={'quick': 300, 'thorough': 72000}, shards={'quick': 2, 'thorough': 6},
             rule='non-trivial = tree holds at least one spectral and one non-spectral leaf',
             doc='scalars, clocks, PRNG keys, non-broadcastable and broadcast-enlarging leaves are returned untouched, '
                 'no exception (defect #6); spectral leaves with leading axes are filtered'),
    Subcheck('step_semigroup', run_semigroup, strategy=lambda tier: _semigroup_case(tier),
             examples={'quick': 150, 'thorough': 36000}, shards={'quick': 1, 'thorough': 3},
             rule='non-trivial = at least 3 total wavenumbers',
             doc='step_filter(a dt) then step_filter((1-a) dt) == step_filter(dt)'),
    Subcheck('array_strengths', run_array, strategy=lambda tier: _array_case(tier),
             examples={'quick': 120, 'thorough': 28800}, shards={'quick': 2, 'thorough': 4},
             rule='non-trivial = the strengths differ between slices',
             doc='array attenuation / scale / tau / order == scalar filter slice by slice'),
    Subcheck('adapters_robert_asselin', run_adapters, strategy=lambda tier: _adapter_case(tier),
             examples={'quick': 100, 'thorough': 24000}, shards={'quick': 1, 'thorough': 3},
             rule='non-trivial = r > 0 and a non-constant triple',
             doc='runge_kutta_step_filter / leapfrog_step_filter touch only what they should; Robert-Asselin keeps the '
                 'newest level, linear-in-time triples, and equals (1-2r)c + r(p+f)'),
    Subcheck('float32_pass', run_float32, strategy=lambda tier: _scaling_case(tier),
             examples={'quick': 20, 'thorough': 24000}, shards={'quick': 1, 'thorough': 2},
             rule='non-trivial = at least 3 total wavenumbers and a non-zero strength',
             doc='float32 inputs with x64 disabled: same scaling properties at float32 tolerance'),
]

# Wall budgets are safety nets only (they truncate, never decide): the machine is shared with other checks, a fresh
# worker needs 10-200 s just to import jax + dinosaur depending on the load. Budgets proper are the example counts.
for _s in SUBCHECKS:
  _s.wall = {'quick': 900.0, 'thorough': 3600.0}
