"""C01 Spherical-harmonic analysis inverts synthesis; the basis is discretely orthonormal."""
from __future__ import annotations

from hypothesis import strategies as st
import numpy as np

from vf import core, gens
from vf.core import Outcome, Subcheck
from vf.oracles import grid_cases as gc

RULE = ('Hypothesis draws grid configurations (wavenumber counts, node counts built from the resolution rules of '
        'DESIGN.md 2.1 incl. deliberately under-resolved ones, three latitude spacings, longitude offset, radius, '
        'Real / Fast implementation with all Fast options, Grid.with_wavenumbers / Grid.construct / T*, TL* '
        'factories); for each configuration EVERY unit vector of the modal layout (valid, masked, dead and padded '
        'entries) is pushed through to_nodal / to_modal in one batch, so the check is exhaustive over inputs by '
        'linearity. Oracles: Kronecker delta on exactly the Gram entries the quadrature resolves; scipy '
        'assoc_legendre_p + closed-form Fourier factors on independently computed nodes (numpy leggauss / closed '
        'form angles); analytic integrals; exact zeros outside the triangular truncation. distinct = hash of the '
        'canonical JSON case; non-trivial rules are per sub-check.')
ASSUMPTIONS = [
    'longitude_nodes >= longitude_wavenumbers (the Fourier basis constructor rejects anything else)',
    'a Gram entry ((m,l),(m\',l\')) is claimed only if l+l\' <= D(spacing, latitude_nodes) and |m|+|m\'| < '
    'longitude_nodes (D = 2N-1 gauss, N-1 / N for even / odd N equiangular); entries with different signed m are '
    'additionally claimed to vanish whenever the longitude rule alone holds',
    'integrals of synthesised fields are claimed for total wavenumbers l <= D only',
    'equiangular_with_poles needs >= 2 latitude nodes',
    'nodal arrays handed to integrate / to_modal hold zeros in padded nodes, as to_nodal produces them (observation '
    'reported to the coordinator: Fast layouts with padded longitudes repeat the latitude weights on the padded '
    'longitudes, so integrate(ones(nodal_shape)) = 4 pi r^2 * padded_longitudes / longitude_nodes; to_modal ignores '
    'padded nodes in both directions)',
    'float32 pass: rtol 3e-4 (measured rounding 1e-6), only on scalar-resolved grids',
]
MANIFEST = {
    'text': 'For every generated grid configuration the full Gram matrix to_modal(to_nodal(e)) over all unit vectors '
            'equals the identity on every entry the quadrature resolves and is exactly zero outside the mask; every '
            'synthesised basis function equals an independent scipy spherical harmonic on independently computed '
            'nodes (sign, normalisation, cos/sin pairing, node order, offset invariance); quadrature weights are '
            'positive, symmetric, exact to the stated degree, and integrate(to_nodal(x)) = r^2 sqrt(4 pi) x00; '
            'masked / dead / padded coefficients neither influence nor appear in results. Exhaustive over inputs per '
            'configuration by linearity (linearity and batch axes are checked too), sampled over configurations.',
    'note': 'trusted: numpy leggauss, scipy.special.assoc_legendre_p / eval_legendre, the resolution rules of DESIGN.md 2.1',
    'technique': 'exhaustive unit-vector operator matrices vs independent scipy basis, Hypothesis over configurations',
}

RTOL = 1e-9

# ----------------------------------------------------------------------------
# strategies

_QUICK_FACT = ('T21', 'TL31')
_THOROUGH_FACT = ('T21', 'TL31', 'T31', 'TL47', 'T42')   # jax-level unit-vector pushes; larger ones at numpy level


def _cfg_strategy(tier, resolutions=('resolved', 'resolved', 'under_lat', 'under_lon', 'under_both'), kinds=('scalar',),
                  factories=True, max_m=None):
  if max_m is None:
    max_m = 16 if tier == 'quick' else 32
  fac = (_QUICK_FACT if tier == 'quick' else _THOROUGH_FACT) if factories else ()
  return gc.grid_cfgs(max_m=max_m, kinds=kinds, resolutions=resolutions, factories=fac)


def _lat_D(cfg):
  return gens.lat_exactness(cfg['spacing'], cfg['nlat'])


def _shape_failure(out, cfg, g):
  ok, got, want = gc.check_shape_contract(cfg, g)
  if not ok:
    return out.fail(what='constructed grid has other sizes than documented for this constructor', got=got, want=want,
                    via=cfg.get('via'))
  if tuple(g.modal_shape) != gc.expected_modal_shape(cfg) or tuple(g.nodal_shape) != gc.expected_nodal_shape(cfg):
    return out.fail(what='modal/nodal array shape differs from the documented layout (2M-1 | 2M rows, padding to '
                    'the base shape multiple)', modal=g.modal_shape, nodal=g.nodal_shape,
                    want_modal=gc.expected_modal_shape(cfg), want_nodal=gc.expected_nodal_shape(cfg))
  return None


# ----------------------------------------------------------------------------
# (a) Gram matrix


def run_gram(case):
  cfg = case['grid']
  g = gc.build(cfg)
  D = _lat_D(cfg)
  out = Outcome(labels=gc.labels(cfg), nontrivial=(cfg['L'] >= 3 and D >= 1))
  bad = _shape_failure(out, cfg, g)
  if bad is not None:
    return bad
  shape = tuple(g.modal_shape)
  K = int(np.prod(shape))
  out.units = K
  G = gc.push_units(lambda e: g.to_modal(g.to_nodal(e)), shape).reshape(K, K)     # [input, output]
  mm, am, ll, valid = gc.flat_index_arrays(cfg, shape)
  # structural zeros, both directions
  if np.any(G[:, ~valid] != 0):
    j = np.argwhere(G[:, ~valid] != 0)[0]
    col = np.flatnonzero(~valid)[j[1]]
    return out.fail(what='to_modal produced a non-zero coefficient outside the triangular truncation / in a dead or '
                    'padded entry', output_index=np.unravel_index(col, shape), value=G[j[0], col])
  if np.any(G[~valid, :] != 0):
    j = np.argwhere(G[~valid, :] != 0)[0]
    row = np.flatnonzero(~valid)[j[0]]
    return out.fail(what='a masked / dead / padded input coefficient influenced the round trip',
                    input_index=np.unravel_index(row, shape), value=G[row, j[1]])
  v = np.flatnonzero(valid)
  Gv = G[np.ix_(v, v)]
  m, a, l = mm[v], am[v], ll[v]
  lon_exact = (a[:, None] + a[None, :]) < cfg['nlon']
  lat_exact = (l[:, None] + l[None, :]) <= D
  same_m = m[:, None] == m[None, :]
  claimed = lon_exact & (lat_exact | ~same_m)
  del lon_exact, lat_exact
  if not np.all(np.isfinite(Gv)):
    return out.fail(what='non-finite Gram entry')
  err = Gv.copy()
  err[np.diag_indices(len(v))] -= 1.0          # minus the Kronecker delta
  np.abs(err, out=err)
  err[~claimed] = 0.0
  worst = float(err.max()) if err.size else 0.0
  if worst > RTOL:
    i, j = np.unravel_index(int(np.argmax(err)), err.shape)
    return out.fail(what='Gram entry of to_modal(to_nodal(.)) differs from the Kronecker delta on an entry the '
                    'quadrature resolves', input_ml=[int(m[i]), int(l[i])], output_ml=[int(m[j]), int(l[j])],
                    got=Gv[i, j], want=float(i == j), D=D, nlon=cfg['nlon'], rtol=RTOL)
  n_off = int((claimed & same_m & ~np.eye(len(v), dtype=bool)).sum())
  out.nontrivial = bool(out.nontrivial and n_off > 0)
  if claimed.all():
    out.labels = list(out.labels) + ['all-entries-claimed']
  return out


def _gram_strategy(tier):
  return st.fixed_dictionaries({'grid': _cfg_strategy(tier)})


# ----------------------------------------------------------------------------
# (b) synthesised basis functions vs the scipy oracle; node positions; offset invariance


def run_basis(case):
  cfg = case['grid']
  g = gc.build(cfg)
  nlon, nlat = cfg['nlon'], cfg['nlat']
  out = Outcome(labels=gc.labels(cfg) + (['poles'] if cfg['spacing'] == 'equiangular_with_poles' else []),
                nontrivial=cfg['L'] >= 3 and cfg['M'] >= 2)
  bad = _shape_failure(out, cfg, g)
  if bad is not None:
    return bad
  shape = tuple(g.modal_shape)
  K = int(np.prod(shape))
  out.units = K
  # node positions (independent formulas)
  lon, sin_lat = (np.asarray(a) for a in g.nodal_axes)
  off = cfg.get('offset', 0.0) or 0.0
  want_lon = gc.lon_nodes(nlon) + off
  if lon.shape != (g.nodal_shape[0],) or sin_lat.shape != (g.nodal_shape[1],):
    return out.fail(what='nodal_axes have the wrong length', lon=lon.shape, lat=sin_lat.shape)
  if core.relerr(lon[:nlon], want_lon, scale=2 * np.pi + abs(off)) > 1e-13:
    return out.fail(what='longitude nodes are not offset + 2 pi i / n', got=lon[:4], want=want_lon[:4])
  want_mu = gc.lat_nodes(cfg['spacing'], nlat)
  if core.relerr(sin_lat[:nlat], want_mu, scale=1.0) > 1e-12:
    return out.fail(what='latitude nodes differ from the documented positions (south to north)',
                    index=core.argmax_index(sin_lat[:nlat], want_mu), got=sin_lat[:nlat], want=want_mu)
  if core.relerr(np.asarray(g.latitudes)[:nlat], np.arcsin(want_mu), scale=np.pi) > 1e-9 \
      or core.relerr(np.asarray(g.longitudes)[:nlon], want_lon, scale=2 * np.pi + abs(off)) > 1e-13:
    return out.fail(what='Grid.latitudes / Grid.longitudes inconsistent with the node positions')
  # all basis functions
  N = gc.push_units(g.to_nodal, shape)                               # [K, nlon_p, nlat_p]
  if N.shape[1:] != tuple(g.nodal_shape):
    return out.fail(what='to_nodal output has the wrong shape', got=N.shape[1:], want=g.nodal_shape)
  if np.any(N[:, nlon:, :] != 0) or np.any(N[:, :, nlat:] != 0):
    return out.fail(what='to_nodal wrote non-zero values into padded nodes')
  want = gc.oracle_tensor(cfg, shape).reshape(K, nlon, nlat)
  got = N[:, :nlon, :nlat]
  scale = max(1.0, float(np.abs(want).max()))
  err = core.relerr(got, want, scale)
  if err > RTOL:
    k, i, j = core.argmax_index(got, want)
    mm, am, ll, valid = gc.flat_index_arrays(cfg, shape)
    return out.fail(what='to_nodal(e_ml) differs from the independent real spherical harmonic Y_ml on the grid nodes',
                    m=int(mm[k]), l=int(ll[k]), valid=bool(valid[k]), node=[i, j], got=got[k, i, j],
                    want=want[k, i, j], relerr=err, rtol=RTOL)
  # the longitude offset only relabels nodal_axes
  if off:
    g0 = gc.build(cfg, offset=0.0)
    idx = np.random.default_rng(case['seed']).choice(K, size=min(K, 24), replace=False)
    N0 = gc.push_units(g0.to_nodal, shape, indices=idx)
    if not np.array_equal(N0, N[idx]):
      return out.fail(what='longitude_offset changed to_nodal output', relerr=core.relerr(N[idx], N0))
    z = np.random.default_rng(case['seed'] + 1).standard_normal((3,) + tuple(g.nodal_shape))
    if not np.array_equal(np.asarray(g.to_modal(z)), np.asarray(g0.to_modal(z))):
      return out.fail(what='longitude_offset changed to_modal output')
    if not np.array_equal(np.asarray(g0.nodal_axes[1]), sin_lat) or not np.array_equal(g0.mask, g.mask):
      return out.fail(what='longitude_offset changed latitude nodes or mask')
  return out


def _basis_strategy(tier):
  return st.fixed_dictionaries({
      'grid': _cfg_strategy(tier, resolutions=('resolved', 'under_lat', 'under_lon', 'under_both')),
      'seed': st.integers(0, 2 ** 16)})


# ----------------------------------------------------------------------------
# (c) quadrature weights and integrals


def run_integrate(case):
  import scipy.special as sps
  cfg = case['grid']
  g = gc.build(cfg)
  nlon, nlat, L, M = cfg['nlon'], cfg['nlat'], cfg['L'], cfg['M']
  r = 1.0 if cfg.get('radius') is None else float(cfg['radius'])
  D = _lat_D(cfg)
  prefix = tuple(case['prefix'])
  out = Outcome(labels=gc.labels(cfg) + [f'prefix_ndim={len(prefix)}'],
                nontrivial=(r != 1.0 or len(prefix) > 0) and L >= 2)
  if float(g.radius) != r:
    return out.fail(what='Grid.radius is not the requested radius (None -> 1)', got=g.radius, want=r)
  w = np.asarray(g.quadrature_weights)
  if w.shape != tuple(g.nodal_shape):
    return out.fail(what='quadrature_weights has the wrong shape', got=w.shape, want=g.nodal_shape)
  if np.any(w[:, nlat:] != 0):
    return out.fail(what='padded latitude nodes carry quadrature weight')
  wr = w[:nlon, :nlat]
  if not np.all(wr > 0):
    return out.fail(what='non-positive quadrature weight', min=float(wr.min()))
  if core.relerr(wr, wr[:, ::-1], scale=float(wr.max())) > 1e-10:
    return out.fail(what='quadrature weights are not symmetric about the equator')
  if np.any(wr != wr[:1, :]):
    return out.fail(what='quadrature weights depend on longitude')
  if core.relerr(wr.sum(), 4 * np.pi) > RTOL:
    return out.fail(what='quadrature weights do not sum to 4 pi', got=float(wr.sum()))
  # exactness of Grid.integrate on P_k(sin lat) * {1, cos(m lon)} up to the degree the quadrature resolves
  mu, lon = gc.lat_nodes(cfg['spacing'], nlat), gc.lon_nodes(nlon)
  ks = np.arange(D + 1)
  Pk = sps.eval_legendre(ks[:, None], mu[None, :])                    # [k, lat]
  z = np.zeros((len(ks),) + tuple(g.nodal_shape))
  z[:, :nlon, :nlat] = Pk[:, None, :]
  got = np.asarray(g.integrate(z))
  want = np.zeros(len(ks))
  want[0] = 4 * np.pi * r ** 2
  units = len(ks)
  if core.relerr(got, want, scale=4 * np.pi * r ** 2) > RTOL:
    k = core.argmax_index(got, want)[0]
    return out.fail(what='Grid.integrate is not exact for a Legendre polynomial of degree <= D', degree=k, D=D,
                    got=got[k], want=want[k], radius=r)
  if nlon >= 2:
    mw = np.arange(1, nlon)                                            # every wavenumber the trapezoid rule resolves
    zc = np.zeros((len(mw),) + tuple(g.nodal_shape))
    zc[:, :nlon, :nlat] = np.cos(mw[:, None, None] * lon[None, :, None]) * (1 + mu[None, None, :] ** min(D, 2))
    gotc = np.asarray(g.integrate(zc))
    units += len(mw)
    if core.relerr(gotc, 0 * gotc, scale=4 * np.pi * r ** 2 * 2) > RTOL:
      return out.fail(what='Grid.integrate of cos(m lon) f(lat) is not zero for 0 < m < longitude_nodes',
                      m=int(mw[int(np.argmax(np.abs(gotc)))]), got=float(np.abs(gotc).max()))
  # integral of a synthesised field = r^2 sqrt(4 pi) x_00, any leading batch axes
  rng = np.random.default_rng(case['seed'])
  shape = tuple(g.modal_shape)
  _, _, ll, valid = gc.flat_index_arrays(cfg, shape)
  keep = (valid & (ll <= D)).reshape(shape)
  x = rng.standard_normal(prefix + shape) * keep
  if case['flat_spectrum'] is False:
    x = x / (1.0 + ll.reshape(shape)) ** 2
  nod = np.asarray(g.to_nodal(x))
  got = np.asarray(g.integrate(nod))
  want = r ** 2 * np.sqrt(4 * np.pi) * x[..., 0, 0]
  units += int(np.prod(prefix)) if prefix else 1
  out.units = units
  if got.shape != prefix:
    return out.fail(what='integrate did not reduce exactly the two nodal axes', got=got.shape, want=prefix)
  scale = 4 * np.pi * r ** 2 * max(float(np.abs(nod).max()), 1e-300)
  err = core.relerr(got, want, scale)
  if err > RTOL:
    return out.fail(what='integrate(to_nodal(x)) != radius^2 sqrt(4 pi) x[0,0]', index=core.argmax_index(got, want),
                    got=got, want=want, relerr=err, radius=r)
  return out


def _integrate_strategy(tier):
  return st.fixed_dictionaries({
      'grid': _cfg_strategy(tier, resolutions=('resolved', 'under_lat', 'under_lon')),
      'prefix': st.sampled_from([[], [], [3], [1], [2, 3], [1, 2]]),
      'flat_spectrum': st.booleans(),
      'seed': st.integers(0, 2 ** 16)})


# ----------------------------------------------------------------------------
# (d) coefficients outside the truncation neither influence nor appear; mask; batch axes; linearity


def run_truncation(case):
  cfg = case['grid']
  g = gc.build(cfg)
  nlon, nlat = cfg['nlon'], cfg['nlat']
  prefix = tuple(case['prefix'])
  shape = tuple(g.modal_shape)
  ms, valid = gc.layout(cfg, shape)
  padded = shape != ((2 * cfg['M'] - 1, cfg['L']) if cfg['impl'] == 'real' else (2 * cfg['M'], cfg['L']))
  out = Outcome(labels=gc.labels(cfg) + [f'prefix_ndim={len(prefix)}', 'layout_padded' if padded else 'layout_tight'],
                nontrivial=bool((~valid).sum() > 0 and cfg['L'] >= 2), units=4)
  # mask and modal axes state the layout
  mask = np.asarray(g.mask)
  if mask.shape != shape or mask.dtype != bool or not np.array_equal(mask, valid):
    return out.fail(what='Grid.mask differs from {|m| <= l < L, live rows}', index=core.argmax_index(mask, valid)
                    if mask.shape == shape else None, shape=mask.shape)
  m_ax, l_ax = (np.asarray(a) for a in g.modal_axes)
  want_m = np.array([0 if m is None else m for m in ms])
  want_l = np.where(np.arange(shape[1]) < cfg['L'], np.arange(shape[1]), 0)
  if not np.array_equal(m_ax, want_m) or not np.array_equal(l_ax, want_l):
    return out.fail(what='modal_axes differ from the documented layout', m=m_ax, l=l_ax)
  rng = np.random.default_rng(case['seed'])
  amp = case['amp']
  x = rng.standard_normal(prefix + shape)
  junk = rng.standard_normal(prefix + shape) * amp
  x_valid = x * valid
  x_dirty = np.where(valid, x, junk)
  a = np.asarray(g.to_nodal(x_valid))
  b = np.asarray(g.to_nodal(x_dirty))
  if a.shape != prefix + tuple(g.nodal_shape):
    return out.fail(what='to_nodal does not preserve leading axes', got=a.shape)
  if not np.array_equal(a, b):
    return out.fail(what='entries outside the triangular truncation (|m|>l, sin(0) row, padding) changed to_nodal',
                    relerr=core.relerr(b, a), amp=amp)
  # analysis of arbitrary (not band-limited) nodal data, incl. data in padded nodes
  z = rng.standard_normal(prefix + tuple(g.nodal_shape)) * amp
  c = np.asarray(g.to_modal(z))
  if c.shape != prefix + shape:
    return out.fail(what='to_modal does not preserve leading axes', got=c.shape)
  if np.any(c[..., ~valid] != 0):
    bad = np.argwhere(np.where(valid, 0.0, c) != 0)[0]
    return out.fail(what='to_modal of arbitrary nodal data is non-zero outside the triangular truncation', index=bad)
  z_clean = z.copy()
  z_clean[..., nlon:, :] = 0
  z_clean[..., :, nlat:] = 0
  c2 = np.asarray(g.to_modal(z_clean))
  if core.relerr(c, c2, scale=max(1e-300, float(np.abs(c2).max()))) > RTOL:
    return out.fail(what='values stored in padded nodes influence to_modal', relerr=core.relerr(c, c2))
  # batch axes = independent applications; linearity
  if prefix:
    idx = tuple(int(rng.integers(0, n)) for n in prefix)
    one = np.asarray(g.to_nodal(x_valid[idx]))
    sc = max(1e-300, float(np.abs(a).max()))
    if core.relerr(a[idx], one, sc) > RTOL:
      return out.fail(what='to_nodal of a batch differs from to_nodal of its slice', slice=idx)
    one = np.asarray(g.to_modal(z[idx]))
    if core.relerr(c[idx], one, max(1e-300, float(np.abs(c).max()))) > RTOL:
      return out.fail(what='to_modal of a batch differs from to_modal of its slice', slice=idx)
  y = rng.standard_normal(prefix + shape) * valid
  al, be = case['coef']
  lhs = np.asarray(g.to_nodal(al * x_valid + be * y))
  rhs = al * a + be * np.asarray(g.to_nodal(y))
  sc = max(1e-300, abs(al) * float(np.abs(a).max()) + abs(be) * float(np.abs(rhs).max()))
  if core.relerr(lhs, rhs, sc) > RTOL:
    return out.fail(what='to_nodal is not linear', relerr=core.relerr(lhs, rhs, sc))
  # pytrees / scalars pass through
  tree = {'a': x_valid, 'b': (y, 2.5)}
  tn = g.to_nodal(tree)
  if not np.array_equal(np.asarray(tn['a']), a) or tn['b'][1] != 2.5:
    return out.fail(what='to_nodal on a pytree differs from leaf-wise application (scalars untouched)')
  return out


def _truncation_strategy(tier):
  return st.fixed_dictionaries({
      'grid': _cfg_strategy(tier, resolutions=('resolved', 'under_both'), max_m=12 if tier == 'quick' else 32),
      'prefix': st.sampled_from([[], [2], [4], [2, 2], [1, 3]]),
      'amp': st.sampled_from([1.0, 1e6, 1e-3]),
      'coef': st.sampled_from([[1.0, 1.0], [2.0, -3.0], [0.5, 1e3]]),
      'seed': st.integers(0, 2 ** 16)})


# ----------------------------------------------------------------------------
# (e) numpy-level Gram of the cached basis for the factory grids (no jax)


def _factory_cases(tier):
  names = list(gc.FACTORY_TABLE)
  heavy = {'quick': 42, 'thorough': 255}[tier]
  cases = []
  for name in names:
    mw = gc.FACTORY_TABLE[name][0]
    for impl in ('real', 'fast'):
      level = 'gram' if mw <= heavy and (impl == 'fast' or mw <= {'quick': 31, 'thorough': 106}[tier]) else 'shape'
      cases.append({'factory': name, 'impl': impl, 'level': level, 'spacing': 'gauss'})
  # equiangular variants of the smaller ones (exactness degree N-1: only l + l' <= N-1 is claimed)
  for name in ('T21', 'TL31') + (('T42', 'TL63', 'T85') if tier == 'thorough' else ()):
    cases.append({'factory': name, 'impl': 'fast', 'level': 'gram', 'spacing': 'equiangular'})
  return cases


def run_factory(case):
  import scipy.special as sps
  name, impl = case['factory'], case['impl']
  cfg = gc.factory_cfg(name, impl=impl, spacing=case['spacing'], via='factory')
  g = gc.build(cfg)
  out = Outcome(labels=[f'level={case["level"]}', f'impl={impl}', 'family=' + ('TL' if name.startswith('TL') else 'T'),
                        f'spacing={case["spacing"]}'],
                nontrivial=case['level'] == 'gram', units=1)
  ok, got, want = gc.check_shape_contract(cfg, g)
  if not ok:
    return out.fail(what='factory grid sizes differ from the standard truncation table', factory=name, got=got,
                    want=want)
  if tuple(g.modal_shape) != gc.expected_modal_shape(cfg) or tuple(g.nodal_shape) != gc.expected_nodal_shape(cfg):
    return out.fail(what='factory grid array shapes wrong', modal=g.modal_shape, nodal=g.nodal_shape)
  if case['level'] != 'gram':
    return out
  M, L, nlon, nlat = cfg['M'], cfg['L'], cfg['nlon'], cfg['nlat']
  D = _lat_D(cfg)
  b = g.spherical_harmonics.basis
  f, p, w = np.asarray(b.f), np.asarray(b.p), np.asarray(b.w)
  wf = 2 * np.pi / nlon
  # Fourier factor: columns orthonormal under the trapezoid rule (dead column zero)
  f2 = f.reshape(f.shape[0], -1, order='F') if f.ndim == 3 else f
  A = (f2.T @ f2) * wf
  ms, _ = gc.layout(cfg, g.modal_shape)
  live = np.array([m is not None for m in ms])
  if core.relerr(A, np.diag(live.astype(float)), 1.0) > RTOL:
    return out.fail(what='Fourier basis columns are not orthonormal under the trapezoid weights',
                    index=core.argmax_index(A, np.diag(live.astype(float))))
  # Legendre factor per |m| against scipy and its Gram on the resolved entries
  mu = gc.lat_nodes(case['spacing'], nlat)
  if impl == 'real':
    rows = [0] + [2 * m - 1 for m in range(1, M)]
    dup = [(2 * m - 1, 2 * m) for m in range(1, M)]
    if any(not np.array_equal(p[i], p[j]) for i, j in dup):
      return out.fail(what='cos and sin rows of the Real Legendre tensor differ')
  else:
    rows = list(range(M))
  l = np.arange(L)
  claimed = (l[:, None] + l[None, :]) <= D
  worst, worst_o = 0.0, 0.0
  for am, row in enumerate(rows):
    pm = p[row][:nlat, :L]                                   # [lat, l]
    want_p = sps.assoc_legendre_p(l[:, None], am, mu[None, :], norm=True, diff_n=0)[0]   # [l, lat]
    want_p = np.where((l >= am)[:, None], want_p, 0.0).T
    eo = core.relerr(pm, want_p, scale=max(1.0, float(np.abs(want_p).max())))
    if eo > RTOL:
      return out.fail(what='Legendre basis differs from scipy assoc_legendre_p(norm=True)', m=am,
                      index=core.argmax_index(pm, want_p), relerr=eo)
    Gm = (pm * (w[:nlat] / wf)[:, None]).T @ pm
    I = np.diag((l >= am).astype(float))
    e = float(np.abs(np.where(claimed, Gm - I, 0.0)).max())
    if e > RTOL:
      i, j = np.unravel_index(int(np.argmax(np.abs(np.where(claimed, Gm - I, 0.0)))), Gm.shape)
      return out.fail(what='Legendre Gram entry differs from delta where l + l\' <= D', m=am, l=[int(i), int(j)],
                      got=Gm[i, j], D=D)
    worst, worst_o = max(worst, e), max(worst_o, eo)
  if p.shape[0] > len(rows) and impl == 'fast' and np.any(p[len(rows):] != 0):
    return out.fail(what='padded rows of the Legendre tensor are non-zero')
  if np.any(p[:, nlat:, :] != 0) or np.any(p[:, :, L:] != 0) or np.any(w[nlat:] != 0):
    return out.fail(what='padding of basis.p / basis.w is non-zero')
  out.units = int(live.sum()) * L
  out.labels = list(out.labels) + ['TL: claimed only l+l\'<=D' if not claimed.all() else 'fully resolved']
  return out


# ----------------------------------------------------------------------------
# (f) float32 pass


def run_float32(case):
  import jax
  cfg = case['grid']
  out = Outcome(labels=gc.labels(cfg), nontrivial=cfg['L'] >= 3)
  with jax.enable_x64(False):
    g = gc.build(cfg)
    shape = tuple(g.modal_shape)
    _, am, ll, valid = gc.flat_index_arrays(cfg, shape)
    # scalar round trip rule (DESIGN 2.1): a field band-limited to s is recovered iff s + (L-1) <= D (same in longitude)
    keep = valid & (ll + cfg['L'] - 1 <= _lat_D(cfg)) & (am + cfg['M'] - 1 < cfg['nlon'])
    out.nontrivial = bool(out.nontrivial and keep.sum() >= 3)
    rng = np.random.default_rng(case['seed'])
    x = (rng.standard_normal((3,) + shape) * keep.reshape(shape)).astype(np.float32)
    nod = g.to_nodal(x)
    y = g.to_modal(nod)
    if str(nod.dtype) != 'float32' or str(y.dtype) != 'float32':
      return out.fail(what='float32 input did not give float32 output', nodal=str(nod.dtype), modal=str(y.dtype))
    y, nod = np.asarray(y, dtype=np.float64), np.asarray(nod, dtype=np.float64)
  out.units = 3
  if np.any(np.where(valid.reshape(shape), 0.0, y) != 0):
    return out.fail(what='float32 round trip non-zero outside the mask')
  err = core.relerr(y, x.astype(np.float64), scale=max(1.0, float(np.abs(nod).max())))
  if err > 3e-4:
    return out.fail(what='float32 round trip error above 3e-4', relerr=err, index=core.argmax_index(y, x))
  want = np.einsum('...ml,mlij->...ij', x.astype(np.float64), gc.oracle_tensor(cfg, shape))
  err = core.relerr(nod[..., :cfg['nlon'], :cfg['nlat']], want, scale=max(1.0, float(np.abs(want).max())))
  if err > 3e-4:
    return out.fail(what='float32 synthesis differs from the float64 oracle by more than 3e-4', relerr=err)
  # history: the *same* Grid object is now used in double precision (x64 is on again outside the context). Nothing
  # cached on the grid during the float32 phase may limit the accuracy of the float64 phase.
  x64 = x.astype(np.float64)
  nod64 = np.asarray(g.to_nodal(x64))
  y64 = np.asarray(g.to_modal(nod64))
  out.units += 3
  if nod64.dtype != np.float64 or y64.dtype != np.float64:
    return out.fail(what='float64 input on a grid first used in float32 did not give float64 output',
                    nodal=str(nod64.dtype), modal=str(y64.dtype))
  err = core.relerr(y64, x64, scale=max(1.0, float(np.abs(nod64).max())))
  if err > 1e-9:
    return out.fail(what='float64 round trip on a Grid object first used in float32 mode is not exact to rounding',
                    relerr=err, index=core.argmax_index(y64, x64))
  err = core.relerr(nod64[..., :cfg['nlon'], :cfg['nlat']], want, scale=max(1.0, float(np.abs(want).max())))
  if err > 1e-9:
    return out.fail(what='float64 synthesis on a Grid object first used in float32 mode differs from the oracle',
                    relerr=err)
  return out


# ----------------------------------------------------------------------------
# associated Legendre values at orders beyond any affordable transform (numpy level, a few nodes)


def _legendre_cases(tier):
  sizes = [(3, 4), (33, 34), (130, 131), (257, 259), (300, 300), (520, 522)]
  if tier == 'thorough':
    sizes += [(600, 640), (640, 645)]   # scipy's normalised recurrence returns NaN from degree 646 on
  return [{'n_m': m, 'n_l': l, 'seed': k} for (m, l) in sizes for k in range(2)]


def run_legendre_values(case):
  import scipy.special as sps
  from dinosaur import associated_legendre
  rng = np.random.default_rng([case['seed'], case['n_m']])
  x = np.concatenate([np.sort(rng.uniform(-0.98, 0.98, size=5)), [0.0, 0.3]])
  n_m, n_l = case['n_m'], case['n_l']
  p = np.asarray(associated_legendre.evaluate(n_m=n_m, n_l=n_l, x=x))     # [m, node, l]
  out = Outcome(units=n_m * n_l, labels=[f'n_m={n_m}'], nontrivial=n_m >= 3)
  if p.shape != (n_m, len(x), n_l):
    return out.fail(what='associated_legendre.evaluate returned an unexpected shape', shape=list(p.shape))
  l = np.arange(n_l)[:, None, None]
  m = np.arange(n_m)[None, :, None]
  ref = np.asarray(sps.assoc_legendre_p(l, m, x[None, None, :], norm=True))[0]
  ref = np.where(m <= l, ref, 0.0)                       # [l, m, node]
  ref = np.transpose(ref, (1, 2, 0))                     # [m, node, l]
  # scipy's norm=True basis has unit L2 norm on [-1, 1] like the code's (measured identical up to L = 256)
  err = np.abs(p - ref)
  tol = 1e-9 * np.maximum(1.0, np.abs(ref)) + 1e-200
  if not np.all(err <= tol):
    mi, ji, li = (int(v) for v in np.unravel_index(int(np.argmax(err - tol)), err.shape))
    return out.fail(what='associated Legendre value differs from scipy', m=mi, l=li, x=float(x[ji]),
                    got=float(p[mi, ji, li]), want=float(ref[mi, ji, li]))
  return out


def _float32_strategy(tier):
  return st.fixed_dictionaries({
      'grid': _cfg_strategy(tier, resolutions=('resolved',), max_m=12 if tier == 'quick' else 24, factories=tier != 'quick'),
      'seed': st.integers(0, 2 ** 16)})


SUBCHECKS = [
    Subcheck('gram_all_unit_vectors', run_gram, strategy=_gram_strategy,
             examples={'quick': 40, 'thorough': 320}, shards={'quick': 2, 'thorough': 8},
             wall={'quick': 300.0, 'thorough': 1500.0}, weight=3,
             rule='non-trivial = L >= 3 and at least one off-diagonal (same m, l != l\') Gram entry is claimed exact',
             doc='to_modal(to_nodal(e)) over all unit vectors == delta on resolved entries; exact zeros off the mask'),
    Subcheck('basis_vs_scipy', run_basis, strategy=_basis_strategy,
             examples={'quick': 36, 'thorough': 300}, shards={'quick': 2, 'thorough': 8},
             wall={'quick': 300.0, 'thorough': 1500.0}, weight=3,
             rule='non-trivial = L >= 3 and M >= 2 (both cos and sin rows exist)',
             doc='to_nodal(e_ml) == scipy Y_ml on independently computed nodes; longitude offset only relabels axes'),
    Subcheck('weights_and_integrals', run_integrate, strategy=_integrate_strategy,
             examples={'quick': 50, 'thorough': 500}, shards={'quick': 1, 'thorough': 6},
             wall={'quick': 300.0, 'thorough': 1500.0}, weight=2,
             rule='non-trivial = (radius != 1 or leading batch axes) and L >= 2',
             doc='weights positive/symmetric/sum 4 pi; integrate exact to degree D; integrate(to_nodal x) = r^2 sqrt(4 pi) x00'),
    Subcheck('truncation_isolation', run_truncation, strategy=_truncation_strategy,
             examples={'quick': 60, 'thorough': 600}, shards={'quick': 1, 'thorough': 6},
             wall={'quick': 300.0, 'thorough': 1500.0}, weight=2,
             rule='non-trivial = the layout has entries outside the truncation and L >= 2',
             doc='mask == documented layout; masked inputs never influence to_nodal; to_modal output exactly 0 there'),
    Subcheck('factory_basis_numpy', run_factory, cases=_factory_cases,
             shards={'quick': 2, 'thorough': 12}, wall={'quick': 300.0, 'thorough': 1500.0}, weight=4,
             rule='non-trivial = the Gram / scipy comparison of basis.f, basis.p, basis.w was evaluated (not only sizes)',
             doc='all 20 factories have the literature sizes; numpy Gram + scipy comparison of the cached basis'),
    Subcheck('float32_roundtrip', run_float32, strategy=_float32_strategy,
             examples={'quick': 10, 'thorough': 150}, shards={'quick': 1, 'thorough': 4},
             wall={'quick': 300.0, 'thorough': 900.0}, weight=1,
             rule='non-trivial = L >= 3',
             doc='float32 inputs with x64 disabled: round trip and synthesis within 3e-4; then the same Grid object '
                 'in float64: exact to rounding (nothing cached in the float32 phase limits accuracy)'),
    Subcheck('legendre_values_large_orders', run_legendre_values, cases=_legendre_cases,
             shards={'quick': 2, 'thorough': 4}, wall={'quick': 300.0, 'thorough': 1500.0}, weight=1,
             rule='non-trivial = at least 3 orders',
             doc='associated_legendre.evaluate at a few nodes for up to 520 (thorough 1025) orders == scipy, every (m, l)'),
]
