"""C14 Stepping and scan combinators equal their sequential definition for every split.

Anchors: dinosaur/time_integration.py  trajectory_from_step, repeated, step_with_filters,
nested_checkpoint_scan/_inner_nested_scan, accumulate_repeated, _dfi_lanczos_weights,
digital_filter_initialization, TimeReversedImExODE.

Oracle everywhere: a plain python loop that applies the very same step function eagerly (op by op), so frame
selection, counts, ordering, reshapes and concatenations of the combinators are compared with the sequential
definition they abbreviate.  Every state carries an integer step counter and the step functions depend on it
(non-autonomous), hence any off-by-one in frame selection / repeat counts changes integers exactly.
"""
from __future__ import annotations

import itertools
import math
import os

from hypothesis import strategies as st
import numpy as np

from vf import core
from vf.core import Outcome, Subcheck

RTOL = 1e-10   # eager python loop vs XLA-fused scan bodies: measured <= 1e-15; any mis-selected frame is O(1)
FD_RTOL = 1e-6   # central differences, two step sizes + Richardson (measured <= 1e-9 on 130 cases)

RULE = ('cases: every (outer 0..6, inner 1..6, start_with_input) split x post-processing x scan function '
        '(lax.scan | nested checkpoint scan | counting python scan) enumerated, plus Hypothesis-drawn step '
        'functions / pytree structures / leaf shapes; every ordered factorisation (with inserted unit factors) of '
        'every scan length <= 12 (quick) / 24 (thorough) for nested_checkpoint_scan; Hypothesis-drawn filter '
        'sequences, weight vectors and DFI configurations. Oracle: the eager python loop (values) and jax.grad of '
        'the unrolled python loop + flat lax.scan (gradients). distinct = hash of the canonical JSON case; '
        'non-trivial rules per sub-check (subchecks.*.rule)')
ASSUMPTIONS = [
    'inner_steps >= 1 and outer_steps >= 0 (inner_steps = 0 has no sequential meaning in the documented API)',
    'states given to accumulate_repeated / digital_filter_initialization have floating-point leaves only '
    '(a weighted average of an integer counter is not defined; scan would reject the carry type change)',
    'DFI time_span is an exact even multiple 2*N*dt of the step so that round(time_span/(2 dt)) == N unambiguously',
    'the steady state handed to DFI is a fixed point of F+G *and* of every filter in the list',
    'nested_lengths entries are >= 1 and their product equals the leading length of every array in xs',
]
MANIFEST = {
    'text': 'Exploration: trajectory_from_step / repeated / step_with_filters / nested_checkpoint_scan / '
            'accumulate_repeated / digital_filter_initialization agree with an eager python loop on all 84 '
            '(outer, inner, start_with_input) splits and all ordered factorisations of scan lengths <= 12 (quick) / '
            '24 (thorough) incl. gradients, for Hypothesis-drawn step functions, pytree states and weights.',
    'note': 'trusted base: eager jax op-by-op evaluation of the same python step function, jax.grad of the unrolled '
            'loop, numpy sin for the Lanczos window; float64',
    'technique': 'differential testing against the sequential python-loop definition (exhaustive over splits and '
                 'factorisations, Hypothesis over step functions)',
}


def _vseed():
  try:
    return int(os.environ.get('VERIF_SEED', '1') or '1')
  except ValueError:
    return 1


# ----------------------------------------------------------------------------
# step-function family on pytree states with an integer counter


# few distinct leaf shapes (heterogeneous within a state): every new shape costs ~40 eager XLA compilations
_SHAPES = [[3, 2, 2], [1, 1, 1], [4, 3, 2]]


def _shape_keys(sh):
  return {'n': sh[0], 'p': sh[1], 'q': sh[2]}


def _coefs(seed, n=10):
  return np.random.default_rng(int(seed)).uniform(-0.9, 0.9, size=n)


def _pack(struct, a, b, t):
  if struct == 'dict':
    return {'a': a, 'b': b, 't': t}
  if struct == 'tuple':
    return (a, b, t)
  return {'x': {'a': a}, 'y': (b, t)}      # 'nested'


def _unpack(struct, s):
  if struct == 'dict':
    return s['a'], s['b'], s['t']
  if struct == 'tuple':
    return s
  return s['x']['a'], s['y'][0], s['y'][1]


def _make_step(struct, seed, float_counter=False):
  """Non-autonomous contraction-like step on (a: (n,), b: (p, q), t: counter)."""
  import jax.numpy as jnp
  c = _coefs(seed)

  def step(s):
    a, b, t = _unpack(struct, s)
    tf = t.astype(a.dtype) if hasattr(t, 'astype') else t
    a2 = c[0] * a + c[1] * jnp.tanh(b).sum() / b.size + c[2] * jnp.roll(a, 1) * 0.5 + c[3] + c[7] * jnp.cos(0.7 * tf)
    b2 = c[4] * b + c[5] * jnp.sin(a).mean() + c[6] * 0.3 + c[8] * 0.1 * jnp.sin(0.4 * tf + b)
    return _pack(struct, a2, b2, t + 1)
  return step


def _make_state(struct, seed, n, p, q, float_counter=False):
  import jax.numpy as jnp
  rng = np.random.default_rng(int(seed) + 7919)
  a = jnp.asarray(rng.standard_normal(n))
  b = jnp.asarray(rng.standard_normal((p, q)))
  t = jnp.asarray(0.0) if float_counter else jnp.asarray(0, dtype=jnp.int64)
  return _pack(struct, a, b, t)


def _post(kind, struct):
  if kind == 'id':
    return lambda s: s
  if kind == 'select':
    return lambda s: {'only_a': _unpack(struct, s)[0], 'count': _unpack(struct, s)[2]}
  return lambda s: (2.0 * _unpack(struct, s)[1] + 1.0, _unpack(struct, s)[2] * 3)     # 'affine'


def _py_scan_factory(log):
  """A scan with the lax.scan calling convention implemented as a python loop; counts its iterations."""
  import jax
  import jax.numpy as jnp

  def py_scan(f, init, xs=None, length=None):
    if xs is not None:
      leaves = jax.tree_util.tree_leaves(xs)
      if leaves:
        length = leaves[0].shape[0]
    carry, ys = init, []
    for i in range(int(length)):
      x = None if xs is None else jax.tree_util.tree_map(lambda v: v[i], xs)   # pylint: disable=cell-var-from-loop
      carry, y = f(carry, x)
      log.append(1)
      ys.append(y)
    if ys:
      stacked = jax.tree_util.tree_map(lambda *v: jnp.stack(v), *ys)
    else:
      stacked = None
    return carry, stacked
  return py_scan


def _guard(out, what, thunk):
  """Calls the code under test; an exception on an admissible input is a violation, not a harness error."""
  try:
    return True, thunk()
  except Exception as e:   # pylint: disable=broad-except
    out.fail(what=what + ' raised on an admissible input', error=repr(e)[:600])
    return False, None


def _cmp_trees(got, want, what, out, exact_int=True):
  """Compares two pytrees leaf-wise; returns None if equal else a failed Outcome."""
  import jax
  lg, tg = jax.tree_util.tree_flatten(got)
  lw, tw = jax.tree_util.tree_flatten(want)
  if tg != tw:
    return out.fail(what=what + ': tree structure differs', got=str(tg), want=str(tw))
  for i, (g, w) in enumerate(zip(lg, lw)):
    g, w = np.asarray(g), np.asarray(w)
    if g.shape != w.shape:
      return out.fail(what=what + ': leaf shape differs', leaf=i, got=list(g.shape), want=list(w.shape))
    if np.issubdtype(w.dtype, np.integer) and exact_int:
      if not np.array_equal(g, w):
        return out.fail(what=what + ': integer (step counter) leaf differs', leaf=i, got=g.tolist(), want=w.tolist())
      continue
    scale = max(1.0, float(np.max(np.abs(w))) if w.size else 1.0)
    e = core.relerr(g, w, scale)
    if not e <= RTOL:
      return out.fail(what=what + ': value differs', leaf=i, relerr=e, rtol=RTOL, index=core.argmax_index(g, w),
                      got=g.ravel()[:8].tolist(), want=w.ravel()[:8].tolist())
  return None


def _factorisations(n):
  """All ordered factorisations of n into factors >= 2 ([[]] for n == 1)."""
  if n == 1:
    return [[]]
  res = []
  for d in range(2, n + 1):
    if n % d == 0:
      for rest in _factorisations(n // d):
        res.append([d] + rest)
  return res


# ----------------------------------------------------------------------------
# trajectory_from_step / repeated


def _traj_cases(tier):
  vs = _vseed()
  cases = []
  posts = ['id', 'select', 'affine']
  structs = ['dict', 'tuple', 'nested']
  scans = ['lax', 'lax', 'pyloop', 'nested']
  i = 0
  for outer, inner, swi in itertools.product(range(0, 7), range(1, 7), (False, True)):
    reps = 1 if tier == 'quick' else 3
    for r in range(reps):
      k = i + r + vs
      scan = scans[k % 4]
      cases.append({'outer': outer, 'inner': inner, 'start_with_input': swi, 'post': posts[k % 3],
                    'struct': structs[(k // 3) % 3], 'scan': scan, 'fact': k % 5,
                    **_shape_keys(_SHAPES[k % len(_SHAPES)]), 'seed': 1000 * vs + i + 97 * r})
    i += 1
  return cases


@st.composite
def _traj_strategy(draw):
  return {'outer': draw(st.sampled_from([2, 0, 1, 3, 4, 5, 6, 3])), 'inner': draw(st.sampled_from([2, 1, 3, 4, 5, 6, 3])),
          'start_with_input': draw(st.booleans()), 'post': draw(st.sampled_from(['id', 'select', 'affine'])),
          'struct': draw(st.sampled_from(['dict', 'tuple', 'nested'])),
          'scan': draw(st.sampled_from(['lax', 'pyloop', 'nested', 'nested_inner'])), 'fact': draw(st.integers(0, 7)),
          **_shape_keys(draw(st.sampled_from(_SHAPES))),
          'seed': draw(st.integers(0, 10**6))}


def _nested_lengths_for(n, idx):
  f = _factorisations(max(n, 1))
  ls = list(f[idx % len(f)]) or [1]
  if idx % 3 == 1:
    ls.insert((idx // 3) % (len(ls) + 1), 1)
  return ls


def run_trajectory(case):
  import functools
  import jax
  from dinosaur import time_integration as ti
  outer, inner, swi = case['outer'], case['inner'], case['start_with_input']
  struct = case['struct']
  step = _make_step(struct, case['seed'])
  s0 = _make_state(struct, case['seed'], case['n'], case['p'], case['q'])
  post = _post(case['post'], struct)
  out = Outcome(nontrivial=(outer >= 2 and inner >= 2),
                labels=[f'outer={outer}', f'inner={"1" if inner == 1 else ">1"}', f'start_with_input={swi}',
                        f'post={case["post"]}', f'scan={case["scan"]}', f'struct={struct}'],
                units=outer * inner)
  # sequential definition
  states = [s0]
  for _ in range(outer * inner):
    states.append(step(states[-1]))
  want_final = states[-1]
  want_frames = [post(states[k * inner] if swi else states[(k + 1) * inner]) for k in range(outer)]
  kw = {}
  log_outer, log_inner = [], []
  if case['scan'] == 'pyloop':
    kw = {'outer_scan_fn': _py_scan_factory(log_outer), 'inner_scan_fn': _py_scan_factory(log_inner)}
  elif case['scan'] == 'nested' and outer >= 1:
    kw = {'outer_scan_fn': functools.partial(ti.nested_checkpoint_scan,
                                             nested_lengths=_nested_lengths_for(outer, case['fact']))}
  elif case['scan'] == 'nested_inner' and inner >= 2:
    kw = {'inner_scan_fn': functools.partial(ti.nested_checkpoint_scan,
                                             nested_lengths=_nested_lengths_for(inner, case['fact']))}
  ok, res = _guard(out, 'trajectory_from_step', lambda: ti.trajectory_from_step(
      step, outer, inner, start_with_input=swi, post_process_fn=post, **kw)(s0))
  if not ok:
    return out
  got_final, got_traj = res
  bad = _cmp_trees(got_final, want_final, 'final state != state after outer*inner sequential steps', out)
  if bad:
    return bad
  if outer == 0:
    # no frames: every stacked leaf must have leading length 0 (or the python scan returned nothing)
    if got_traj is not None:
      for leaf in jax.tree_util.tree_leaves(got_traj):
        if np.asarray(leaf).shape[:1] != (0,):
          return out.fail(what='outer_steps=0 returned a non-empty trajectory', shape=list(np.asarray(leaf).shape))
  else:
    lt = jax.tree_util.tree_leaves(got_traj)
    if any(np.asarray(l).shape[0] != outer for l in lt):
      return out.fail(what='trajectory does not have outer_steps frames',
                      shapes=[list(np.asarray(l).shape) for l in lt], outer=outer)
    for k in range(outer):
      frame = jax.tree_util.tree_map(lambda v: v[k], got_traj)   # pylint: disable=cell-var-from-loop
      bad = _cmp_trees(frame, want_frames[k],
                       f'frame {k} != post_process(state after {(k if swi else k + 1) * inner} steps)', out)
      if bad:
        return bad
  if case['scan'] == 'pyloop':
    n_outer, n_inner = len(log_outer), len(log_inner)
    inner_ok = n_inner == outer * inner or (inner == 1 and n_inner == 0)    # inner_steps=1 may skip the inner scan
    if n_outer != outer or not inner_ok:
      return out.fail(what='scan functions were not iterated outer / outer*inner times',
                      outer_iterations=n_outer, inner_iterations=n_inner, want=[outer, outer * inner])
  return out


@st.composite
def _repeated_strategy(draw):
  return {'steps': draw(st.sampled_from([2, 0, 1, 3, 4, 5, 6, 7, 8, 9, 2, 3])), 'struct': draw(st.sampled_from(['dict', 'tuple', 'nested'])),
          'scan': draw(st.sampled_from(['lax', 'pyloop', 'nested'])), 'fact': draw(st.integers(0, 5)),
          **_shape_keys(draw(st.sampled_from(_SHAPES))),
          'seed': draw(st.integers(0, 10**6))}


def run_repeated(case):
  import functools
  from dinosaur import time_integration as ti
  n = case['steps']
  struct = case['struct']
  step = _make_step(struct, case['seed'])
  s0 = _make_state(struct, case['seed'], case['n'], case['p'], case['q'])
  out = Outcome(nontrivial=n >= 2, labels=[f'steps={min(n, 4)}{"+" if n >= 4 else ""}', f'scan={case["scan"]}'],
                units=n)
  want = s0
  for _ in range(n):
    want = step(want)
  log = []
  if case['scan'] == 'pyloop':
    f = ti.repeated(step, n, _py_scan_factory(log))
  elif case['scan'] == 'nested' and n >= 2:
    f = ti.repeated(step, n, functools.partial(ti.nested_checkpoint_scan,
                                               nested_lengths=_nested_lengths_for(n, case['fact'])))
  else:
    f = ti.repeated(step, n)
  ok, got = _guard(out, 'repeated', lambda: f(s0))
  if not ok:
    return out
  bad = _cmp_trees(got, want, f'repeated(fn, {n})(x) != {n} sequential applications', out)
  if bad:
    return bad
  if case['scan'] == 'pyloop' and n != 1 and len(log) != n:
    return out.fail(what='scan function iterated a different number of times', got=len(log), want=n)
  return out


# ----------------------------------------------------------------------------
# step_with_filters


@st.composite
def _filters_strategy(draw):
  nf = draw(st.sampled_from([2, 0, 1, 3, 4, 2, 3]))
  return {'filters': [{'kind': draw(st.sampled_from(['scale', 'shift', 'mix_prev', 'square'])),
                       'c': draw(st.floats(-0.9, 0.9).map(lambda x: round(x, 3)))} for _ in range(nf)],
          'struct': draw(st.sampled_from(['dict', 'tuple', 'nested'])),
          'outer': draw(st.integers(1, 4)), 'inner': draw(st.integers(1, 3)),
          **_shape_keys(draw(st.sampled_from(_SHAPES))),
          'seed': draw(st.integers(0, 10**6))}


def _make_filter(spec, struct, idx, log):
  """Filters that do not commute with each other; 'mix_prev' uses the *input* state u of the step."""
  import jax.numpy as jnp
  c = spec['c']

  def flt(u, u_next):
    log.append(idx)
    a0, b0, _ = _unpack(struct, u)
    a, b, t = _unpack(struct, u_next)
    if spec['kind'] == 'scale':
      a, b = (1 + 0.5 * c) * a, (1 - 0.5 * c) * b
    elif spec['kind'] == 'shift':
      a, b = a + c, b - c
    elif spec['kind'] == 'mix_prev':
      a, b = (1 - 0.3) * a + 0.3 * c * a0, b + 0.3 * c * (b0 - b)
    else:
      a, b = a - 0.2 * c * jnp.tanh(a) ** 2, b * (1 - 0.2 * abs(c) * jnp.tanh(b) ** 2)
    return _pack(struct, a, b, t)
  return flt


def run_filters(case):
  import jax
  from dinosaur import time_integration as ti
  struct = case['struct']
  step = _make_step(struct, case['seed'])
  s0 = _make_state(struct, case['seed'], case['n'], case['p'], case['q'])
  specs = case['filters']
  kinds = [s['kind'] for s in specs]
  out = Outcome(nontrivial=len(specs) >= 2 and len(set((s['kind'], s['c']) for s in specs)) >= 2,
                labels=[f'n_filters={len(specs)}', 'uses_prev' if 'mix_prev' in kinds else 'no_prev'],
                units=1 + case['outer'] * case['inner'])
  log = []
  filters = [_make_filter(s, struct, i, log) for i, s in enumerate(specs)]
  log_ref = []
  ref_filters = [_make_filter(s, struct, i, log_ref) for i, s in enumerate(specs)]

  def ref_step(u):
    un = step(u)
    for f in ref_filters:      # sequential definition: in order, each sees the original u and the running u_next
      un = f(u, un)
    return un

  fstep = ti.step_with_filters(step, filters)
  ok, got = _guard(out, 'step_with_filters', lambda: fstep(s0))
  if not ok:
    return out
  if log != list(range(len(specs))):
    return out.fail(what='filters were not called once each in list order', call_order=log)
  bad = _cmp_trees(got, ref_step(s0), 'step_with_filters(step, filters)(u) != f_k(u, ... f_1(u, step(u)))', out)
  if bad:
    return bad
  # filters after *every* step of a trajectory
  outer, inner = case['outer'], case['inner']
  states = [s0]
  for _ in range(outer * inner):
    states.append(ref_step(states[-1]))
  ok, res = _guard(out, 'trajectory_from_step(step_with_filters)', lambda: ti.trajectory_from_step(fstep, outer, inner)(s0))
  if not ok:
    return out
  final, traj = res
  bad = _cmp_trees(final, states[-1], 'filtered trajectory final state != sequential loop of (step, filters...)', out)
  if bad:
    return bad
  for k in range(outer):
    frame = jax.tree_util.tree_map(lambda v: v[k], traj)   # pylint: disable=cell-var-from-loop
    bad = _cmp_trees(frame, states[(k + 1) * inner], f'filtered trajectory frame {k}', out)
    if bad:
      return bad
  return out


# ----------------------------------------------------------------------------
# nested_checkpoint_scan


def _nested_cases(tier):
  vs = _vseed()
  nmax = 12 if tier == 'quick' else 24
  cases = []
  i = 0
  for n in range(1, nmax + 1):
    for f in _factorisations(n):
      base = list(f) or [1]
      variants = [base]
      pos = (i + vs) % (len(base) + 1)
      with_one = list(base)
      with_one.insert(pos, 1)
      variants.append(with_one)
      if tier == 'thorough' and len(base) >= 1:
        variants.append([1] + base + [1])
      for j, ls in enumerate(variants):
        k = i + j + vs
        cases.append({'lengths': ls, 'seed': 1000 * vs + 13 * i + j, 'with_xs': k % 4 != 3, 'pass_length': k % 3,
                      'checkpoint': 'default' if k % 5 else 'identity', 'carry': ['dict', 'array', 'tuple'][k % 3],
                      'eager': k % 4 == 0})
      i += 1
  return cases


@st.composite
def _nested_strategy(draw):
  nf = draw(st.sampled_from([2, 3, 4, 1, 3]))
  ls = []
  prod = 1
  for _ in range(nf):
    f = draw(st.sampled_from([2, 3, 1, 2, 4, 5]))
    if prod * f > 24:
      f = 1
    prod *= f
    ls.append(f)
  return {'lengths': ls, 'seed': draw(st.integers(0, 10**6)), 'with_xs': draw(st.booleans()) or draw(st.booleans()),
          'pass_length': draw(st.integers(0, 2)), 'checkpoint': draw(st.sampled_from(['default', 'identity'])),
          'carry': draw(st.sampled_from(['dict', 'array', 'tuple'])), 'eager': draw(st.sampled_from([False, False, True]))}


def _make_scan_fn(seed, carry_kind, with_xs, xp):
  """f(carry, x) -> (carry, out) on pytrees, written against module `xp` (jax.numpy for the code under test,
  numpy for the sequential reference)."""
  c = _coefs(seed, 12)

  def unpackc(cr):
    if carry_kind == 'dict':
      return cr['p'], cr['k']
    if carry_kind == 'tuple':
      return cr
    return cr[:2], cr[2]

  def packc(p, k):
    if carry_kind == 'dict':
      return {'p': p, 'k': k}
    if carry_kind == 'tuple':
      return (p, k)
    return xp.concatenate([p, xp.reshape(k, (1,))])

  def f(cr, x):
    p, k = unpackc(cr)
    if with_xs:
      u, v = x['u'], x['v']
    else:
      u, v = 0.3, xp.asarray([0.1, -0.2])
    p2 = xp.tanh(c[0] * p * u + c[1] * v + c[2] * xp.roll(p, 1) + c[3] * xp.sin(k))
    k2 = 0.5 * k + c[4] * p.sum() + c[5] * u + 0.3
    outs = {'y': p2 * (1 + c[6] * u), 'z': k2 * v.sum() + c[7], 'w': xp.outer(v, p2) * c[8]}
    return packc(p2, k2), outs
  return f, packc


def run_nested(case):
  import jax
  import jax.numpy as jnp
  from dinosaur import time_integration as ti
  ls = [int(x) for x in case['lengths']]
  n = math.prod(ls)
  with_xs = bool(case['with_xs'])
  eager = bool(case.get('eager', False))
  rng = np.random.default_rng(int(case['seed']) + 31)
  f, packc = _make_scan_fn(case['seed'], case['carry'], with_xs, jnp)
  f_np, packc_np = _make_scan_fn(case['seed'], case['carry'], with_xs, np)
  p0, k0 = rng.standard_normal(2), rng.standard_normal()
  init_np = packc_np(p0, np.asarray(k0))
  init = jax.tree_util.tree_map(jnp.asarray, init_np)
  xs_np = {'u': rng.uniform(0.5, 1.5, n), 'v': rng.standard_normal((n, 2))} if with_xs else None
  xs = jax.tree_util.tree_map(jnp.asarray, xs_np)
  # random linear functional of (carry, stacked outputs): its gradient sees every output slot individually
  wy, wz, ww = rng.standard_normal((n, 2)), rng.standard_normal(n), rng.standard_normal((n, 2, 2))
  wc = jax.tree_util.tree_map(lambda v: rng.standard_normal(np.shape(v)), init_np)
  nfac = len([x for x in ls if x > 1])
  out = Outcome(nontrivial=(nfac >= 2), units=n,
                labels=[f'levels={len(ls)}', f'nontrivial_factors={nfac}', 'has_unit_factor' if 1 in ls else 'no_unit_factor',
                        'xs' if with_xs else 'xs=None', f'checkpoint={case["checkpoint"]}', f'carry={case["carry"]}',
                        'asymmetric' if ls != ls[::-1] else 'palindromic', 'also_unjitted' if eager else 'jitted_only'])
  kw = {}
  if case['checkpoint'] == 'identity':
    kw['checkpoint_fn'] = lambda fn: fn
  length = None
  if case['pass_length'] == 1 or not with_xs:
    length = n

  def nested(init_, xs_):
    return ti.nested_checkpoint_scan(f, init_, xs_, length, nested_lengths=ls, **kw)

  def flat(init_, xs_):
    return jax.lax.scan(f, init_, xs_, length=n)

  def loop_np(init_, xs_):          # the sequential definition, in numpy
    cr, ys = init_, []
    for i in range(n):
      x = None if xs_ is None else {'u': xs_['u'][i], 'v': xs_['v'][i]}
      cr, y = f_np(cr, x)
      ys.append(y)
    return cr, {k: np.stack([y[k] for y in ys]) for k in ('y', 'z', 'w')}

  def functional(cr, ys, lib):
    val = sum(lib.sum(a * b) for a, b in zip(jax.tree_util.tree_leaves(cr), jax.tree_util.tree_leaves(wc)))
    return val + lib.sum(ys['y'] * wy) + lib.sum(ys['z'] * wz) + lib.sum(ys['w'] * ww)

  def objective(fun):
    return lambda init_, xs_: functional(*fun(init_, xs_), jnp)

  argn = (0, 1) if with_xs else (0,)

  @jax.jit
  def both(init_, xs_):     # one compilation: values and gradients of the nested and of the flat scan
    return (nested(init_, xs_), jax.grad(objective(nested), argnums=argn)(init_, xs_),
            flat(init_, xs_), jax.grad(objective(flat), argnums=argn)(init_, xs_))

  ok, res = _guard(out, 'nested_checkpoint_scan', lambda: (both(init, xs), nested(init, xs) if eager else None))
  if not ok:
    return out
  (got, g_nested, got_flat, g_flat), got_eager = res
  want = loop_np(init_np, xs_np)
  bad = _cmp_trees(got[0], want[0], 'nested scan final carry != python loop', out)
  if bad:
    return bad
  bad = _cmp_trees(got[1], want[1], 'nested scan stacked outputs != python loop (order / shape)', out)
  if bad:
    return bad
  bad = _cmp_trees(got, got_flat, 'nested scan != flat lax.scan', out)
  if bad:
    return bad
  if eager:
    bad = _cmp_trees(got_eager, want, 'un-jitted nested scan != python loop', out)
    if bad:
      return bad
  bad = _cmp_trees(g_nested, g_flat, 'gradient through nested scan != gradient through flat lax.scan', out)
  if bad:
    return bad
  # independent gradient oracle: central finite difference of the numpy loop along a random direction
  d_init = jax.tree_util.tree_map(lambda v: rng.standard_normal(np.shape(v)), init_np)
  d_xs = jax.tree_util.tree_map(lambda v: rng.standard_normal(np.shape(v)), xs_np)

  def shifted(eps):
    i2 = jax.tree_util.tree_map(lambda a, b: a + eps * b, init_np, d_init)
    x2 = None if xs_np is None else jax.tree_util.tree_map(lambda a, b: a + eps * b, xs_np, d_xs)
    return float(functional(*loop_np(i2, x2), np))
  dirder = sum(float(np.sum(np.asarray(a) * b)) for a, b in zip(jax.tree_util.tree_leaves(g_nested[0]),
                                                               jax.tree_util.tree_leaves(d_init)))
  if with_xs:
    dirder += sum(float(np.sum(np.asarray(a) * b)) for a, b in zip(jax.tree_util.tree_leaves(g_nested[1]),
                                                                  jax.tree_util.tree_leaves(d_xs)))
  gscale = max(1.0, max(float(np.abs(np.asarray(a)).max()) for a in jax.tree_util.tree_leaves(g_nested)))
  fds = [(shifted(e) - shifted(-e)) / (2 * e) for e in (1e-6, 2e-6)]
  richardson = (4 * fds[0] - fds[1]) / 3          # removes the O(eps^2) truncation term
  if abs(richardson - dirder) > FD_RTOL * max(gscale, abs(dirder)) * math.sqrt(n + 3):
    return out.fail(what='gradient through nested scan disagrees with a finite difference of the python loop',
                    directional_derivative=dirder, finite_differences=fds, richardson=richardson, scale=gscale)
  # length argument: consistent accepted (above), inconsistent rejected
  if case['pass_length'] == 2:
    try:
      ti.nested_checkpoint_scan(f, init, xs, n + 1, nested_lengths=ls)
    except ValueError:
      pass
    else:
      return out.fail(what='length inconsistent with prod(nested_lengths) was accepted', length=n + 1, lengths=ls)
  return out


# ----------------------------------------------------------------------------
# accumulate_repeated


@st.composite
def _accumulate_strategy(draw):
  nw = draw(st.integers(0, 8))
  return {'weights': [draw(st.sampled_from([0.0, 1.0, -1.0, 0.5, 2.0, 0.125, -0.75, 3.0])) if draw(st.booleans())
                      else round(draw(st.floats(-2, 2)), 3) for _ in range(nw)],
          'struct': draw(st.sampled_from(['dict', 'tuple', 'nested'])),
          'scan': draw(st.sampled_from(['lax', 'lax', 'pyloop'])),
          **_shape_keys(draw(st.sampled_from(_SHAPES))),
          'seed': draw(st.integers(0, 10**6))}


def run_accumulate(case):
  import jax
  import jax.numpy as jnp
  from dinosaur import time_integration as ti
  struct = case['struct']
  w = [float(x) for x in case['weights']]
  step = _make_step(struct, case['seed'])
  s0 = _make_state(struct, case['seed'], case['n'], case['p'], case['q'], float_counter=True)
  out = Outcome(nontrivial=len(set(w)) >= 2 and len(w) >= 3,
                labels=[f'n_weights={min(len(w), 5)}{"+" if len(w) >= 5 else ""}', f'scan={case["scan"]}',
                        'has_negative' if any(x < 0 for x in w) else 'nonnegative'], units=len(w))
  acc = jax.tree_util.tree_map(jnp.zeros_like, s0)
  s = s0
  scale = 1.0
  for wi in w:
    s = step(s)                                    # f^i(x), i = 1..n
    acc = jax.tree_util.tree_map(lambda a, v: a + wi * v, acc, s)   # pylint: disable=cell-var-from-loop
  kw = {}
  log = []
  if case['scan'] == 'pyloop':
    def py_scan(f, init, xs):
      carry = init
      for i in range(xs.shape[0]):
        carry, _ = f(carry, xs[i])
        log.append(1)
      return carry, None
    kw['scan_fn'] = py_scan
  ok, got = _guard(out, 'accumulate_repeated', lambda: ti.accumulate_repeated(
      step, jnp.asarray(w, dtype=jnp.float64).reshape((len(w),)), s0, **kw))
  if not ok:
    return out
  del scale
  bad = _cmp_trees(got, acc, 'accumulate_repeated != sum_i w_i f^i(x)', out)
  if bad:
    return bad
  return out


# ----------------------------------------------------------------------------
# digital filter initialisation


_INTEGRATORS = ['backward_forward_euler', 'crank_nicolson_rk2', 'crank_nicolson_rk3', 'crank_nicolson_rk4',
                'imex_rk_sil3']


@st.composite
def _dfi_strategy(draw):
  return {'integrator': draw(st.sampled_from(_INTEGRATORS)), 'N': draw(st.sampled_from([2, 1, 3, 4, 5, 6, 8])),
          'dt': draw(st.sampled_from([0.01, 0.05, 0.1, 0.25, 0.3])),
          'cutoff_ratio': draw(st.sampled_from([0.5, 1.0, 1.0, 1.7, 3.0])),
          'omega': round(draw(st.floats(0.2, 6.0)), 3), 'split': draw(st.sampled_from(['both', 'implicit', 'explicit'])),
          'nonlinear': round(draw(st.sampled_from([0.0, 0.3])), 3), 'filter': draw(st.sampled_from(['none', 'damp', 'two'])),
          'dim': draw(st.sampled_from([2, 3, 4])), 'mode': draw(st.sampled_from(['oscillator', 'oscillator', 'steady'])),
          'seed': draw(st.integers(0, 10**6))}


def _dfi_problem(case):
  """du/dt = F(u) + G u around a fixed point u*: rotation (frequency omega) split between F and G."""
  import jax.numpy as jnp
  d = case['dim']
  rng = np.random.default_rng(int(case['seed']))
  om = case['omega']
  J = np.zeros((d, d))
  J[0, 1], J[1, 0] = -om, om
  if d >= 4:
    J[2, 3], J[3, 2] = -0.37 * om, 0.37 * om
  q, _ = np.linalg.qr(rng.standard_normal((d, d)))
  A = q @ J @ q.T                      # skew: pure oscillation, reversible
  frac = {'explicit': 0.0, 'implicit': 1.0, 'both': 0.6}[case['split']]
  Gm = jnp.asarray(frac * A)
  Fm = jnp.asarray((1 - frac) * A)
  ustar = jnp.asarray(rng.standard_normal(d))
  eps = case['nonlinear']
  Bq = jnp.asarray(rng.standard_normal((d, d, d)) * 0.2)

  def F(u):
    v = u - ustar
    return Fm @ v + eps * jnp.einsum('ijk,j,k->i', Bq, v, v) - Gm @ ustar

  def G(u):
    return Gm @ u

  def Ginv(u, s):
    return jnp.linalg.solve(jnp.eye(d) - s * Gm, u)

  def Ginv_rev(u, s):          # (1 - s * (-G))^-1
    return jnp.linalg.solve(jnp.eye(d) + s * Gm, u)

  return F, G, Ginv, Ginv_rev, ustar, rng


def run_dfi(case):
  import jax.numpy as jnp
  from dinosaur import time_integration as ti
  F, G, Ginv, Ginv_rev, ustar, rng = _dfi_problem(case)
  N, dt = int(case['N']), float(case['dt'])
  time_span = 2 * N * dt
  cutoff = case['cutoff_ratio'] * time_span
  mk = getattr(ti, case['integrator'])
  steady = case['mode'] == 'steady'
  x0 = ustar if steady else ustar + jnp.asarray(rng.standard_normal(case['dim']))
  # filters (fixed point u* preserved so that the steady-state claim applies)
  fspecs = {'none': [], 'damp': [0.97], 'two': [0.9, 1.05]}[case['filter']]
  mkfilt = lambda c: ti.runge_kutta_step_filter(lambda u: ustar + c * (u - ustar))
  filters = [mkfilt(c) for c in fspecs]
  out = Outcome(nontrivial=(N >= 2 and (steady or case['split'] != 'explicit' or case['nonlinear'] > 0)), units=2 * N,
                labels=[f'integrator={case["integrator"]}', f'mode={case["mode"]}', f'split={case["split"]}',
                        f'filter={case["filter"]}', 'N=1' if N == 1 else 'N>1',
                        'nonlinear' if case['nonlinear'] else 'linear'])
  eq = ti.ImplicitExplicitODE.from_functions(F, G, Ginv)
  ok, got = _guard(out, 'digital_filter_initialization', lambda: ti.digital_filter_initialization(
      eq, mk, filters, time_span, cutoff, dt)(x0))
  if not ok:
    return out
  # defining sum (Lynch & Huang 1992): x* = sum_{n=-N..N} h_n x_n / sum h_n with the Lanczos-windowed low-pass
  # h_n = [sin(n pi/(N+1)) / (n pi/(N+1))] * [sin(n theta_c)/(n theta_c)] (h_0 = 1), theta_c = 2 pi dt / cutoff
  theta_c = 2 * math.pi * dt / cutoff
  h = [1.0]
  for n in range(1, N + 1):
    a = n * math.pi / (N + 1)
    b = n * theta_c
    h.append((math.sin(a) / a) * (math.sin(b) / b))
  total = h[0] + 2 * sum(h[1:])
  # forward and backward trajectories with independently constructed time-reversed equation
  eq_rev = ti.ImplicitExplicitODE.from_functions(lambda u: -F(u), lambda u: -G(u), Ginv_rev)
  fstep, bstep = mk(eq, dt), mk(eq_rev, dt)

  def filt(u, un):
    for c in fspecs:
      un = ustar + c * (un - ustar)
    return un

  acc = h[0] * x0
  xf = xb = x0
  for n in range(1, N + 1):
    xf = filt(xf, fstep(xf))
    xb = filt(xb, bstep(xb))
    acc = acc + h[n] * (xf + xb)
  want = acc / total
  scale = max(1.0, float(jnp.max(jnp.abs(want))), float(jnp.max(jnp.abs(x0))))
  e = core.relerr(got, want, scale)
  if not e <= 1e-9:
    return out.fail(what='digital_filter_initialization != normalised Lanczos-weighted sum of forward and '
                    'time-reversed trajectories', relerr=e, got=np.asarray(got).tolist(), want=np.asarray(want).tolist(),
                    weights=h, total=total)
  if steady:
    e = core.relerr(got, x0, scale)
    if not e <= 1e-9:
      return out.fail(what='DFI changed a steady state', relerr=e, got=np.asarray(got).tolist(),
                      x0=np.asarray(x0).tolist())
  # history: a second, newly built DFI with the same parameters in the same process (and the first one called
  # again) must give the same result -- nothing may be left behind by an earlier evaluation
  dfi2 = ti.digital_filter_initialization(eq, mk, filters, time_span, cutoff, dt)
  for which, thunk in (('newly built, same parameters', lambda: dfi2(x0)), ('called a second time', lambda: dfi2(x0))):
    ok, again = _guard(out, 'digital_filter_initialization (' + which + ')', thunk)
    if not ok:
      return out
    e = core.relerr(again, want, scale)
    if not e <= 1e-9:
      return out.fail(what='digital_filter_initialization ' + which + ' in one process differs from the defining sum '
                      '(the first evaluation was right)', relerr=e, got=np.asarray(again).tolist(),
                      want=np.asarray(want).tolist())
  out.units += 2
  # TimeReversedImExODE itself: terms negated, inverse of (1 + s G)
  rev = ti.TimeReversedImExODE(eq)
  s = float(dt * 0.7)
  for name, g, w in [('explicit_terms', rev.explicit_terms(x0), -F(x0)), ('implicit_terms', rev.implicit_terms(x0), -G(x0)),
                     ('implicit_inverse', rev.implicit_inverse(x0, s), Ginv_rev(x0, s))]:
    e = core.relerr(g, w, max(1.0, float(jnp.max(jnp.abs(w)))))
    if not e <= 1e-11:
      return out.fail(what=f'TimeReversedImExODE.{name} is not the {name} of the reversed equation', relerr=e)
  return out


# ----------------------------------------------------------------------------

SUBCHECKS = [
    Subcheck('trajectory_splits_exhaustive', run_trajectory, cases=_traj_cases,
             shards={'quick': 2, 'thorough': 6}, wall={'quick': 300.0, 'thorough': 2400.0}, weight=3,
             rule='non-trivial = outer >= 2 and inner >= 2 (frame selection and inner repeat both matter)',
             doc='all (outer 0..6, inner 1..6, start_with_input) splits: frames, final state, scan iteration counts'),
    Subcheck('trajectory_random', run_trajectory, strategy=lambda tier: _traj_strategy(),
             examples={'quick': 80, 'thorough': 1500}, shards={'quick': 2, 'thorough': 8},
             wall={'quick': 300.0, 'thorough': 2400.0}, weight=3,
             rule='non-trivial = outer >= 2 and inner >= 2',
             doc='Hypothesis-drawn step functions, pytree structures, post-processing, custom scan functions'),
    Subcheck('repeated_n', run_repeated, strategy=lambda tier: _repeated_strategy(),
             examples={'quick': 50, 'thorough': 800}, shards={'quick': 1, 'thorough': 4},
             wall={'quick': 300.0, 'thorough': 2400.0},
             rule='non-trivial = steps >= 2', doc='repeated(fn, n)(x) == n sequential applications (n = 0..9)'),
    Subcheck('filters_in_order', run_filters, strategy=lambda tier: _filters_strategy(),
             examples={'quick': 50, 'thorough': 800}, shards={'quick': 2, 'thorough': 4},
             wall={'quick': 300.0, 'thorough': 2400.0},
             rule='non-trivial = at least two different (non-commuting) filters',
             doc='step_with_filters applies filters once each, in order, with (u, running u_next), after every step'),
    Subcheck('nested_scan_factorisations', run_nested, cases=_nested_cases,
             shards={'quick': 3, 'thorough': 8}, wall={'quick': 300.0, 'thorough': 2400.0}, weight=5,
             rule='non-trivial = at least two factors > 1 (a genuine reshape + concatenation)',
             doc='every ordered factorisation of every length: carry, stacked outputs, gradients vs loop and flat scan'),
    Subcheck('nested_scan_random', run_nested, strategy=lambda tier: _nested_strategy(),
             examples={'quick': 12, 'thorough': 400}, shards={'quick': 2, 'thorough': 8},
             wall={'quick': 300.0, 'thorough': 2400.0}, weight=4,
             rule='non-trivial = at least two factors > 1',
             doc='Hypothesis-drawn nested_lengths (incl. several unit factors), scan bodies, carries'),
    Subcheck('accumulate_weighted', run_accumulate, strategy=lambda tier: _accumulate_strategy(),
             examples={'quick': 60, 'thorough': 1000}, shards={'quick': 1, 'thorough': 4},
             wall={'quick': 300.0, 'thorough': 2400.0},
             rule='non-trivial = >= 3 weights, not all equal', doc='accumulate_repeated == sum_i w_i f^i(x)'),
    Subcheck('dfi_defining_sum', run_dfi, strategy=lambda tier: _dfi_strategy(),
             examples={'quick': 40, 'thorough': 600}, shards={'quick': 2, 'thorough': 6},
             wall={'quick': 300.0, 'thorough': 2400.0}, weight=2,
             rule='non-trivial = N >= 2 and (steady state, or implicit part / nonlinearity present)',
             doc='DFI == normalised Lanczos sum over forward and independently built time-reversed runs; steady state fixed'),
]
