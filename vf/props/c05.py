"""C05 Tendencies match the continuous equations; analytically balanced states are exactly steady.

O1 (balanced families, zero tendency): (i) resting isothermal atmosphere in hydrostatic balance over band-limited
orography with any reference profile, (ii) solid-body rotation in gradient-wind balance with arbitrary per-layer
temperatures / humidity and the balancing orography, (iii) zonal geostrophic jets of the layered shallow-water
system: `shallow_water_states.one_layer/multi_layer` under the default scale and a self-built analytic family for
arbitrary rotation rate, radius, densities, zonal orography.
O2 (differential): `explicit_terms + implicit_terms` of low-degree (alias-free) random states equals a weak-form
evaluation of the continuous equations (vf/oracles/weakform_sw.py, weakform_pe.py: scipy spherical harmonics with
analytic gradients on an independent fine Gauss grid, vertical finite differences re-implemented as plain loops).
"""
from __future__ import annotations

import functools
import json

from hypothesis import strategies as st
import numpy as np

from vf import core, gens
from vf.core import Outcome, Subcheck

RTOL = 1e-8                      # whole tendencies (DESIGN.md section 2); measured rounding <= 1e-12
RTOL_STATE = 1e-9                # transform-level algebra (coefficients of a constructed state)
SQRT_4PI = float(np.sqrt(4.0 * np.pi))
Q = 'specific_humidity'
CLOUD = ('specific_cloud_liquid_water_content', 'specific_cloud_ice_water_content')
PASSIVE = 'tracer_a'
NQ = 4                           # powers of the humidity perturbation resolved by the grids (moist adiabatic term)
XMAX = 4e-3                      # bound on |(cp_v/cp - 1) q'| / (1 + (cp_v/cp - 1) q0): XMAX**(NQ+1) = 1e-12

RULE = ('Hypothesis draws a configuration (alias-free grid: both transform implementations, Gauss / equiangular '
        'nodes, radius, padded layout; sigma levels or layer count; physical constants; reference profile or '
        'densities / mean potentials; equation class; orography) and a list of states. O1: members of analytically '
        'balanced families (rest over orography, solid-body rotation, zonal shallow-water jets from the repository '
        'constructors and from closed-form polynomials); oracle = zero tendency, scale = largest individual term of '
        'the independent weak-form reference (which must itself vanish there). O2: low-degree random states '
        '(sparse entries + seeded noise, band limit s <= L-3); oracle = weak-form evaluation of the continuous '
        'equations with scipy spherical harmonics on a fine Gauss grid and loop implementations of the vertical '
        'finite differences; all coefficients l <= L-2 of every leaf compared with rtol 1e-8 of the scale of that '
        'leaf = max(largest individual term of the reference (Coriolis, pressure gradient, kinetic energy, '
        'geopotential, advection ...; vorticity and divergence share theirs), field amplitude x flow rate, '
        '1e-5 x operator norm x input norm). distinct = hash of the JSON case; non-trivial rules are per sub-check')
ASSUMPTIONS = [
    'alias-free inputs: every field is band-limited to s <= L-3 and the grid integrates products of k fields '
    'exactly (latitude exactness D >= k*s + L + 2, longitude nodes > k*min(s, M-1) + M; k = 2 shallow water and '
    'rest, 3 dry primitive equations, 4 + 4 moist); the fine reference grid is sized by the same rule with margin',
    'no node at a pole: equiangular_with_poles is invalid for vector operations / dynamics (sec2_lat = inf)',
    'the moist adiabatic term kappa*T_v/(1 + (cp_v/cp - 1) q) * omega/p is rational in q: the non-uniform part of '
    'the humidity is scaled so that |(cp_v/cp - 1) q\'| <= 4e-3 (1 + (cp_v/cp - 1) q0); its Taylor tail beyond the '
    '4 resolved powers is then <= 1e-12 on both grids (the level-wise uniform part q0 is unrestricted)',
    'MoistPrimitiveEquationsWithCloudMoisture is compared with zero cloud content only (non-zero cloud content has '
    'no consistent continuous counterpart: known finding C04-cloud-loading-tref); in the solid-body family lnps is '
    'uniform so the cloud term vanishes and non-zero cloud content is used',
    'shallow_water_states.one_layer/multi_layer hard-code 2*Omega = 1 and radius 1: used with the default scale only; '
    'zonal wind u = cos(lat) * polynomial(sin lat) so that u / cos(lat) is band-limited',
    'balanced multi-layer jets need strictly increasing densities (with equal densities the layers are '
    'indistinguishable, the balance system is singular and multi_layer returns NaN); the differential sub-check also '
    'uses equal densities',
    'the physical density matrix (lighter layers above weigh rho_j/rho_i, layers below lift the interface) is used, '
    'not the transposed one stated in the get_density_ratios docstring',
    'get_geopotential goes through _CONSTANT_NORMALIZATION_FACTOR = sqrt(4 pi) to 8 digits: its T_ref part is '
    'compared with rtol 1e-7',
    'include_vertical_advection / vertical_advection keep their defaults (the documented centred differences)',
]
MANIFEST = {
    'text': 'For generated grids, sigma levels / layers, physical constants, reference profiles, densities and '
            'orographies, the total tendency of PrimitiveEquations(+WithTime), MoistPrimitiveEquations(+cloud class '
            'with zero cloud) and ShallowWaterEquations on alias-free states equals an independent weak-form '
            'evaluation of the continuous sigma-coordinate / layered equations in every coefficient l <= L-2 to 1e-8 '
            'of the largest individual term (measured 1e-13), and vanishes on the analytically balanced families '
            '(rest over orography, solid-body rotation, zonal shallow-water jets incl. the repository constructors).',
    'note': 'Trusted: scipy.special.assoc_legendre_p, numpy, the hand-written equations of DESIGN.md Appendix A in '
            'vf/oracles/weakform_*.py and sigma_ref_c05.py (cross-checked against the closed-form balanced families). '
            'Nothing is claimed about truncation error on aliased inputs.',
    'technique': 'differential testing against a weak-form reference model + analytic steady states over '
                 'Hypothesis-generated configurations',
}

# ----------------------------------------------------------------------------
# generators


def _lat_degree(order, s, L):
  return order * s + L + 2


@st.composite
def _grid_cfg(draw, order, s_mode, s_max=3, max_m=8, min_l=4, impls=('real', 'real', 'fast'),
              radii=(1.0, None, 0.5, 2.7, 37.0), pad=True, extra_order=0):
  """(grid cfg, s): a grid on which products of `order` fields band-limited to s are alias-free."""
  M = draw(st.integers(2, max_m))
  L = max(M + draw(st.sampled_from([1, 0, 1, 2])), min_l)
  if s_mode == 'draw':
    lim = max(1, min(s_max, L - 3))
    s = draw(st.sampled_from([v for v in [1, 2, 3, 2, 3, 4, 5, 6] if v <= lim]))
  elif s_mode == 'full':
    s = L - 2
  else:
    s = int(s_mode)
  spacing = draw(st.sampled_from(['gauss', 'gauss', 'equiangular']))
  k = order + extra_order
  nlat = gens.min_lat_nodes(spacing, _lat_degree(k, s, L)) + draw(st.integers(0, 3))
  nlon = k * min(s, M - 1) + M + 1 + draw(st.integers(0, 3))
  impl = draw(st.sampled_from(list(impls)))
  cfg = {'M': M, 'L': L, 'nlon': nlon, 'nlat': nlat, 'spacing': spacing, 'impl': impl,
         'offset': draw(st.sampled_from([0.0, 0.0, 0.3])), 'radius': draw(st.sampled_from(list(radii)))}
  if impl == 'fast':
    cfg['bsm'] = draw(st.sampled_from([None, 2])) if pad else None
  return cfg, s


_UNIT = {'omega': [0.37, 0.5, 1.3, 0.0], 'g': [1.9, 0.5, 4.0], 'R': [0.8, 1.0, 2.0], 'eps': [1.6, 0.7, 1.0],
         'kappa': [0.29, 0.15, 0.4], 'cp_ratio': [1.85, 0.8, 1.3, 1.0]}
# per-coefficient magnitudes of the state fields for the two kinds of constants
_MAG = {'unit': {'vorticity': 0.3, 'divergence': 0.2, 'temperature_variation': 0.4, 'log_surface_pressure': 0.1,
                 'orography': 0.2, 'tracer': 0.3, 'humidity': 0.05, 'q0': [0.0, 0.05, 0.1, 0.3], 'tscale': 1.0},
        'earth': {'vorticity': 0.05, 'divergence': 0.02, 'temperature_variation': 10.0, 'log_surface_pressure': 0.05,
                  'orography': 2e-4, 'tracer': 0.01, 'humidity': 3e-3, 'q0': [0.0, 0.005, 0.02], 'tscale': 100.0}}


@st.composite
def _specs(draw):
  if draw(st.sampled_from(['unit', 'unit', 'unit', 'earth'])) == 'earth':
    return {'kind': 'earth'}
  return dict({'kind': 'unit'}, **{k: draw(st.sampled_from(v)) for k, v in _UNIT.items()})


@st.composite
def _t_ref(draw, n, tscale):
  kind = draw(st.sampled_from(['constant', 'linear', 'random', 'random']))
  v = lambda: float(draw(st.integers(150, 320))) / 100.0 * tscale   # noqa: E731
  if kind == 'constant' or n == 1:
    return [v()] * n
  if kind == 'linear':
    a, b = v(), v()
    return [float(x) for x in np.round(np.linspace(a, b, n), 6)]
  return [v() for _ in range(n)]


_PE_FIELDS = ('vorticity', 'divergence', 'temperature_variation', 'log_surface_pressure', 'humidity', 'tracer')


@st.composite
def _pe_o2_case(draw, tier, family):
  quick = tier == 'quick'
  order = 3 if family == 'dry' else 4
  g, s = draw(_grid_cfg(order=order, s_mode='draw', s_max=3 if quick else 5, max_m=8 if quick else 21,
                        extra_order=0 if family == 'dry' else NQ))
  b = draw(gens.sigma_boundaries(draw(st.sampled_from([2, 2, 2, 1])), 4 if quick else 8))
  n = len(b) - 1
  specs = draw(_specs())
  if specs['kind'] == 'earth':
    g['radius'] = None
  mag = _MAG[specs['kind']]
  cls = draw(st.sampled_from(['dry', 'dry', 'dry_time'] if family == 'dry' else ['moist', 'moist', 'cloud']))
  states = []
  for _ in range(draw(st.integers(2, 4 if quick else 6))):
    sd = {'d': draw(gens.input_descr(_PE_FIELDS, n, g['M'], g['L'], s)),
          'amp': draw(st.sampled_from([1.0, 1.0, 0.3, 3.0]))}
    if family == 'moist':
      sd['q0'] = [draw(st.sampled_from(mag['q0'])) for _ in range(n)]
    states.append(sd)
  return {'grid': g, 's': s, 'boundaries': b, 'specs': specs, 't_ref': draw(_t_ref(n, mag['tscale'])),
          'cls': cls, 'vmm': draw(st.sampled_from([None, None, 'dense', 'sparse'])),
          'passive': draw(st.booleans()), 'sim_time': draw(st.sampled_from([0.0, 3.5])),
          'oro': draw(gens.input_descr(('orography',), 1, g['M'], g['L'], s)), 'states': states}


@st.composite
def _pe_rest_case(draw, tier):
  quick = tier == 'quick'
  g, s = draw(_grid_cfg(order=2, s_mode='full', max_m=8 if quick else 21))
  b = draw(gens.sigma_boundaries(1, 4 if quick else 8))
  n = len(b) - 1
  specs = draw(_specs())
  if specs['kind'] == 'earth':
    g['radius'] = None
  mag = _MAG[specs['kind']]
  cls = draw(st.sampled_from(['dry', 'dry_time', 'moist', 'cloud']))
  members = []
  for _ in range(draw(st.integers(1, 3 if quick else 6))):
    m = {'kind': draw(st.sampled_from(['orography', 'repo_flat', 'repo_flat'] if specs['kind'] == 'earth' else
                                      ['orography'])),
         't0': float(draw(st.integers(150, 320))) / 100.0 * mag['tscale'],
         'c': draw(st.sampled_from([0.0, 2.0, -1.0, 11.5])),
         'q0': draw(st.sampled_from(mag['q0'])),
         'oro': draw(gens.input_descr(('orography',), 1, g['M'], g['L'], s)),
         'oro_amp': draw(st.sampled_from([1.0, 0.1, 5.0]))}
    members.append(m)
  return {'grid': g, 's': s, 'boundaries': b, 'specs': specs, 't_ref': draw(_t_ref(n, mag['tscale'])), 'cls': cls,
          'vmm': draw(st.sampled_from([None, 'dense', 'sparse'])), 'members': members}


@st.composite
def _pe_solid_case(draw, tier):
  quick = tier == 'quick'
  g, s = draw(_grid_cfg(order=3, s_mode=2, max_m=8 if quick else 21, min_l=5))
  b = draw(gens.sigma_boundaries(1, 4 if quick else 8))
  n = len(b) - 1
  specs = draw(_specs())
  if specs['kind'] == 'earth':
    g['radius'] = None
  mag = _MAG[specs['kind']]
  cls = draw(st.sampled_from(['dry', 'dry_time', 'moist', 'cloud']))
  members = []
  for _ in range(draw(st.integers(1, 3 if quick else 6))):
    members.append({
        'omega_s': draw(st.sampled_from([0.11, -0.07, 0.5, 0.02, -0.9])),
        'temps': [float(draw(st.integers(150, 320))) / 100.0 * mag['tscale'] for _ in range(n)],
        'q': [draw(st.sampled_from(mag['q0'])) for _ in range(n)],
        'cloud': [draw(st.sampled_from([0.0, 0.002, 0.01])) for _ in range(n)],
        'c': draw(st.sampled_from([0.0, 1.3, -2.0, 11.5]))})
  return {'grid': g, 's': s, 'boundaries': b, 'specs': specs, 't_ref': draw(_t_ref(n, mag['tscale'])), 'cls': cls,
          'vmm': draw(st.sampled_from([None, 'dense', 'sparse'])), 'members': members}


_POLY_COEF = [0.0, 0.3, -0.2, 0.1, 0.5, -0.4]


@st.composite
def _poly(draw, d):
  c = [draw(st.sampled_from(_POLY_COEF)) for _ in range(d + 1)]
  return c


@st.composite
def _densities(draw, n, strict=False):
  kind = draw(st.sampled_from(['increasing', 'increasing', 'equal']))
  if kind == 'equal' and not strict:
    return [1.0] * n
  r = [draw(st.sampled_from([1.05, 1.3, 2.0])) for _ in range(n - 1)]
  d = [draw(st.sampled_from([1.0, 0.8, 1000.0]))]
  for x in r:
    d.append(round(d[-1] * x, 9))
  return d


@st.composite
def _sw_jet_case(draw, tier, repo):
  quick = tier == 'quick'
  d = draw(st.sampled_from([0, 1, 1, 2, 2] if quick else [0, 1, 1, 2, 2, 3]))
  s = 2 * d + 2
  radii = (None, 1.0) if repo else (1.0, 0.5, 2.7, 37.0)
  g, _ = draw(_grid_cfg(order=2, s_mode=s, max_m=6 if quick else 12, min_l=s + 3, pad=not repo, radii=radii))
  fn = draw(st.sampled_from(['multi_layer', 'multi_layer', 'one_layer'])) if repo else None
  n = 1 if fn == 'one_layer' else draw(st.integers(1, 4 if quick else 6))
  case = {'grid': g, 'd': d, 'layers': n, 'densities': draw(_densities(n, strict=True)),
          'ref_potential': [draw(st.sampled_from([1.3, 0.5, 2.1, 10.0])) for _ in range(n)]}
  if repo:
    case['fn'] = fn
  else:
    case['omega'] = draw(st.sampled_from([0.37, 0.5, 1.3, 0.0, -0.6]))
    case['oro_poly'] = draw(st.one_of(st.none(), _poly(s)))
  members = []
  for _ in range(draw(st.integers(1, 3 if quick else 6))):
    m = {'polys': [draw(_poly(d)) for _ in range(n)]}
    if not repo:
      m['means'] = [draw(st.sampled_from([0.0, 1.0, 5.0])) for _ in range(n)]
    members.append(m)
  case['members'] = members
  return case


_SW_FIELDS = ('vorticity', 'divergence', 'potential')


@st.composite
def _sw_o2_case(draw, tier):
  quick = tier == 'quick'
  g, s = draw(_grid_cfg(order=2, s_mode='draw', s_max=3 if quick else 6, max_m=8 if quick else 21))
  n = draw(st.integers(1, 4 if quick else 6))
  states = [{'d': draw(gens.input_descr(_SW_FIELDS, n, g['M'], g['L'], s)),
             'amp': draw(st.sampled_from([1.0, 1.0, 0.3, 3.0]))} for _ in range(draw(st.integers(2, 4 if quick else 6)))]
  return {'grid': g, 's': s, 'layers': n, 'densities': draw(_densities(n)),
          'ref_potential': [draw(st.sampled_from([1.3, 0.5, 2.1, 10.0])) for _ in range(n)],
          'omega': draw(st.sampled_from([0.37, 0.5, 1.3, 0.0, -0.6])),
          'oro': draw(st.one_of(st.none(), gens.input_descr(('orography',), 1, g['M'], g['L'], s))),
          'states': states}


# ----------------------------------------------------------------------------
# shared machinery


@functools.lru_cache(maxsize=4)
def _horizontal(grid_json, order, s):
  """(grid, layout rows, projector) for a grid configuration (cached: scipy basis + dinosaur grid constants)."""
  from vf.oracles import sh_oracle, weakform_common as wc
  cfg = json.loads(grid_json)
  grid = gens.build_grid(cfg)
  rows = sh_oracle.layout_rows(grid)
  nlat, nlon = wc.fine_sizes(cfg['M'], cfg['L'], order, s)
  P = wc.projector(cfg['M'], cfg['L'], nlat, nlon, float(grid.radius))
  return grid, rows, P


def _sel(P, L):
  return P.l_of <= L - 2


def _compare(P, L, got, want, terms, floors, rtol=RTOL):
  """Worst leaf of |got - want| / scale over coefficients l <= L-2; scale = largest individual term (>= floor).

  Vorticity and divergence share one scale (they are curl and divergence of the same momentum fluxes: a flux whose
  curl vanishes identically, e.g. R T grad(lnps) for uniform T, still sets the rounding level of both)."""
  sel = _sel(P, L)
  scales = {}
  for leaf in want:
    scales[leaf] = max([float(np.abs(t[..., sel]).max()) for t in terms[leaf].values()] + [float(floors[leaf])])
  scales['vorticity'] = scales['divergence'] = max(scales['vorticity'], scales['divergence'])
  worst = None
  for leaf, w in want.items():
    g = np.asarray(got[leaf], dtype=np.float64)
    w = np.asarray(w, dtype=np.float64)
    scale = scales[leaf]
    err = core.relerr(g[..., sel], w[..., sel], scale)
    if worst is None or err > worst['relerr']:
      d = np.abs(g - w) * sel
      d = np.where(np.isnan(d), np.inf, d)
      idx = np.unravel_index(int(np.argmax(d)), d.shape)
      m, l = P.keys[idx[-1]]
      worst = {'leaf': leaf, 'relerr': err, 'level': int(idx[0]) if len(idx) > 1 else 0, 'm': int(m), 'l': int(l),
               'got': float(g[idx]), 'want': float(w[idx]), 'scale': scale, 'rtol': rtol,
               'terms_at_index': {k: float(np.asarray(t)[idx]) for k, t in terms[leaf].items()}}
  return worst, scales


def _total_fn(build_eq):
  """`(orography, state) -> explicit_terms + implicit_terms` as numpy leaves.

  Jitted as a whole: one XLA compilation per configuration is about twice as cheap as compiling the few hundred
  small kernels of an op-by-op evaluation, and further states of the same configuration cost milliseconds."""
  import jax

  @jax.jit
  def f(oro, state):
    eq = build_eq(oro)
    e = eq.explicit_terms(state)
    i = eq.implicit_terms(state)
    return jax.tree_util.tree_map(lambda x, y: x + y, e, i)

  def call(oro, state):
    return jax.tree_util.tree_map(lambda x: np.asarray(x, dtype=np.float64), f(oro, state))
  return call


# ----------------------------------------------------------------------------
# primitive equations


def _pe_numbers(case, grid):
  """(specs object for the code, plain numbers for the reference)."""
  from dinosaur import primitive_equations as pe, scales
  sp = case['specs']
  if sp['kind'] == 'earth':
    specs = pe.PrimitiveEquationsSpecs.from_si()
    R, kappa = float(specs.ideal_gas_constant), float(specs.kappa)
    num = {'omega': float(specs.angular_velocity), 'g': float(specs.gravity_acceleration), 'R': R,
           'R_vapor': float(specs.water_vapor_gas_constant), 'kappa': kappa,
           'cp_ratio': float(specs.water_vapor_isobaric_heat_capacity) / (R / kappa)}
    return specs, num
  R, kappa = float(sp['R']), float(sp['kappa'])
  num = {'omega': float(sp['omega']), 'g': float(sp['g']), 'R': R, 'R_vapor': float(sp['eps']) * R, 'kappa': kappa,
         'cp_ratio': float(sp['cp_ratio'])}
  specs = pe.PrimitiveEquationsSpecs(float(grid.radius), num['omega'], num['g'], R, num['R_vapor'],
                                     num['cp_ratio'] * R / kappa, kappa, scales.DEFAULT_SCALE)
  return specs, num


def _pe_class(name):
  from dinosaur import primitive_equations as pe
  return {'dry': pe.PrimitiveEquations, 'dry_time': pe.PrimitiveEquationsWithTime,
          'moist': pe.MoistPrimitiveEquations, 'cloud': pe.MoistPrimitiveEquationsWithCloudMoisture}[name]


def _pe_state(cls, grid, rows, P, vecs, tracers, sim_time=0.0):
  """dinosaur state from reference-ordered coefficient vectors."""
  from dinosaur import primitive_equations as pe
  ms = grid.modal_shape
  f = lambda v: P.from_vec(rows, v, ms)   # noqa: E731
  kw = dict(vorticity=f(vecs['vorticity']), divergence=f(vecs['divergence']),
            temperature_variation=f(vecs['temperature_variation']),
            log_surface_pressure=f(vecs['log_surface_pressure'])[None],
            tracers={k: f(v) for k, v in tracers.items()})
  if cls == 'dry':
    return pe.State(**kw)
  return pe.StateWithTime(sim_time=sim_time, **kw)


def _pe_got(P, rows, tot):
  got = {'vorticity': P.to_vec(rows, tot.vorticity), 'divergence': P.to_vec(rows, tot.divergence),
         'temperature_variation': P.to_vec(rows, tot.temperature_variation),
         'log_surface_pressure': P.to_vec(rows, tot.log_surface_pressure)}
  for k, v in tot.tracers.items():
    got['tracers/' + k] = P.to_vec(rows, v)
  return got


def _pe_labels(case):
  tr = case['t_ref']
  labs = gens.grid_labels(case['grid']) + gens.sigma_labels(case['boundaries'])
  labs += [f"class={case['cls']}", f"constants={case['specs']['kind']}", f"vertical_matmul={case.get('vmm')}",
           'T_ref=constant' if len(set(tr)) == 1 else 'T_ref=varying', f"band_limit={case['s']}"]
  if case['specs'].get('omega') == 0.0:
    labs.append('omega=0')
  return labs


def _const_vec(P, value):
  v = np.zeros(P.nk)
  v[P.keys.index((0, 0))] = SQRT_4PI * float(value)
  return v


def _pe_setup(case, order):
  from dinosaur import coordinate_systems as cs
  grid, rows, P = _horizontal(core.canon(case['grid']), order, case['s'])
  vert = gens.build_sigma(case['boundaries'])
  coords = cs.CoordinateSystem(grid, vert)
  specs, num = _pe_numbers(case, grid)
  return grid, rows, P, coords, specs, num


def _descr_vec(P, grid, rows, descr, field, n, s, amp, zero_mean=False):
  """Coefficient vectors [n, nk] (or [nk] for n = None) of a generated band-limited field."""
  x = gens.modal_field(grid, () if n is None else (n,), descr, field, lmax=s, zero_mean=zero_mean, amp=amp)
  return P.to_vec(rows, x)


def _humidity_bound(P, vec):
  """Upper bound of max|q'| from its coefficients: |Y_lm| <= sqrt((2l+1)/(2 pi))."""
  return float((np.abs(vec) * np.sqrt((2 * P.l_of + 1) / (2 * np.pi))).sum(axis=-1).max())


def run_pe_weakform(case, family):
  import jax.numpy as jnp
  from dinosaur import primitive_equations as pe
  from vf.oracles import weakform_pe as wpe
  order = 3 if family == 'dry' else 4 + NQ
  grid, rows, P, coords, specs, num = _pe_setup(case, order)
  L, n, s = grid.total_wavenumbers, coords.vertical.layers, case['s']
  mag = _MAG[case['specs']['kind']]
  cls = case['cls']
  moist = cls in ('moist', 'cloud')
  oro = _descr_vec(P, grid, rows, case['oro'], 'orography', None, s, mag['orography'])
  t_ref_arr = np.asarray(case['t_ref'], dtype=np.float64)
  total = _total_fn(lambda o: _pe_class(cls)(t_ref_arr, o, coords, specs, vertical_matmul_method=case.get('vmm')))
  oro_modal = P.from_vec(rows, oro, grid.modal_shape)
  prm = dict(num, boundaries=case['boundaries'], t_ref=case['t_ref'], orography=oro, moist=moist, humidity=Q)
  out = Outcome(units=len(case['states']), labels=_pe_labels(case), nontrivial=False)
  if cls == 'cloud':
    out.excluded_known = len(case['states'])     # non-zero cloud content excluded by construction
  labs = set()
  for k, sd in enumerate(case['states']):
    d, amp = sd['d'], float(sd['amp'])
    vecs = {f: _descr_vec(P, grid, rows, d, f, n, s, amp * mag[f], zero_mean=f in ('vorticity', 'divergence'))
            for f in ('vorticity', 'divergence', 'temperature_variation')}
    vecs['log_surface_pressure'] = _descr_vec(P, grid, rows, d, 'log_surface_pressure', None, s,
                                              amp * mag['log_surface_pressure'])
    tracers = {}
    q_nonuniform = False
    if moist:
      qp = _descr_vec(P, grid, rows, d, 'humidity', n, s, mag['humidity'], zero_mean=True)
      q = np.zeros_like(qp)
      c1 = num['cp_ratio'] - 1.0
      for lev in range(n):
        q0 = float(sd['q0'][lev])
        bound = abs(c1) * _humidity_bound(P, qp[lev]) / (1.0 + c1 * q0)
        fac = 1.0 if bound <= XMAX else XMAX / bound
        q[lev] = qp[lev] * fac + _const_vec(P, q0)
      q_nonuniform = bool(np.abs(qp).max() > 0)
      tracers[Q] = q
      if cls == 'cloud':
        for name in CLOUD:
          tracers[name] = np.zeros_like(q)
    if case.get('passive'):
      tracers[PASSIVE] = _descr_vec(P, grid, rows, d, 'tracer', n, s, amp * mag['tracer'])
    state = _pe_state(cls, grid, rows, P, vecs, tracers, sim_time=float(case.get('sim_time', 0.0)))
    tot = total(oro_modal, state)
    got = _pe_got(P, rows, tot)
    want, terms, floors = wpe.tendencies(P, prm, dict(vecs, tracers=tracers))
    worst, _ = _compare(P, L, got, want, terms, floors)
    if not (worst['relerr'] <= RTOL):
      return out.fail(what='total tendency differs from the weak-form evaluation of the continuous equations',
                      state=k, **worst)
    if cls != 'dry' and float(np.asarray(tot.sim_time)) != 1.0:
      return out.fail(what='d(sim_time)/dt != 1', got=float(np.asarray(tot.sim_time)))
    if family == 'dry':
      # hydrostatic relation of the diagnostic geopotential (dry): g*h + R * trapezoid in ln(sigma) of T_ref + T'
      phi = np.asarray(pe.get_geopotential(jnp.asarray(P.from_vec(rows, vecs['temperature_variation'],
                                                                  grid.modal_shape)),
                                           np.asarray(case['t_ref'], dtype=np.float64),
                                           P.from_vec(rows, oro, grid.modal_shape), coords.vertical,
                                           num['g'], num['R']))
      gphi = P.to_vec(rows, phi)
      wphi = wpe.geopotential_modal(P, prm, vecs['temperature_variation'])
      i00 = P.keys.index((0, 0))
      rest = np.ones(P.nk, bool)
      rest[i00] = False
      sc_rest = max(float(np.abs(wphi[:, rest]).max()), 1e-300)
      e_rest = core.relerr(gphi[:, rest], wphi[:, rest], sc_rest) if np.abs(wphi[:, rest]).max() > 0 else float(
          np.abs(gphi[:, rest]).max())
      e_00 = core.relerr(gphi[:, i00], wphi[:, i00], max(float(np.abs(wphi[:, i00]).max()), sc_rest))
      if not (e_rest <= RTOL_STATE and e_00 <= 1e-7):
        return out.fail(what='get_geopotential differs from g*h + R*trapezoid(ln sigma) of the temperature',
                        state=k, relerr_mean=e_00, relerr_rest=e_rest, got=gphi[:, i00], want=wphi[:, i00])
    nz = lambda v: bool(np.abs(v).max() > 0)   # noqa: E731
    grad_lnps = bool(np.abs(vecs['log_surface_pressure'][P.l_of > 0]).max() > 0)
    full = (nz(vecs['vorticity']) and nz(vecs['divergence']) and nz(vecs['temperature_variation']) and grad_lnps
            and (not moist or nz(tracers[Q])))
    if full and n >= 2:
      out.nontrivial = True
    labs.add('state: full (vor, div, T, grad lnps non-zero)' if full else 'state: sparse')
    if moist:
      labs.add('humidity: non-uniform' if q_nonuniform else 'humidity: uniform per level')
    labs.update('state: ' + t for t in gens.touches(d, L, s))
  out.labels = list(out.labels) + sorted(labs)
  return out


def _balanced_check(P, L, got, terms, floors, want_oracle, out, member, what):
  """Code tendency == 0 and reference tendency == 0, both relative to the largest individual term."""
  zero = {k: np.zeros_like(v) for k, v in want_oracle.items()}
  ref_worst, _ = _compare(P, L, want_oracle, zero, terms, floors)
  if not (ref_worst['relerr'] <= RTOL):
    raise RuntimeError('reference model self-check failed: weak-form tendency of an analytically balanced state is '
                       f'not zero: {json.dumps(core.to_jsonable(ref_worst))}')
  worst, scales = _compare(P, L, got, zero, terms, floors)
  if not (worst['relerr'] <= RTOL):
    return out.fail(what=what, member=member, **worst)
  return None


def run_pe_rest(case):
  """O1 (i): rest, isothermal T0 (uniform humidity q0), lnps = c - g h / (R T_v0) over band-limited orography."""
  import jax
  from dinosaur import primitive_equations_states as pes
  from vf.oracles import weakform_pe as wpe
  grid, rows, P, coords, specs, num = _pe_setup(case, 2)
  L, n, s = grid.total_wavenumbers, coords.vertical.layers, case['s']
  mag = _MAG[case['specs']['kind']]
  cls = case['cls']
  moist = cls in ('moist', 'cloud')
  out = Outcome(units=len(case['members']), labels=_pe_labels(case), nontrivial=False)
  if cls == 'cloud':
    out.excluded_known = len(case['members'])
  labs = set()
  zeros = np.zeros((n, P.nk))
  totals = {}
  for k, mem in enumerate(case['members']):
    t_ref = list(case['t_ref'])
    tracers = {}
    if mem['kind'] == 'repo_flat':
      # the repository's own flat resting isothermal state (p1 = 0): T' = 0 relative to its reference temperature
      fn, aux = pes.isothermal_rest_atmosphere(coords, specs, tref=f"{mem['t0']} kelvin", p0='1e5 pascal',
                                               p1='0 pascal')
      st0 = fn(jax.random.PRNGKey(0))
      t_ref = [float(v) for v in np.asarray(aux['ref_temperatures'])]
      oro = P.to_vec(rows, grid.to_modal(np.asarray(aux['orography'])))
      vecs = {'vorticity': P.to_vec(rows, st0.vorticity), 'divergence': P.to_vec(rows, st0.divergence),
              'temperature_variation': P.to_vec(rows, st0.temperature_variation),
              'log_surface_pressure': P.to_vec(rows, st0.log_surface_pressure)[0]}
      if moist:
        tracers[Q] = zeros.copy()
      labs.add('member: isothermal_rest_atmosphere (flat)')
    else:
      oro = _descr_vec(P, grid, rows, mem['oro'], 'orography', None, s, mag['orography'] * float(mem['oro_amp']))
      t0, q0 = float(mem['t0']), (float(mem['q0']) if moist else 0.0)
      tv0 = t0 * (1.0 + (num['R_vapor'] / num['R'] - 1.0) * q0)
      lnps = -num['g'] * oro / (num['R'] * tv0) + _const_vec(P, mem['c'])
      tv = np.stack([_const_vec(P, t0 - t_ref[lev]) for lev in range(n)])
      vecs = {'vorticity': zeros, 'divergence': zeros, 'temperature_variation': tv, 'log_surface_pressure': lnps}
      if moist:
        tracers[Q] = np.stack([_const_vec(P, q0)] * n)
      has_oro = bool(np.abs(oro[P.l_of > 0]).max() > 0)
      if has_oro and max(abs(t0 - t) for t in t_ref) > 0:
        out.nontrivial = True
      labs.add('member: orography' if has_oro else 'member: flat')
      if moist:
        labs.add('humidity: q0>0' if q0 > 0 else 'humidity: q0=0')
    if cls == 'cloud':
      for name in CLOUD:
        tracers[name] = zeros.copy()
    key = tuple(t_ref)
    if key not in totals:
      totals[key] = _total_fn(functools.partial(
          lambda o, tr: _pe_class(cls)(tr, o, coords, specs, vertical_matmul_method=case.get('vmm')),
          tr=np.asarray(t_ref, dtype=np.float64)))
    state = _pe_state(cls, grid, rows, P, vecs, tracers)
    got = _pe_got(P, rows, totals[key](P.from_vec(rows, oro, grid.modal_shape), state))
    prm = dict(num, boundaries=case['boundaries'], t_ref=t_ref, orography=oro, moist=moist, humidity=Q)
    want, terms, floors = wpe.tendencies(P, prm, dict(vecs, tracers=tracers))
    bad = _balanced_check(P, L, got, terms, floors, want, out, k,
                          'resting isothermal atmosphere in hydrostatic balance has a non-zero tendency')
    if bad is not None:
      return bad
  out.labels = list(out.labels) + sorted(labs)
  return out


def run_pe_solid(case):
  """O1 (ii): u = omega_s a cos(lat), uniform lnps, per-layer T and q, g h = (2 Omega + omega_s) omega_s a^2 cos^2/2."""
  from vf.oracles import weakform_pe as wpe
  grid, rows, P, coords, specs, num = _pe_setup(case, 3)
  L, n = grid.total_wavenumbers, coords.vertical.layers
  cls = case['cls']
  moist = cls in ('moist', 'cloud')
  a = P.a
  out = Outcome(units=len(case['members']), labels=_pe_labels(case), nontrivial=False)
  labs = set()
  t_ref = list(case['t_ref'])
  t_ref_arr = np.asarray(t_ref, dtype=np.float64)
  total = _total_fn(lambda o: _pe_class(cls)(t_ref_arr, o, coords, specs, vertical_matmul_method=case.get('vmm')))
  for k, mem in enumerate(case['members']):
    ws = float(mem['omega_s'])
    vor1 = P.project_function(2.0 * ws * P.mu)                       # zeta = 2 omega_s sin(lat)
    gh = (2.0 * num['omega'] + ws) * ws * a * a * P.cos2 / 2.0
    oro = P.project_function(gh / num['g'])
    # both are exactly band-limited (l = 1 and l = 0, 2): drop quadrature noise in the other coefficients
    vor1 = np.where(P.l_of == 1, vor1, 0.0) * (P.m_of == 0)
    oro = np.where((P.l_of == 0) | (P.l_of == 2), oro, 0.0) * (P.m_of == 0)
    zeros = np.zeros((n, P.nk))
    vecs = {'vorticity': np.stack([vor1] * n), 'divergence': zeros,
            'temperature_variation': np.stack([_const_vec(P, float(mem['temps'][lev]) - t_ref[lev])
                                               for lev in range(n)]),
            'log_surface_pressure': _const_vec(P, mem['c'])}
    qv = np.stack([_const_vec(P, mem['q'][lev]) for lev in range(n)])
    tracers = {Q: qv} if moist else {PASSIVE: qv}
    if cls == 'cloud':
      tracers[CLOUD[0]] = np.stack([_const_vec(P, mem['cloud'][lev]) for lev in range(n)])
      tracers[CLOUD[1]] = np.stack([_const_vec(P, mem['cloud'][n - 1 - lev]) for lev in range(n)])
      labs.add('cloud content: non-zero' if max(mem['cloud']) > 0 else 'cloud content: zero')
    state = _pe_state(cls, grid, rows, P, vecs, tracers)
    got = _pe_got(P, rows, total(P.from_vec(rows, oro, grid.modal_shape), state))
    prm = dict(num, boundaries=case['boundaries'], t_ref=t_ref, orography=oro, moist=moist, humidity=Q)
    want, terms, floors = wpe.tendencies(P, prm, dict(vecs, tracers=tracers))
    bad = _balanced_check(P, L, got, terms, floors, want, out, k,
                          'solid-body rotation in gradient-wind balance has a non-zero tendency')
    if bad is not None:
      return bad
    if len(set(mem['temps'])) > 1 or n == 1:
      out.nontrivial = True
    labs.add('omega_s<0' if ws < 0 else 'omega_s>0')
    labs.add('temperatures: per-layer' if len(set(mem['temps'])) > 1 else 'temperatures: isothermal')
    labs.add('humidity: per-layer' if len(set(mem['q'])) > 1 else 'humidity: same on all layers')
  out.labels = list(out.labels) + sorted(labs)
  return out


# ----------------------------------------------------------------------------
# shallow water


def _sw_equation(grid, n, densities, ref_potential, omega, default_scale=False):
  """(coords, specs, jitted total tendency `(orography potential or None, state) -> leaves`)."""
  from dinosaur import coordinate_systems as cs, layer_coordinates as lc, scales, shallow_water as sw
  import dataclasses
  coords = cs.CoordinateSystem(grid, lc.LayerCoordinates(n))
  dens = np.asarray(densities, dtype=np.float64)
  if default_scale:
    specs = dataclasses.replace(sw.ShallowWaterSpecs.from_si(), densities=dens)
  else:
    specs = sw.ShallowWaterSpecs(dens, float(grid.radius), float(omega), 2.3, scales.DEFAULT_SCALE)
  ref = np.asarray(ref_potential, dtype=np.float64)
  return coords, specs, _total_fn(lambda o: sw.ShallowWaterEquations(coords, specs, o, ref))


def _sw_got(P, rows, tot):
  return {'vorticity': P.to_vec(rows, tot.vorticity), 'divergence': P.to_vec(rows, tot.divergence),
          'potential': P.to_vec(rows, tot.potential)}


def _sw_labels(case):
  d = case['densities']
  return gens.grid_labels(case['grid']) + [
      f"layers={case['layers']}" if case['layers'] <= 2 else 'layers>2',
      'densities=equal' if len(set(d)) == 1 and len(d) > 1 else ('densities=increasing' if len(d) > 1 else
                                                                 'densities=single'),
      f"rotation={'default' if 'omega' not in case else ('zero' if case['omega'] == 0 else ('retrograde' if case['omega'] < 0 else 'prograde'))}"]


def run_sw_weakform(case):
  from dinosaur import shallow_water as sw
  from vf.oracles import weakform_sw as wsw
  grid, rows, P = _horizontal(core.canon(case['grid']), 2, case['s'])
  L, n, s = grid.total_wavenumbers, case['layers'], case['s']
  oro = None
  if case.get('oro') is not None:
    oro = _descr_vec(P, grid, rows, case['oro'], 'orography', None, s, 0.2)
  _, _, total = _sw_equation(grid, n, case['densities'], case['ref_potential'], case['omega'])
  oro_modal = None if oro is None else P.from_vec(rows, oro, grid.modal_shape)
  prm = {'omega': case['omega'], 'densities': case['densities'], 'ref_potential': case['ref_potential'],
         'orography': oro}
  out = Outcome(units=len(case['states']), nontrivial=False,
                labels=_sw_labels(case) + ['orography' if oro is not None else 'no orography',
                                           f"band_limit={s}"])
  labs = set()
  mags = {'vorticity': 0.3, 'divergence': 0.2, 'potential': 0.5}
  for k, sd in enumerate(case['states']):
    vecs = {f: _descr_vec(P, grid, rows, sd['d'], f, n, s, float(sd['amp']) * mags[f],
                          zero_mean=f in ('vorticity', 'divergence')) for f in _SW_FIELDS}
    state = sw.State(**{f: P.from_vec(rows, v, grid.modal_shape) for f, v in vecs.items()})
    got = _sw_got(P, rows, total(oro_modal, state))
    want, terms, floors = wsw.tendencies(P, prm, vecs)
    worst, _ = _compare(P, L, got, want, terms, floors)
    if not (worst['relerr'] <= RTOL):
      return out.fail(what='shallow-water tendency differs from the weak-form evaluation of the continuous equations',
                      state=k, **worst)
    if all(np.abs(v).max() > 0 for v in vecs.values()):
      out.nontrivial = True
      labs.add('state: full (vor, div, potential non-zero)')
    else:
      labs.add('state: sparse')
    labs.update('state: ' + t for t in gens.touches(sd['d'], L, s))
  out.labels = list(out.labels) + sorted(labs)
  return out


def _zonal_vec(P, poly):
  """Coefficients of the zonally symmetric function poly(sin lat) (numpy Polynomial)."""
  v = P.project_function(poly(P.mu))
  return v * (P.m_of == 0) * (P.l_of <= poly.degree())


def _jet_polynomials(coefs, radius):
  """u = cos(lat) p(mu): returns (p, zeta, KE) as polynomials in mu = sin(lat)."""
  from numpy.polynomial import Polynomial as Pl
  p = Pl(coefs)
  one_minus_mu2 = Pl([1.0, 0.0, -1.0])
  zeta = -(one_minus_mu2 * p).deriv() * (1.0 / radius)
  ke = one_minus_mu2 * p * p * 0.5
  return p, zeta, ke


def run_sw_repo_states(case):
  """O1 (iii-a): shallow_water_states.one_layer / multi_layer are steady states of ShallowWaterEquations."""
  from dinosaur import shallow_water_states as sws
  from vf.oracles import weakform_sw as wsw
  grid, rows, P = _horizontal(core.canon(case['grid']), 2, 2 * case['d'] + 2)
  L, n = grid.total_wavenumbers, case['layers']
  coords, specs, total = _sw_equation(grid, n, case['densities'], case['ref_potential'], None, default_scale=True)
  omega = 0.5      # default scale: 2 Omega = 1, radius 1
  if float(specs.angular_velocity) != omega or float(specs.radius) != 1.0 or float(grid.radius) != 1.0:
    raise RuntimeError('default scale is expected to have 2*Omega = 1 and radius 1')
  prm = {'omega': omega, 'densities': case['densities'], 'ref_potential': case['ref_potential'], 'orography': None}
  sin_lat = np.asarray(grid.nodal_axes[1], dtype=np.float64)
  cos_lat = np.sqrt(1.0 - sin_lat ** 2)
  out = Outcome(units=len(case['members']), nontrivial=False,
                labels=_sw_labels(case) + [f"constructor={case['fn']}", f"jet_degree={case['d']}"])
  for k, mem in enumerate(case['members']):
    polys = [_jet_polynomials(c, 1.0) for c in mem['polys']]
    u = np.stack([cos_lat * p(sin_lat) for p, _, _ in polys])
    if case['fn'] == 'one_layer':
      state = sws.one_layer(u[0], grid)
      state = type(state)(*[np.asarray(x)[None] for x in (state.vorticity, state.divergence, state.potential)])
    else:
      state = sws.multi_layer(u, np.asarray(case['densities'], dtype=np.float64), coords)
    vecs = {f: P.to_vec(rows, getattr(state, f)) for f in _SW_FIELDS}
    # the state has the requested wind: zeta = -d((1 - mu^2) p)/dmu, delta = 0
    want_vor = np.stack([_zonal_vec(P, z) for _, z, _ in polys])
    sc = max(float(np.abs(want_vor).max()), max(abs(c) for cs_ in mem['polys'] for c in cs_), 1e-30)
    err = core.relerr(vecs['vorticity'], want_vor, sc)
    if not (err <= RTOL_STATE):
      return out.fail(what='vorticity of the constructed steady state is not that of the requested zonal wind',
                      member=k, relerr=err, index=core.argmax_index(vecs['vorticity'], want_vor))
    if np.abs(vecs['divergence']).max() != 0:
      return out.fail(what='constructed steady state has non-zero divergence', member=k)
    full = np.asarray(state.potential, dtype=np.float64)
    if not np.all(np.isfinite(full)):
      return out.fail(what='constructed steady state is not finite', member=k)
    got = _sw_got(P, rows, total(None, type(state)(*[np.asarray(getattr(state, f)) for f in _SW_FIELDS])))
    want, terms, floors = wsw.tendencies(P, prm, vecs)
    zero = {kk: np.zeros_like(v) for kk, v in want.items()}
    worst, _ = _compare(P, L, got, zero, terms, floors)
    if not (worst['relerr'] <= RTOL):
      return out.fail(what='repository steady state has a non-zero tendency under ShallowWaterEquations',
                      member=k, **worst)
    worst, _ = _compare(P, L, want, zero, terms, floors)
    if not (worst['relerr'] <= RTOL):
      return out.fail(what='repository steady state is not balanced according to the independent reference',
                      member=k, **worst)
    if any(any(c != 0 for c in cs_) for cs_ in mem['polys']):
      out.nontrivial = True
  return out


def run_sw_selfbuilt(case):
  """O1 (iii-b): closed-form balanced zonal jets for arbitrary rotation rate, radius, densities, zonal orography."""
  from numpy.polynomial import Polynomial as Pl
  from dinosaur import shallow_water as sw
  from vf.oracles import weakform_sw as wsw
  s = 2 * case['d'] + 2
  grid, rows, P = _horizontal(core.canon(case['grid']), 2, s)
  L, n, a, omega = grid.total_wavenumbers, case['layers'], P.a, float(case['omega'])
  oro_poly = Pl(case['oro_poly']) if case.get('oro_poly') is not None else None
  oro = _zonal_vec(P, oro_poly) if oro_poly is not None else None
  _, _, total = _sw_equation(grid, n, case['densities'], case['ref_potential'], omega)
  oro_modal = None if oro is None else P.from_vec(rows, oro, grid.modal_shape)
  prm = {'omega': omega, 'densities': case['densities'], 'ref_potential': case['ref_potential'], 'orography': oro}
  Rm = wsw.density_matrix(case['densities']) + np.eye(n)
  out = Outcome(units=len(case['members']), nontrivial=False,
                labels=_sw_labels(case) + [f"jet_degree={case['d']}",
                                           'zonal orography' if oro is not None else 'no orography'])
  for k, mem in enumerate(case['members']):
    polys = [_jet_polynomials(c, a) for c in mem['polys']]
    rhs = []
    for p, zeta, ke in polys:
      # meridional momentum of a steady zonal flow: d/dmu (pressure + KE + phi) = -a (zeta + f) p
      bern = (-(zeta + Pl([0.0, 2.0 * omega])) * p * a).integ()
      r = bern - ke
      if oro_poly is not None:
        r = r - oro_poly
      rhs.append(r)
    deg = max(r.degree() for r in rhs)
    C = np.zeros((n, deg + 1))
    for i, r in enumerate(rhs):
      C[i, :len(r.coef)] = r.coef
    phi_coef = np.linalg.solve(Rm, C)
    vecs = {'vorticity': np.stack([_zonal_vec(P, z) for _, z, _ in polys]),
            'divergence': np.zeros((n, P.nk)),
            'potential': np.stack([_zonal_vec(P, Pl(phi_coef[i]) + float(mem['means'][i])) for i in range(n)])}
    state = sw.State(**{f: P.from_vec(rows, v, grid.modal_shape) for f, v in vecs.items()})
    got = _sw_got(P, rows, total(oro_modal, state))
    want, terms, floors = wsw.tendencies(P, prm, vecs)
    bad = _balanced_check(P, L, got, terms, floors, want, out, k,
                          'geostrophically balanced zonal jet has a non-zero shallow-water tendency')
    if bad is not None:
      return bad
    if any(any(c != 0 for c in cs_) for cs_ in mem['polys']):
      out.nontrivial = True
  return out


# ----------------------------------------------------------------------------

SUBCHECKS = [
    Subcheck('pe_dry_weakform', functools.partial(run_pe_weakform, family='dry'),
             strategy=lambda tier: _pe_o2_case(tier, 'dry'),
             examples={'quick': 20, 'thorough': 300}, shards={'quick': 1, 'thorough': 6},
             wall={'quick': 400.0, 'thorough': 1500.0}, weight=3,
             rule='non-trivial = >= 2 levels and a state with non-zero vorticity, divergence, T\' and grad(lnps)',
             doc='O2: PrimitiveEquations / PrimitiveEquationsWithTime == weak-form reference; get_geopotential'),
    Subcheck('pe_moist_weakform', functools.partial(run_pe_weakform, family='moist'),
             strategy=lambda tier: _pe_o2_case(tier, 'moist'),
             examples={'quick': 20, 'thorough': 300}, shards={'quick': 1, 'thorough': 6},
             wall={'quick': 400.0, 'thorough': 1500.0}, weight=3,
             rule='non-trivial = >= 2 levels and a state with non-zero vorticity, divergence, T\', grad(lnps), humidity',
             doc='O2: MoistPrimitiveEquations (+ cloud class with zero cloud content) == weak-form reference'),
    Subcheck('sw_weakform', run_sw_weakform, strategy=lambda tier: _sw_o2_case(tier),
             examples={'quick': 24, 'thorough': 400}, shards={'quick': 1, 'thorough': 4},
             wall={'quick': 400.0, 'thorough': 1500.0}, weight=2,
             rule='non-trivial = a state with non-zero vorticity, divergence and potential',
             doc='O2: ShallowWaterEquations == weak-form reference of the layered equations'),
    Subcheck('pe_rest_over_orography', run_pe_rest, strategy=lambda tier: _pe_rest_case(tier),
             examples={'quick': 16, 'thorough': 250}, shards={'quick': 1, 'thorough': 4},
             wall={'quick': 400.0, 'thorough': 1500.0}, weight=2,
             rule='non-trivial = non-flat orography and T0 != T_ref on some level',
             doc='O1 (i): resting isothermal hydrostatic atmosphere over band-limited orography is steady'),
    Subcheck('pe_solid_body_rotation', run_pe_solid, strategy=lambda tier: _pe_solid_case(tier),
             examples={'quick': 16, 'thorough': 250}, shards={'quick': 1, 'thorough': 4},
             wall={'quick': 400.0, 'thorough': 1500.0}, weight=2,
             rule='non-trivial = per-layer temperatures differ (or a single layer)',
             doc='O1 (ii): solid-body rotation with balancing orography is steady (dry / moist / cloud)'),
    Subcheck('sw_repo_steady_states', run_sw_repo_states, strategy=lambda tier: _sw_jet_case(tier, True),
             examples={'quick': 16, 'thorough': 250}, shards={'quick': 1, 'thorough': 2},
             wall={'quick': 400.0, 'thorough': 1500.0}, weight=1,
             rule='non-trivial = a non-zero zonal wind profile',
             doc='O1 (iii): shallow_water_states.one_layer / multi_layer have the requested wind and zero tendency'),
    Subcheck('sw_selfbuilt_jets', run_sw_selfbuilt, strategy=lambda tier: _sw_jet_case(tier, False),
             examples={'quick': 16, 'thorough': 250}, shards={'quick': 1, 'thorough': 2},
             wall={'quick': 400.0, 'thorough': 1500.0}, weight=1,
             rule='non-trivial = a non-zero zonal wind profile',
             doc='O1 (iii): closed-form balanced jets (any rotation rate, radius, densities, orography) are steady'),
]
