"""C17 Vertical interpolation is exact on affine data with the documented extrapolation."""
from __future__ import annotations

import functools

from hypothesis import strategies as st
import numpy as np

from vf import core, gens
from vf.core import Outcome, Subcheck
from vf.oracles import interp_ref

RULE = ('Hypothesis-generated strictly increasing node sets (2..12 nodes, uneven) with query points in the classes '
        'at-node / midpoint / interior / just outside / far outside / on and around the n-cell extrapolation limit; '
        'every 1-D routine (interp, _dot_interp = accelerator path called directly, vertical_interpolation, '
        'linear_interp_with_linear_extrap, _linear_interp_with_safe_extrap(n=1..3)) is evaluated on ALL unit data '
        'vectors at once, so its whole operator matrix is compared entry-wise with a loop reference '
        '(vf/oracles/interp_ref.py, itself cross-checked against numpy.interp in every case); field-level wrappers '
        '(pressure<->sigma, hybrid->sigma, get_surface_pressure, semi-Lagrangian step, _vertical_interp) are compared '
        'with per-column python loops over the same reference; nearest/bilinear regridders with brute-force haversine '
        'search and affine fields. distinct = hash of the canonical JSON case; non-trivial rules are per sub-check.')
ASSUMPTIONS = [
    'node sets are strictly increasing with >= 2 nodes (a 1-node source has no cell to extrapolate with)',
    'a query closer than 1e-13*(span+max|node|) to the n-cell extrapolation limit is "do not care" '
    '(finite-or-NaN; if finite it must equal the linear extension): the limit itself is computed by the code by '
    'repeated differences and inclusive/exclusive is not documented',
    'get_surface_pressure: geopotential strictly decreasing along the level axis (documented: relative height must be '
    'increasing)',
    'hybrid source levels: sigma centres a/sp+b must be strictly increasing for the drawn surface pressures '
    '(synthetic sets are constructed that way; ECMWF137/UFS127 are used with surface pressure >= 500 hPa)',
    'semi-Lagrangian step: dt is scaled so that the displaced nodes target-dt*velocity stay strictly increasing '
    '(non-monotone nodes are outside the domain of piecewise-linear interpolation), velocity is horizontally uniform '
    'so the interpolated field stays band limited; the physical direction of the advection is not part of C17',
    'bilinear regridding is not periodic in longitude (constant extrapolation beyond the first/last source '
    'longitude): only constants, identity on equal grids, range-boundedness and affine-in-latitude exactness inside '
    'the source latitude range are required',
]
MANIFEST = {
    'text': 'Every vertical interpolation routine (default and accelerator/matrix path) has its full operator matrix '
            'compared entry-wise with an independent loop reference for generated uneven node sets and query points '
            'at, between, just outside, far outside the nodes and around the n-cell extrapolation limit; source values '
            'at source coordinates, affine exactness, boundedness and the documented constant / unlimited linear / '
            'n-cell-then-NaN extrapolation are asserted; sigma<->pressure round trips, surface pressure, hybrid '
            'coordinates, the semi-Lagrangian step mechanics and nearest/bilinear regridders are checked against '
            'per-column loops.',
    'note': 'trusted base: numpy float64 arithmetic, the loop reference in vf/oracles/interp_ref.py (cross-checked '
            'against numpy.interp), Grid.to_nodal/to_modal round trip for the semi-Lagrangian sub-check (C01)',
    'technique': 'exhaustive unit-vector operator matrices vs loop reference under Hypothesis-generated node/query sets',
}

RTOL = 1e-9       # algebra-level tolerance (DESIGN numeric policy); measured rounding is ~1e-15
TIGHT = 1e-12     # source-value / boundedness slack relative to the data magnitude

# ----------------------------------------------------------------------------
# 1-D routines: operator matrices

NQ = 64   # queries are padded to a fixed count so that each routine compiles once per node count

_UNITS = [1.0, 0.0625, 0.37, 13.0, 1e-3, 250.0]


def _nodes(max_nodes=12):
  # a handful of node counts only: every count costs one XLA compilation (seconds) of the 7 routines
  return _nodes_of(st.sampled_from([n for n in (5, 3, 4, 7, 12, 2) if n <= max_nodes]))


@st.composite
def _nodes_of(draw, counts):
  n = draw(counts)
  style = draw(st.sampled_from(['uneven', 'uneven', 'even', 'ratio30']))
  if style == 'even':
    g = draw(st.integers(1, 8))
    gaps = [g] * (n - 1)
  elif style == 'ratio30':
    gaps = [draw(st.sampled_from([1, 2, 30, 40])) for _ in range(n - 1)]
  else:
    gaps = [draw(st.integers(1, 12)) for _ in range(n - 1)]
  return {'gaps': gaps, 'unit': draw(st.sampled_from(_UNITS)), 'offset_units': draw(st.integers(-200, 200))}


def _node_values(nd):
  u = float(nd['unit'])
  return np.array([u * (nd['offset_units'] + s) for s in np.concatenate([[0], np.cumsum(nd['gaps'])])], dtype=np.float64)


_DATA = st.one_of(
    st.fixed_dictionaries({'kind': st.just('affine'), 'a': st.sampled_from([0.0, 1.0, -7.5, 300.0]),
                           'b': st.sampled_from([1.0, -0.3, 25.0, 1e-3])}),
    st.fixed_dictionaries({'kind': st.just('random'), 'seed': st.integers(0, 2 ** 16),
                           'amp': st.sampled_from([1.0, 1e-3, 1e4])}),
    st.fixed_dictionaries({'kind': st.just('sawtooth'), 'amp': st.sampled_from([1.0, -2.0])}),
)


@st.composite
def _interp1d_case(draw):
  extras = draw(st.lists(st.tuples(st.sampled_from(['interior', 'interior', 'far_left', 'far_right']),
                                   st.floats(0.0, 1.0, allow_nan=False, width=32)), max_size=8))
  return {'nodes': draw(_nodes()), 'data': draw(st.lists(_DATA, min_size=1, max_size=3)),
          'extra': [[c, float(t)] for c, t in extras]}


def _columns(xp, descrs):
  cols = []
  for d in descrs:
    if d['kind'] == 'affine':
      cols.append(d['a'] + d['b'] * xp)
    elif d['kind'] == 'random':
      cols.append(np.random.default_rng(d['seed']).standard_normal(len(xp)) * d['amp'])
    else:
      cols.append(d['amp'] * np.array([(-1.0) ** i * (i + 1) for i in range(len(xp))]))
  return cols


def _queries(xp, extra):
  """[(class, x)] : deterministic classes derived from the nodes + the drawn extras, padded to NQ."""
  span = xp[-1] - xp[0]
  d = 1e-8 * span
  q = [('node', v) for v in xp] + [('mid', 0.5 * (a + b)) for a, b in zip(xp[:-1], xp[1:])]
  q += [('just_outside', xp[0] - d), ('just_outside', xp[-1] + d), ('just_inside', xp[0] + d), ('just_inside', xp[-1] - d)]
  for k in (1, 2, 3):
    lo, hi = interp_ref.limits(xp, k)
    q += [(f'limit{k}', lo), (f'limit{k}', hi), (f'beyond{k}', lo - d), (f'beyond{k}', hi + d),
          (f'within{k}', lo + d), (f'within{k}', hi - d)]
  for c, t in extra:
    if c == 'interior':
      q.append(('interior', xp[0] + t * span))
    elif c == 'far_left':
      q.append(('far', xp[0] - (0.5 + 30.0 * t) * span))
    else:
      q.append(('far', xp[-1] + (0.5 + 30.0 * t) * span))
  q = q[:NQ]
  while len(q) < NQ:
    q.append(('pad', q[0][1]))
  return q


_ROUTINES = {   # name -> (reference mode, extrapolated cells)
    'interp': ('constant', 0),
    '_dot_interp': ('constant', 0),
    'vertical_interpolation': ('constant', 0),
    'linear_interp_with_linear_extrap': ('linear', 0),
    'safe_extrap_n1': ('safe', 1),
    'safe_extrap_n2': ('safe', 2),
    'safe_extrap_n3': ('safe', 3),
}


@functools.lru_cache(None)
def _all_routines():
  """One jitted program evaluating every routine: (q,), (n,), (n, c) -> {name: (q, c)} (one compile per node count)."""
  import jax
  from dinosaur import vertical_interpolation as vi

  def mat(fn):   # fn(x scalar, xp (n,), fp (n,)) -> scalar   ==>   (q,), (n,), (n, c) -> (q, c)
    return jax.vmap(jax.vmap(fn, (0, None, None)), (None, None, 1), 1)

  fns = {
      'interp': mat(vi.interp),
      '_dot_interp': mat(vi._dot_interp),   # pylint: disable=protected-access
      # public entry point, array-valued x handled by the routine itself
      'vertical_interpolation': jax.vmap(vi.vertical_interpolation, (None, None, 1), 1),
      'linear_interp_with_linear_extrap': mat(vi.linear_interp_with_linear_extrap),
      'safe_extrap_n1': mat(functools.partial(vi._linear_interp_with_safe_extrap, n=1)),   # pylint: disable=protected-access
      'safe_extrap_n2': mat(functools.partial(vi._linear_interp_with_safe_extrap, n=2)),   # pylint: disable=protected-access
      'safe_extrap_n3': mat(functools.partial(vi._linear_interp_with_safe_extrap, n=3)),   # pylint: disable=protected-access
  }
  assert set(fns) == set(_ROUTINES)
  return jax.jit(lambda x, xp, fp: {k: f(x, xp, fp) for k, f in fns.items()})


def _compare_matrix(out, name, got, w, fp, x, xp, dontcare, classes):
  """got (q, c) vs reference weights w (q, n) applied to data fp (n, c). Returns None or a failure Outcome."""
  want = interp_ref.apply(w, fp)
  wnan = np.isnan(w).any(axis=1)
  rowscale = np.where(wnan, 1.0, np.maximum(1.0, np.nansum(np.abs(w), axis=1)))
  colscale = np.maximum(np.max(np.abs(fp), axis=0), 1e-300)
  for q in range(len(x)):
    g = got[q]
    if dontcare[q]:
      if np.isnan(g).all():
        continue
      wl = interp_ref.weights([x[q]], xp, 'linear')
      wq = interp_ref.apply(wl, fp)[0]
      if np.isnan(g).any() or np.max(np.abs(g - wq) / (colscale * max(1.0, np.abs(wl).sum()))) > RTOL:
        return out.fail(what='value on the extrapolation limit is neither NaN nor the linear extension', routine=name,
                        x=x[q], got=g, want=wq, nodes=xp)
      continue
    if wnan[q]:
      if not np.isnan(g).all():
        return out.fail(what='finite value beyond the documented extrapolation range (NaN expected)', routine=name,
                        x=x[q], query_class=classes[q], got=g, nodes=xp)
      continue
    if np.isnan(g).any():
      return out.fail(what='NaN inside the documented range', routine=name, x=x[q], query_class=classes[q],
                      got=g, want=want[q], nodes=xp)
    err = np.abs(g - want[q]) / (colscale * rowscale[q])
    if np.max(err) > RTOL:
      c = int(np.argmax(err))
      return out.fail(what='operator matrix / interpolated value differs from the piecewise-linear reference',
                      routine=name, x=x[q], query_class=classes[q], column=c, got=g[c], want=want[q][c],
                      relerr=float(err[c]), nodes=xp, data_column=fp[:, c])
  return None


def run_interp1d(case):
  xp = _node_values(case['nodes'])
  n = len(xp)
  qs = _queries(xp, case['extra'])
  classes = [c for c, _ in qs]
  x = np.array([v for _, v in qs], dtype=np.float64)
  cols = _columns(xp, case['data'])
  fp = np.concatenate([np.eye(n), np.stack(cols, axis=1)], axis=1)   # all unit vectors + drawn columns
  gaps = case['nodes']['gaps']
  uneven = max(gaps) > min(gaps)
  kinds = sorted({d['kind'] for d in case['data']})
  out = Outcome(nontrivial=(n >= 3 and uneven),
                labels=[f'nodes={"2" if n == 2 else "3-5" if n <= 5 else "6-12"}', 'uneven' if uneven else 'even',
                        f'n_parity={"odd" if n % 2 else "even"}', f'unit={case["nodes"]["unit"]}',
                        'offset<0' if case['nodes']['offset_units'] < 0 else 'offset>=0']
                + [f'data={k}' for k in kinds] + sorted({f'extra={c}' for c, _ in case['extra']}),
                units=len(_ROUTINES) * NQ * fp.shape[1])
  # self test of the oracle against numpy (inside the node range)
  for c in cols:
    if interp_ref.check_against_numpy(x, xp, c) > 1e-13:
      raise AssertionError('interp_ref disagrees with numpy.interp')   # harness error, not a violation
  tol_limit = 1e-13 * ((xp[-1] - xp[0]) + np.max(np.abs(xp)))
  results = _all_routines()(x, xp, fp)
  for name, (mode, cells) in _ROUTINES.items():
    got = np.asarray(results[name])
    if got.shape != (NQ, fp.shape[1]):
      return out.fail(what='wrong output shape', routine=name, got=list(got.shape))
    w = interp_ref.weights(x, xp, mode, cells or 1)
    dontcare = np.zeros(NQ, dtype=bool)
    if mode == 'safe':
      lo, hi = interp_ref.limits(xp, cells)
      dontcare = (np.abs(x - lo) <= tol_limit) | (np.abs(x - hi) <= tol_limit)
    bad = _compare_matrix(out, name, got, w, fp, x, xp, dontcare, classes)
    if bad is not None:
      return bad
    data = got[:, n:]
    dcols = fp[:, n:]
    scale = np.maximum(np.max(np.abs(dcols), axis=0), 1e-300)
    inside = (x >= xp[0]) & (x <= xp[-1])
    # (1) source value at source coordinates
    for i in range(n):
      if np.max(np.abs(data[i] - dcols[i]) / scale) > TIGHT:
        return out.fail(what='routine does not return the source value at a source coordinate', routine=name, node=i,
                        x=x[i], got=data[i], want=dcols[i], nodes=xp)
    # (2) affine data are reproduced exactly wherever the routine documents an interpolated / linearly extended value
    for j, d in enumerate(case['data']):
      if d['kind'] != 'affine':
        continue
      ok_region = inside if mode == 'constant' else ~np.isnan(w).any(axis=1) & ~dontcare
      want = d['a'] + d['b'] * x
      s = abs(d['a']) + abs(d['b']) * np.maximum(np.abs(x), np.max(np.abs(xp)))
      err = np.where(ok_region, np.abs(data[:, j] - want) / s, 0.0)
      if np.nanmax(err) > RTOL or np.isnan(err).any():
        q = int(np.nanargmax(np.where(np.isnan(err), np.inf, err)))
        return out.fail(what='affine data not reproduced exactly', routine=name, x=x[q], query_class=classes[q],
                        got=data[q, j], want=want[q], a=d['a'], b=d['b'], nodes=xp)
    # (3) bounded by the neighbouring values inside the source range; by the end values for constant extrapolation
    for q in range(NQ):
      if inside[q]:
        i = int(np.clip(np.searchsorted(xp, x[q], side='right') - 1, 0, n - 2))
        lo_v, hi_v = np.minimum(dcols[i], dcols[i + 1]), np.maximum(dcols[i], dcols[i + 1])
      elif mode == 'constant':
        e = dcols[0] if x[q] < xp[0] else dcols[-1]
        lo_v, hi_v = e, e
      else:
        continue
      if np.any(data[q] < lo_v - TIGHT * scale) or np.any(data[q] > hi_v + TIGHT * scale) or np.isnan(data[q]).any():
        return out.fail(what='interpolated value not bounded by the neighbouring source values', routine=name, x=x[q],
                        query_class=classes[q], got=data[q], lower=lo_v, upper=hi_v, nodes=xp)
  return out


# ----------------------------------------------------------------------------
# field-level wrappers: pressure <-> sigma, hybrid -> sigma, vectorised wrappers


@st.composite
def _field_case(draw, tier='quick'):
  n_p = draw(st.integers(2, 9))
  p0 = draw(st.sampled_from([10.0, 50.0, 100.0, 200.0]))
  pg = [draw(st.sampled_from([25.0, 50.0, 100.0, 150.0, 200.0])) for _ in range(n_p - 1)]
  hyb = draw(st.sampled_from(['synthetic', 'synthetic', 'synthetic', 'ECMWF137', 'UFS127']))
  return {
      'p0': p0, 'p_gaps': pg, 'sigma': draw(gens.sigma_boundaries(2, 8)),
      'nx': draw(st.integers(1, 3)), 'ny': draw(st.integers(1, 3)), 'batch': draw(st.sampled_from([0, 0, 1, 2])),
      'sp_range': draw(st.sampled_from([[950.0, 1050.0], [500.0, 1100.0], [500.0, 700.0]])),
      'seed': draw(st.integers(0, 2 ** 16)), 'field': draw(st.sampled_from(['affine', 'random'])),
      'interp_fn': draw(st.sampled_from(['default', 'constant', 'linear', 'dot'])),
      'hybrid': {'kind': hyb, 'layers': draw(st.integers(2, 10)), 'c': draw(st.sampled_from([0.0, 0.1, 0.3])),
                 'power': draw(st.sampled_from([1.0, 2.0, 3.0]))},
  }


@functools.lru_cache(None)
def _vectorised(name):
  from dinosaur import vertical_interpolation as vi
  fn = {'default': vi._linear_interp_with_safe_extrap, 'constant': vi.vertical_interpolation,   # pylint: disable=protected-access
        'linear': vi.linear_interp_with_linear_extrap, 'dot': vi._dot_interp}[name]   # pylint: disable=protected-access
  return vi.vectorize_vertical_interpolation(fn)


_MODE = {'default': ('safe', 1), 'constant': ('constant', 1), 'linear': ('linear', 1), 'dot': ('constant', 1)}


def _ref_columns(desired, nodes_fn, field, mode, cells):
  """Per-column loop. desired (a, X, Y); field (..., b, X, Y); nodes_fn(ix, iy) -> (b,) nodes. Returns (..., a, X, Y)."""
  field = np.asarray(field, dtype=np.float64)
  lead = field.shape[:-3]
  a, X, Y = desired.shape
  res = np.zeros(lead + (a, X, Y))
  near_limit = np.zeros((a, X, Y), dtype=bool)
  for ix in range(X):
    for iy in range(Y):
      nodes = np.asarray(nodes_fn(ix, iy), dtype=np.float64)
      w = interp_ref.weights(desired[:, ix, iy], nodes, mode, cells)
      if mode == 'safe':
        lo, hi = interp_ref.limits(nodes, cells)
        tol = 1e-13 * ((nodes[-1] - nodes[0]) + np.max(np.abs(nodes)))
        near_limit[:, ix, iy] = (np.abs(desired[:, ix, iy] - lo) <= tol) | (np.abs(desired[:, ix, iy] - hi) <= tol)
      for idx in np.ndindex(*lead):
        res[idx + (slice(None), ix, iy)] = interp_ref.apply(w, field[idx + (slice(None), ix, iy)])
  return res, near_limit


def _cmp_field(out, what, got, want, near_limit, scale, **info):
  got = np.asarray(got, dtype=np.float64)
  if got.shape != want.shape:
    return out.fail(what=what + ': wrong shape', got=list(got.shape), want=list(want.shape), **info)
  care = ~np.broadcast_to(near_limit, want.shape)
  gn, wn = np.isnan(got), np.isnan(want)
  if np.any((gn != wn) & care):
    idx = [int(i) for i in np.argwhere((gn != wn) & care)[0]]
    return out.fail(what=what + ': NaN pattern differs from the documented extrapolation range', index=idx,
                    got=got[tuple(idx)], want=want[tuple(idx)], **info)
  both = care & ~gn & ~wn
  if both.any():
    err = np.where(both, np.abs(np.where(both, got, 0.0) - np.where(both, want, 0.0)), 0.0) / scale
    if err.max() > RTOL:
      idx = [int(i) for i in np.unravel_index(int(np.argmax(err)), err.shape)]
      return out.fail(what=what + ': differs from the per-column reference', index=idx, got=got[tuple(idx)],
                      want=want[tuple(idx)], relerr=float(err.max()), **info)
  return None


def _hybrid(h):
  from dinosaur import vertical_interpolation as vi
  if h['kind'] == 'ECMWF137':
    return vi.HybridCoordinates.ECMWF137()
  if h['kind'] == 'UFS127':
    return vi.HybridCoordinates.UFS127()
  a, b = _synthetic_hybrid(h['layers'], h['c'], h['power'])
  return vi.HybridCoordinates(a_boundaries=a, b_boundaries=b)


def _synthetic_hybrid(layers, c, power):
  """a + b*sp strictly increasing in the level index for every sp >= 300 (see ASSUMPTIONS)."""
  s = np.linspace(0.0, 1.0, layers + 1) ** power
  b = s ** 2
  a = 1000.0 * c * (s - s ** 2) + (2.0 if c else 0.0) * (1 - s)   # non-zero model top when c != 0
  a[-1] = 0.0
  return a, b


def run_field(case):
  import jax
  from dinosaur import sigma_coordinates as sc, vertical_interpolation as vi
  rng = np.random.default_rng(case['seed'])
  pc_vals = case['p0'] + np.concatenate([[0.0], np.cumsum(case['p_gaps'])])
  pc = vi.PressureCoordinates(pc_vals)
  sg = sc.SigmaCoordinates(np.asarray(case['sigma'], dtype=np.float64))
  X, Y, B = case['nx'], case['ny'], case['batch']
  lead = (B,) if B else ()
  sp = rng.uniform(case['sp_range'][0], case['sp_range'][1], size=(1, X, Y))
  n_p, n_s = pc.layers, sg.layers
  name = case['interp_fn']
  mode, cells = _MODE[name]
  kw = {} if name == 'default' else {'interpolate_fn': _vectorised(name)}
  out = Outcome(labels=[f'interp_fn={name}', f'field={case["field"]}', f'batch={B}', f'hybrid={case["hybrid"]["kind"]}',
                        f'sp_range={int(case["sp_range"][0])}-{int(case["sp_range"][1])}'] + gens.sigma_labels(case['sigma']),
                nontrivial=(X * Y > 1 and len(set(case['p_gaps'])) > 1), units=3 * X * Y * max(B, 1))

  def coeffs():
    return rng.uniform(-2, 2, size=lead + (1, X, Y)), rng.uniform(-0.05, 0.05, size=lead + (1, X, Y))

  # ---- pressure -> sigma
  a0, b0 = coeffs()
  if case['field'] == 'affine':
    f_p = a0 + b0 * pc_vals[:, None, None]
  else:
    f_p = rng.standard_normal(lead + (n_p, X, Y))
  tree = {'t': f_p, 'nested': {'u': 2.0 * f_p + 1.0}, 'time': 3.5, 'profile': rng.standard_normal(n_p),
          'flat2d': rng.standard_normal((n_p, Y))}
  if n_p != 1:
    tree['surface'] = rng.standard_normal((1, X, Y))
  res = vi.interp_pressure_to_sigma(tree, pc, sg, sp, **kw)
  desired = sg.centers[:, None, None] * sp
  want, near = _ref_columns(desired, lambda ix, iy: pc_vals, f_p, mode, cells)
  scale = max(float(np.max(np.abs(f_p))), 1e-300) * (1.0 + (0.0 if mode == 'constant' else 40.0))
  bad = _cmp_field(out, 'interp_pressure_to_sigma', res['t'], want, near, scale, interp_fn=name)
  if bad is not None:
    return bad
  bad = _cmp_field(out, 'interp_pressure_to_sigma (nested leaf)', res['nested']['u'], 2.0 * want + 1.0, near,
                   2 * scale + 1, interp_fn=name)
  if bad is not None:
    return bad
  for k in ('time', 'profile', 'flat2d', 'surface'):
    if k in tree and not (np.shape(res[k]) == np.shape(tree[k]) and np.array_equal(np.asarray(res[k]), np.asarray(tree[k]))):
      return out.fail(what='interp_pressure_to_sigma changed a leaf that has no pressure-level axis', leaf=k,
                      shape=list(np.shape(tree[k])))
  # ---- sigma -> pressure
  if case['field'] == 'affine':
    f_s = a0 + b0 * (sg.centers[:, None, None] * sp)
  else:
    f_s = rng.standard_normal(lead + (n_s, X, Y))
  res2 = vi.interp_sigma_to_pressure({'t': f_s, 'time': 1.25}, pc, sg, sp, **kw)
  desired2 = pc_vals[:, None, None] / sp
  want2, near2 = _ref_columns(desired2, lambda ix, iy: sg.centers, f_s, mode, cells)
  scale2 = max(float(np.max(np.abs(f_s))), 1e-300) * (1.0 + (0.0 if mode == 'constant' else 40.0))
  bad = _cmp_field(out, 'interp_sigma_to_pressure', res2['t'], want2, near2, scale2, interp_fn=name)
  if bad is not None:
    return bad
  if float(res2['time']) != 1.25:
    return out.fail(what='interp_sigma_to_pressure changed a scalar leaf')
  # ---- round trip of affine columns: pressure -> sigma -> pressure reproduces a + b p wherever both steps are inside
  #      their documented range (finite), and is NaN exactly where the reference composition is NaN
  if case['field'] == 'affine' and mode != 'constant':
    on_sigma = np.asarray(res['t'])
    back = np.asarray(vi.interp_sigma_to_pressure({'t': on_sigma, 'time': 1.25}, pc, sg, sp, **kw)['t'])
    col_ok = ~np.isnan(want).any(axis=-3, keepdims=True)   # columns whose first step is NaN free
    w_rt, near_rt = _ref_columns(desired2, lambda ix, iy: sg.centers, np.where(np.isnan(want), 0.0, want), mode, cells)
    expect_finite = ~np.isnan(w_rt) & col_ok & ~near_rt
    truth = np.broadcast_to(a0 + b0 * pc_vals[:, None, None], back.shape)
    if np.isnan(back[expect_finite]).any():
      return out.fail(what='round trip pressure->sigma->pressure is NaN inside the documented range')
    err = np.abs(back[expect_finite] - truth[expect_finite]) / scale if expect_finite.any() else np.zeros(1)
    if err.max() > RTOL:
      return out.fail(what='round trip pressure->sigma->pressure does not reproduce an affine column', relerr=float(err.max()))
    must_nan = np.isnan(w_rt) & col_ok & ~near_rt
    if not np.isnan(back[must_nan]).all():
      return out.fail(what='round trip is finite beyond the documented extrapolation range')
    out.labels = list(out.labels) + ['roundtrip_checked', f'roundtrip_has_nan={"yes" if must_nan.any() else "no"}']
  # ---- vectorised wrapper == per-column loop, extra leading dims
  v = _vectorised(name)
  nodes = pc_vals
  xq = rng.uniform(nodes[0] - 1.5 * (nodes[1] - nodes[0]), nodes[-1] + 1.5 * (nodes[-1] - nodes[-2]), size=(4, X, Y))
  f3 = rng.standard_normal((2, 1, n_p, X, Y))
  got_v = np.asarray(v(xq, nodes, f3))
  want_v, near_v = _ref_columns(xq, lambda ix, iy: nodes, f3, mode, cells)
  bad = _cmp_field(out, 'vectorize_vertical_interpolation', got_v, want_v, near_v, 4.0 * float(np.max(np.abs(f3))),
                   interp_fn=name)
  if bad is not None:
    return bad
  # ---- hybrid -> sigma (centres to centres, 1 cell of linear extrapolation then NaN)
  hyb = _hybrid(case['hybrid'])
  a_b, b_b = np.asarray(hyb.a_boundaries, dtype=np.float64), np.asarray(hyb.b_boundaries, dtype=np.float64)

  def src_centres(ix, iy):
    bnd = a_b / sp[0, ix, iy] + b_b
    return 0.5 * (bnd[1:] + bnd[:-1])

  if any(np.any(np.diff(src_centres(ix, iy)) <= 0) for ix in range(X) for iy in range(Y)):
    return Outcome(skipped=True)
  if case['field'] == 'affine':
    f_h = np.stack([a0[..., 0, :, :] + 100 * b0[..., 0, :, :] * np.array([[src_centres(ix, iy)[k] for iy in range(Y)]
                                                                           for ix in range(X)])
                    for k in range(hyb.layers)], axis=-3)
  else:
    f_h = rng.standard_normal(lead + (hyb.layers, X, Y))
  tgt = np.broadcast_to(sg.centers[:, None, None], (n_s, X, Y))
  want_h, near_h = _ref_columns(tgt, src_centres, f_h, 'safe', 1)
  sp2d = sp[0]
  for label, call in (('interp_hybrid_to_sigma', lambda: vi.interp_hybrid_to_sigma({'t': f_h, 's': 0.5}, hyb, sg, sp2d)),
                      ('vertical BilinearRegridder', lambda: {'t': vi.BilinearRegridder(hyb, sg)(f_h, sp2d), 's': 0.5})):
    r = call()
    bad = _cmp_field(out, label, r['t'], want_h, near_h, 41.0 * max(float(np.max(np.abs(f_h))), 1e-300))
    if bad is not None:
      return bad
    if float(r['s']) != 0.5:
      return out.fail(what=label + ' changed a scalar leaf')
  if case['field'] == 'affine':
    truth_h = a0 + 100 * b0 * tgt
    fin = ~np.isnan(want_h) & ~near_h
    if fin.any() and np.max(np.abs(np.asarray(r['t'])[fin] - np.broadcast_to(truth_h, want_h.shape)[fin])) > RTOL * 250:
      return out.fail(what='interp_hybrid_to_sigma does not reproduce a column affine in sigma')
  jax.clear_caches()   # every case has its own static coordinates: do not let compiled programs pile up
  return out


# ----------------------------------------------------------------------------
# surface pressure


@st.composite
def _sp_case(draw):
  n = draw(st.integers(2, 10))
  return {'p0': draw(st.sampled_from([50.0, 100.0, 300.0])),
          'p_gaps': [draw(st.sampled_from([25.0, 50.0, 100.0, 150.0, 200.0])) for _ in range(n - 1)],
          'nx': draw(st.integers(1, 3)), 'ny': draw(st.integers(1, 3)), 'batch': draw(st.sampled_from([0, 0, 2])),
          'profile': draw(st.sampled_from(['affine', 'affine', 'log', 'random_decreasing'])),
          'g': draw(st.sampled_from([9.80665, 1.0, 7.2e-3])), 'oro_range': draw(st.sampled_from([[-50.0, 400.0], [0.0, 0.0], [2000.0, 9000.0], [-3000.0, -500.0]])),
          'seed': draw(st.integers(0, 2 ** 16))}


def run_surface_pressure(case):
  from dinosaur import vertical_interpolation as vi
  rng = np.random.default_rng(case['seed'])
  p = case['p0'] + np.concatenate([[0.0], np.cumsum(case['p_gaps'])])
  pc = vi.PressureCoordinates(p)
  X, Y, B = case['nx'], case['ny'], case['batch']
  lead = (B,) if B else ()
  g = case['g']
  A = rng.uniform(8000.0, 11000.0, size=lead + (1, X, Y)) * g
  Bc = rng.uniform(7.0, 11.0, size=lead + (1, X, Y)) * g
  if case['profile'] == 'affine':
    geo = A - Bc * p[:, None, None]
  elif case['profile'] == 'log':
    geo = -Bc * 700.0 * np.log(p[:, None, None] / 1000.0) + 0.01 * A
  else:
    steps = rng.uniform(0.2, 3.0, size=lead + (len(p), X, Y)) * g * 300
    geo = A - np.cumsum(steps, axis=-3)
  oro = rng.uniform(case['oro_range'][0], case['oro_range'][1] + 1e-9, size=(1, X, Y))
  got = np.asarray(vi.get_surface_pressure(pc, geo, oro, g), dtype=np.float64)
  want = np.zeros(lead + (1, X, Y))
  extrap = 0
  for idx in np.ndindex(*lead):
    for ix in range(X):
      for iy in range(Y):
        rh = g * oro[0, ix, iy] - geo[idx + (slice(None), ix, iy)]   # increasing along the level axis
        assert np.all(np.diff(rh) > 0)
        want[idx + (0, ix, iy)] = interp_ref.interp([0.0], rh, p, 'linear')[0]
        extrap += int(rh[0] > 0 or rh[-1] < 0)
  out = Outcome(labels=[f'profile={case["profile"]}', f'batch={B}', 'extrapolated' if extrap else 'inside_levels',
                        f'oro={int(case["oro_range"][0])}'], nontrivial=(len(p) >= 3), units=X * Y * max(B, 1))
  if got.size != want.size:
    return out.fail(what='get_surface_pressure: wrong number of output values', got=list(got.shape), want=list(want.shape))
  got = got.reshape(want.shape)
  scale = np.max(np.abs(p)) + np.max(np.abs(want))
  err = np.max(np.abs(got - want)) / scale
  if not err <= RTOL:
    return out.fail(what='surface pressure is not the level where geopotential meets g*orography (linear in between, '
                    'linear beyond the end levels)', relerr=float(err), got=got.ravel()[:6], want=want.ravel()[:6])
  if case['profile'] == 'affine':
    exact = (A - g * oro) / Bc
    err = np.max(np.abs(got - exact) / (np.abs(exact) + np.max(p)))
    if not err <= 1e-8:
      return out.fail(what='surface pressure of a geopotential affine in pressure is not the exact intercept',
                      relerr=float(err), got=got.ravel()[:6], want=exact.ravel()[:6])
  return out


# ----------------------------------------------------------------------------
# hybrid coordinates


@st.composite
def _hybrid_case(draw):
  return {'hybrid': {'kind': draw(st.sampled_from(['synthetic', 'synthetic', 'ECMWF137', 'UFS127'])),
                     'layers': draw(st.sampled_from([1, 2, 5, 12, 40])), 'c': draw(st.sampled_from([0.0, 0.1, 0.3])),
                     'power': draw(st.sampled_from([1.0, 2.0, 3.0]))},
          'sp': draw(st.sampled_from([1013.25, 1000.0, 500.0, 1100.0, 713.7])),
          'n_sigma': draw(st.sampled_from([1, 2, 3, 8, 32, 64]))}


def run_hybrid(case):
  from dinosaur import vertical_interpolation as vi
  h = case['hybrid']
  hyb = _hybrid(h)
  sp = case['sp']
  out = Outcome(labels=[f'hybrid={h["kind"]}', f'n_sigma={"1" if case["n_sigma"] == 1 else "2-8" if case["n_sigma"] <= 8 else ">8"}'],
                nontrivial=True, units=3)
  a, b = [float(v) for v in hyb.a_boundaries], [float(v) for v in hyb.b_boundaries]
  L = len(a) - 1
  if h['kind'] == 'ECMWF137' and (L != 137 or a[-1] != 0.0 or b[-1] != 1.0 or b[0] != 0.0):
    return out.fail(what='ECMWF137 table: expected 137 layers ending at the surface (a=0, b=1)', layers=L)
  if h['kind'] == 'UFS127' and (L != 127 or abs(a[-1]) > 1e-9 or b[-1] != 1.0):
    return out.fail(what='UFS127 table: expected 127 layers ending at the surface (a=0, b=1)', layers=L)
  if hyb.layers != L:
    return out.fail(what='HybridCoordinates.layers != number of boundaries - 1')
  bnd = np.asarray(hyb.get_sigma_boundaries(sp), dtype=np.float64)
  want = np.array([ai / sp + bi for ai, bi in zip(a, b)])
  if bnd.shape != want.shape or core.relerr(bnd, want, 1.0) > 1e-14:
    return out.fail(what='get_sigma_boundaries != a/sp + b', got=bnd[:4], want=want[:4])
  # pressure of a boundary is a + b*sp (class docstring)
  if core.relerr(bnd * sp, np.array([ai + bi * sp for ai, bi in zip(a, b)]), sp) > 1e-14:
    return out.fail(what='sigma boundary * sp != a + b*sp')
  cen = np.asarray(hyb.get_sigma_centers(sp), dtype=np.float64)
  wantc = np.array([(want[i] + want[i + 1]) / 2 for i in range(L)])
  if cen.shape != wantc.shape or core.relerr(cen, wantc, 1.0) > 1e-14:
    return out.fail(what='get_sigma_centers are not the midpoints of the boundaries')
  if np.any(cen <= bnd[:-1]) or np.any(cen >= bnd[1:]):
    if np.all(np.diff(want) > 0):
      return out.fail(what='a sigma centre lies outside its layer')
  # to_approx_sigma_coords: valid sigma coordinates with the requested layer count, end points pinned to 0 and 1,
  # interior boundaries = piecewise-linear resampling of the original boundaries over the level index
  n = case['n_sigma']
  if np.all(np.diff(want) > 0):
    sig = hyb.to_approx_sigma_coords(n, surface_pressure=sp)
    sb = np.asarray(sig.boundaries, dtype=np.float64)
    ref = interp_ref.interp(np.linspace(0, 1, n + 1), np.linspace(0, 1, L + 1), want, 'constant') if L >= 1 else None
    if sig.layers != n or sb[0] != 0.0 or sb[-1] != 1.0 or np.any(np.diff(sb) <= 0):
      return out.fail(what='to_approx_sigma_coords: not a valid sigma coordinate with the requested layers',
                      layers=sig.layers, first=sb[0], last=sb[-1])
    if n >= 2 and core.relerr(sb[1:-1], ref[1:-1], 1.0) > 1e-6:   # the routine interpolates in float32 or float64
      return out.fail(what='to_approx_sigma_coords interior boundaries differ from the resampled original boundaries',
                      got=sb[1:-1][:5], want=ref[1:-1][:5])
  return out


# ----------------------------------------------------------------------------
# _vertical_interp (3-D wrapper around interp used by the semi-Lagrangian step)


@st.composite
def _vi3d_case(draw):
  nx, ny = draw(st.sampled_from([[2, 3], [3, 2], [1, 1]]))   # few distinct shapes: every shape is a fresh compile
  return {'nodes': draw(_nodes_of(st.sampled_from([2, 3, 6]))), 'n_target': draw(st.sampled_from([1, 4])), 'nx': nx,
          'ny': ny, 'x3d': draw(st.sampled_from([True, False])), 'xp3d': draw(st.sampled_from([True, False])),
          'shift': draw(st.sampled_from([0.0, 0.2, 0.45])), 'seed': draw(st.integers(0, 2 ** 16))}


def run_vertical_interp_3d(case):
  from dinosaur import primitive_equations as pe
  rng = np.random.default_rng(case['seed'])
  xp1 = _node_values(case['nodes'])
  n, X, Y, T = len(xp1), case['nx'], case['ny'], case['n_target']
  mingap = float(np.min(np.diff(xp1)))
  span = xp1[-1] - xp1[0]
  if case['xp3d']:   # column dependent displacement that keeps every column strictly increasing
    xp = xp1[:, None, None] + case['shift'] * mingap * rng.uniform(-1, 1, size=(n, X, Y))
  else:
    xp = xp1
  x1 = np.sort(rng.uniform(xp1[0] - 0.3 * span, xp1[-1] + 0.3 * span, size=T))
  if T >= 2:
    x1[0] = xp1[0]   # one query exactly on a node
  x = x1[:, None, None] + (0.1 * span * rng.uniform(-1, 1, size=(T, X, Y))) if case['x3d'] else x1
  fp = rng.standard_normal((n, X, Y))
  got = np.asarray(pe._vertical_interp(np.asarray(x), np.asarray(xp), fp))   # pylint: disable=protected-access
  xq = x if case['x3d'] else np.broadcast_to(x1[:, None, None], (T, X, Y))
  want, _ = _ref_columns(np.asarray(xq), (lambda ix, iy: xp[:, ix, iy]) if case['xp3d'] else (lambda ix, iy: xp1), fp,
                         'constant', 1)
  out = Outcome(labels=[f'x={"3d" if case["x3d"] else "1d"}', f'xp={"3d" if case["xp3d"] else "1d"}',
                        f'shift={case["shift"]}'], nontrivial=(X * Y > 1 and (case['x3d'] or case['xp3d'])),
                units=T * X * Y)
  bad = _cmp_field(out, '_vertical_interp', got, want, np.zeros((T, X, Y), dtype=bool), float(np.max(np.abs(fp))))
  if bad is not None:
    return bad
  if got.min() < fp.min(axis=0).min() - TIGHT or np.any(got > fp.max(axis=0)[None] + TIGHT) or np.any(got < fp.min(axis=0)[None] - TIGHT):
    return out.fail(what='_vertical_interp output leaves the range of the source column (constant extrapolation expected)')
  return out


# ----------------------------------------------------------------------------
# semi-Lagrangian vertical advection step: interpolation mechanics only (direction-agnostic, see ASSUMPTIONS)


def _sl_grid(M, dL, spacing, impl, slack, offset):
  L = M + dL
  return {'M': M, 'L': L, 'spacing': spacing, 'impl': impl, 'offset': offset, 'radius': None,
          'nlat': gens.min_lat_nodes(spacing, gens.required_degree('scalar', L)) + slack,
          'nlon': gens.required_lon_nodes('scalar', M) + slack}


# a small pool of resolved grids (scalar round trip exact) and layer counts: the step is executed op by op, so every
# new (grid, layers) shape costs seconds of compilation; the interpolation mechanics do not depend on the grid
_SL_GRIDS = [_sl_grid(2, 1, 'gauss', 'real', 0, 0.0), _sl_grid(3, 1, 'equiangular', 'fast', 1, 0.3),
             _sl_grid(4, 0, 'gauss', 'fast', 2, 0.0), _sl_grid(3, 2, 'gauss', 'real', 1, -1.0)]


@st.composite
def _sl_case(draw):
  g = draw(st.sampled_from(_SL_GRIDS))
  n = draw(st.sampled_from([2, 3, 5]))
  b = draw(gens.sigma_boundaries(n, n))
  return {'grid': g, 'sigma': b, 'div': [draw(st.sampled_from([0.0, 1.0, -1.0, 0.3, 2.0])) for _ in range(n)],
          'zero_velocity': draw(st.sampled_from([False, False, False, True])),
          'frac': draw(st.sampled_from([0.0, 0.1, 0.5, 0.9, -0.5, -0.9])),
          'with_time': draw(st.booleans()), 'tracers': draw(st.sampled_from([0, 1])), 'seed': draw(st.integers(0, 2 ** 16))}


def run_semi_lagrangian(case):
  from dinosaur import coordinate_systems as cs, primitive_equations as pe
  grid = gens.build_grid(case['grid'])
  vert = gens.build_sigma(case['sigma'])
  coords = cs.CoordinateSystem(grid, vert)
  n = vert.layers
  c = np.asarray(vert.centers, dtype=np.float64)
  rng = np.random.default_rng(case['seed'])
  mshape = grid.modal_shape
  _, l = grid.modal_mesh
  band = np.asarray(grid.mask) * (l <= grid.total_wavenumbers - 1)

  def field():
    return rng.standard_normal((n,) + mshape) * band

  div = np.zeros((n,) + mshape)
  d = np.zeros(n) if case['zero_velocity'] else np.asarray(case['div'], dtype=np.float64)
  div[:, 0, 0] = d * np.sqrt(4 * np.pi)       # horizontally uniform divergence in each layer
  const_col = np.broadcast_to((rng.standard_normal(mshape) * band)[None], (n,) + mshape).copy()   # same on all levels
  lsp = np.zeros((1,) + mshape)
  lsp[0, 0, 0] = 0.3                            # uniform log surface pressure: no gradient
  tracers = {f'q{i}': field() for i in range(case['tracers'])}
  tracers['constant_column'] = const_col
  kw = dict(vorticity=field(), divergence=div, temperature_variation=field(), log_surface_pressure=lsp, tracers=tracers)
  state = pe.StateWithTime(sim_time=np.float64(12.5), **kw) if case['with_time'] else pe.State(**kw)
  vel3 = np.asarray(pe.compute_vertical_velocity(state, coords), dtype=np.float64)
  nl, nt = grid.longitude_nodes, grid.latitude_nodes
  v = vel3[:, 0, 0]
  if np.max(np.abs(vel3[:, :nl, :nt] - v[:, None, None])) > 1e-12 * (1 + np.max(np.abs(d))):
    raise AssertionError('generator precondition: velocity is not horizontally uniform')
  vmax = float(np.max(np.abs(v)))
  dv = float(np.max(np.abs(np.diff(v)))) if n > 1 else 0.0
  dt = case['frac'] * (0.5 * float(np.min(np.diff(c))) / dv if dv > 0 else 1.0)
  nodes = c - dt * v
  assert np.all(np.diff(nodes) > 0)
  new = pe.semi_lagrangian_vertical_advection_step(state, coords, dt)
  moved = bool(vmax * abs(dt) > 0)
  out = Outcome(labels=gens.grid_labels(case['grid']) + gens.sigma_labels(case['sigma'])
                + ['velocity=0' if not moved else 'velocity!=0', f'frac={case["frac"]}',
                   'with_time' if case['with_time'] else 'no_time'],
                nontrivial=moved and n >= 3, units=(4 + len(tracers)) * n)
  w = interp_ref.weights(c, nodes, 'constant')   # value at each target level = interpolant through (nodes, old)
  old_leaves = {'vorticity': kw['vorticity'], 'divergence': div, 'temperature_variation': kw['temperature_variation'],
                **{f'tracers.{k}': t for k, t in tracers.items()}}
  new_leaves = {'vorticity': new.vorticity, 'divergence': new.divergence,
                'temperature_variation': new.temperature_variation,
                **{f'tracers.{k}': new.tracers[k] for k in tracers}}
  for k, old in old_leaves.items():
    got = np.asarray(new_leaves[k], dtype=np.float64)
    scale = max(float(np.max(np.abs(old))), 1e-300)
    if got.shape != old.shape:
      return out.fail(what='semi-Lagrangian step changed a leaf shape', leaf=k)
    if not moved:
      if core.relerr(got, old, scale) > 1e-8:
        return out.fail(what='zero vertical velocity is not the identity', leaf=k, relerr=core.relerr(got, old, scale))
      continue
    want = np.einsum('ab,b...->a...', w, old)
    err = core.relerr(got, want, scale)
    if not err <= 1e-8:
      return out.fail(what='step differs from the piecewise-linear interpolant through (target - dt*velocity, old '
                      'values) with constant extrapolation', leaf=k, relerr=err, index=core.argmax_index(got, want),
                      dt=dt, velocity=v, centers=c)
    if k == 'tracers.constant_column' and core.relerr(got, old, scale) > 1e-8:
      return out.fail(what='a vertically constant column does not stay constant (constant extrapolation, no NaN)',
                      relerr=core.relerr(got, old, scale))
    # boundedness in nodal space (the interpolated field is band limited because the weights are horizontally uniform)
    no, nn = np.asarray(grid.to_nodal(old))[:, :nl, :nt], np.asarray(grid.to_nodal(got))[:, :nl, :nt]
    s2 = max(float(np.max(np.abs(no))), 1e-300)
    if np.any(nn > no.max(axis=0)[None] + 1e-8 * s2) or np.any(nn < no.min(axis=0)[None] - 1e-8 * s2) or np.isnan(nn).any():
      return out.fail(what='output leaves the [min, max] range of the input column', leaf=k)
  if not np.array_equal(np.asarray(new.log_surface_pressure), lsp):
    return out.fail(what='surface (single level) leaf changed by the vertical step')
  if case['with_time'] and float(new.sim_time) != 12.5:
    return out.fail(what='sim_time changed by the vertical step')
  return out


# ----------------------------------------------------------------------------
# nearest / bilinear horizontal regridders


@st.composite
def _hgrid(draw):
  return {'nlon': draw(st.integers(2, 14)), 'nlat': draw(st.integers(2, 10)),
          'spacing': draw(st.sampled_from(list(gens.SPACINGS))),
          'offset': draw(st.sampled_from([0.0, 0.0, 0.3, -1.0, 2.5, 7.0]))}


@st.composite
def _hregrid_case(draw):
  s, t = draw(_hgrid()), draw(_hgrid())
  if t == s:     # Hypothesis likes to repeat values: make the pair different by construction (the identity between
    t['nlon'] += 1   # equal grids is checked in every case on the (src, src) pair)
  return {'src': s, 'tgt': t, 'batch': draw(st.sampled_from([0, 0, 2])), 'seed': draw(st.integers(0, 2 ** 16))}


def _hbuild(g):
  from dinosaur import spherical_harmonic as sh
  return sh.Grid(longitude_nodes=g['nlon'], latitude_nodes=g['nlat'], latitude_spacing=g['spacing'],
                 longitude_offset=g['offset'])


def run_hregrid(case):
  from dinosaur import horizontal_interpolation as hi
  s, t = _hbuild(case['src']), _hbuild(case['tgt'])
  rng = np.random.default_rng(case['seed'])
  lead = (case['batch'],) if case['batch'] else ()
  f = rng.standard_normal(lead + s.nodal_shape)
  out = Outcome(labels=[f"src={case['src']['spacing']}", f"tgt={case['tgt']['spacing']}",
                        'offset' if case['src']['offset'] != case['tgt']['offset'] else 'same_offset',
                        'finer' if t.nodal_shape[0] * t.nodal_shape[1] > s.nodal_shape[0] * s.nodal_shape[1] else 'coarser_or_same'],
                nontrivial=(min(s.nodal_shape) >= 3), units=2 * int(np.prod(t.nodal_shape)) + 2 * int(np.prod(s.nodal_shape)))
  slon, slat = np.asarray(s.longitudes, dtype=np.float64), np.asarray(s.latitudes, dtype=np.float64)
  tlon, tlat = np.asarray(t.longitudes, dtype=np.float64), np.asarray(t.latitudes, dtype=np.float64)
  # one batched call per regridder (each call of a new grid pair / shape is a fresh compilation):
  # [random fields..., constant, affine in latitude, affine in longitude]
  a, b = 1.5, -0.7
  f2 = f.reshape((-1,) + s.nodal_shape)
  stack = np.concatenate([f2, np.full((1,) + s.nodal_shape, 2.5), np.broadcast_to(a + b * slat[None, :], (1,) + s.nodal_shape),
                          np.broadcast_to(a + b * slon[:, None], (1,) + s.nodal_shape)], axis=0)
  nf = f2.shape[0]
  res = {}
  for R in (hi.BilinearRegridder, hi.NearestRegridder):
    name = R.__name__
    full = np.asarray(R(s, t)(stack), dtype=np.float64)
    if full.shape != (nf + 3,) + t.nodal_shape:
      return out.fail(what='wrong output shape', regridder=name, got=list(full.shape))
    res[name] = full
    o, cst = full[:nf], full[nf]
    if np.max(np.abs(cst - 2.5)) > 1e-12:
      return out.fail(what='constant field not reproduced', regridder=name, maxdev=float(np.max(np.abs(cst - 2.5))))
    if np.isnan(full).any() or o.max() > f.max() + TIGHT or o.min() < f.min() - TIGHT:
      return out.fail(what='output outside the range of the input', regridder=name)
    for k in range(nf):
      if o[k].max() > f2[k].max() + TIGHT or o[k].min() < f2[k].min() - TIGHT:
        return out.fail(what='output outside the range of the input field', regridder=name, batch_index=k)
    same = np.asarray(R(s, _hbuild(case['src']))(stack), dtype=np.float64)     # equal (not identical) grid objects
    if same.shape != stack.shape or np.isnan(same).any() or np.max(np.abs(same - stack)) > (0.0 if name == 'NearestRegridder' else 1e-12):
      return out.fail(what='regridding between equal grids is not the identity', regridder=name,
                      maxdev=float(np.max(np.abs(same - stack))) if same.shape == stack.shape else 'shape')
  if lead:   # leading batch axes are handled like independent 2-D fields
    ob = np.asarray(hi.NearestRegridder(s, t)(f))
    if ob.shape != lead + t.nodal_shape or not np.array_equal(ob.reshape((-1,) + t.nodal_shape), res['NearestRegridder'][:nf]):
      return out.fail(what='NearestRegridder on a batched field differs from the per-field result')
  # nearest: every output value is the value at a source node of minimal great-circle distance
  o2 = res['NearestRegridder'][:nf]
  for i in range(len(tlon)):
    for j in range(len(tlat)):
      dl = slon[:, None] - tlon[i]
      dist = 2 * np.arcsin(np.sqrt(np.clip(np.sin((slat[None, :] - tlat[j]) / 2) ** 2
                                           + np.cos(slat[None, :]) * np.cos(tlat[j]) * np.sin(dl / 2) ** 2, 0, 1)))
      cand = dist <= dist.min() + 1e-9
      for k in range(nf):
        if not np.any(f2[k][cand] == o2[k, i, j]):
          return out.fail(what='NearestRegridder value is not the value of a nearest source node', target=[i, j],
                          got=o2[k, i, j], nearest_values=f2[k][cand][:4], min_distance=float(dist.min()))
  # history in one process: a twin of the source grid that differs only in its longitude offset (0.6 cell) is
  # regridded to, from and onto itself, then the original pair again -- anything remembered per grid *shape* shows here
  import copy
  tw = copy.deepcopy(case['src'])
  tw['offset'] = float(case['src']['offset'] + 0.6 * 2 * np.pi / case['src']['nlon'])
  s2 = _hbuild(tw)
  s2lon = np.asarray(s2.longitudes, dtype=np.float64)
  for name_, ga, gb, alon, blon in (('src -> shifted twin', s, s2, slon, s2lon), ('shifted twin -> itself', s2, s2, s2lon, s2lon),
                                     ('src -> itself (again)', s, s, slon, slon), ('shifted twin -> src', s2, s, s2lon, slon)):
    o3 = np.asarray(hi.NearestRegridder(ga, gb)(f2), dtype=np.float64)
    for i in range(len(blon)):
      for j in range(len(slat)):
        dl = alon[:, None] - blon[i]
        dist = 2 * np.arcsin(np.sqrt(np.clip(np.sin((slat[None, :] - slat[j]) / 2) ** 2
                                             + np.cos(slat[None, :]) * np.cos(slat[j]) * np.sin(dl / 2) ** 2, 0, 1)))
        cand = dist <= dist.min() + 1e-9
        for k in range(nf):
          if not np.any(f2[k][cand] == o3[k, i, j]):
            return out.fail(what='NearestRegridder (' + name_ + ', same shape and spacing, other longitude offset, same '
                            'process) does not return the value of a nearest source node', target=[i, j],
                            got=o3[k, i, j], nearest_values=f2[k][cand][:4])
  out.units += 4 * int(np.prod(s.nodal_shape))
  # bilinear: exact for a field affine in latitude at target latitudes inside the source latitude range
  oa = res['BilinearRegridder'][nf + 1]
  inside = (tlat >= slat[0]) & (tlat <= slat[-1])
  if inside.any() and np.max(np.abs(oa[:, inside] - (a + b * tlat[inside])[None, :])) > 1e-12:
    return out.fail(what='BilinearRegridder is not exact for a field affine in latitude',
                    maxdev=float(np.max(np.abs(oa[:, inside] - (a + b * tlat[inside])[None, :]))))
  # ... and affine in longitude for target longitudes inside the source longitude range
  ol = res['BilinearRegridder'][nf + 2]
  inl = (tlon >= slon[0]) & (tlon <= slon[-1])
  if inl.any() and np.max(np.abs(ol[inl, :] - (a + b * tlon[inl])[:, None])) > 1e-11 * (1 + abs(slon).max()):
    return out.fail(what='BilinearRegridder is not exact for a field affine in longitude (inside the source range)')
  return out


SUBCHECKS = [
    Subcheck('interp_1d_operator', run_interp1d, strategy=lambda tier: _interp1d_case(),
             examples={'quick': 400, 'thorough': 20000}, shards={'quick': 1, 'thorough': 12}, weight=3,
             rule='non-trivial = >= 3 nodes with uneven spacing (all 7 routines x 64 queries x all unit vectors per case)',
             doc='operator matrices of every 1-D routine vs loop reference; source values, affine exactness, bounds, '
                 'constant / linear / n-cell-then-NaN extrapolation'),
    Subcheck('field_wrappers', run_field, strategy=lambda tier: _field_case(tier),
             examples={'quick': 20, 'thorough': 300}, shards={'quick': 2, 'thorough': 12}, weight=5,
             rule='non-trivial = more than one column and uneven pressure levels',
             doc='interp_pressure_to_sigma / interp_sigma_to_pressure / interp_hybrid_to_sigma / vectorised wrappers == '
                 'per-column loops; affine round trip; untouched leaves'),
    Subcheck('surface_pressure', run_surface_pressure, strategy=lambda tier: _sp_case(),
             examples={'quick': 60, 'thorough': 1500}, shards={'quick': 1, 'thorough': 4},
             rule='non-trivial = >= 3 pressure levels',
             doc='get_surface_pressure = level where geopotential meets g*orography'),
    Subcheck('hybrid_coordinates', run_hybrid, strategy=lambda tier: _hybrid_case(),
             examples={'quick': 50, 'thorough': 600}, shards={'quick': 1, 'thorough': 3},
             rule='every case is non-trivial (bounds, centres, resampled sigma coordinates)',
             doc='HybridCoordinates sigma boundaries / centres / to_approx_sigma_coords incl. ECMWF137 and UFS127'),
    Subcheck('vertical_interp_3d', run_vertical_interp_3d, strategy=lambda tier: _vi3d_case(),
             examples={'quick': 50, 'thorough': 800}, shards={'quick': 1, 'thorough': 4},
             rule='non-trivial = several columns and a column-dependent query or node array',
             doc='primitive_equations._vertical_interp (1-D / 3-D query and node arrays) == per-column constant-extrapolation loop'),
    Subcheck('semi_lagrangian_step', run_semi_lagrangian, strategy=lambda tier: _sl_case(),
             examples={'quick': 24, 'thorough': 400}, shards={'quick': 1, 'thorough': 8}, weight=4,
             rule='non-trivial = non-zero displacement and >= 3 layers',
             doc='zero velocity = identity; constant columns stay constant; range bounded; equals the documented '
                 'piecewise-linear interpolant with constant extrapolation; surface / scalar leaves untouched'),
    Subcheck('horizontal_nearest_bilinear', run_hregrid, strategy=lambda tier: _hregrid_case(),
             examples={'quick': 40, 'thorough': 300}, shards={'quick': 1, 'thorough': 6},
             rule='non-trivial = source grid has at least 3 x 3 nodes (source and target always differ)',
             doc='Nearest/Bilinear regridders: constants, identity on equal grids, range bounded, nearest-by-haversine, '
                 'affine exactness'),
]

# Wall budgets are safety nets only (they truncate, never decide): the machine is shared with other checks, a fresh
# worker needs 10-200 s just to import jax + dinosaur depending on the load. Budgets proper are the example counts.
for _s in SUBCHECKS:
  _s.wall = {'quick': 900.0, 'thorough': 3600.0}
