"""C07 Sharded (model-parallel) execution equals single-device execution.

Every sub-check runs in a worker with 8 virtual CPU devices (VF_DEVICES=8). The oracle is always the
*unsharded* computation: for grid-level operations the same code on the unpadded Fast grid without a mesh
(inputs embedded by zero padding, outputs cropped back), for the direct collectives (`sharded_einsum`,
`cumsum`, `reverse_cumsum`) plain numpy.
"""
from __future__ import annotations

import functools

from hypothesis import strategies as st
import numpy as np

from vf import core, gens
from vf.core import Outcome, Subcheck

ENV = {'VF_DEVICES': '8'}
MESHES = [list(m) for m in gens.all_meshes()]           # (z, x, y), x and y in {1,2,4,6,8}, product <= 8
EVEN_Z_MESHES = [m for m in MESHES if m[0] == 1 or m[0] % 2 == 0]
RT_ALG = 1e-11      # transform-level algebra (measured 3e-15)
RT_STEP = 1e-10     # whole tendencies / steps (measured 9e-16 .. 1e-14)

RULE = ('Hypothesis draws a (z,x,y) device mesh out of all factorisations with x,y in {1,2,4,6,8} and z*x*y <= 8, a Fast '
        'grid (any truncation / node counts / spacing, base_shape_multiple None(=8 under model parallelism) or 1,2,3, '
        'stacking and einsum-order options), level counts (divisible and not divisible by z, uneven sigma levels) and '
        'sparse+dense inputs; the sharded result, cropped, must equal the unsharded computation on the unpadded grid to '
        '1e-11 (algebra) / 1e-10 (tendencies, steps) relative to the largest entry of the reference leaf, every output '
        'must be finite including the padding, and padded modal entries must be exactly 0 for masked outputs. Direct '
        'sharded_einsum / cumsum cases are compared with numpy. Two enumerated sub-checks (transforms_every_mesh: all 28 '
        'factorisations x all unit vectors; step_every_mesh) exhaust the mesh quantifier. distinct = hash of the canonical JSON case; a case is '
        'non-trivial when the mesh has >= 2 devices and (for grid-level checks) the layout is padded.')
ASSUMPTIONS = [
    'mesh axes x and y are 1 or even (contract of the two-way collectives: "axis_size must be 1 or even"); the vertical '
    'matvec families of sharded_einsum reduce over z and are therefore only generated for z in {1,2,4,6,8}',
    'whole tendencies / steps / implicit operators on a mesh with z > 1 need a level count divisible by z (the z-sharded '
    'prefix sum runs inside shard_map, which rejects indivisible axes with a ValueError); Grid-level operations '
    '(to_nodal, to_modal, d_dlon) accept any level count through _with_vertical_padding and are generated with '
    'indivisible counts',
    'longitude_nodes >= longitude_wavenumbers (fourier.real_basis_with_zero_imag raises otherwise); any other node count, '
    'resolved or not, is generated because the sharded/unsharded equality does not depend on quadrature exactness',
    'dynamics are not generated on equiangular_with_poles grids (sec2_lat = inf at the pole nodes, DESIGN 2.1)',
    'sharded_einsum dimensions are multiples of the shard count of the mesh axis they are partitioned over',
    'sharding-constraint helpers: leaves are scalars, uint32 PRNG keys, 2-D, 3-D (identity) or >= 4-D (must raise); '
    '1-D float leaves are outside the documented domain; eager (un-jitted) calls are only generated with divisible shapes',
    'filters are built on grids with total_wavenumbers >= 2 (with a single total wavenumber the normalisation k / k_max of '
    'every filter is 0/0 on any layout, padded or not)',
    'states handed to tendencies / steps have the top total wavenumber clipped and zero padding (admissible model states)',
    'Grid.integrate is compared on nodal fields whose padding is zero (it sums the longitude padding; integrate is not one '
    'of the operations the property lists and synthesised fields always have zero nodal padding); to_modal and '
    'uv_nodal_to_vor_div_modal are additionally fed finite garbage in the nodal padding, which must be ignored',
    'composite operators are fed independent O(1) inputs (no chaining through O(radius^2) intermediates), so that the '
    'largest entry of the reference output is a valid error scale',
]
MANIFEST = {
    'text': ('Exploration-level assurance that every sharded code path (two-way all-gather / reduce-scatter einsums, '
             'parallel prefix sums, sharded stack/unstack and the frequency-offset longitude derivative, vertical '
             'pad/crop, padded masks / clipping / inverse Laplacian, filters on padded wavenumber axes, the sparse '
             'vertical operators selected under z-sharding, whole filtered IMEX steps, sharding-constraint helpers) '
             'returns the single-device values on all 28 (z,x,y) factorisations of up to 8 virtual CPU devices.'),
    'note': ('trusted base: XLA host-platform collectives on virtual CPU devices, numpy einsum/cumsum, and the unsharded '
             'dinosaur code path (itself decided by C01-C03, C05, C09)'),
    'technique': 'differential testing sharded vs unsharded on 8 virtual devices, exhaustive unit vectors for the transforms',
}


# ----------------------------------------------------------------------------
# builders


@functools.lru_cache(maxsize=None)
def _mesh(z, x, y):
  import jax
  n = z * x * y
  devs = jax.devices()
  if len(devs) < n:
    raise RuntimeError(f'{n} devices needed, {len(devs)} present (VF_DEVICES not honoured?)')
  return jax.sharding.Mesh(np.array(devs[:n]).reshape(z, x, y), ('z', 'x', 'y'))


def _ref_cfg(cfg):
  c = dict(cfg)
  c.update(impl='fast', bsm=None, stacked=None, reverse=None, precision=None)
  return c


@functools.lru_cache(maxsize=8)
def _grids_cached(key, mesh_t):
  import json
  cfg = json.loads(key)
  mesh = _mesh(*mesh_t)
  return gens.build_grid(_ref_cfg(cfg), impl='fast'), gens.build_grid(dict(cfg, impl='fast'), mesh=mesh, impl='fast')


def _grids(cfg, mesh_t):
  """(unsharded unpadded reference grid, grid on the mesh)."""
  return _grids_cached(core.canon(cfg), tuple(mesh_t))


def _embed(a, tail):
  a = np.asarray(a)
  if a.ndim < 2:
    return a
  pad = [(0, 0)] * (a.ndim - 2) + [(0, t - s) for t, s in zip(tail, a.shape[-2:])]
  return np.pad(a, pad)


def _crop(a, tail):
  a = np.asarray(a)
  if a.ndim < 2:
    return a
  return a[..., :tail[0], :tail[1]]


def _outside(a, tail):
  """Entries of `a` in the padding region (outside the leading `tail` block of the last two axes)."""
  a = np.asarray(a)
  m = np.ones(a.shape[-2:], bool)
  m[:tail[0], :tail[1]] = False
  return a[..., m]


def _padded(g_ref, g_m):
  return tuple(g_m.modal_shape) != tuple(g_ref.modal_shape) or tuple(g_m.nodal_shape) != tuple(g_ref.nodal_shape)


def _mesh_labels(mesh_t, levels=None):
  z, x, y = mesh_t
  labs = [f'mesh={z}x{x}x{y}', f'devices={z * x * y}']
  labs += [n for n, v in (('z>1', z > 1), ('x>1', x > 1), ('y>1', y > 1)) if v]
  if levels is not None and z > 1:
    labs.append('levels%z!=0' if levels % z else 'levels%z==0')
  return labs


def _layout_labels(cfg, g_ref, g_m):
  return [f"padded={'yes' if _padded(g_ref, g_m) else 'no'}", f"bsm={cfg.get('bsm')}",
          f"stacked={cfg.get('stacked')}", f"reverse={cfg.get('reverse')}", f"spacing={cfg['spacing']}"]


def _maybe_put(a, mesh, put):
  """device_put with the dycore layout when asked for and evenly divisible, else the host array."""
  import jax
  P = jax.sharding.PartitionSpec
  a = np.asarray(a)
  if not put or a.ndim not in (2, 3):
    return a
  if a.ndim == 2:
    spec = P('x', 'y')
  else:
    spec = P(None if a.shape[0] == 1 else 'z', 'x', 'y')
  sizes = [1 if s is None else mesh.shape[s] for s in spec]
  if any(d % k for d, k in zip(a.shape, sizes)):
    return a
  return jax.device_put(a, jax.sharding.NamedSharding(mesh, spec))


def _sharded_call(out, fn, *args, **ctx):
  """Runs the sharded computation; an exception there (the unsharded twin succeeded) is a violation, not a harness error."""
  try:
    return fn(*args), None
  except Exception as e:   # pylint: disable=broad-except
    import traceback
    return None, out.fail(what='sharded computation raised on an input the unsharded computation accepts',
                          error=repr(e)[:600], where=traceback.format_exc(limit=-3)[-600:], **ctx)


class _Cmp:
  """Collects the worst mismatch over many compared leaves."""

  def __init__(self, rtol):
    self.rtol = rtol
    self.worst = None

  def _note(self, sev, **kw):
    if self.worst is None or sev > self.worst[0]:
      self.worst = (sev, kw)

  def values(self, name, got, want, scale=None):
    got, want = np.asarray(got), np.asarray(want)
    if got.shape != want.shape:
      self._note(float('inf'), what='shape mismatch', leaf=name, got_shape=list(got.shape), want_shape=list(want.shape))
      return
    if scale is None:
      scale = float(np.max(np.abs(want))) if want.size else 0.0
    err = core.relerr(got, want, scale)
    if not err <= self.rtol:
      idx = core.argmax_index(got, want)
      self._note(err, what='sharded result differs from the unsharded computation', leaf=name, relerr=err,
                 rtol=self.rtol, scale=scale, index=idx, got=float(got[tuple(idx)]) if got.size else None,
                 want=float(want[tuple(idx)]) if want.size else None)

  def finite(self, name, arr):
    arr = np.asarray(arr)
    if arr.dtype.kind in 'fc' and not np.all(np.isfinite(arr)):
      bad = np.argwhere(~np.isfinite(arr))
      self._note(float('inf'), what='non-finite value in sharded / padded output', leaf=name, n_bad=int(len(bad)),
                 first_index=[int(i) for i in bad[0]], value=repr(arr[tuple(bad[0])]))

  def zero_padding(self, name, arr, tail):
    out = _outside(arr, tail)
    if out.size and np.any(out != 0):
      self._note(float('inf'), what='padded modal entries are not exactly zero', leaf=name,
                 max_abs=float(np.nanmax(np.abs(out))), n_nonzero=int(np.count_nonzero(out)))

  def apply(self, out: Outcome, **ctx):
    if self.worst is not None:
      d = dict(self.worst[1])
      d.update(ctx)
      return out.fail(**d)
    return out


# ----------------------------------------------------------------------------
# generators


def _mesh_st(meshes=None):
  return st.sampled_from(meshes or MESHES)


@st.composite
def _grid_cfg(draw, max_m, dynamics=False, min_m=1, min_l=1):
  M = draw(st.integers(min_m, max_m))
  L = max(M + draw(st.sampled_from([1, 0, 1, 2])), min_l)
  spacing = draw(st.sampled_from(['gauss', 'equiangular'] if dynamics else list(gens.SPACINGS)))
  nlon = draw(st.integers(2 * M if dynamics else M, 3 * M + 3))   # real_basis requires nodes >= wavenumbers
  nlat = draw(st.integers(max(M, 2) if dynamics else (2 if spacing == 'equiangular_with_poles' else 1), 2 * M + 3))
  return {'M': M, 'L': L, 'nlon': nlon, 'nlat': nlat, 'spacing': spacing, 'impl': 'fast',
          'offset': draw(st.sampled_from([0.0, 0.0, 0.3])),
          'radius': None if dynamics else draw(st.sampled_from([None, 2.5, 6.37e6])),
          'bsm': draw(st.sampled_from([1, None, None, 2, 3])),
          'stacked': draw(st.sampled_from([None, True, False])),
          'reverse': draw(st.sampled_from([None, True, False])),
          'precision': draw(st.sampled_from(['tensorfloat32', 'float32']))}


def _input_st(fields, n_levels, cfg, lmax):
  return gens.input_descr(fields, n_levels, cfg['M'], cfg['L'], lmax)


# ----------------------------------------------------------------------------
# 1. transforms and spectral operators on a mesh

_NODAL_OUT = ('to_nodal', 'u', 'v')
_ZERO_PAD = ('to_modal', 'roundtrip', 'laplacian', 'inverse_laplacian', 'clip1', 'clip2', 'd_dlon',
             'cos_lat_grad_x', 'cos_lat_grad_y', 'div_cos_lat', 'curl_cos_lat', 'vor_from_uv', 'div_from_uv')


def _transform_ops(g, uv):
  from dinosaur import spherical_harmonic as sh

  def f(x, x2, nod, nod0, nod2):
    out = {}
    out['to_nodal'] = g.to_nodal(x)
    out['roundtrip'] = g.to_modal(out['to_nodal'])
    out['to_modal'] = g.to_modal(nod)
    out['d_dlon'] = g.d_dlon(x)
    out['cos_lat_d_dlat'] = g.cos_lat_d_dlat(x)
    out['sec_lat_d_dlat_cos2'] = g.sec_lat_d_dlat_cos2(x)
    out['laplacian'] = g.laplacian(x)
    out['inverse_laplacian'] = g.inverse_laplacian(x)
    out['clip1'] = g.clip_wavenumbers(x)
    out['clip2'] = g.clip_wavenumbers(x, 2)
    out['cos_lat_grad_x'], out['cos_lat_grad_y'] = g.cos_lat_grad(x)
    out['div_cos_lat'] = g.div_cos_lat((x, x2))
    out['curl_cos_lat'] = g.curl_cos_lat((x, x2))
    out['integrate'] = g.integrate(nod0)   # zero padding: the longitude padding is summed by integrate (not claimed otherwise)
    if uv:
      out['u'], out['v'] = sh.vor_div_to_uv_nodal(g, x, x2)
      # independent O(1) nodal inputs: chaining through out['u'] (O(radius^2) for a top-wavenumber input) would make the
      # result a small difference of huge intermediates, which no tolerance relative to the output can absorb
      out['vor_from_uv'], out['div_from_uv'] = sh.uv_nodal_to_vor_div_modal(g, nod, nod2)
    return out
  return f


@st.composite
def _transform_case(draw, tier):
  mesh = draw(_mesh_st())
  cfg = draw(_grid_cfg(8 if tier == 'quick' else 16))
  mode = draw(st.sampled_from(['basis', 'dense', 'dense']))
  case = {'mesh': mesh, 'grid': cfg, 'mode': mode, 'put': draw(st.booleans()),
          'nodal_fill': draw(st.sampled_from([0.0, 1.0])), 'seed': draw(st.integers(0, 2 ** 16))}
  if mode == 'dense':
    levels = draw(st.sampled_from([0, 0, 1, 1, 2, 3, 4, 5, 6, 7, 8]))   # 0 = 2-D field without a level axis
    case['levels'] = levels
    case['inputs'] = draw(st.lists(_input_st(['x', 'x2'], max(levels, 1), cfg, cfg['L'] - 1), min_size=1, max_size=2))
  return case


def _every_mesh_cases(tier):
  """Every (z,x,y) factorisation x fixed small grids, all unit vectors: the mesh quantifier is exhausted on each run."""
  grids = [dict(M=3, L=4, nlon=8, nlat=5, spacing='gauss', stacked=None, reverse=None)]
  if tier == 'thorough':
    grids += [dict(M=2, L=4, nlon=5, nlat=4, spacing='equiangular', stacked=True, reverse=False),
              dict(M=5, L=6, nlon=16, nlat=8, spacing='gauss', stacked=False, reverse=True),
              dict(M=8, L=9, nlon=25, nlat=13, spacing='equiangular_with_poles', stacked=None, reverse=None)]
  cases = []
  for gi, g in enumerate(grids):
    for i, mesh in enumerate(MESHES):
      cfg = dict(g, impl='fast', offset=0.0, radius=None, precision='tensorfloat32', bsm=[None, 1, 3][(i + gi) % 3])
      cases.append({'mesh': mesh, 'grid': cfg, 'mode': 'basis', 'put': False, 'nodal_fill': 1.0, 'seed': 100 * gi + i})
  return cases


def _unit_vectors(g_ref):
  idx = np.argwhere(np.asarray(g_ref.mask))
  x = np.zeros((len(idx),) + tuple(g_ref.modal_shape))
  x[np.arange(len(idx)), idx[:, 0], idx[:, 1]] = 1.0
  return x


def run_transforms_f32(case):
  """Single-precision pass: the sub-check owns its worker process, so x64 is switched off for the whole process."""
  import jax
  jax.config.update('jax_enable_x64', False)
  return run_transforms(dict(case, f32=True))


def run_transforms(case):
  import jax
  f32 = bool(case.get('f32'))
  mesh_t, cfg = case['mesh'], case['grid']
  mesh = _mesh(*mesh_t)
  g_ref, g_m = _grids(cfg, mesh_t)
  uv = cfg['spacing'] != 'equiangular_with_poles'
  rng = np.random.default_rng(case['seed'])
  mtail, ntail = tuple(g_ref.modal_shape), tuple(g_ref.nodal_shape)
  batches = []
  if case['mode'] == 'basis':
    x = _unit_vectors(g_ref)
    k = x.shape[0]
    x2 = np.roll(x, 1, axis=0)
    nod = np.zeros((k,) + ntail)
    flat = rng.permutation(ntail[0] * ntail[1])[:k]
    nod.reshape(k, -1)[np.arange(len(flat)), flat] = 1.0
    batches.append((x, x2, nod, np.roll(nod, 1, axis=0)))
    levels = k
  else:
    levels = case['levels']
    prefix = (levels,) if levels else ()
    for d in case['inputs']:
      x = gens.modal_field(g_ref, prefix, d, 'x')
      x2 = gens.modal_field(g_ref, prefix, d, 'x2')
      nod = np.random.default_rng([d.get('noise_seed', 0), 7]).standard_normal(prefix + ntail)
      nod2 = np.random.default_rng([d.get('noise_seed', 0), 8]).standard_normal(prefix + ntail)
      batches.append((x, x2, nod, nod2))
  out = Outcome(units=sum(max(b[0].shape[0] if b[0].ndim == 3 else 1, 1) for b in batches))
  out.labels = (_mesh_labels(mesh_t, levels if levels else None) + _layout_labels(cfg, g_ref, g_m)
                + [f"mode={case['mode']}", 'levels=2D' if not levels else ('levels=1' if levels == 1 else 'levels>1'),
                   f"nodal_fill={'garbage' if case['nodal_fill'] else 'zero'}", f"put={case['put']}",
                   'dtype=float32' if f32 else 'dtype=float64'])
  out.nontrivial = mesh_t[0] * mesh_t[1] * mesh_t[2] >= 2 and _padded(g_ref, g_m)
  f_ref = _transform_ops(g_ref, uv)
  f_m = jax.jit(_transform_ops(g_m, uv))
  cmp = _Cmp(3e-4 if f32 else RT_ALG)
  for x, x2, nod, nod2 in batches:
    if f32:
      x, x2, nod, nod2 = (a.astype(np.float32) for a in (x, x2, nod, nod2))
    want = f_ref(x, x2, nod, nod, nod2)
    nod_m = nod0_m = _embed(nod, g_m.nodal_shape)
    if case['nodal_fill']:
      fill = rng.standard_normal(nod_m.shape) * case['nodal_fill']
      fill[..., :ntail[0], :ntail[1]] = 0.0
      nod_m = (nod_m + fill).astype(nod_m.dtype)
    args = [_maybe_put(a, mesh, case['put'])
            for a in (_embed(x, g_m.modal_shape), _embed(x2, g_m.modal_shape), nod_m, nod0_m,
                      _embed(nod2, g_m.nodal_shape))]
    got, bad = _sharded_call(out, f_m, *args, mesh=mesh_t, modal_shape=list(g_m.modal_shape))
    if bad:
      return bad
    for name, w in want.items():
      gv = np.asarray(got[name])
      cmp.finite(name, gv)
      if name == 'integrate':
        cmp.values(name, gv, w)
        continue
      tail = ntail if name in _NODAL_OUT else mtail
      full = g_m.nodal_shape if name in _NODAL_OUT else g_m.modal_shape
      if tuple(gv.shape[-2:]) != tuple(full):
        cmp._note(float('inf'), what='unexpected output shape', leaf=name, got_shape=list(gv.shape))
        continue
      cmp.values(name, _crop(gv, tail), w)
      if name in _ZERO_PAD:
        cmp.zero_padding(name, gv, tail)
  return cmp.apply(out, mesh=mesh_t, modal_shape=list(g_m.modal_shape), nodal_shape=list(g_m.nodal_shape))


# ----------------------------------------------------------------------------
# 2. cumulative sums on every axis and sharding

_SPEC_ENTRIES = [None, 'z', 'x', 'y', ['x', 'z']]


@st.composite
def _cumsum_case(draw, tier):
  mesh = draw(_mesh_st())
  ndim = draw(st.integers(1, 3))
  spec, used = [], set()
  for _ in range(ndim):
    cand = [e for e in _SPEC_ENTRIES if e is None or not (set([e] if isinstance(e, str) else e) & used)]
    e = draw(st.sampled_from(cand))
    spec.append(e)
    if e is not None:
      used |= set([e] if isinstance(e, str) else e)
  axis = draw(st.integers(-ndim, ndim - 1))
  return {'mesh': mesh, 'spec': spec, 'mult': [draw(st.integers(1, 3)) for _ in range(ndim)], 'axis': axis,
          'reverse': draw(st.booleans()), 'put': draw(st.booleans()), 'seed': draw(st.integers(0, 2 ** 16)),
          'dtype': draw(st.sampled_from(['float64', 'float64', 'float32']))}


def _shards(mesh_t, entry):
  sizes = dict(zip('zxy', mesh_t))
  if entry is None:
    return 1
  if isinstance(entry, str):
    return sizes[entry]
  return int(np.prod([sizes[e] for e in entry]))


def run_cumsum(case):
  import jax
  from dinosaur import jax_numpy_utils as jnu
  mesh_t = case['mesh']
  mesh = _mesh(*mesh_t)
  spec = [tuple(e) if isinstance(e, list) else e for e in case['spec']]
  shape = [m * _shards(mesh_t, e) for m, e in zip(case['mult'], case['spec'])]
  axis = case['axis']
  x = np.random.default_rng(case['seed']).standard_normal(shape).astype(case['dtype'])
  sharding = jax.sharding.NamedSharding(mesh, jax.sharding.PartitionSpec(*spec))
  n_sh = _shards(mesh_t, case['spec'][axis])
  out = Outcome(units=1, nontrivial=n_sh >= 2)
  out.labels = _mesh_labels(mesh_t) + [
      f'summed_axis_shards={n_sh if n_sh < 3 else ">=3"}', f'ndim={len(shape)}',
      'summed_axis=leading' if axis % len(shape) == 0 else 'summed_axis=not-leading',
      'reverse' if case['reverse'] else 'forward', f"dtype={case['dtype']}",
      'tuple-axis-name' if isinstance(case['spec'][axis], list) else 'plain-axis-name']
  xin = jax.device_put(x, sharding) if case['put'] else x
  fn = jnu.reverse_cumsum if case['reverse'] else jnu.cumsum
  got, bad = _sharded_call(out, lambda: np.asarray(fn(xin, axis, method='dot', sharding=sharding)),
                           mesh=mesh_t, shape=shape, spec=case['spec'], axis=axis)
  if bad:
    return bad
  x64 = x.astype(np.float64)
  want = np.flip(np.cumsum(np.flip(x64, axis), axis), axis) if case['reverse'] else np.cumsum(x64, axis)
  scale = float(np.max(np.sum(np.abs(x64), axis=axis))) if x.size else 0.0
  cmp = _Cmp(RT_ALG if case['dtype'] == 'float64' else 3e-6)
  cmp.finite('cumsum', got)
  cmp.values('cumsum', got, want, scale)
  return cmp.apply(out, mesh=mesh_t, shape=shape, spec=case['spec'], axis=axis, reverse=case['reverse'])


# ----------------------------------------------------------------------------
# 3. sharded_einsum pattern families

# name -> (subscripts, rhs_spec, out_spec, mesh axes)
_FAMILIES = {
    'inv_legendre': ('mjl,zsml->zsmj', ('z', None, 'x', 'y'), ('z', None, 'x', 'y')),
    'inv_fourier_stacked': ('ism,zsmj->zij', ('z', None, 'x', 'y'), ('z', 'x', 'y')),
    'inv_fourier': ('im,zmj->zij', ('z', 'x', 'y'), ('z', 'x', 'y')),
    'fwd_fourier_stacked': ('ism,zij->zsmj', ('z', 'x', 'y'), ('z', None, 'x', 'y')),
    'fwd_fourier': ('im,zij->zmj', ('z', 'x', 'y'), ('z', 'x', 'y')),
    'fwd_legendre': ('mjl,zsmj->zsml', ('z', None, 'x', 'y'), ('z', None, 'x', 'y')),
    'inv_legendre_2d': ('mjl,sml->smj', (None, 'x', 'y'), (None, 'x', 'y')),
    'inv_fourier_stacked_2d': ('ism,smj->ij', (None, 'x', 'y'), ('x', 'y')),
    'fwd_fourier_2d': ('im,ij->mj', ('x', 'y'), ('x', 'y')),
    'fwd_legendre_surface': ('mjl,zsmj->zsml', (None, None, 'x', 'y'), (None, None, 'x', 'y')),
    'vertical_matvec': ('gh,hml->gml', ('z', 'x', 'y'), ('z', 'x', 'y')),
    'vertical_matvec_per_wavenumber': ('lgh,hml->gml', ('z', 'x', 'y'), ('z', 'x', 'y')),
    'matmul_xy': ('ij,jk->ik', ('x', 'y'), ('x', 'y')),
}
_VERTICAL = ('vertical_matvec', 'vertical_matvec_per_wavenumber')


@st.composite
def _einsum_case(draw, tier):
  fam = draw(st.sampled_from(sorted(_FAMILIES)))
  mesh = draw(_mesh_st(EVEN_Z_MESHES if fam in _VERTICAL else MESHES))
  letters = sorted(set(_FAMILIES[fam][0]) - set(',->'))
  return {'family': fam, 'mesh': mesh, 'mult': {c: draw(st.integers(1, 3)) for c in letters},
          'gather': draw(st.sampled_from([None, True, False])), 'reverse': draw(st.booleans()),
          'lhs_jax': draw(st.booleans()), 'put': draw(st.booleans()), 'seed': draw(st.integers(0, 2 ** 16))}


def run_einsum(case):
  import jax
  import jax.numpy as jnp
  from dinosaur import jax_numpy_utils as jnu
  P = jax.sharding.PartitionSpec
  fam, mesh_t = case['family'], case['mesh']
  subs, rhs_spec, out_spec = _FAMILIES[fam]
  ins, outs = subs.split('->')
  lhs_s, rhs_s = ins.split(',')
  mesh = _mesh(*mesh_t)
  size = {}
  for c in set(lhs_s + rhs_s):
    k = 1
    if c in rhs_s:
      k = max(k, _shards(mesh_t, rhs_spec[rhs_s.index(c)]))
    if c in outs:
      k = max(k, _shards(mesh_t, out_spec[outs.index(c)]))
    size[c] = case['mult'][c] * k
  if fam == 'fwd_legendre_surface':
    size['z'] = 1
  rng = np.random.default_rng(case['seed'])
  lhs = rng.standard_normal([size[c] for c in lhs_s])
  rhs = rng.standard_normal([size[c] for c in rhs_s])
  want = np.einsum(subs, lhs, rhs)
  scale = float(np.max(np.einsum(subs, np.abs(lhs), np.abs(rhs))))
  reduce_axes = [rhs_spec[rhs_s.index(c)] for c in lhs_s if c not in outs and c in rhs_s and rhs_spec[rhs_s.index(c)]]
  n_red = _shards(mesh_t, reduce_axes[0]) if reduce_axes else 1
  out = Outcome(units=1, nontrivial=n_red >= 2)
  out.labels = _mesh_labels(mesh_t) + [f'family={fam}', f"gather={case['gather']}", f"reverse_arg_order={case['reverse']}",
                                       f'reduce_axis_shards={n_red}', f"lhs={'jax' if case['lhs_jax'] else 'numpy'}"]
  rhs_in = jax.device_put(rhs, jax.sharding.NamedSharding(mesh, P(*rhs_spec))) if case['put'] else rhs
  got, bad = _sharded_call(
      out, lambda: np.asarray(jnu.sharded_einsum(
          subs, jnp.asarray(lhs) if case['lhs_jax'] else lhs, rhs_in, mesh=mesh, rhs_spec=P(*rhs_spec),
          out_spec=P(*out_spec), gather_inputs=case['gather'], reverse_arg_order=case['reverse'])),
      mesh=mesh_t, subscripts=subs, lhs_shape=list(lhs.shape), rhs_shape=list(rhs.shape), gather=case['gather'])
  if bad:
    return bad
  cmp = _Cmp(RT_ALG)
  cmp.finite(fam, got)
  cmp.values(fam, got, want, scale)
  return cmp.apply(out, mesh=mesh_t, subscripts=subs, lhs_shape=list(lhs.shape), rhs_shape=list(rhs.shape),
                   gather=case['gather'], reverse=case['reverse'])


# ----------------------------------------------------------------------------
# 4. filters built on padded wavenumber axes

_FILTER_KINDS = ('exponential_filter', 'horizontal_diffusion_filter', 'exponential_step_filter',
                 'exponential_leapfrog_step_filter', 'horizontal_diffusion_step_filter')


@st.composite
def _filter_spec(draw):
  kind = draw(st.sampled_from(_FILTER_KINDS))
  p = {'kind': kind}
  if kind == 'exponential_filter':
    p.update(attenuation=draw(st.sampled_from([16.0, 0.5, 3.0, 40.0])), order=draw(st.sampled_from([18, 1, 2, 6])),
             cutoff=draw(st.sampled_from([0.0, 0.3, 0.6])))
  elif kind == 'horizontal_diffusion_filter':
    p.update(rel_scale=draw(st.sampled_from([1.0, 0.01, 10.0])), order=draw(st.sampled_from([1, 2, 3])))
  elif kind in ('exponential_step_filter', 'exponential_leapfrog_step_filter'):
    p.update(dt=draw(st.sampled_from([0.01, 0.1, 1e-3])), tau=draw(st.sampled_from([0.010938, 0.1, 1.0])),
             order=draw(st.sampled_from([18, 1, 3])), cutoff=draw(st.sampled_from([0.0, 0.4])))
  else:
    p.update(dt=draw(st.sampled_from([0.01, 0.1, 1.0])), tau=draw(st.sampled_from([0.1, 1.0, 0.01])),
             order=draw(st.sampled_from([1, 2, 3])))
  return p


def _make_filter(spec, grid):
  """Returns fn(state) -> filtered state (step filters are applied as filter(u, u_next) with u = u_next)."""
  from dinosaur import filtering, time_integration as ti
  k = spec['kind']
  if k == 'exponential_filter':
    return filtering.exponential_filter(grid, spec['attenuation'], spec['order'], spec['cutoff'])
  if k == 'horizontal_diffusion_filter':
    lam = float(np.max(np.abs(grid.laplacian_eigenvalues[:grid.total_wavenumbers])))
    scale = spec['rel_scale'] / max(lam, 1e-30) ** spec['order']
    return filtering.horizontal_diffusion_filter(grid, scale, spec['order'])
  if k == 'exponential_step_filter':
    f = ti.exponential_step_filter(grid, spec['dt'], spec['tau'], spec['order'], spec['cutoff'])
    return lambda s: f(s, s)
  if k == 'exponential_leapfrog_step_filter':
    f = ti.exponential_leapfrog_step_filter(grid, spec['dt'], spec['tau'], spec['order'], spec['cutoff'])
    return lambda s: f((s, s), (s, s))
  f = ti.horizontal_diffusion_step_filter(grid, spec['dt'], spec['tau'], spec['order'])
  return lambda s: f(s, s)


@st.composite
def _filter_case(draw, tier):
  mesh = draw(_mesh_st())
  cfg = draw(_grid_cfg(8 if tier == 'quick' else 21, min_l=2))
  levels = draw(st.integers(1, 6))
  return {'mesh': mesh, 'grid': cfg, 'levels': levels, 'filters': draw(st.lists(_filter_spec(), min_size=1, max_size=3)),
          'input': draw(_input_st(['a', 'b', 'c'], levels, cfg, cfg['L'] - 1)), 'put': draw(st.booleans())}


def run_filters(case):
  import jax
  mesh_t, cfg = case['mesh'], case['grid']
  mesh = _mesh(*mesh_t)
  g_ref, g_m = _grids(cfg, mesh_t)
  n = case['levels']
  d = case['input']
  state = {'a': gens.modal_field(g_ref, (n,), d, 'a'), 'b': gens.modal_field(g_ref, (1,), d, 'b'),
           'c': gens.modal_field(g_ref, (), d, 'c'), 'sim_time': 1.25}
  if not any(np.any(v) for v in state.values() if np.ndim(v)):
    state['a'] = state['a'] + np.asarray(g_ref.mask, float)
  out = Outcome(units=len(case['filters']))
  out.labels = (_mesh_labels(mesh_t) + _layout_labels(cfg, g_ref, g_m) + [f"filter={f['kind']}" for f in case['filters']])
  out.nontrivial = _padded(g_ref, g_m)
  mtail = tuple(g_ref.modal_shape)
  state_m = {k: _maybe_put(_embed(v, g_m.modal_shape), mesh, case['put']) if np.ndim(v) else v for k, v in state.items()}
  ones_m = {k: np.ones_like(np.asarray(v)) if np.ndim(v) else v for k, v in state_m.items()}
  cmp = _Cmp(RT_ALG)
  for spec in case['filters']:
    want = _make_filter(spec, g_ref)(state)
    f_m = jax.jit(_make_filter(spec, g_m))
    res, bad = _sharded_call(out, lambda: (f_m(state_m), f_m(ones_m)), mesh=mesh_t, filter=spec)
    if bad:
      return bad
    got, got1 = res
    lw, lg, l1 = (jax.tree_util.tree_leaves(t) for t in (want, got, got1))
    names = [jax.tree_util.keystr(p) for p, _ in jax.tree_util.tree_flatten_with_path(want)[0]]
    if len(lw) != len(lg):
      return out.fail(what='filter changed the tree structure', filter=spec)
    for name, w, g, o in zip(names, lw, lg, l1):
      name = f"{spec['kind']}{name}"
      cmp.finite(name, g)
      cmp.finite(name + ' (all-ones input incl. padding)', o)
      if np.ndim(w) < 2:
        cmp.values(name, g, w)
        continue
      cmp.values(name, _crop(g, mtail), w, scale=float(np.max(np.abs(w))) or 1.0)
      cmp.zero_padding(name, g, mtail)
  return cmp.apply(out, mesh=mesh_t, modal_shape=list(g_m.modal_shape), filters=case['filters'])


# ----------------------------------------------------------------------------
# shared model-level builders (tendencies, steps)

_EQ_TRACERS = {'dry': (), 'dry_time': ('tracer_a',), 'moist': ('specific_humidity',),
               'cloud': ('specific_humidity', 'specific_cloud_liquid_water_content', 'specific_cloud_ice_water_content')}


@st.composite
def _levels_st(draw, z, max_k=2):
  """Sigma boundaries with a layer count that is a multiple of z (>= 2 layers), mostly uneven."""
  k = draw(st.integers(1, max_k))
  n = z * k
  if n == 1:
    n = draw(st.sampled_from([2, 3, 4]))
  elif z == 1:
    n = draw(st.sampled_from([2, 3, 4, 5, 6]))
  b = draw(gens.sigma_boundaries(min_layers=n, max_layers=n, kinds=('equidistant', 'uneven', 'uneven', 'hybrid')))
  return b


@st.composite
def _model_cfg(draw, tier, eqs):
  mesh = draw(_mesh_st())
  cfg = draw(_grid_cfg(5 if tier == 'quick' else 8, dynamics=True, min_m=2))
  sigma = draw(_levels_st(mesh[0], 2 if tier == 'quick' else 3))
  n = len(sigma) - 1
  tkind = draw(st.sampled_from(['const', 'linear', 'random']))
  if tkind == 'const':
    t_ref = [288.0] * n
  elif tkind == 'linear':
    t_ref = [float(v) for v in np.linspace(210.0, 300.0, n)]
  else:
    t_ref = [float(draw(st.integers(150, 350))) for _ in range(n)]
  return {'mesh': mesh, 'grid': cfg, 'sigma': sigma, 'eq': draw(st.sampled_from(eqs)), 't_ref': t_ref,
          'oro_amp': draw(st.sampled_from([0.0, 0.05])), 'vmm': draw(st.sampled_from([None, None, 'dense', 'sparse'])),
          'put': draw(st.booleans())}


def _model_pair(case):
  """Builds (coords_ref, eq_ref, coords_m, eq_m)."""
  from dinosaur import coordinate_systems as cs, primitive_equations as pe
  mesh_t, cfg = case['mesh'], case['grid']
  mesh = _mesh(*mesh_t)
  g_ref, g_m0 = _grids(cfg, mesh_t)
  vert = gens.build_sigma(case['sigma'])
  c_ref = cs.CoordinateSystem(g_ref, vert)
  c_m = cs.CoordinateSystem(g_m0, vert, spmd_mesh=mesh)
  specs = pe.PrimitiveEquationsSpecs.from_si()
  oro = gens.modal_field(g_ref, (), {'sparse': [], 'noise_amp': case['oro_amp'], 'noise_seed': 11, 'slope': 1},
                         'orography', lmax=cfg['L'] - 2)
  cls = {'dry': pe.PrimitiveEquations, 'dry_time': pe.PrimitiveEquationsWithTime, 'moist': pe.MoistPrimitiveEquations,
         'cloud': pe.MoistPrimitiveEquationsWithCloudMoisture}[case['eq']]
  t_ref = np.asarray(case['t_ref'], float)
  eq_ref = cls(t_ref, oro, c_ref, specs, vertical_matmul_method=case['vmm'])
  eq_m = cls(t_ref, _embed(oro, c_m.horizontal.modal_shape), c_m, specs, vertical_matmul_method=case['vmm'])
  return c_ref, eq_ref, c_m, eq_m


_AMPS = {'vorticity': 1e-2, 'divergence': 1e-2, 'temperature_variation': 5.0, 'log_surface_pressure': 0.05}
_STATE_FIELDS = ('vorticity', 'divergence', 'temperature_variation', 'log_surface_pressure', 'q')


def _state(case, c_ref, descr):
  from dinosaur import primitive_equations as pe
  g = c_ref.horizontal
  n = c_ref.vertical.layers
  lmax = g.total_wavenumbers - 2
  kw = {}
  for f, amp in _AMPS.items():
    pre = (1,) if f == 'log_surface_pressure' else (n,)
    kw[f] = gens.modal_field(g, pre, descr, f, lmax=lmax, zero_mean=f in ('vorticity', 'divergence'), amp=amp)
  tracers = {}
  for i, name in enumerate(_EQ_TRACERS[case['eq']]):   # sparse entries named 'q' go to the first tracer
    tracers[name] = gens.modal_field(g, (n,), descr, 'q' if i == 0 else f'q{i}', lmax=lmax, amp=1e-2 if i == 0 else 1e-3)
  if case['eq'] == 'dry':
    return pe.State(**kw, tracers=tracers)
  return pe.StateWithTime(**kw, sim_time=0.5, tracers=tracers)


def _embed_tree(tree, tail, mesh=None, put=False):
  import jax
  return jax.tree_util.tree_map(
      lambda a: (_maybe_put(_embed(a, tail), mesh, put) if np.ndim(a) >= 2 else a), tree)


def _leaf_scale(name, want):
  """Largest entry of the reference leaf, floored by 1e-3 x the generated amplitude of that field.

  A leaf that is zero up to rounding in the reference (e.g. the vorticity after a step from a state without
  vorticity: 3e-17) would otherwise be compared relative to its own rounding noise.
  """
  floor = 0.0
  for key, amp in (('vorticity', 1e-2), ('divergence', 1e-2), ('temperature', 5.0), ('log_surface_pressure', 0.05),
                   ('tracers', 1e-3), ('sim_time', 1.0)):
    if key in name:
      floor = 1e-3 * amp
  w = np.asarray(want)
  return max(float(np.max(np.abs(w))) if w.size else 0.0, floor)


def _named_leaves(tree, prefix=''):
  """(name, leaf) pairs with field names (tree_math structs only give flat indices through jax key paths)."""
  if hasattr(tree, 'asdict'):
    tree = tree.asdict()
  if isinstance(tree, dict):
    out = []
    for k, v in tree.items():
      out += _named_leaves(v, f'{prefix}.{k}')
    return out
  if isinstance(tree, (tuple, list)):
    out = []
    for i, v in enumerate(tree):
      out += _named_leaves(v, f'{prefix}[{i}]')
    return out
  return [(prefix, tree)]


def _compare_trees(cmp, tag, got, want, mtail, zero_pad=True):
  lw, lg = _named_leaves(want, tag), _named_leaves(got, tag)
  if [n for n, _ in lw] != [n for n, _ in lg]:
    cmp._note(float('inf'), what='tree structure differs', leaf=tag, got=[n for n, _ in lg], want=[n for n, _ in lw])
    return
  for (name, w), (_, g) in zip(lw, lg):
    g = np.asarray(g)
    cmp.finite(name, g)
    if np.ndim(w) < 2:
      cmp.values(name, g, np.asarray(w), _leaf_scale(name, w))
      continue
    cmp.values(name, _crop(g, mtail), np.asarray(w), _leaf_scale(name, w))
    if zero_pad:
      cmp.zero_padding(name, g, mtail)


def _model_labels(case, c_ref, c_m):
  z = case['mesh'][0]
  labs = (_mesh_labels(case['mesh'], c_ref.vertical.layers) + _layout_labels(case['grid'], c_ref.horizontal, c_m.horizontal)
          + gens.sigma_labels(case['sigma']) + [f"eq={case['eq']}", f"vertical_matmul_method={case['vmm']}",
                                                f"put={case['put']}"])
  uneven = 'levels=uneven' in labs
  if z > 1 and uneven and c_ref.vertical.layers >= 3:
    labs.append('z>1&uneven-levels(>=3)')
  return labs


# ----------------------------------------------------------------------------
# 5. explicit / implicit tendencies and the implicit inverse (all methods)


@st.composite
def _tendency_case(draw, tier):
  case = draw(_model_cfg(tier, ['dry', 'dry', 'moist', 'dry_time', 'cloud']))
  n = len(case['sigma']) - 1
  case['eta'] = draw(st.sampled_from([0.01, 0.1, 1.0, -0.05]))
  case['inputs'] = draw(st.lists(_input_st(_STATE_FIELDS, n, case['grid'], case['grid']['L'] - 2), min_size=1, max_size=2))
  return case


def _tendency_fns(eq, eta, methods):
  def f(state):
    out = {'explicit_terms': eq.explicit_terms(state), 'implicit_terms': eq.implicit_terms(state)}
    for m in methods:
      if m is None:
        out['implicit_inverse'] = eq.implicit_inverse(state, eta)
      else:
        out[f'implicit_inverse[{m}]'] = eq.implicit_inverse(state, eta, method=m)
    return out
  return f


def run_tendencies(case):
  import jax
  c_ref, eq_ref, c_m, eq_m = _model_pair(case)
  mesh = _mesh(*case['mesh'])
  methods = ('split', 'stacked', 'blockwise') if case['eq'] == 'dry' else (None,)
  out = Outcome(units=len(case['inputs']) * (2 + len(methods)))
  out.labels = _model_labels(case, c_ref, c_m)
  out.nontrivial = int(np.prod(case['mesh'])) >= 2 and _padded(c_ref.horizontal, c_m.horizontal)
  f_ref = jax.jit(_tendency_fns(eq_ref, case['eta'], methods))
  f_m = jax.jit(_tendency_fns(eq_m, case['eta'], methods))
  mtail = tuple(c_ref.horizontal.modal_shape)
  cmp = _Cmp(RT_STEP)
  for d in case['inputs']:
    s = _state(case, c_ref, d)
    want = f_ref(s)
    got, bad = _sharded_call(out, f_m, _embed_tree(s, c_m.horizontal.modal_shape, mesh, case['put']),
                             mesh=case['mesh'], sigma=case['sigma'], eq=case['eq'])
    if bad:
      return bad
    for k in want:
      _compare_trees(cmp, k, got[k], want[k], mtail)
  return cmp.apply(out, mesh=case['mesh'], sigma=case['sigma'], eq=case['eq'], modal_shape=list(c_m.horizontal.modal_shape))


# ----------------------------------------------------------------------------
# 6. whole filtered model steps

_INTEGRATORS = ('imex_rk_sil3', 'crank_nicolson_rk2', 'crank_nicolson_rk3', 'crank_nicolson_rk4', 'backward_forward_euler',
                'semi_implicit_leapfrog')


@st.composite
def _step_case(draw, tier):
  case = draw(_model_cfg(tier, ['moist', 'dry', 'dry_time'] + (['cloud'] if tier == 'thorough' else [])))
  n = len(case['sigma']) - 1
  case['integrator'] = draw(st.sampled_from(list(_INTEGRATORS[:3]) + list(_INTEGRATORS)))
  case['dt'] = draw(st.sampled_from([0.01, 0.05, 0.002]))
  kinds = ['exponential_step_filter', 'horizontal_diffusion_step_filter']
  fl = []
  for k in draw(st.lists(st.sampled_from(kinds), min_size=0, max_size=2, unique=True)):
    if k == 'exponential_step_filter':
      fl.append({'kind': k, 'dt': case['dt'], 'tau': draw(st.sampled_from([0.010938, 0.1])),
                 'order': draw(st.sampled_from([18, 2])), 'cutoff': draw(st.sampled_from([0.0, 0.4]))})
    else:
      fl.append({'kind': k, 'dt': case['dt'], 'tau': draw(st.sampled_from([0.1, 1.0])), 'order': draw(st.sampled_from([1, 2]))})
  case['filters'] = fl
  case['robert_asselin'] = draw(st.sampled_from([0.0, 0.05]))
  case['steps'] = draw(st.sampled_from([1, 1, 2]))
  case['inputs'] = draw(st.lists(_input_st(_STATE_FIELDS, n, case['grid'], case['grid']['L'] - 2), min_size=1, max_size=2))
  return case


def _step_fn(case, eq, grid):
  from dinosaur import time_integration as ti
  name, dt = case['integrator'], case['dt']
  leap = name == 'semi_implicit_leapfrog'
  step = getattr(ti, name)(eq, dt)
  filters = []
  for f in case['filters']:
    if f['kind'] == 'exponential_step_filter':
      mk = ti.exponential_leapfrog_step_filter if leap else ti.exponential_step_filter
      filters.append(mk(grid, f['dt'], f['tau'], f['order'], f['cutoff']))
    else:
      base = ti.horizontal_diffusion_step_filter(grid, f['dt'], f['tau'], f['order'])
      if leap:   # apply the state filter to the `future` slice only, like leapfrog_step_filter does
        filters.append(lambda u, u_next, base=base: (u_next[0], base(u[1], u_next[1])))
      else:
        filters.append(base)
  if leap and case.get('robert_asselin'):
    filters.append(ti.robert_asselin_leapfrog_filter(case['robert_asselin']))
  fn = ti.step_with_filters(step, filters)
  return ti.repeated(fn, case['steps']) if case['steps'] > 1 else fn


def run_step(case):
  import jax
  c_ref, eq_ref, c_m, eq_m = _model_pair(case)
  mesh = _mesh(*case['mesh'])
  leap = case['integrator'] == 'semi_implicit_leapfrog'
  out = Outcome(units=len(case['inputs']))
  out.labels = (_model_labels(case, c_ref, c_m) + [f"integrator={case['integrator']}", f"steps={case['steps']}"]
                + [f"filter={f['kind']}" for f in case['filters']] + (['filter=none'] if not case['filters'] else []))
  out.nontrivial = int(np.prod(case['mesh'])) >= 2 and _padded(c_ref.horizontal, c_m.horizontal)
  f_ref = jax.jit(_step_fn(case, eq_ref, c_ref.horizontal))
  f_m = jax.jit(_step_fn(case, eq_m, c_m.horizontal))
  mtail = tuple(c_ref.horizontal.modal_shape)
  cmp = _Cmp(RT_STEP)
  for d in case['inputs']:
    s = _state(case, c_ref, d)
    if leap:
      s_prev = _state(case, c_ref, dict(d, noise_seed=int(d.get('noise_seed', 0)) + 1))
      s = (s_prev, s)
    want = f_ref(s)
    got, bad = _sharded_call(out, f_m, _embed_tree(s, c_m.horizontal.modal_shape, mesh, case['put']),
                             mesh=case['mesh'], sigma=case['sigma'], eq=case['eq'], integrator=case['integrator'])
    if bad:
      return bad
    _compare_trees(cmp, 'state', got, want, mtail)
  return cmp.apply(out, mesh=case['mesh'], sigma=case['sigma'], eq=case['eq'], integrator=case['integrator'],
                   modal_shape=list(c_m.horizontal.modal_shape))


_QUICK_STEP_MESHES = [[2, 2, 2], [8, 1, 1], [1, 8, 1], [1, 1, 8], [3, 2, 1], [4, 1, 2]]


def _every_mesh_step_cases(tier):
  """Fixed small uneven-level configurations on an enumerated list of meshes (thorough: every factorisation, twice)."""
  meshes = _QUICK_STEP_MESHES if tier == 'quick' else MESHES + MESHES
  variants = [('moist', 'imex_rk_sil3', [{'kind': 'exponential_step_filter', 'dt': 0.01, 'tau': 0.010938, 'order': 18, 'cutoff': 0.0}]),
              ('dry', 'crank_nicolson_rk3', [{'kind': 'horizontal_diffusion_step_filter', 'dt': 0.01, 'tau': 0.1, 'order': 2}]),
              ('dry_time', 'semi_implicit_leapfrog', [{'kind': 'exponential_step_filter', 'dt': 0.01, 'tau': 0.1, 'order': 2, 'cutoff': 0.4}])]
  cases = []
  for i, mesh in enumerate(meshes):
    z = mesh[0]
    n = z * 2 if z <= 3 else z
    n = max(n, 3)
    sigma = [round(float((k / n) ** 1.5), 6) for k in range(n + 1)]
    second = i >= len(MESHES)
    eq, integ, filters = variants[(i + (1 if second else 0)) % 3 if tier != 'quick' else i % 3]
    grid = dict(M=4 if second else 3, L=5 if second else 4, nlon=13 if second else 10, nlat=7 if second else 5,
                spacing='equiangular' if second else 'gauss', impl='fast', offset=0.0, radius=None,
                bsm=2 if second else None, stacked=None, reverse=None, precision='tensorfloat32')
    cases.append({'mesh': mesh, 'grid': grid, 'sigma': sigma, 'eq': eq,
                  't_ref': [float(v) for v in np.linspace(215.0, 295.0, n)], 'oro_amp': 0.05, 'vmm': None, 'put': False,
                  'integrator': integ, 'dt': 0.01, 'filters': filters, 'robert_asselin': 0.05, 'steps': 1,
                  'inputs': [{'sparse': [], 'noise_amp': 1.0, 'noise_seed': 1000 + i, 'slope': 1}]})
  return cases


# ----------------------------------------------------------------------------
# 7. sharding-constraint helpers

_HELPERS = ('with_dycore_sharding', 'with_physics_sharding', 'dycore_to_physics_sharding', 'physics_to_dycore_sharding')
_LEAF_KINDS = ('modal3d', 'nodal3d', 'surface_modal', 'surface_nodal', 'modal2d', 'nodal2d', 'odd3d', 'odd2d',
               'py_float', 'py_int', 'np_scalar', 'zero_d', 'prng_key')


@st.composite
def _helper_case(draw, tier):
  mesh = draw(st.sampled_from([None, None] + MESHES))   # None: no mesh attached, helpers are plain identities
  cfg = draw(_grid_cfg(4))
  leaves = draw(st.lists(st.sampled_from(_LEAF_KINDS), min_size=1, max_size=5))
  return {'mesh': mesh, 'grid': cfg, 'levels_mult': draw(st.integers(1, 2)), 'leaves': leaves,
          'bad': draw(st.sampled_from([None, None, '4d', '5d', '4d_singleton'])), 'helper': draw(st.sampled_from(_HELPERS)),
          'jit': draw(st.sampled_from([True, True, False])), 'seed': draw(st.integers(0, 2 ** 16))}


def run_helpers(case):
  import jax
  from dinosaur import coordinate_systems as cs
  mesh_t = case['mesh']
  cfg = case['grid']
  if mesh_t is None:
    mesh, g = None, gens.build_grid(_ref_cfg(cfg), impl='fast')
    z = x = y = 1
  else:
    mesh = _mesh(*mesh_t)
    g = _grids(cfg, mesh_t)[1]
    z, x, y = mesh_t
  n = z * case['levels_mult']
  coords = cs.CoordinateSystem(g, gens.build_sigma([i / n for i in range(n + 1)]), spmd_mesh=mesh)
  g = coords.horizontal
  rng = np.random.default_rng(case['seed'])
  ms, ns = tuple(g.modal_shape), tuple(g.nodal_shape)
  divisible = all(s % (x * z) == 0 for s in (ms[0], ns[0]))   # physics layout merges z into the longitude axis
  tree, kinds = {}, []
  for i, k in enumerate(case['leaves']):
    if k in ('odd3d', 'odd2d') and not case['jit']:
      k = 'modal3d' if k == 'odd3d' else 'modal2d'   # eager constraints need evenly divisible shapes
    v = {'modal3d': lambda: rng.standard_normal((n,) + ms), 'nodal3d': lambda: rng.standard_normal((n,) + ns),
         'surface_modal': lambda: rng.standard_normal((1,) + ms), 'surface_nodal': lambda: rng.standard_normal((1,) + ns),
         'modal2d': lambda: rng.standard_normal(ms), 'nodal2d': lambda: rng.standard_normal(ns),
         'odd3d': lambda: rng.standard_normal((3, 5, 7)), 'odd2d': lambda: rng.standard_normal((5, 3)),
         'py_float': lambda: 1.5, 'py_int': lambda: 3, 'np_scalar': lambda: np.float64(2.5),
         'zero_d': lambda: np.asarray(rng.standard_normal()), 'prng_key': lambda: np.asarray(jax.random.PRNGKey(case['seed']))}[k]()
    tree[f'leaf{i}_{k}'] = v
    kinds.append(k)
  use_jit = case['jit'] or not divisible
  fn = getattr(coords, case['helper'])
  call = jax.jit(fn) if use_jit else fn
  out = Outcome(units=len(tree))
  out.labels = ([f'mesh={"none" if mesh_t is None else "x".join(map(str, mesh_t))}', f"helper={case['helper']}",
                 'jit' if use_jit else 'eager', f"bad={case['bad']}"] + sorted(set(f'leaf={k}' for k in kinds)))
  out.nontrivial = mesh_t is not None and int(np.prod(mesh_t)) >= 2
  try:
    res = call(tree)
  except Exception as e:   # pylint: disable=broad-except
    return out.fail(what='sharding helper raised on admissible leaves', helper=case['helper'], error=repr(e)[:400],
                    shapes={k: list(np.shape(v)) for k, v in tree.items()}, mesh=mesh_t)
  for k, v in tree.items():
    r = res[k]
    if np.shape(r) != np.shape(v) or not np.array_equal(np.asarray(r), np.asarray(v)):
      return out.fail(what='sharding helper changed a value', helper=case['helper'], leaf=k, mesh=mesh_t)
    if k.endswith('prng_key') and np.asarray(r).dtype != np.uint32:
      return out.fail(what='PRNG key dtype changed', leaf=k, dtype=str(np.asarray(r).dtype))
  if case['bad'] and mesh_t is not None:
    shape = {'4d': (2, n) + ms, '5d': (1, 2, n) + ms, '4d_singleton': (1, n) + ms}[case['bad']]
    bad_tree = dict(tree, bad=rng.standard_normal(shape))
    try:
      call(bad_tree)
    except ValueError:
      pass
    except Exception as e:   # pylint: disable=broad-except
      return out.fail(what='>=4-D leaf raised something other than ValueError', error=repr(e)[:300], shape=list(shape))
    else:
      return out.fail(what='>=4-D leaf was accepted by a sharding helper (documented: ValueError)', shape=list(shape),
                      helper=case['helper'], mesh=mesh_t)
  return out


# ----------------------------------------------------------------------------

_W = {'quick': 600.0, 'thorough': 3000.0}   # safety net only (the machine is shared); budgets are the case counts

SUBCHECKS = [
    Subcheck('step_every_mesh', run_step, cases=_every_mesh_step_cases,
             shards={'quick': 3, 'thorough': 4}, wall=_W, env=ENV, weight=11,
             rule='mesh has >= 2 devices and the layout is padded; enumerated meshes (thorough: all factorisations), uneven levels'),
    Subcheck('step', run_step, strategy=_step_case, examples={'quick': 9, 'thorough': 96},
             shards={'quick': 3, 'thorough': 6}, wall=_W, env=ENV, weight=10,
             rule='mesh has >= 2 devices and the layout is padded (label z>1&uneven-levels(>=3) marks the class exposing defect #1)'),
    Subcheck('tendencies', run_tendencies, strategy=_tendency_case, examples={'quick': 10, 'thorough': 80},
             shards={'quick': 2, 'thorough': 5}, wall=_W, env=ENV, weight=9,
             rule='mesh has >= 2 devices and the layout is padded'),
    Subcheck('transforms_every_mesh', run_transforms, cases=_every_mesh_cases,
             shards={'quick': 3, 'thorough': 4}, wall=_W, env=ENV, weight=8,
             rule='mesh has >= 2 devices and the layout is padded; exhaustive over all (z,x,y) factorisations and all unit vectors'),
    Subcheck('transforms', run_transforms, strategy=_transform_case, examples={'quick': 16, 'thorough': 200},
             shards={'quick': 2, 'thorough': 4}, wall=_W, env=ENV, weight=7,
             rule='mesh has >= 2 devices and the layout is padded'),
    Subcheck('transforms_float32', run_transforms_f32, strategy=_transform_case, examples={'quick': 4, 'thorough': 60},
             shards={'quick': 1, 'thorough': 1}, wall=_W, env=ENV, weight=2,
             rule='mesh has >= 2 devices and the layout is padded; inputs float32, jax_enable_x64 off, rtol 3e-4'),
    Subcheck('sharded_einsum', run_einsum, strategy=_einsum_case, examples={'quick': 100, 'thorough': 1200},
             shards={'quick': 1, 'thorough': 3}, wall=_W, env=ENV, weight=6,
             rule='the reduced mesh axis has >= 2 shards (collective path, not the single-device shortcut)'),
    Subcheck('cumsum', run_cumsum, strategy=_cumsum_case, examples={'quick': 100, 'thorough': 1000},
             shards={'quick': 1, 'thorough': 2}, wall=_W, env=ENV, weight=5,
             rule='the summed axis is sharded over >= 2 devices (parallel prefix sum path)'),
    Subcheck('filters', run_filters, strategy=_filter_case, examples={'quick': 40, 'thorough': 300},
             shards={'quick': 1, 'thorough': 2}, wall=_W, env=ENV, weight=4,
             rule='the layout is padded (base_shape_multiple > 1 or a non-trivial mesh)'),
    Subcheck('sharding_helpers', run_helpers, strategy=_helper_case, examples={'quick': 40, 'thorough': 300},
             shards={'quick': 1, 'thorough': 1}, wall=_W, env=ENV, weight=3,
             rule='a mesh with >= 2 devices is attached'),
]
