"""C19 Persistence and restructuring round trips lose nothing."""
from __future__ import annotations

import dataclasses

from hypothesis import strategies as st
import numpy as np

from vf import core, gens
from vf.core import Outcome, Subcheck

RULE = ('Hypothesis-generated nested dictionaries / pytrees / coordinate systems / datasets / resampling pairs; '
        'oracle = the inverse operation (round trip) plus an independent reference of the forward map '
        '(path-joined keys, numpy slicing, scipy spherical harmonics); distinct = hash of the canonical JSON case; '
        'non-trivial rules are per sub-check (see subchecks.*.rule)')
ASSUMPTIONS = [
    'dictionary keys are non-empty strings (an empty-string key at a non-leaf position is outside the domain: '
    'no caller produces it); keys containing the separator are required to raise ValueError',
    'coordinate_system_from_attrs is documented to rebuild with the default transform implementation and no mesh: '
    'those two Grid fields are excluded from the comparison',
    'dataset round trips use shapes that identify their dimensions uniquely (collisions such as '
    'nodal_shape == modal_shape or one layer are constructed out and counted as skipped)',
]

# ----------------------------------------------------------------------------
# nested dictionaries

_KEYS = st.text(alphabet='abxy_1', min_size=1, max_size=3)
_LEAVES = st.one_of(st.integers(-3, 3), st.none(), st.floats(-1, 1, allow_nan=False, width=16),
                    st.lists(st.integers(0, 2), max_size=2), st.text(alphabet='ab&', max_size=2))


def _nested(max_leaves=12):
  return st.recursive(
      st.dictionaries(_KEYS, _LEAVES, max_size=3),
      lambda children: st.dictionaries(_KEYS, st.one_of(_LEAVES, children, st.just({})), max_size=4),
      max_leaves=max_leaves)


def _flatten_strategy(tier):
  return st.fixed_dictionaries({
      'd': _nested(), 'sep': st.sampled_from(['&', '&', '/', '.', '::']),
      'bad_key': st.one_of(st.none(), st.integers(0, 10))})


def _ref_flatten(d, sep, prefix=()):
  items, empties = {}, []
  for k, v in d.items():
    p = prefix + (k,)
    if isinstance(v, dict) and v:
      i2, e2 = _ref_flatten(v, sep, p)
      items.update(i2)
      empties += e2
    elif isinstance(v, dict):
      empties.append(sep.join(p))
    else:
      items[sep.join(p)] = v
  return items, empties


def _depth(d):
  return 1 + max([_depth(v) for v in d.values() if isinstance(v, dict)], default=0)


def _count_empty(d):
  return sum((1 if not v else _count_empty(v)) for v in d.values() if isinstance(v, dict))


def _inject_bad_key(d, sep, where):
  """Returns a copy of d in which the `where`-th key (pre-order) contains the separator."""
  counter = [0]

  def rec(x):
    out = {}
    for k, v in x.items():
      idx = counter[0]
      counter[0] += 1
      nk = (k + sep + 'z') if idx == where else k
      out[nk] = rec(v) if isinstance(v, dict) else v
    return out
  r = rec(d)
  return r, counter[0] > where


def run_flatten(case):
  from dinosaur import pytree_utils as pu
  d, sep = case['d'], case['sep']
  n_empty = _count_empty(d)
  out = Outcome(nontrivial=(_depth(d) >= 2 and n_empty >= 1),
                labels=[f'depth={min(_depth(d), 4)}', f'empty_subdicts={min(n_empty, 3)}', f'sep={sep}'])
  if case.get('bad_key') is not None:
    bad, injected = _inject_bad_key(d, sep, case['bad_key'])
    if injected:
      out.labels = list(out.labels) + ['separator-in-key']
      try:
        pu.flatten_dict(bad, sep=sep)
      except ValueError:
        pass
      else:
        return out.fail(what='key containing the separator was accepted', d=bad, sep=sep)
  try:
    flat, empty = pu.flatten_dict(d, sep=sep)
  except Exception as e:   # pylint: disable=broad-except
    return out.fail(what='flatten_dict raised on an admissible dictionary', error=repr(e), d=d)
  ref_items, ref_empty = _ref_flatten(d, sep)
  if dict(flat) != ref_items or sorted(empty) != sorted(ref_empty):
    return out.fail(what='flattened keys differ from path-joined reference', flat=repr(flat), empty=list(empty),
                    want=repr(ref_items), want_empty=ref_empty)
  if any(isinstance(v, dict) for v in flat.values()):
    return out.fail(what='flat dict still contains a dict value')
  back = pu.unflatten_dict(flat, empty, sep=sep)
  if back != d:
    return out.fail(what='unflatten_dict(*flatten_dict(d)) != d', back=repr(back), d=repr(d))
  return out


# ----------------------------------------------------------------------------
# pytrees


@st.composite
def _pytree_case(draw):
  nd = draw(st.integers(1, 4))
  base = [draw(st.integers(1, 4)) for _ in range(nd)]
  axis = draw(st.integers(0, nd - 1))
  n_leaves = draw(st.integers(1, 5))
  sizes = [draw(st.integers(1, 4)) for _ in range(n_leaves)]   # leaf sizes along `axis` (heterogeneous)
  structure = draw(st.sampled_from(['dict', 'nested', 'tuple', 'list_in_dict']))
  split_idx = draw(st.integers(0, 4))
  return {'base': base, 'axis': axis, 'sizes': sizes, 'structure': structure, 'seed': draw(st.integers(0, 999)),
          'split_idx': split_idx, 'neg_axis': draw(st.booleans()), 'dtype': draw(st.sampled_from(['f8', 'f4', 'i4']))}


def _mk_tree(structure, leaves):
  if structure == 'dict':
    return {f'k{i}': v for i, v in enumerate(leaves)}
  if structure == 'tuple':
    return tuple(leaves)
  if structure == 'nested':
    return {'a': leaves[0], 'b': {'c': tuple(leaves[1:]), 'd': {}}}
  return {'x': list(leaves), 'empty': {}}


def _same(a, b):
  import jax
  la, ta = jax.tree_util.tree_flatten(a)
  lb, tb = jax.tree_util.tree_flatten(b)
  if ta != tb or len(la) != len(lb):
    return False
  return all(np.asarray(x).shape == np.asarray(y).shape and np.asarray(x).dtype == np.asarray(y).dtype
             and np.array_equal(np.asarray(x), np.asarray(y)) for x, y in zip(la, lb))


def run_pytree(case):
  import jax
  from dinosaur import pytree_utils as pu
  rng = np.random.default_rng(case['seed'])
  base, axis, nd = case['base'], case['axis'], len(case['base'])
  dt = np.dtype(case['dtype'])

  def arr(shape):
    a = rng.standard_normal(shape) * 10
    return a.astype(dt)

  het = []
  for s in case['sizes']:
    shp = list(base)
    shp[axis] = s
    het.append(arr(shp))
  hom = [arr(base) for _ in case['sizes']]
  ax = axis - nd if case['neg_axis'] else axis
  out = Outcome(nontrivial=len(set(case['sizes'])) > 1 and nd >= 2,
                labels=[f'structure={case["structure"]}', f'ndim={nd}', f'leaves={len(het)}',
                        'neg_axis' if case['neg_axis'] else 'pos_axis'], units=5)
  # pack / unpack with heterogeneous sizes along axis
  t = _mk_tree(case['structure'], het)
  packed = pu.pack_pytree(t, axis=ax)
  want = np.concatenate(het, axis=axis)
  if not np.array_equal(np.asarray(packed), want):
    return out.fail(what='pack_pytree != numpy concatenate', axis=ax)
  un = pu.unpack_to_pytree(packed, pu.shape_structure(t), axis=ax)
  if not _same(un, t):
    return out.fail(what='unpack_to_pytree(pack_pytree(t)) != t', axis=ax, shapes=[list(h.shape) for h in het])
  # stack / unstack
  t2 = _mk_tree(case['structure'], hom)
  for sax in sorted({0, axis, nd}):
    stacked = pu.stack_pytree(t2, axis=sax)
    if not np.array_equal(np.asarray(stacked), np.stack(hom, axis=sax)):
      return out.fail(what='stack_pytree != numpy stack', axis=sax)
    un2 = pu.unstack_to_pytree(stacked, pu.shape_structure(t2), axis=sax)
    if not _same(un2, t2):
      return out.fail(what='unstack_to_pytree(stack_pytree(t)) != t', axis=sax)
  # split_along_axis / concat_along_axis (positive axis required unless same dims)
  k = min(case['split_idx'], min(case['sizes']))
  a, b = pu.split_along_axis(t, k, axis, expect_same_dims=True)
  cat = pu.concat_along_axis([a, b], axis)
  if not _same(cat, t):
    return out.fail(what='concat_along_axis(split_along_axis(t)) != t', split_idx=k, axis=axis)
  la = jax.tree_util.tree_leaves(a)
  if any(np.asarray(x).shape[axis] != k for x in la):
    return out.fail(what='first part of split_along_axis has the wrong length', split_idx=k)
  # split_axis / concat with keep_dims, and squeeze variant equals slice_along_axis
  parts = pu.split_axis(t2, axis=axis, keep_dims=True)
  if len(parts) != base[axis] or not _same(pu.concat_along_axis(parts, axis), t2):
    return out.fail(what='concat_along_axis(split_axis(t, keep_dims=True)) != t', axis=axis)
  parts_sq = pu.split_axis(t2, axis=axis, keep_dims=False)
  for i, p in enumerate(parts_sq):
    if not _same(p, pu.slice_along_axis(t2, axis, i)):
      return out.fail(what='split_axis(t)[i] != slice_along_axis(t, axis, i)', i=i)
    ref = jax.tree_util.tree_map(lambda x: np.take(x, i, axis=axis), t2)   # pylint: disable=cell-var-from-loop
    if not _same(p, ref):
      return out.fail(what='split_axis(t)[i] != numpy take', i=i)
  return out


# ----------------------------------------------------------------------------
# coordinate systems <-> attrs


@st.composite
def _coords_case(draw):
  g = draw(gens.grid_configs(kind='any', max_m=10, fast_options=False))
  vkind = draw(st.sampled_from(['sigma', 'sigma', 'layer', 'pressure']))
  if vkind == 'sigma':
    v = {'kind': 'sigma', 'boundaries': draw(gens.sigma_boundaries(1, 10))}
  elif vkind == 'layer':
    v = {'kind': 'layer', 'layers': draw(st.integers(1, 7))}
  else:
    n = draw(st.integers(1, 8))
    c = np.cumsum([draw(st.floats(1.0, 300.0, width=32)) for _ in range(n)])
    v = {'kind': 'pressure', 'centers': [float(x) for x in c]}
  return {'grid': g, 'vertical': v, 'via_json': draw(st.booleans())}


def _build_vertical(v):
  from dinosaur import layer_coordinates as lc, sigma_coordinates as sc, vertical_interpolation as vi
  if v['kind'] == 'sigma':
    return sc.SigmaCoordinates(np.asarray(v['boundaries']))
  if v['kind'] == 'layer':
    return lc.LayerCoordinates(v['layers'])
  return vi.PressureCoordinates(np.asarray(v['centers']))


def run_coords(case):
  import json
  from dinosaur import coordinate_systems as cs, xarray_utils as xu
  g = gens.build_grid(case['grid'])
  vert = _build_vertical(case['vertical'])
  c = cs.CoordinateSystem(g, vert)
  attrs = c.asdict()
  if case['via_json']:
    # what a netCDF/zarr attribute store does: arrays become lists, numbers stay numbers
    attrs = json.loads(json.dumps({k: (v.tolist() if isinstance(v, np.ndarray) else v) for k, v in attrs.items()}))
    attrs = {k: (np.asarray(v) if isinstance(v, list) else v) for k, v in attrs.items()}
  out = Outcome(labels=gens.grid_labels(case['grid']) + [f"vertical={case['vertical']['kind']}",
                                                          'via_json' if case['via_json'] else 'direct'],
                nontrivial=(case['grid']['spacing'] != 'gauss' or bool(case['grid'].get('offset'))
                            or case['grid'].get('radius') not in (None, 1.0) or case['vertical']['kind'] != 'sigma'))
  c2 = xu.coordinate_system_from_attrs(attrs)
  for f in dataclasses.fields(g):
    if f.name in ('spherical_harmonics_impl', 'spmd_mesh'):
      continue
    a, b = getattr(g, f.name), getattr(c2.horizontal, f.name)
    if a != b:
      return out.fail(what='grid field changed in attrs round trip', field=f.name, before=a, after=b)
  if type(c2.vertical) is not type(vert) or not (c2.vertical == vert):
    return out.fail(what='vertical coordinate changed in attrs round trip', before=repr(vert), after=repr(c2.vertical))
  if c2.vertical.layers != vert.layers:
    return out.fail(what='layer count changed')
  # same discretisation: node positions identical
  g2 = c2.horizontal
  for a, b in zip(gens.build_grid(case['grid'], impl='real').nodal_axes,
                  dataclasses.replace(g2).nodal_axes):
    if not np.array_equal(np.asarray(a), np.asarray(b)):
      return out.fail(what='nodal axes differ after round trip')
  return out


# ----------------------------------------------------------------------------
# datasets


_NAMES = st.text(alphabet='qwxyz_', min_size=1, max_size=5)


@st.composite
def _dataset_case(draw):
  g = draw(gens.grid_configs(kind='any', max_m=6, fast_options=False, allow_radius=False))
  return {'grid': g, 'boundaries': draw(gens.sigma_boundaries(1, 5)),
          'tracers': sorted(draw(st.sets(_NAMES, max_size=3))),
          'times': draw(st.integers(0, 3)), 'samples': draw(st.integers(0, 2)),
          'space': draw(st.sampled_from(['modal', 'nodal'])),
          'kind': draw(st.sampled_from(['state', 'state_with_time', 'shallow_water'])),
          'seed': draw(st.integers(0, 999))}


def run_dataset(case):
  import jax
  from dinosaur import coordinate_systems as cs, xarray_utils as xu
  g = gens.build_grid(case['grid'])
  vert = gens.build_sigma(case['boundaries'])
  c = cs.CoordinateSystem(g, vert)
  n = vert.layers
  hshape = g.modal_shape if case['space'] == 'modal' else g.nodal_shape
  other = g.nodal_shape if case['space'] == 'modal' else g.modal_shape
  T, S = case['times'], case['samples']
  lead = ((S,) if S else ()) + ((T,) if T else ())
  reserved = {'vorticity', 'divergence', 'temperature_variation', 'log_surface_pressure', 'sim_time', 'potential',
              'tracers', 'diagnostics'}
  tracers = [t for t in case['tracers'] if t not in reserved]
  ambiguous = (tuple(hshape) == tuple(other)) or n == 1 or (S and S == n) or (T and T == n)
  if ambiguous:
    return Outcome(skipped=True)
  rng = np.random.default_rng(case['seed'])
  r = lambda *s: rng.standard_normal(lead + s)   # noqa: E731
  lev_names = ('level',)
  hnames = ('longitudinal_mode', 'total_wavenumber') if case['space'] == 'modal' else ('lon', 'lat')
  lead_names = (('sample',) if S else ()) + (('time',) if T else ())
  expected = {}
  if case['kind'] == 'shallow_water':
    data = {'vorticity': r(n, *hshape), 'divergence': r(n, *hshape), 'potential': r(n, *hshape)}
    for k in data:
      expected[k] = lead_names + lev_names + hnames
  else:
    data = {'vorticity': r(n, *hshape), 'divergence': r(n, *hshape), 'temperature_variation': r(n, *hshape),
            'log_surface_pressure': r(1, *hshape), 'tracers': {t: r(n, *hshape) for t in tracers}}
    for k in ('vorticity', 'divergence', 'temperature_variation'):
      expected[k] = lead_names + lev_names + hnames
    expected['log_surface_pressure'] = lead_names + ('surface',) + hnames
    for t in tracers:
      expected[t] = lead_names + lev_names + hnames
    if case['kind'] == 'state_with_time':
      data['sim_time'] = r()
      expected['sim_time'] = lead_names
  out = Outcome(labels=[f"kind={case['kind']}", f"space={case['space']}", f'time={"yes" if T else "no"}',
                        f'sample={"yes" if S else "no"}', f'tracers={len(tracers)}'],
                nontrivial=bool(T or S) and (len(tracers) > 0 or case['kind'] == 'shallow_water'))
  times = np.arange(T) * 0.5 if T else None
  samples = np.arange(S) if S else None
  ds = xu.data_to_xarray(data, coords=c, times=times, sample_ids=samples)
  for k, dims in expected.items():
    if tuple(ds[k].dims) != tuple(dims):
      return out.fail(what='wrong dimension names', var=k, got=list(ds[k].dims), want=list(dims))
  if case['kind'] == 'shallow_water':
    back = xu.xarray_to_shallow_water_eq_data(ds)
  elif case['kind'] == 'state':
    back = xu.xarray_to_primitive_eq_data(ds, tracers_to_include=tuple(tracers))
    back = {k: v for k, v in back.items() if k != 'sim_time' or v is not None}
  else:
    back = xu.xarray_to_primitive_equations_with_time_data(ds, tracers_to_include=tuple(tracers))
  flat_in = dict(jax.tree_util.tree_flatten_with_path(data)[0])
  flat_back = dict(jax.tree_util.tree_flatten_with_path(back)[0])
  for path, v in flat_in.items():
    w = flat_back.get(path)
    if w is None or np.asarray(w).shape != v.shape or not np.array_equal(np.asarray(w), v):
      return out.fail(what='dataset round trip is not bit-identical', leaf=str(path))
  # attrs let the coordinate system be rebuilt
  c2 = xu.coordinate_system_from_attrs(ds.attrs)
  if c2.horizontal.nodal_shape != gens.build_grid(case['grid'], impl='real').nodal_shape or c2.vertical != vert:
    return out.fail(what='coordinate system rebuilt from dataset attrs differs')
  # coordinate values of the labelled dataset
  if 'level' in ds.coords and not np.array_equal(ds['level'].values, vert.centers):
    return out.fail(what='level coordinate values wrong')
  # coordinate labels of the horizontal axes: the grid's own node positions (longitude offset included) in degrees,
  # respectively the wavenumbers of the modal layout -- the labels must describe the same discretisation as the attrs
  if case['space'] == 'nodal':
    lon_want = np.asarray(g.nodal_axes[0]) * 180 / np.pi
    lat_want = np.arcsin(np.asarray(g.nodal_axes[1])) * 180 / np.pi
    off = float(case['grid'].get('offset') or 0.0)
    if abs(float(lon_want[0]) - off * 180 / np.pi) > 1e-9:
      return out.fail(what='harness self-check: Grid.nodal_axes does not start at the longitude offset')
    if not np.allclose(ds['lon'].values, lon_want, rtol=0, atol=1e-9):
      return out.fail(what='lon coordinate labels are not the grid longitudes (offset included)',
                      got=ds['lon'].values[:3], want=lon_want[:3], longitude_offset=off)
    if not np.allclose(ds['lat'].values, lat_want, rtol=0, atol=1e-9):
      return out.fail(what='lat coordinate labels are not the grid latitudes', got=ds['lat'].values[:3], want=lat_want[:3])
  else:
    mk, lk = (np.asarray(a) for a in g.modal_axes)
    if not (np.array_equal(ds['longitudinal_mode'].values, mk) and np.array_equal(ds['total_wavenumber'].values, lk)):
      return out.fail(what='modal coordinate labels are not the wavenumbers of the layout')
  if T and not np.array_equal(ds['time'].values, times):
    return out.fail(what='time coordinate values wrong')
  return out


# ----------------------------------------------------------------------------
# spectral up / down sampling


@st.composite
def _resample_case(draw):
  g = draw(gens.grid_configs(kind='scalar', max_m=8, min_m=2, spacings=('gauss',), allow_offset=False,
                             allow_radius=False, fast_options=True))
  dM = draw(st.integers(0, 4))
  return {'coarse': g, 'dM': dM, 'layers': draw(st.integers(1, 3)), 'seed': draw(st.integers(0, 999)),
          'scalar_leaf': draw(st.booleans())}


def run_resample(case):
  import jax
  from dinosaur import coordinate_systems as cs, sigma_coordinates as sc
  from vf.oracles import sh_oracle
  gc = dict(case['coarse'])
  gf = dict(gc)
  gf['M'] = gc['M'] + case['dM']
  gf['L'] = gc['L'] + case['dM']
  gf['nlat'] = gens.min_lat_nodes('gauss', gens.required_degree('scalar', gf['L'])) + 1
  gf['nlon'] = gens.required_lon_nodes('scalar', gf['M']) + 1
  coarse, fine = gens.build_grid(gc), gens.build_grid(gf)
  vert = sc.SigmaCoordinates.equidistant(case['layers'])
  cc, cf = cs.CoordinateSystem(coarse, vert), cs.CoordinateSystem(fine, vert)
  rng = np.random.default_rng(case['seed'])
  x = rng.standard_normal((case['layers'],) + coarse.modal_shape) * coarse.mask
  state = {'a': x, 'b': {'c': x[:1] * 2}}
  if case['scalar_leaf']:
    state['t'] = np.float64(3.5)
  out = Outcome(labels=gens.grid_labels(gc) + [f'dM={case["dM"]}'], nontrivial=case['dM'] >= 1, units=2)
  up = cs.get_spectral_upsample_fn(cc, cf)
  down = cs.get_spectral_downsample_fn(cf, cc)
  u = up(state)
  back = down(u)
  for (p, a), (_, b) in zip(jax.tree_util.tree_flatten_with_path(state)[0], jax.tree_util.tree_flatten_with_path(back)[0]):
    if np.asarray(a).shape != np.asarray(b).shape or not np.array_equal(np.asarray(a), np.asarray(b)):
      return out.fail(what='down(up(x)) != x', leaf=str(p))
  if np.asarray(u['a']).shape != (case['layers'],) + fine.modal_shape:
    return out.fail(what='up-sampled leaf has the wrong shape', got=list(np.asarray(u['a']).shape))
  if case['scalar_leaf'] and np.asarray(u['t']).shape != ():
    return out.fail(what='scalar leaf changed by upsampling')
  # interpolate_fn picks the same maps
  if case['dM'] >= 1:
    ui = cs.get_spectral_interpolate_fn(cc, cf)(state)
    if not np.array_equal(np.asarray(ui['a']), np.asarray(u['a'])):
      return out.fail(what='get_spectral_interpolate_fn(up) differs from upsample_fn')
  di = cs.get_spectral_interpolate_fn(cf, cc)(u)
  if not np.array_equal(np.asarray(di['a']), np.asarray(x)):
    return out.fail(what='get_spectral_interpolate_fn(down) differs from downsample_fn')
  # same function on the finer grid: oracle evaluation of the *coarse* coefficients on the fine nodes
  lon, sin_lat = fine.nodal_axes
  nl, nt = fine.longitude_nodes, fine.latitude_nodes
  lon0 = np.arange(nl) * 2 * np.pi / nl
  basis = sh_oracle.Basis(coarse.total_wavenumbers, np.asarray(sin_lat)[:nt], lon0)
  want, _, _ = basis.synth(sh_oracle.coeff_dict(coarse, x[0]))
  got = np.asarray(fine.to_nodal(np.asarray(u['a'])))[0][:nl, :nt]
  err = core.relerr(got, want, scale=max(1.0, float(np.abs(want).max())))
  if err > 1e-9:
    return out.fail(what='up-sampled field represents a different function on the fine grid', relerr=err)
  return out


SUBCHECKS = [
    Subcheck('flatten_unflatten', run_flatten, strategy=_flatten_strategy,
             examples={'quick': 1500, 'thorough': 40000}, shards={'quick': 1, 'thorough': 4},
             rule='non-trivial = nesting depth >= 2 with at least one empty sub-dictionary',
             doc='unflatten_dict(*flatten_dict(d)) == d; keys == path-joined reference; separator in a key raises'),
    Subcheck('pytree_restructure', run_pytree, strategy=lambda tier: _pytree_case(),
             examples={'quick': 250, 'thorough': 5000}, shards={'quick': 2, 'thorough': 8},
             rule='non-trivial = >= 2 dims and leaves of different size along the packed axis',
             doc='pack/unpack, stack/unstack, split/concat, split_axis/slice_along_axis vs numpy'),
    Subcheck('coords_attrs', run_coords, strategy=lambda tier: _coords_case(),
             examples={'quick': 120, 'thorough': 1500}, shards={'quick': 1, 'thorough': 4},
             rule='non-trivial = non-default spacing/offset/radius or non-sigma vertical'),
    Subcheck('dataset_roundtrip', run_dataset, strategy=lambda tier: _dataset_case(),
             examples={'quick': 80, 'thorough': 1200}, shards={'quick': 2, 'thorough': 8},
             rule='non-trivial = has a time or sample axis and tracers (or is a shallow-water state)'),
    Subcheck('spectral_resample', run_resample, strategy=lambda tier: _resample_case(),
             examples={'quick': 40, 'thorough': 500}, shards={'quick': 2, 'thorough': 8},
             rule='non-trivial = fine grid strictly larger than the coarse one'),
]


# ----------------------------------------------------------------------------
# coverage-guided campaign (Atheris / libFuzzer) over the same strategies and oracles


def _atheris_cases(tier):
  runs = {'quick': 6000, 'thorough': 400000}[tier]
  out = []
  for target in ('flatten', 'pytree'):
    r = runs if target == 'flatten' else runs // 30
    for corpus in ('empty', 'seeded'):
      out.append({'target': target, 'corpus': corpus, 'runs': r})
  return out


def run_atheris(case):
  """One libFuzzer campaign; -seed derives from VERIF_SEED (pins the campaign only approximately)."""
  import json, os, shutil, subprocess, sys, tempfile
  here = os.path.dirname(os.path.dirname(os.path.dirname(os.path.abspath(__file__))))
  work = os.path.join(here, '.work')
  os.makedirs(work, exist_ok=True)
  d = tempfile.mkdtemp(prefix='atheris-', dir=work)
  try:
    corpus = os.path.join(d, 'corpus')
    os.makedirs(corpus)
    if case['corpus'] == 'seeded':
      # a few short byte strings; libFuzzer mutates them, Hypothesis decodes them into structured cases
      for i, b in enumerate([b'\x00', b'\x01\x02\x03\x04', bytes(range(32)), b'\xff' * 16, b'ab&ab&' * 4]):
        with open(os.path.join(corpus, f'seed{i}'), 'wb') as f:
          f.write(b)
    seed = int(os.environ.get('VERIF_SEED', '1') or '1') or 1
    env = dict(os.environ)
    cmd = [sys.executable, '-m', 'vf.fuzz.c19_fuzz', case['target'], d, corpus,
           f'-runs={case["runs"]}', f'-seed={seed}', '-max_len=512', '-print_final_stats=1']
    r = subprocess.run(cmd, cwd=here, env=env, capture_output=True, text=True, timeout=3000)
    stats_path = os.path.join(d, 'stats.json')
    stats = json.load(open(stats_path)) if os.path.exists(stats_path) else {}
    out = Outcome(units=int(stats.get('valid_cases', 0)), nontrivial=stats.get('distinct_nontrivial', 0) >= 2,
                  labels=[f"target={case['target']}", f"corpus={case['corpus']}",
                          f"distinct_nontrivial_inputs~{10 ** len(str(stats.get('distinct_nontrivial', 0))) // 10}+"])
    fail_path = os.path.join(d, 'failure.json')
    if os.path.exists(fail_path):
      f = json.load(open(fail_path))
      sub = 'flatten_unflatten' if case['target'] == 'flatten' else 'pytree_restructure'
      return out.fail(what='coverage-guided campaign found a failing case', detail=f['detail'],
                      replay_as={'subcheck': sub, 'case': f['case']})
    if r.returncode != 0 or not stats:
      raise RuntimeError(f'atheris campaign died rc={r.returncode}: {r.stderr[-1500:]}')
    return out
  finally:
    shutil.rmtree(d, ignore_errors=True)


SUBCHECKS.append(
    Subcheck('atheris_campaign', run_atheris, cases=_atheris_cases,
             wall={'quick': 400.0, 'thorough': 2400.0}, shards={'quick': 4, 'thorough': 4},
             rule='libFuzzer byte strings decoded by Hypothesis fuzz_one_input into the flatten / pytree cases; '
                  'units = decoded valid cases; empty corpus and a small seeded corpus',
             doc='coverage-guided search (dinosaur.pytree_utils instrumented) with the round-trip oracle inside the target'))
