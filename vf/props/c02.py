"""C02 Spectral differential operators are exact on band-limited fields."""
from __future__ import annotations

from hypothesis import strategies as st
import numpy as np

from vf import core, gens
from vf.core import Outcome, Subcheck
from vf.oracles import grid_cases as gc

RULE = ('Hypothesis draws grid configurations (wavenumbers, radius, Real / Fast layouts incl. padded ones; node counts '
        'minimal for purely spectral operators, built from the DESIGN.md 2.1 vector rule where a nodal product or the '
        'wind round trip is involved, pole-free spacings for vector operations). Every operator is applied to ALL unit '
        'vectors of the layout in one batch (exhaustive over inputs by linearity) and compared entry-wise with matrix '
        'elements integrated with the scipy spherical-harmonic oracle on an independent Gauss grid, for every output '
        'coefficient below the top total wavenumber; nodal values are compared with the oracle\'s analytic '
        'derivatives on independently computed nodes; the vector-calculus identities and the vorticity/divergence '
        '<-> wind round trip are checked as operator matrices (identity / zero). distinct = hash of the canonical '
        'JSON case; non-trivial rules per sub-check.')
ASSUMPTIONS = [
    'oracle comparison of latitude derivatives (and everything composed from them) is claimed for output total '
    'wavenumbers l <= L-2 only ("every coefficient below the top total wavenumber")',
    'nodal comparisons of a latitude derivative need input l <= L-2 (clip=False) resp. l <= L-3 (clip=True), '
    'because cos(lat) d/dlat raises the degree by one',
    'wind round trip / div grad = Laplacian through sec^2(lat) in nodal space need the latitude quadrature to be exact '
    'to degree 2L-2 and 2(M-1) < longitude_nodes; input l <= L-2 with clip=False, l <= L-3 with clip=True',
    'equiangular_with_poles is excluded from vector operations (sec2_lat = inf at the pole nodes)',
    'inverse Laplacian inverts the Laplacian on zero-mean fields only (l = 0 is mapped to 0)',
    'entries of operator outputs in the dead sin(m=0) row / padding are outside the claim unless the operator clips '
    '(then the clipped and padded columns are exactly zero)',
]
MANIFEST = {
    'text': 'For every generated configuration the full operator matrices of d_dlon, cos_lat_d_dlat, '
            'sec_lat_d_dlat_cos2, laplacian, inverse_laplacian, cos_lat_grad, div_cos_lat, curl_cos_lat, '
            'clip_wavenumbers and k_cross (all unit vectors pushed through) equal the analytically integrated matrix '
            'elements of an independent scipy basis below the top wavenumber, with the documented radius factors and '
            'clipping; nodal values of derivatives and winds equal analytic derivatives of the oracle basis; curl '
            'grad = 0, div(k x grad) = 0, div grad = Laplacian, inverse Laplacian, and vor/div -> wind -> vor/div = '
            'identity hold as operator matrices on vector-resolved grids. Exhaustive over inputs per configuration, '
            'sampled over configurations.',
    'note': 'trusted: numpy leggauss, scipy.special.assoc_legendre_p(diff_n=1), the resolution rules of DESIGN.md 2.1',
    'technique': 'exhaustive unit-vector operator matrices vs Galerkin matrix elements of an independent scipy basis',
}

RTOL = 1e-9


def _r(cfg):
  return 1.0 if cfg.get('radius') is None else float(cfg['radius'])


def _np(x):
  import jax
  return jax.tree_util.tree_map(np.asarray, x)


def _cmp(out, what, got, want, claim, scale=None, **kw):
  """Compares got/want on entries where `claim` (broadcastable bool) holds. Returns failing Outcome or None."""
  got, want = np.asarray(got), np.asarray(want)
  if got.shape != want.shape:
    return out.fail(what=what + ': wrong output shape', got=got.shape, want=want.shape, **kw)
  claim = np.broadcast_to(claim, got.shape)
  if not np.all(np.isfinite(got[claim])):
    return out.fail(what=what + ': non-finite output', **kw)
  d = np.where(claim, np.abs(got - want), 0.0)
  sc = float(scale) if scale is not None else max(float(np.abs(want[claim]).max()) if claim.any() else 0.0, 1e-300)
  if d.size and d.max() > RTOL * sc:
    idx = np.unravel_index(int(np.argmax(d)), d.shape)
    return out.fail(what=what, index=[int(i) for i in idx], got=float(got[idx]), want=float(want[idx]),
                    relerr=float(d.max() / sc), scale=sc, rtol=RTOL, **kw)
  return None


# ----------------------------------------------------------------------------
# S1 operator matrices vs integrated matrix elements (purely spectral: node counts irrelevant)


def _unit_batch(cfg, shape, mode, seed=0):
  """Inputs for an operator-matrix comparison: all unit vectors, or (large grids) one probe per total wavenumber
  with every longitudinal row excited at once plus dense random fields."""
  rows, cols = shape
  K = rows * cols
  if mode == 'units':
    return np.eye(K).reshape((K,) + shape)
  rng = np.random.default_rng(seed)
  probes = np.zeros((cols,) + shape)
  for l in range(cols):
    probes[l, :, l] = rng.uniform(0.5, 2.0, size=rows) * rng.choice([-1.0, 1.0], size=rows)
  dense = rng.standard_normal((4,) + shape)
  return np.concatenate([probes, dense], axis=0)


def _operator_checks(out, cfg, g, X, valid, label):
  """All purely spectral operators on the batch X (inputs restricted to valid entries)."""
  from vf.oracles import sh_ops_oracle as oo
  L, r = cfg['L'], _r(cfg)
  shape = tuple(g.modal_shape)
  X = X * valid                       # masked / dead / padded inputs are outside the claim
  lcol = np.arange(shape[1])
  below_top = valid & (lcol <= L - 2)[None, :]
  clipped_cols = (lcol >= L - 1)[None, :] & np.ones(shape, bool)
  kw = {'grid_label': label}

  want_lon = oo.apply('d_dlon', cfg, X)
  want_cos = oo.apply('cos_lat_d_dlat', cfg, X)
  want_sec = oo.apply('sec_lat_d_dlat_cos2', cfg, X)
  got_lon = np.asarray(g.d_dlon(X))
  got_cos = np.asarray(g.cos_lat_d_dlat(X))
  got_sec = np.asarray(g.sec_lat_d_dlat_cos2(X))
  for name, got, want, claim in (('d_dlon', got_lon, want_lon, valid), ('cos_lat_d_dlat', got_cos, want_cos, below_top),
                                 ('sec_lat_d_dlat_cos2', got_sec, want_sec, below_top)):
    bad = _cmp(out, f'{name} differs from the integrated matrix element of the analytic derivative', got, want, claim,
               scale=max(1.0, float(np.abs(want).max())), **kw)
    if bad is not None:
      return bad
  # d_dlon never leaves the truncation (it pairs +m and -m of the same l)
  if np.any(np.where(valid, 0.0, got_lon) != 0):
    return out.fail(what='d_dlon of an in-truncation field has entries outside the truncation', **kw)
  # Laplacian and its inverse
  got = np.asarray(g.laplacian(X))
  want = oo.apply('laplacian', cfg, X, radius=r)
  bad = _cmp(out, 'laplacian differs from -l(l+1)/radius^2', got, want, valid, scale=max(float(np.abs(want).max()), 1e-300), **kw)
  if bad is not None:
    return bad
  if np.any(np.where(valid, 0.0, got) != 0):
    return out.fail(what='laplacian writes outside the truncation', **kw)
  goti = np.asarray(g.inverse_laplacian(X))
  wanti = oo.apply('inverse_laplacian', cfg, X, radius=r)
  if not np.all(np.isfinite(goti)):
    return out.fail(what='inverse_laplacian produced a non-finite value', **kw)
  bad = _cmp(out, 'inverse_laplacian differs from -radius^2/(l(l+1)) (0 for l=0)', goti, wanti, np.ones(shape, bool),
             scale=max(float(np.abs(wanti).max()), 1e-300), **kw)
  if bad is not None:
    return bad
  if np.any(goti[..., :, 0] != 0) or np.any(np.where(valid, 0.0, goti) != 0):
    return out.fail(what='inverse_laplacian is not exactly zero at l = 0 / outside the truncation', **kw)
  # inverse o laplacian = identity on zero-mean fields, both orders
  zm = X * (lcol >= 1)[None, :]
  for nm, y in (('inverse_laplacian(laplacian(x))', g.inverse_laplacian(g.laplacian(zm))),
                ('laplacian(inverse_laplacian(x))', g.laplacian(g.inverse_laplacian(zm)))):
    bad = _cmp(out, nm + ' != x on a zero-mean field', np.asarray(y), zm, np.ones(shape, bool),
               scale=max(1.0, float(np.abs(zm).max())), **kw)
    if bad is not None:
      return bad
  # an arbitrary value in a padded column must not produce inf/nan through the inverse Laplacian
  if shape[1] > L:
    pad_in = np.zeros((1,) + shape)
    pad_in[0, :, L:] = 1.0
    y = np.asarray(g.inverse_laplacian(pad_in))
    if np.any(y != 0):
      return out.fail(what='inverse_laplacian maps padded columns to non-zero / non-finite values', **kw)
  # gradient, divergence, curl: compositions with 1/radius; clip removes exactly the top wavenumber (and padding)
  zero = np.zeros_like(X)
  for clip in (True, False):
    claim = below_top
    gx, gy = _np(g.cos_lat_grad(X, clip=clip))
    dv_u, dv_v = np.asarray(g.div_cos_lat((X, zero), clip=clip)), np.asarray(g.div_cos_lat((zero, X), clip=clip))
    cu_u, cu_v = np.asarray(g.curl_cos_lat((X, zero), clip=clip)), np.asarray(g.curl_cos_lat((zero, X), clip=clip))
    table = (('cos_lat_grad[0]', gx, want_lon / r), ('cos_lat_grad[1]', gy, want_cos / r),
             ('div_cos_lat(u,0)', dv_u, want_lon / r), ('div_cos_lat(0,v)', dv_v, want_sec / r),
             ('curl_cos_lat(u,0)', cu_u, -want_sec / r), ('curl_cos_lat(0,v)', cu_v, want_lon / r))
    for name, got, want in table:
      bad = _cmp(out, f'{name} (clip={clip}) differs from the analytic operator / radius', got, want, claim,
                 scale=max(float(np.abs(want).max()), 1e-300), clip=clip, radius=r, **kw)
      if bad is not None:
        return bad
      if clip and np.any(np.where(clipped_cols, got, 0.0) != 0):
        return out.fail(what=f'{name} with clip=True left a non-zero top / padded wavenumber', **kw)
    # the default is clip=True
    if clip:
      if not np.array_equal(np.asarray(g.div_cos_lat((X, X))), np.asarray(g.div_cos_lat((X, X), clip=True))) or \
         not np.array_equal(np.asarray(g.curl_cos_lat((X, X))), np.asarray(g.curl_cos_lat((X, X), clip=True))) or \
         not np.array_equal(np.asarray(g.cos_lat_grad(X)[1]), gy):
        return out.fail(what='default of `clip` is not True', **kw)
  # k_cross
  a, b = _np(g.k_cross((X, 2 * X)))
  if not np.array_equal(a, -2 * X) or not np.array_equal(b, X):
    return out.fail(what='k_cross((u, v)) != (-v, u)', **kw)
  return None


def _clip_checks(out, cfg, g, seed):
  L = cfg['L']
  shape = tuple(g.modal_shape)
  rng = np.random.default_rng(seed)
  x = rng.standard_normal((2,) + shape) + 3.0         # non-zero everywhere, incl. masked / padded entries
  lcol = np.arange(shape[1])
  for n in sorted({1, 2, 3, max(1, L - 1), L, L + 2}):
    y = np.asarray(g.clip_wavenumbers(x, n=n)) if n != 1 else np.asarray(g.clip_wavenumbers(x))
    keep = lcol < L - n
    if not np.array_equal(y[..., keep], x[..., keep]):
      return out.fail(what='clip_wavenumbers changed a coefficient below the clipped range', n=n)
    if np.any(y[..., ~keep] != 0):
      return out.fail(what='clip_wavenumbers left a non-zero coefficient in the top n wavenumbers / padding', n=n,
                      index=np.argwhere(y[..., ~keep] != 0)[0])
  tree = g.clip_wavenumbers({'a': x, 's': 1.5, 't': (x[0],)}, n=2)
  if tree['s'] != 1.5 or not np.array_equal(np.asarray(tree['t'][0]), np.asarray(g.clip_wavenumbers(x[0], n=2))):
    return out.fail(what='clip_wavenumbers on a pytree: scalars must pass, leaves clipped')
  for n in (0, -1):
    try:
      g.clip_wavenumbers(x, n=n)
    except ValueError:
      continue
    return out.fail(what='clip_wavenumbers accepted n <= 0', n=n)
  return None


def run_matrices(case):
  cfg = case['grid']
  g = gc.build(cfg)
  shape = tuple(g.modal_shape)
  _, valid = gc.layout(cfg, shape)
  K = int(np.prod(shape))
  r = _r(cfg)
  out = Outcome(labels=gc.labels(cfg, 'modal_only') + ['layout_padded' if shape != gc.expected_modal_shape(dict(cfg, bsm=1)) else 'layout_tight'],
                nontrivial=cfg['L'] >= 3 and cfg['M'] >= 2, units=K * 14)
  if float(g.radius) != r:
    return out.fail(what='Grid.radius is not the requested radius', got=g.radius, want=r)
  # stated operator data
  eig = np.asarray(g.laplacian_eigenvalues)
  l = np.where(np.arange(shape[1]) < cfg['L'], np.arange(shape[1]), 0).astype(float)
  if eig.shape != (shape[1],) or core.relerr(eig, -l * (l + 1) / r ** 2) > 1e-14:
    return out.fail(what='laplacian_eigenvalues != -l(l+1)/radius^2 (0 in padding)', got=eig)
  X = _unit_batch(cfg, shape, 'units')
  bad = _operator_checks(out, cfg, g, X, valid, 'units')
  if bad is not None:
    return bad
  bad = _clip_checks(out, cfg, g, case['seed'])
  if bad is not None:
    return bad
  # leading batch axes and linearity on dense random fields
  rng = np.random.default_rng(case['seed'])
  x = rng.standard_normal((2, 3) + shape) * valid
  y = rng.standard_normal((2, 3) + shape) * valid
  for name in ('d_dlon', 'cos_lat_d_dlat', 'sec_lat_d_dlat_cos2', 'laplacian', 'inverse_laplacian'):
    f = getattr(g, name)
    fx, fy = np.asarray(f(x)), np.asarray(f(y))
    lhs = np.asarray(f(2.0 * x - 3.0 * y))
    sc = max(float(np.abs(fx).max()), float(np.abs(fy).max()), 1e-300) * 5
    if core.relerr(lhs, 2.0 * fx - 3.0 * fy, sc) > RTOL:
      return out.fail(what=f'{name} is not linear')
    if core.relerr(fx[1, 2], np.asarray(f(x[1, 2])), sc) > RTOL:
      return out.fail(what=f'{name} treats leading axes differently from independent applications')
  return out


def _modal_cfgs(tier, max_m):
  # purely spectral: node counts are irrelevant, keep them minimal (constructors never touch the basis)
  return gc.grid_cfgs(max_m=max_m, min_m=2, kinds=('modal_only',), resolutions=('resolved',), special=False, max_slack=1)


def _matrices_strategy(tier):
  return st.fixed_dictionaries({'grid': _modal_cfgs(tier, 12 if tier == 'quick' else 32), 'seed': st.integers(0, 2 ** 16)})


def _large_cases(tier):
  sizes = [(40, 42)] if tier == 'quick' else [(63, 64), (85, 87), (106, 108), (127, 128)]
  cases = []
  for M, L in sizes:
    for impl, bsm in (('real', None), ('fast', 1), ('fast', 8)):
      cases.append({'grid': {'M': M, 'L': L, 'nlon': M, 'nlat': 1, 'spacing': 'gauss', 'impl': impl, 'bsm': bsm,
                             'offset': 0.0, 'radius': 6.37e6 if impl == 'fast' else None}, 'seed': 7 * M + (bsm or 0)})
  return cases


def run_large(case):
  cfg = case['grid']
  g = gc.build(cfg)
  shape = tuple(g.modal_shape)
  _, valid = gc.layout(cfg, shape)
  out = Outcome(labels=[f"impl={cfg['impl']}", f"bsm={cfg.get('bsm')}", f"L={cfg['L']}"], nontrivial=True)
  X = _unit_batch(cfg, shape, 'probes', seed=case['seed'])
  out.units = int(valid.sum()) + 4
  bad = _operator_checks(out, cfg, g, X, valid, 'probes: one per total wavenumber (all m at once) + 4 dense fields')
  return bad if bad is not None else out


# ----------------------------------------------------------------------------
# S2 nodal values of derivatives and winds vs analytic derivatives of the oracle basis


def _synth(cfg, shape, X, which):
  """Oracle nodal values [batch, lon, lat] of the field with coefficients X (value / d_dlon / cos d_dlat)."""
  T = gc.oracle_tensor(cfg, shape, which=which)
  return np.einsum('...ml,mlij->...ij', X, T)


def run_nodal(case):
  cfg = case['grid']
  g = gc.build(cfg)
  shape = tuple(g.modal_shape)
  nlon, nlat, L = cfg['nlon'], cfg['nlat'], cfg['L']
  r = _r(cfg)
  _, valid = gc.layout(cfg, shape)
  lcol = np.arange(shape[1])
  poles = cfg['spacing'] == 'equiangular_with_poles'
  K = int(np.prod(shape))
  out = Outcome(labels=gc.labels(cfg, 'vector') + (['poles(scalar ops only)'] if poles else []),
                nontrivial=L >= 3 and cfg['M'] >= 2, units=K * (3 if poles else 7))
  crop = lambda z: np.asarray(z)[..., :nlon, :nlat]   # noqa: E731
  E = np.eye(K).reshape((K,) + shape) * valid
  E2 = E * (lcol <= L - 2)[None, :]                   # inputs whose latitude derivative is representable
  mu = gc.lat_nodes(cfg['spacing'], nlat)
  val, dlon, dlat = (_synth(cfg, shape, E, w) for w in (0, 1, 2))
  sc = lambda a: max(1.0, float(np.abs(a).max()))     # noqa: E731
  table = [('to_nodal(d_dlon(x)) vs analytic d/dlon', crop(g.to_nodal(g.d_dlon(E))), dlon),
           ('to_nodal(cos_lat_d_dlat(x)) vs analytic cos(lat) d/dlat, input l <= L-2',
            crop(g.to_nodal(g.cos_lat_d_dlat(E2))), dlat * (E2.sum(axis=(1, 2)) != 0)[:, None, None]),
           ('to_nodal(sec_lat_d_dlat_cos2(x)) vs analytic d/dmu((1-mu^2) x), input l <= L-2',
            crop(g.to_nodal(g.sec_lat_d_dlat_cos2(E2))),
            (dlat - 2 * mu[None, None, :] * val) * (E2.sum(axis=(1, 2)) != 0)[:, None, None])]
  for what, got, want in table:
    bad = _cmp(out, what, got, want, np.ones(want.shape, bool), scale=sc(want))
    if bad is not None:
      return bad
  if poles:
    return out
  # winds from vorticity / divergence: u = (d_dlon(chi)/cos - d_dlat(psi)) / r, v = (d_dlat(chi) + d_dlon(psi)/cos) / r
  from dinosaur import spherical_harmonic as sh
  cos = np.sqrt(1 - mu ** 2)[None, None, :]
  for clip in (False, True):
    lim = L - 2 if not clip else L - 3
    Z = E * ((lcol >= 1) & (lcol <= lim))[None, :]
    nz = (Z.sum(axis=(1, 2)) != 0)[:, None, None]
    # psi = inverse Laplacian (analytic): -r^2 / (l(l+1))
    inv = np.where(lcol >= 1, -r ** 2 / np.maximum(lcol * (lcol + 1.0), 1.0), 0.0)
    pot = Z * inv[None, None, :]
    p_lon, p_lat = _synth(cfg, shape, pot, 1), _synth(cfg, shape, pot, 2)
    zero = np.zeros_like(Z)
    u1, v1 = (crop(a) for a in sh.vor_div_to_uv_nodal(g, Z, zero, clip=clip))       # vorticity unit vectors
    u2, v2 = (crop(a) for a in sh.vor_div_to_uv_nodal(g, zero, Z, clip=clip))       # divergence unit vectors
    wants = (('u of a vorticity basis function', u1, -p_lat / cos / r), ('v of a vorticity basis function', v1, p_lon / cos / r),
             ('u of a divergence basis function', u2, p_lon / cos / r), ('v of a divergence basis function', v2, p_lat / cos / r))
    for what, got, want in wants:
      bad = _cmp(out, f'vor_div_to_uv_nodal(clip={clip}): {what} differs from the analytic wind', got, want * nz,
                 np.ones(want.shape, bool), scale=sc(want), radius=r)
      if bad is not None:
        return bad
  return out


def _nodal_strategy(tier):
  # synthesis is exact on any nodes: include under-resolved node counts and the pole grid (scalar operators only)
  return st.fixed_dictionaries({'grid': gc.grid_cfgs(max_m=8 if tier == 'quick' else 21, kinds=('vector',),
                                                     resolutions=('resolved', 'under_lat', 'under_both'))})


# ----------------------------------------------------------------------------
# S3 identities and the wind round trip as operator matrices (vector-resolved, pole-free grids)

_NO_POLES = ('gauss', 'equiangular')


def run_identities(case):
  from dinosaur import spherical_harmonic as sh
  cfg = case['grid']
  g = gc.build(cfg)
  shape = tuple(g.modal_shape)
  L, r = cfg['L'], _r(cfg)
  _, valid = gc.layout(cfg, shape)
  lcol = np.arange(shape[1])
  K = int(np.prod(shape))
  resolved = gc.is_resolved(cfg, 'vector')
  out = Outcome(labels=gc.labels(cfg, 'vector'), nontrivial=L >= 3 and cfg['M'] >= 2 and resolved, units=2 * K * 3)
  if not resolved:                       # special constructors may give fewer nodes than the vector rule needs
    return Outcome(skipped=True)
  if not np.all(np.isfinite(np.asarray(g.sec2_lat)[:cfg['nlat']])) or float(np.asarray(g.cos_lat)[:cfg['nlat']].min()) <= 0:
    return out.fail(what='pole-free grid has a non-finite sec2_lat / non-positive cos_lat')
  mu = gc.lat_nodes(cfg['spacing'], cfg['nlat'])
  if core.relerr(np.asarray(g.cos_lat)[:cfg['nlat']], np.sqrt(1 - mu ** 2), 1.0) > 1e-12 or \
     core.relerr(np.asarray(g.sec2_lat)[:cfg['nlat']], 1 / (1 - mu ** 2)) > 1e-10:
    return out.fail(what='cos_lat / sec2_lat differ from the node latitudes')
  E = np.eye(K).reshape((K,) + shape) * valid
  ones = np.ones(shape, bool)
  below_top = valid & (lcol <= L - 2)[None, :]
  # wind round trip: operator matrix == identity
  for clip_a, clip_b in ((False, True), (False, False), (True, True)):
    lim = L - 3 if clip_a else L - 2
    Z = E * ((lcol >= 1) & (lcol <= lim))[None, :]
    zero = np.zeros_like(Z)
    for which in ('vorticity', 'divergence'):
      vor, div = (Z, zero) if which == 'vorticity' else (zero, Z)
      u, v = sh.vor_div_to_uv_nodal(g, vor, div, clip=clip_a)
      if not (np.all(np.isfinite(np.asarray(u))) and np.all(np.isfinite(np.asarray(v)))):
        return out.fail(what='non-finite wind on a pole-free grid', clip=clip_a)
      vor2, div2 = _np(sh.uv_nodal_to_vor_div_modal(g, u, v, clip=clip_b))
      claim = ones if clip_b else below_top      # without the final clip the top wavenumber carries the documented artifact
      for name, got, want in (('vorticity', vor2, vor), ('divergence', div2, div)):
        bad = _cmp(out, f'uv_nodal_to_vor_div_modal(vor_div_to_uv_nodal(.)) is not the identity: {name} output for '
                   f'{which} unit vectors', got, want, claim, scale=1.0, clip_forward=clip_a, clip_back=clip_b, radius=r)
        if bad is not None:
          return bad
  # default arguments are clip=True
  Z = E * ((lcol >= 1) & (lcol <= L - 3))[None, :]
  u, v = sh.vor_div_to_uv_nodal(g, Z, 0 * Z)
  u2, v2 = sh.vor_div_to_uv_nodal(g, Z, 0 * Z, clip=True)
  if not (np.array_equal(np.asarray(u), np.asarray(u2)) and np.array_equal(np.asarray(v), np.asarray(v2))):
    return out.fail(what='vor_div_to_uv_nodal default differs from clip=True')
  # identities through sec^2(lat) in nodal space: G = to_modal(to_nodal(cos grad f) sec^2) is grad f / cos
  F = E * (lcol <= L - 2)[None, :]
  gx, gy = g.cos_lat_grad(F, clip=False)
  sec2 = np.asarray(g.sec2_lat)
  Gm = (g.to_modal(g.to_nodal(gx) * sec2), g.to_modal(g.to_nodal(gy) * sec2))
  lap = np.asarray(g.laplacian(F))
  lap_scale = max(float(np.abs(lap).max()), 1e-300)
  table = (('curl grad f = 0', g.curl_cos_lat(Gm, clip=False), 0 * lap),
           ('div grad f = laplacian f', g.div_cos_lat(Gm, clip=False), lap),
           ('div (k x grad f) = 0', g.div_cos_lat(g.k_cross(Gm), clip=False), 0 * lap),
           ('curl (k x grad f) = laplacian f', g.curl_cos_lat(g.k_cross(Gm), clip=False), lap))
  for what, got, want in table:
    bad = _cmp(out, 'identity violated: ' + what, np.asarray(got), want, below_top, scale=lap_scale, radius=r)
    if bad is not None:
      return bad
  # get_cos_lat_vector = cos grad chi + k x cos grad psi
  Z = E * ((lcol >= 1) & (lcol <= L - 2))[None, :]
  ucos, vcos = _np(sh.get_cos_lat_vector(Z, 2 * Z, g, clip=False))
  psi, chi = g.inverse_laplacian(Z), g.inverse_laplacian(2 * Z)
  a = _np(g.cos_lat_grad(chi, clip=False))
  b = _np(g.cos_lat_grad(psi, clip=False))
  sc = max(float(np.abs(ucos).max()), float(np.abs(vcos).max()), 1e-300)
  if core.relerr(ucos, a[0] - b[1], sc) > RTOL or core.relerr(vcos, a[1] + b[0], sc) > RTOL:
    return out.fail(what='get_cos_lat_vector != cos grad(chi) + k x cos grad(psi)')
  return out


def _identities_strategy(tier):
  return st.fixed_dictionaries({'grid': gc.grid_cfgs(max_m=8 if tier == 'quick' else 21, kinds=('vector',),
                                                     resolutions=('resolved',), spacings=_NO_POLES)})


# ----------------------------------------------------------------------------
# S4 random fields: identities with dense inputs and several leading axes (inputs described sparsely + seeded noise)


def run_random(case):
  from dinosaur import spherical_harmonic as sh
  cfg = case['grid']
  if not gc.is_resolved(cfg, 'vector'):
    return Outcome(skipped=True)
  g = gc.build(cfg)
  L, M, r = cfg['L'], cfg['M'], _r(cfg)
  clip = case['clip']
  lim = L - 3 if clip else L - 2
  prefix = tuple(case['prefix'])
  labs = gc.labels(cfg, 'vector') + [f'clip={clip}', f'prefix_ndim={len(prefix)}']
  out = Outcome(labels=labs, units=len(case['inputs']))
  nt = False
  for descr in case['inputs']:
    vor = gens.modal_field(g, prefix, descr, 'vorticity', lmax=lim, zero_mean=True, amp=case['amp'])
    div = gens.modal_field(g, prefix, descr, 'divergence', lmax=lim, zero_mean=True, amp=case['amp'])
    t = gens.touches(descr, L, lim)
    out.labels = list(out.labels) + t
    nt = nt or bool(t) or r != 1.0
    u, v = sh.vor_div_to_uv_nodal(g, vor, div, clip=clip)
    vor2, div2 = _np(sh.uv_nodal_to_vor_div_modal(g, u, v, clip=True))
    sc = max(float(np.abs(vor).max()), float(np.abs(div).max()), 1e-300)
    for name, got, want in (('vorticity', vor2, vor), ('divergence', div2, div)):
      if core.relerr(got, want, sc) > RTOL:
        return out.fail(what=f'wind round trip changed the {name}', index=core.argmax_index(got, want),
                        relerr=core.relerr(got, want, sc), input=descr, clip=clip, radius=r)
    # nodal winds against the oracle for the first slice
    idx = (0,) * len(prefix)
    lcol = np.arange(g.modal_shape[1])
    inv = np.where(lcol >= 1, -r ** 2 / np.maximum(lcol * (lcol + 1.0), 1.0), 0.0)
    psi, chi = vor[idx] * inv, div[idx] * inv
    shape = tuple(g.modal_shape)
    mu = gc.lat_nodes(cfg['spacing'], cfg['nlat'])
    cos = np.sqrt(1 - mu ** 2)[None, :]
    want_u = (_synth(cfg, shape, chi, 1) - _synth(cfg, shape, psi, 2)) / cos / r
    want_v = (_synth(cfg, shape, chi, 2) + _synth(cfg, shape, psi, 1)) / cos / r
    got_u, got_v = np.asarray(u)[idx][:cfg['nlon'], :cfg['nlat']], np.asarray(v)[idx][:cfg['nlon'], :cfg['nlat']]
    scw = max(float(np.abs(want_u).max()), float(np.abs(want_v).max()), 1e-300)
    if core.relerr(got_u, want_u, scw) > RTOL or core.relerr(got_v, want_v, scw) > RTOL:
      return out.fail(what='nodal wind differs from the analytic wind of the oracle basis',
                      relerr=max(core.relerr(got_u, want_u, scw), core.relerr(got_v, want_v, scw)), input=descr, radius=r)
  out.nontrivial = nt
  out.labels = sorted(set(out.labels))
  return out


@st.composite
def _random_case(draw, tier):
  cfg = draw(gc.grid_cfgs(max_m=10 if tier == 'quick' else 24, kinds=('vector',), resolutions=('resolved',),
                          spacings=_NO_POLES, special=False))
  clip = draw(st.booleans())
  lim = cfg['L'] - (3 if clip else 2)
  n_in = draw(st.integers(1, 3))
  prefix = draw(st.sampled_from([[], [2], [1], [2, 2]]))
  inputs = [draw(gens.input_descr(('vorticity', 'divergence'), max(prefix[0] if prefix else 1, 1), cfg['M'], cfg['L'],
                                  max(lim, 0))) for _ in range(n_in)]
  return {'grid': cfg, 'clip': clip, 'prefix': prefix, 'inputs': inputs, 'amp': draw(st.sampled_from([1.0, 1e-5, 1e3]))}


SUBCHECKS = [
    Subcheck('operator_matrices', run_matrices, strategy=_matrices_strategy,
             examples={'quick': 40, 'thorough': 240}, shards={'quick': 2, 'thorough': 8},
             wall={'quick': 300.0, 'thorough': 1500.0}, weight=3,
             rule='non-trivial = L >= 3 and M >= 2 (all unit vectors: m=l diagonal, l=L-2 and l=L-1 are always touched)',
             doc='14 operator matrices vs integrated oracle matrix elements; clip semantics; Laplacian inverse'),
    Subcheck('operator_matrices_large', run_large, cases=_large_cases,
             shards={'quick': 1, 'thorough': 6}, wall={'quick': 300.0, 'thorough': 1500.0}, weight=2,
             rule='always non-trivial (every (m,l) entry is probed, row mixing by dense fields)',
             doc='modal-only operator comparison up to L = 128 with one probe per total wavenumber'),
    Subcheck('nodal_derivatives', run_nodal, strategy=_nodal_strategy,
             examples={'quick': 24, 'thorough': 160}, shards={'quick': 2, 'thorough': 8},
             wall={'quick': 300.0, 'thorough': 1500.0}, weight=3,
             rule='non-trivial = L >= 3 and M >= 2',
             doc='nodal values of derivatives / winds of every basis function vs analytic oracle derivatives'),
    Subcheck('identities_and_wind_roundtrip', run_identities, strategy=_identities_strategy,
             examples={'quick': 20, 'thorough': 160}, shards={'quick': 2, 'thorough': 8},
             wall={'quick': 300.0, 'thorough': 1500.0}, weight=4,
             rule='non-trivial = vector-resolved grid with L >= 3 and M >= 2',
             doc='vor/div -> u,v -> vor/div = identity matrix; curl grad = 0, div grad = Laplacian, ...'),
    Subcheck('random_fields', run_random, strategy=lambda tier: _random_case(tier),
             examples={'quick': 30, 'thorough': 300}, shards={'quick': 2, 'thorough': 8},
             wall={'quick': 300.0, 'thorough': 1500.0}, weight=2,
             rule='non-trivial = input touches m=l, l=L-2 / L-1 or carries dense noise, or radius != 1',
             doc='dense / sparse random (vorticity, divergence) with leading axes: round trip and analytic winds'),
]


# ----------------------------------------------------------------------------
# one-parameter twins in one process (anything cached per grid / per compiled wrapper with too coarse a key)


def _twin_strategy(tier):
  return st.fixed_dictionaries({
      'grid': gc.grid_cfgs(max_m=6 if tier == 'quick' else 12, kinds=('vector',), resolutions=('resolved',)),
      'change': st.sampled_from(['radius', 'radius', 'clip_history', 'L', 'nlat']),
      'radius2': st.sampled_from([2.5, 0.4, 6.371e6, 1.0]),
      'clip_n': st.integers(2, 3), 'back_to_base': st.booleans()})


def run_twins(case):
  """A grid and then, in the same process, a twin that differs in exactly one attribute (or the same Grid after a
  call with a non-default argument): each must still satisfy the analytic-derivative comparison of `run_nodal` and
  the wind round trip of `run_identities`. The jitted module-level wrappers (vor_div_to_uv_nodal,
  uv_nodal_to_vor_div_modal take the grid as a static argument) and anything memoised per grid are reused across the
  two, which is where a too coarse key or equality shows."""
  import copy
  base = {'grid': case['grid']}
  seq = [('base', base)]
  twin = copy.deepcopy(base)
  ch = case['change']
  if ch == 'radius':
    r2 = float(case['radius2'])
    if (twin['grid'].get('radius') or 1.0) == r2:
      r2 = r2 * 3.0
    twin['grid']['radius'] = r2
  elif ch in ('L', 'nlat') and twin['grid'].get('via'):
    # sizes of grids made by the special constructors follow from their own rules: change the radius instead
    twin['grid']['radius'] = float((twin['grid'].get('radius') or 1.0) * 2.0)
  elif ch == 'L':
    twin['grid']['L'] = twin['grid']['L'] + 1
    twin['grid']['nlat'] = twin['grid']['nlat'] + 1
  elif ch == 'nlat':
    twin['grid']['nlat'] = twin['grid']['nlat'] + 2
  seq.append(('twin', twin))
  if case.get('back_to_base'):
    seq.append(('base_again', base))
  out = Outcome(labels=gc.labels(case['grid'], 'vector') + [f'twin_change={ch}'], units=0, nontrivial=True)
  for which, c in seq:
    if ch == 'clip_history' and which == 'twin':
      # same configuration, but this Grid object has been asked for a non-default clip first
      g = gc.build(c['grid'])
      x = np.ones(tuple(g.modal_shape))
      L = c['grid']['L']
      n_clip = min(int(case['clip_n']), L - 1)
      if n_clip < 2:
        continue                      # too small a truncation for a non-default clip
      y = np.asarray(g.clip_wavenumbers(x, n=n_clip))
      if np.any(y[..., :, L - n_clip:L] != 0) or np.any(y[..., :, :L - n_clip] != 1):
        return out.fail(what='clip_wavenumbers(n) does not zero exactly the top n total wavenumbers', n=n_clip, L=L)
      y1 = np.asarray(g.clip_wavenumbers(x))
      if np.any(y1[..., :, L - 1:L] != 0) or np.any(y1[..., :, :L - 1] != 1):
        return out.fail(what='default clip_wavenumbers after a call with n=%d on the same Grid does not clip exactly '
                             'one wavenumber' % case['clip_n'])
      gx = np.asarray(g.cos_lat_grad(x)[1])
      gy = np.asarray(g.clip_wavenumbers(g.cos_lat_grad(x, clip=False)[1], n=1))
      if not np.array_equal(gx, gy):
        return out.fail(what='cos_lat_grad(clip=True) after clip_wavenumbers(n=%d) on the same Grid differs from '
                             'clipping one wavenumber' % case['clip_n'])
      out.units += 3
      continue
    for fn in (run_nodal, run_identities):
      if fn is run_identities and c['grid']['spacing'] not in _NO_POLES:
        continue
      o = fn(c)
      out.units += o.units
      if not o.ok:
        det = dict(o.detail or {})
        det['sequence_position'] = which
        det['changed'] = ch
        return out.fail(**det)
  return out


SUBCHECKS.append(
    Subcheck('grid_twins', run_twins, strategy=_twin_strategy,
             examples={'quick': 16, 'thorough': 160}, shards={'quick': 2, 'thorough': 4},
             wall={'quick': 300.0, 'thorough': 1500.0}, weight=3,
             rule='non-trivial = two (three) grids differing in exactly one attribute were evaluated in one process',
             doc='history of grids in one process (radius / truncation / node count changed, or a non-default clip '
                 'first): analytic derivatives, winds and round trips still hold for each'))
