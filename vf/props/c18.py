"""C18 Unit and time conversions are mutually inverse and multiplicative."""
from __future__ import annotations

from fractions import Fraction as F
import functools
import math

from hypothesis import strategies as st
import numpy as np

from vf import core, gens
from vf.core import Outcome, Subcheck
from vf.oracles import time_units_ref as ref

RULE = ('Hypothesis-generated scales (default / atmospheric / four base scales log-uniform over 12 decades, given in '
        'drawn units), pint quantities from a grammar of products of m, km, mm, s, minute, hour, day, kg, g, K, Pa, hPa, '
        'N, J, W with integer and half-integer exponents, magnitudes 1e-30..1e30 as python/numpy scalars, numpy and '
        'jax arrays; whole-second durations and minute-resolution datetimes as large seeded arrays (seed and range '
        'drawn by Hypothesis) plus individually drawn values; model times up to 1e4 days of either sign in float32 '
        'and float64. Oracle = hand-written unit table (SI factor, dimension exponents), integer calendar arithmetic '
        'and exact rational / 80-bit reduction of phases modulo one turn; none of it uses pint or dinosaur. '
        'distinct = hash of the canonical JSON case; non-trivial rules are stated per sub-check.')
ASSUMPTIONS = [
    'offset units (degC, degF) are excluded: they are not multiplicative by definition',
    'float64 range: a conservative budget (decades of the magnitude + of every unit factor + of every scale factor, '
    'since pint accumulates them one by one) must stay below 280; a case beyond it is skipped and counted, a product '
    'or power beyond it is left out of that case (labels "product/quotient checked", "power checked")',
    'fractional powers and square roots are only taken of positive magnitudes',
    'jax-array magnitudes are only combined with units whose exact integer conversion factors stay below 2**62 '
    '(pint multiplies by python ints, jax rejects ints beyond int64: e.g. day**4); otherwise the same case runs with '
    'a numpy array',
    'whole-second durations are drawn with |seconds| <= 2**40 (DESIGN domain; float64 holds them exactly)',
    'round-down of non-integer durations is asserted for non-negative values whose fractional part lies in '
    '[1e-3, 1-1e-3] and |seconds| <= 1e9 (rounding noise there is < 1e-6); for negative non-integers only '
    'scalar path == array path is required (direction of truncation is not documented)',
    'datetimes lie in 1900-2100 at minute resolution (datetime64 units m, s, ns, h where representable); '
    'nondim_time_delta_from_time_axis is checked for whole-second steps',
    'time_to_orbital_time accepts scalars only (tree_math rejects array operands); arrays are mapped with jax.vmap',
    'datetime_to_orbital_time ignores seconds by construction (hour and minute only): inputs have minute resolution',
]
MANIFEST = {
    'text': 'Scale.nondimensionalize/dimensionalize agree with an independent unit table for generated compound '
            'quantities (round trip into any compatible unit, independence of the input unit, products, quotients, '
            'powers, missing dimensions raise), whole-second timedelta64 durations and minute-resolution datetime64 '
            'stamps survive the trip through non-dimensional time exactly (scalar and array path, documented '
            'round-down kept), and orbital/synodic phases are in [0, 2pi) and congruent to the elapsed time in '
            'float32 and float64.',
    'note': 'trusted base: pint unit definitions for the fifteen units used (cross-checked against the hand-written '
            'table), numpy datetime64 arithmetic, python Fraction / x87 long double arithmetic',
    'technique': 'property-based testing with an independent unit/calendar/phase oracle',
}

MAX_WHOLE_SECONDS = 2 ** 40
RTOL = 1e-13

# published constants (dinosaur/scales.py docstrings): Earth radius, rotation rate, mass of the dry atmosphere
_DEFAULT_SI = [6.37122e6, 1 / 2 / 7.292e-5, 1.0, 1.0]
_ATMOS_SI = [6.37122e6, 1 / 2 / 7.292e-5, 5.18e18, 1.0]

# ----------------------------------------------------------------------------
# shared: scales


@st.composite
def _scale_spec(draw, kinds=('default', 'atmospheric', 'custom', 'custom')):
  kind = draw(st.sampled_from(list(kinds)))
  if kind != 'custom':
    return {'kind': kind}
  return {'kind': 'custom', 'quad': draw(gens.scale_quads()),
          'units': [draw(st.sampled_from(list(alts))) for alts in ref.BASE_ALTERNATIVES]}


def _scale_si(spec):
  if spec['kind'] == 'default':
    return list(_DEFAULT_SI)
  if spec['kind'] == 'atmospheric':
    return list(_ATMOS_SI)
  return [float(v) for v in spec['quad']]


def _build_scale(spec, present=(True, True, True, True)):
  from dinosaur import scales
  u = scales.units
  if spec['kind'] == 'default' and all(present):
    return scales.DEFAULT_SCALE
  if spec['kind'] == 'atmospheric' and all(present):
    return scales.ATMOSPHERIC_SCALE
  si = _scale_si(spec)
  names = spec.get('units', ['m', 's', 'kg', 'K'])
  qs = []
  for v, name, p in zip(si, names, present):
    if p:
      qs.append((v / float(ref.UNITS[name][0])) * getattr(u, name))
  return scales.Scale(*qs)


@functools.lru_cache(maxsize=64)
def _specs_cached(key):
  import json
  from dinosaur import primitive_equations as pe
  return pe.PrimitiveEquationsSpecs.from_si(scale=_build_scale(json.loads(key)))


def _specs(spec):
  return _specs_cached(core.canon(spec))


def _scale_labels(spec):
  labs = [f"scale={spec['kind']}"]
  if spec['kind'] == 'custom' and spec['units'] != ['m', 's', 'kg', 'K']:
    labs.append('scale given in non-base units')
  return labs


# ----------------------------------------------------------------------------
# quantities

_NUMS = [2, -2, 2, -2, 4, -4, 1, -1, 3, -3, 6, -6, 5, -5]   # exponent = num / 2


@st.composite
def _terms(draw, max_terms=4):
  n = draw(st.integers(1, max_terms))
  return [[draw(st.sampled_from(list(ref.UNITS))), draw(st.sampled_from(_NUMS))] for _ in range(n)]


@st.composite
def _compatible_terms(draw, terms):
  """Another product of units with the same net dimension (possibly through a derived unit)."""
  dims = ref.dims_of(terms)
  out = []
  if draw(st.booleans()):
    name = draw(st.sampled_from(list(ref.DERIVED)))
    num = draw(st.sampled_from([2, -2, 1, -1, 4, 3]))
    out.append([name, num])
    dims = [d - F(num, 2) * p for d, p in zip(dims, ref.UNITS[name][1])]
  for d, alts in zip(dims, ref.BASE_ALTERNATIVES):
    if d != 0:
      out.append([draw(st.sampled_from(list(alts))), int(d * 2)])
  if not out:   # dimensionless: a ratio of two units of the same dimension
    a, b = draw(st.sampled_from([('km', 'm'), ('hour', 's'), ('g', 'kg'), ('m', 'm'), ('hPa', 'Pa')]))
    out = [[a, 2], [b, -2]]
  return out


@st.composite
def _magnitude(draw, allow_zero=True):
  kind = draw(st.sampled_from(['float'] * 3 + ['int'] + ['npscalar'] * 2 + ['array'] * 3 + ['array2d'] * 2 + ['jax']))
  spec = {'kind': kind, 'exp10': draw(st.integers(-30, 30)),
          'mant': draw(st.floats(1.0, 9.75, allow_nan=False, width=32)),
          'sign': draw(st.sampled_from([1, 1, -1]))}
  if kind == 'int':
    spec = {'kind': 'int', 'value': draw(st.integers(-10 ** 6, 10 ** 6) if allow_zero else st.integers(1, 10 ** 6))}
  if kind in ('array', 'array2d', 'jax'):
    spec['seed'] = draw(st.integers(0, 2 ** 16))
    spec['n'] = draw(st.integers(1, 6)) if kind != 'jax' else 3   # one shape: jax compiles per shape
    spec['decades'] = draw(st.sampled_from([0, 1, 8]))
    spec['with_zero'] = allow_zero and draw(st.booleans())
  return spec


def _mag_value(spec):
  """numpy value (python scalar / numpy scalar / array) described by a magnitude spec."""
  if spec['kind'] == 'int':
    return int(spec['value'])
  base = spec['sign'] * spec['mant'] * 10.0 ** spec['exp10']
  if spec['kind'] == 'float':
    return float(base)
  if spec['kind'] == 'npscalar':
    return np.float64(base)
  rng = np.random.default_rng(spec['seed'])
  shape = (spec['n'],) if spec['kind'] != 'array2d' else (2, spec['n'])
  a = base * 10.0 ** rng.uniform(-spec['decades'], spec['decades'], shape) * rng.choice([1.0, -1.0], shape)
  if spec.get('with_zero'):
    a.flat[0] = 0.0
  return a


@st.composite
def _quantity_case(draw):
  t1 = draw(_terms())
  if draw(st.integers(0, 7)) == 0:   # dedicated branch: a dimensionless ratio of two compatible unit expressions
    ta = draw(_terms(2))
    tb = draw(_compatible_terms(ta))
    t1 = ta + [[name, -num] for name, num in tb]
  t2 = draw(_terms(3))
  return {'scale': draw(_scale_spec()), 't1': t1, 'to': draw(_compatible_terms(t1)), 'm1': draw(_magnitude()),
          't2': t2, 'm2': draw(_magnitude(allow_zero=False)),
          'power': draw(st.sampled_from([2, 3, -1, -2, 0.5, 1.5, -0.5]))}


def _int_factor_bound(terms):
  """Upper bound of the integers pint may form when converting a product of terms to other units."""
  num = den = 1
  for name, n in terms:
    f = ref.UNITS[name][0]
    e = (abs(int(n)) + 1) // 2
    num *= max(f.numerator, 1) ** e
    den *= max(f.denominator, 1) ** e
  return max(num, den)


def _unit(u, terms):
  out = u.Unit('dimensionless')
  for name, num in terms:
    out = out * getattr(u, name) ** (num / 2 if num % 2 else num // 2)
  return out


def _rel(got, want):
  """Largest element-wise relative error; exact zeros must be reproduced exactly."""
  got = np.asarray(got, dtype=np.float64)
  want = np.asarray(want, dtype=np.float64)
  if got.shape != want.shape:
    return float('inf')
  if got.size == 0:
    return 0.0
  if not (np.all(np.isfinite(got)) and np.all(np.isfinite(want))):
    return float('inf')
  den = np.abs(want)
  num = np.abs(got - want)
  with np.errstate(divide='ignore', invalid='ignore'):
    r = np.where(den > 0, num / np.where(den > 0, den, 1.0), np.where(num > 0, np.inf, 0.0))
  return float(r.max())


def _log10abs(x):
  x = np.abs(np.asarray(x, dtype=np.float64))
  x = x[x > 0]
  return (float(np.log10(x.max())), float(np.log10(x.min()))) if x.size else (0.0, 0.0)


def _in_range(*values, limit=280.0):
  for v in values:
    hi, lo = _log10abs(v)
    if hi > limit or lo < -limit:
      return False
  return True


def run_quantity(case):
  from dinosaur import scales
  u = scales.units
  spec = case['scale']
  si = _scale_si(spec)
  scale = _build_scale(spec)
  t1, t2, to = case['t1'], case['t2'], case['to']
  m1, m2 = _mag_value(case['m1']), _mag_value(case['m2'])
  p = case['power']
  d1 = ref.dims_of(t1)
  labels = _scale_labels(spec) + [f"magnitude={case['m1']['kind']}"]
  if any(n % 2 for _, n in t1):
    labels.append('half-integer exponent')
  if any(name in ref.DERIVED for name, _ in t1):
    labels.append('derived unit in')
  if any(name in ref.DERIVED for name, _ in to):
    labels.append('derived unit out')
  if all(d == 0 for d in d1):
    labels.append('dimensionless')
  ndims = sum(d != 0 for d in d1)
  out = Outcome(labels=labels, units=8, nontrivial=ndims >= 2 and sorted(map(tuple, to)) != sorted(map(tuple, t1)))
  want1 = ref.nondim_ref(np.asarray(m1, dtype=np.float64), t1, si)
  want2 = ref.nondim_ref(np.asarray(m2, dtype=np.float64), t2, si)
  m1p = np.abs(np.asarray(m1, dtype=np.float64))
  want1p = ref.nondim_ref(m1p, t1, si)
  pos = bool(np.all(m1p > 0))
  try:
    np.broadcast_shapes(np.shape(m1), np.shape(m2))
  except ValueError:   # incompatible array shapes: the second quantity becomes its first element
    m2 = float(np.asarray(m2).ravel()[0])
    want2 = float(np.asarray(want2).ravel()[0])
  # float64 range: scaling factors and unit-conversion factors are accumulated factor by factor, so their partial
  # products (not only the final values) must stay finite. Budgets in decades, conservative (sums of absolute logs).
  def unit_decades(terms):
    return sum(abs(n / 2.0 * math.log10(float(ref.UNITS[name][0]))) for name, n in terms)

  def scale_decades(terms):
    return sum(abs(float(d)) * abs(math.log10(v)) for d, v in zip(ref.dims_of(terms), si))

  lm1, lm2 = max(map(abs, _log10abs(m1))), max(map(abs, _log10abs(m2)))
  u1d, u2d, utod, s1d, s2d = unit_decades(t1), unit_decades(t2), unit_decades(to), scale_decades(t1), scale_decades(t2)
  limit = 280.0
  if lm1 + u1d + s1d + utod > limit or lm2 + u2d + s2d > limit:
    return Outcome(skipped=True)
  do_product = lm1 + lm2 + u1d + u2d + s1d + s2d <= limit
  do_power = pos and abs(p) * (lm1 + u1d + max(s1d, utod)) <= limit
  out.labels = list(out.labels) + [lab for lab, on in (('product/quotient checked', do_product), ('power checked', do_power)) if on]
  is_jax = case['m1']['kind'] == 'jax'
  if is_jax and max(_int_factor_bound(t1), _int_factor_bound(to)) > 2 ** 62:
    # pint keeps integer conversion factors exact (e.g. day**4 = 86400**4 > 2**63); jax cannot multiply an array by
    # a python int beyond int64. That is a pint/jax interoperability limit, not part of the claim: use numpy.
    is_jax = False
    out.labels = list(out.labels) + ['jax demoted to numpy (integer factor > 2^62)']
  if is_jax:
    import jax.numpy as jnp
    m1q = jnp.asarray(m1)
  else:
    m1q = m1
  u1, u2, uto = _unit(u, t1), _unit(u, t2), _unit(u, to)
  q1 = m1q * u1
  q2 = m2 * u2

  def bad(what, got, want, **kw):
    return out.fail(what=what, relerr=_rel(got, want), got=np.asarray(got).ravel()[:4], want=np.asarray(want).ravel()[:4],
                    scale_si=si, **kw)

  # 1. value of the non-dimensionalisation against the independent unit table
  nd1 = scale.nondimensionalize(q1)
  if _rel(nd1, want1) > RTOL:
    return bad('nondimensionalize(q) differs from magnitude * SI factor / prod(scale**dim)', nd1, want1, unit=str(u1))
  # 2. round trip into any compatible unit
  back = scale.dimensionalize(nd1, uto)
  want_back = ref.convert_ref(np.asarray(m1, dtype=np.float64), t1, to)
  if back.units != uto:
    return out.fail(what='dimensionalize returned a different unit', got=str(back.units), want=str(uto))
  if _rel(back.magnitude, want_back) > RTOL:
    return bad('dimensionalize(nondimensionalize(q), u) != q expressed in u (unit table)', back.magnitude, want_back,
               unit_in=str(u1), unit_out=str(uto))
  if _rel(back.magnitude, q1.to(uto).magnitude) > RTOL:
    return bad('dimensionalize(nondimensionalize(q), u) != q.to(u)', back.magnitude, q1.to(uto).magnitude,
               unit_in=str(u1), unit_out=str(uto))
  same = scale.dimensionalize(nd1, u1)
  if _rel(same.magnitude, np.asarray(m1, dtype=np.float64)) > RTOL:
    return bad('round trip into the original unit changed the magnitude', same.magnitude, m1, unit=str(u1))
  # 3. independence of the unit the quantity is expressed in
  nd1b = scale.nondimensionalize(q1.to(uto))
  if _rel(nd1b, want1) > RTOL or _rel(nd1b, nd1) > RTOL:
    return bad('nondimensionalize depends on the unit the quantity is expressed in', nd1b, nd1, unit_in=str(u1),
               unit_out=str(uto))
  # 4. products, quotients, powers
  nd2 = scale.nondimensionalize(q2)
  if _rel(nd2, want2) > RTOL:
    return bad('nondimensionalize(q2) differs from the unit table', nd2, want2, unit=str(u2))
  a1 = np.asarray(nd1, dtype=np.float64)
  a2 = np.asarray(nd2, dtype=np.float64)
  a2s, q2s = a2, q2
  q1n = np.asarray(m1, dtype=np.float64) * u1    # numpy container for mixed products
  if do_product:
    prod = scale.nondimensionalize(q1n * q2s)
    if _rel(prod, a1 * a2s) > RTOL:
      return bad('nondimensionalize(q1*q2) != nondimensionalize(q1)*nondimensionalize(q2)', prod, a1 * a2s,
                 units=[str(u1), str(u2)])
    quot = scale.nondimensionalize(q1n / q2s)
    if _rel(quot, a1 / a2s) > RTOL:
      return bad('nondimensionalize(q1/q2) != nondimensionalize(q1)/nondimensionalize(q2)', quot, a1 / a2s,
                 units=[str(u1), str(u2)])
  if do_power:
    qp = (m1p * u1) ** p
    pw = scale.nondimensionalize(qp)
    wantp = np.asarray(want1p) ** p
    if _rel(pw, wantp) > RTOL * max(1.0, abs(p)) or _rel(pw, np.abs(a1) ** p) > RTOL * max(1.0, abs(p)):
      return bad('nondimensionalize(q**p) != nondimensionalize(q)**p', pw, wantp, power=p, unit=str(u1))
    # and back: dimensionalize of the power in the power of the compatible unit
    backp = scale.dimensionalize(pw, uto ** p)
    wantbp = np.asarray(ref.convert_ref(m1p, t1, to)) ** p
    if _rel(backp.magnitude, wantbp) > RTOL * max(1.0, abs(p)):
      return bad('dimensionalize(nondimensionalize(q**p), u**p) != (q in u)**p', backp.magnitude, wantbp, power=p)
  return out


# ----------------------------------------------------------------------------
# scale validation / missing dimensions


@st.composite
def _missing_case(draw):
  present = [draw(st.booleans()) for _ in range(4)]
  return {'scale': draw(_scale_spec(kinds=('custom',))), 'present': present, 'terms': draw(_terms(3)),
          'mant': draw(st.floats(1.0, 9.75, allow_nan=False, width=32)),
          'bad_scale': draw(st.sampled_from(['compound', 'duplicate', 'dimensionless']))}


def run_missing(case):
  from dinosaur import scales
  u = scales.units
  present = case['present']
  scale = _build_scale(case['scale'], present)
  si = [v if p else None for v, p in zip(_scale_si(case['scale']), present)]
  terms = case['terms']
  dims = ref.dims_of(terms)
  needs_missing = any(d != 0 and not p for d, p in zip(dims, present))
  out = Outcome(labels=['raises' if needs_missing else 'defined', f'present={sum(present)}'],
                nontrivial=0 < sum(present) < 4, units=4)
  if len(scale) != sum(present) or sorted(scale) != sorted(n for n, p in zip(ref.DIM_NAMES, present) if p):
    return out.fail(what='Scale does not list exactly the dimensions it was given', keys=sorted(scale))
  unit = _unit(u, terms)
  q = case['mant'] * unit
  for name, call in (('nondimensionalize', lambda: scale.nondimensionalize(q)),
                     ('dimensionalize', lambda: scale.dimensionalize(case['mant'], unit).magnitude)):
    try:
      got = call()
    except ValueError:
      if not needs_missing:
        return out.fail(what=f'{name} raised although every dimension with a non-zero net exponent has a scale',
                        unit=str(unit), present=present)
      continue
    if needs_missing:
      return out.fail(what=f'{name} did not raise ValueError for a dimension without scale', unit=str(unit),
                      present=present, got=got)
    f = ref.si_factor(terms) / ref.scale_factor(si, dims)
    want = case['mant'] * f if name == 'nondimensionalize' else case['mant'] / f
    if _in_range(want) and _rel(got, want) > RTOL:
      return out.fail(what=f'{name} wrong on a partial scale', got=got, want=want, unit=str(unit))
  # constructor contract: every scale describes a single dimension, no duplicates
  try:
    if case['bad_scale'] == 'compound':
      scales.Scale(1 * u.m, 2.0 * unit if sum(d != 0 for d in dims) >= 2 or any(d not in (0, 1) for d in dims)
                   else 1 * u.m / u.s)
    elif case['bad_scale'] == 'duplicate':
      scales.Scale(1 * u.m, 1 * u.s, 3 * u.km)
    else:
      scales.Scale(1 * u.m, 2 * u.dimensionless)
  except ValueError:
    pass
  else:
    return out.fail(what='Scale accepted an invalid set of base scales', kind=case['bad_scale'], unit=str(unit))
  return out


# ----------------------------------------------------------------------------
# timedelta64 <-> non-dimensional time

_TD_UNITS = {'s': 1, 'm': 60, 'h': 3600, 'ms': F(1, 1000)}


@st.composite
def _timedelta_case(draw, tier):
  hi_bits = draw(st.sampled_from([6, 10, 17, 18, 24, 31, 32, 33, 36, 40]))
  hi = min(2 ** hi_bits, MAX_WHOLE_SECONDS)
  lo = draw(st.sampled_from([0, 0, hi // 2, hi - hi // 8]))
  singles = draw(st.lists(st.one_of(st.integers(0, 300), st.integers(0, MAX_WHOLE_SECONDS - 1)), max_size=6))
  fracs = draw(st.lists(st.tuples(st.integers(0, 10 ** 9), st.integers(1, 999)), max_size=4))
  return {'scale': draw(_scale_spec()), 'unit': draw(st.sampled_from(['s', 's', 's', 'm', 'h', 'ms'])),
          'seed': draw(st.integers(0, 2 ** 20)), 'lo': lo, 'hi': hi,
          'n': 100000 if tier == 'quick' else 1000000,
          'negative': draw(st.sampled_from([False, False, True])), 'singles': singles,
          'fractions': [list(t) for t in fracs]}


def run_timedelta(case):
  specs = _specs(case['scale'])
  T = _scale_si(case['scale'])[1]
  unit = case['unit']
  usec = _TD_UNITS[unit]
  rng = np.random.default_rng(case['seed'])
  sign = -1 if case['negative'] else 1
  labels = _scale_labels(case['scale']) + [f'unit={unit}', 'negative' if case['negative'] else 'non-negative',
                                           f"hi=2^{int(math.log2(max(case['hi'], 1)))}", 'reaches>=2^32' if case['hi'] > 2 ** 32 else 'below 2^32']
  out = Outcome(labels=labels, nontrivial=case['hi'] >= 2 ** 10, units=0)

  def to_td(seconds):
    """timedelta64[unit] array holding whole-second durations (seconds is an int64 array)."""
    if unit == 'ms':
      return (seconds * 1000).astype('timedelta64[ms]')
    return (seconds // int(usec)).astype(f'timedelta64[{unit}]')

  if case['n'] and case['hi'] > case['lo']:
    sec = sign * rng.integers(case['lo'], case['hi'], size=case['n'], dtype=np.int64)
    td = to_td(sec)
    sec = td.astype('timedelta64[s]').astype(np.int64) if unit != 'ms' else sec   # after flooring to the unit
    nd = specs.nondimensionalize_timedelta64(td)
    out.units += int(td.size)
    want_nd = sec.astype(np.float64) / T
    if _rel(nd, want_nd) > RTOL:
      i = int(np.argmax(np.abs(np.asarray(nd) - want_nd) / np.maximum(np.abs(want_nd), 1e-300)))
      return out.fail(what='nondimensionalize_timedelta64 != seconds / time scale', seconds=int(sec[i]),
                      got=float(np.asarray(nd)[i]), want=float(want_nd[i]), time_scale_s=T)
    back = specs.dimensionalize_timedelta64(nd)
    if not isinstance(back, np.ndarray) or back.dtype != np.dtype('timedelta64[s]'):
      return out.fail(what='array path does not return timedelta64[s]', got=str(getattr(back, 'dtype', type(back))))
    badidx = np.nonzero(back.astype(np.int64) != sec)[0]
    if badidx.size:
      i = int(badidx[np.argmin(np.abs(sec[badidx]))])
      return out.fail(what='whole-second duration does not survive the round trip (array path)', seconds=int(sec[i]),
                      got=int(back[i].astype(np.int64)), fraction_failing=badidx.size / sec.size,
                      raw_seconds=repr(float(specs.dimensionalize(float(np.asarray(nd)[i]), _sec_unit()).magnitude)),
                      time_scale_s=T)
    # scalar path on a sample
    for i in rng.integers(0, sec.size, size=150):
      r = _scalar_roundtrip(specs, td[i])
      if r != int(sec[i]):
        return out.fail(what='whole-second duration does not survive the round trip (scalar path)',
                        seconds=int(sec[i]), got=r, time_scale_s=T)
    out.units += 150
  for s in case['singles']:
    s = sign * int(s)
    s -= s % 3600 if unit == 'h' else (s % 60 if unit == 'm' else 0)
    td1 = to_td(np.asarray([s], dtype=np.int64))
    r_scalar = _scalar_roundtrip(specs, td1[0])
    r_array = specs.dimensionalize_timedelta64(specs.nondimensionalize_timedelta64(td1))
    out.units += 2
    if r_scalar != s or int(r_array[0].astype(np.int64)) != s:
      return out.fail(what='whole-second duration does not survive the round trip', seconds=s, scalar=r_scalar,
                      array=int(r_array[0].astype(np.int64)), time_scale_s=T)
  # documented round-down of non-integer durations, identical on both paths
  for k, milli in case['fractions']:
    sec_f = sign * (k + milli / 1000.0)
    v = sec_f / T
    a = specs.dimensionalize_timedelta64(np.asarray([v, v]))
    s_ = specs.dimensionalize_timedelta64(float(v))
    out.units += 2
    if not isinstance(s_, np.timedelta64):
      return out.fail(what='scalar path does not return a numpy timedelta64', got=str(type(s_)))
    s_int, a_int = int(s_ / np.timedelta64(1, 's')), int(a[0].astype(np.int64))
    if s_int != a_int:
      return out.fail(what='scalar and array path round differently', value=v, seconds=sec_f, scalar=s_int, array=a_int)
    if sign > 0 and s_int != k:
      return out.fail(what='non-integer duration is not rounded down to whole seconds', value=v, seconds=sec_f,
                      got=s_int, want=k)
    if sign < 0 and s_int not in (-k, -k - 1):
      return out.fail(what='negative non-integer duration is not rounded to a neighbouring second', seconds=sec_f,
                      got=s_int)
  # history: a sequence of short-lived scales with different time units in one process (each freed before the next
  # is built, so object addresses are reused): the conversion must depend on the scale's value, not on its identity
  import gc
  from dinosaur import primitive_equations as pe, scales
  u = scales.units
  probe = np.asarray([3600, 1, 86399], dtype='timedelta64[s]')
  for t_unit in (1.0, 3600.0, float(T) if T > 0 else 7.0, 60.0, 86400.0, 0.5):
    tmp = pe.PrimitiveEquationsSpecs.from_si(scale=scales.Scale(6.37122e6 * u.m, t_unit * u.s, 1 * u.kg, 1 * u.degK))
    nd = tmp.nondimensionalize_timedelta64(probe)
    back_a = tmp.dimensionalize_timedelta64(nd)
    back_s = tmp.dimensionalize_timedelta64(float(np.asarray(nd)[0]))
    out.units += 1
    if not np.array_equal(back_a, probe) or back_s != probe[0]:
      return out.fail(what='whole-second round trip fails for a freshly built scale used after other scales in the same '
                      'process', time_unit_s=t_unit, got=[int(v) for v in back_a.astype(np.int64)],
                      scalar=int(back_s / np.timedelta64(1, 's')), want=[3600, 1, 86399])
    del tmp, nd
    gc.collect()
  return out


def _sec_unit():
  from dinosaur import scales
  return scales.units.s


def _scalar_roundtrip(specs, td_scalar):
  nd = specs.nondimensionalize_timedelta64(td_scalar)
  back = specs.dimensionalize_timedelta64(nd)
  if not isinstance(back, np.timedelta64):
    return repr(type(back))
  return int(back / np.timedelta64(1, 's'))


# ----------------------------------------------------------------------------
# datetime64 <-> non-dimensional time

_MIN_1900 = ref.days_from_civil(1900, 1, 1) * 1440
_MIN_2100 = ref.days_from_civil(2100, 1, 1) * 1440


@st.composite
def _datetime_case(draw, tier):
  ref_min = draw(st.one_of(st.integers(_MIN_1900, _MIN_2100),
                           st.sampled_from([ref.days_from_civil(1979, 1, 1) * 1440, 0,
                                            ref.days_from_civil(2000, 2, 29) * 1440 + 61])))
  span = draw(st.sampled_from(['full', 'full', 'year', 'year', 'day']))
  singles = draw(st.lists(st.integers(_MIN_1900, _MIN_2100), max_size=5))
  step = draw(st.sampled_from([1, 60, 600, 3600, 6 * 3600, 86400, 7, 5400])) * draw(st.sampled_from([1, 1, -1]))
  return {'scale': draw(_scale_spec()), 'ref_min': ref_min, 'span': span, 'seed': draw(st.integers(0, 2 ** 20)),
          'n': 100000 if tier == 'quick' else 1000000, 'dt_unit': draw(st.sampled_from(['m', 'm', 's', 'ns', 'h'])),
          'ref_unit': draw(st.sampled_from(['m', 's', 'D'])), 'singles': singles, 'axis_step_s': step,
          'axis_unit': draw(st.sampled_from(['s', 'ns', 'm', 'ms']))}


def run_datetime(case):
  import datetime as pydt
  from dinosaur import radiation, xarray_utils as xu
  specs = _specs(case['scale'])
  T = _scale_si(case['scale'])[1]
  rng = np.random.default_rng(case['seed'])
  ref_min = int(case['ref_min'])
  ref_unit = case['ref_unit']
  if ref_unit == 'D':
    ref_min -= ref_min % 1440
  ref64 = np.datetime64(ref_min, 'm').astype(f'datetime64[{ref_unit}]')
  unit = case['dt_unit']
  lo, hi = {'full': (_MIN_1900, _MIN_2100), 'year': (ref_min - 527040, ref_min + 527040),
            'day': (ref_min - 1440, ref_min + 1440)}[case['span']]
  lo, hi = max(lo, _MIN_1900), min(hi, _MIN_2100)
  mins = np.concatenate([rng.integers(lo, hi, size=case['n'], dtype=np.int64),
                         np.asarray(case['singles'] + [ref_min], dtype=np.int64)])
  if unit == 'h':
    mins -= mins % 60
  times = mins.astype('datetime64[m]').astype(f'datetime64[{unit}]')
  out = Outcome(labels=_scale_labels(case['scale']) + [f'datetime_unit={unit}', f'ref_unit={ref_unit}',
                                                       f"span={case['span']}", f"axis_unit={case['axis_unit']}"],
                nontrivial=case['span'] != 'day', units=int(times.size))
  nd = xu.datetime64_to_nondim_time(times, specs, ref64)
  want = (mins - ref_min).astype(np.float64) * 60.0 / T
  if _rel(nd, want) > RTOL:
    i = int(np.argmax(np.abs(nd - want)))
    return out.fail(what='datetime64_to_nondim_time != elapsed seconds / time scale', time=str(times[i]),
                    ref=str(ref64), got=float(nd[i]), want=float(want[i]), time_scale_s=T)
  back = xu.nondim_time_to_datetime64(nd, specs, ref64)
  neq = np.nonzero(back != times)[0]
  if neq.size:
    i = int(neq[0])
    return out.fail(what='nondim_time_to_datetime64(datetime64_to_nondim_time(t)) != t', time=str(times[i]),
                    got=str(back[i]), ref=str(ref64), nondim=float(nd[i]), fraction_failing=neq.size / times.size,
                    time_scale_s=T)
  # scalar inputs take the same path
  for i in (0, times.size - 1):
    nd0 = xu.datetime64_to_nondim_time(times[i], specs, ref64)
    b0 = xu.nondim_time_to_datetime64(nd0, specs, ref64)
    if b0 != times[i] or _rel(nd0, want[i]) > RTOL:
      return out.fail(what='scalar datetime64 round trip differs', time=str(times[i]), got=str(b0), nondim=float(nd0))
  # radiation.datetime_to_time: same elapsed time, from datetime.datetime or datetime64
  for i in range(min(4, times.size)):
    m = int(mins[-1 - i])
    when64 = np.datetime64(m, 'm')
    when = pydt.datetime(1970, 1, 1) + pydt.timedelta(minutes=m)
    refdt = pydt.datetime(1970, 1, 1) + pydt.timedelta(minutes=ref_min)
    w = (m - ref_min) * 60.0 / T
    for a, b in ((when, refdt), (when64, ref64), (when64, refdt)):
      got = radiation.datetime_to_time(a, specs, b)
      out.units += 1
      if _rel(got, w) > RTOL:
        return out.fail(what='radiation.datetime_to_time != elapsed seconds / time scale', when=str(a), ref=str(b),
                        got=float(got), want=w, time_scale_s=T)
  # time axis step
  step = int(case['axis_step_s'])
  au = case['axis_unit']
  if au == 'm':
    step -= step % 60 if step > 0 else -((-step) % 60)
    if step == 0:
      step = 60
  start = int(mins[0])
  axis = (np.datetime64(start, 'm').astype('datetime64[s]') + np.arange(4) * np.timedelta64(step, 's')).astype(
      f'datetime64[{au}]')
  got = xu.nondim_time_delta_from_time_axis(axis, specs)
  out.units += 2
  if _rel(got, step / T) > RTOL:
    return out.fail(what='nondim_time_delta_from_time_axis != step seconds / time scale', step_s=step, unit=au,
                    got=float(got), want=step / T)
  nd_axis = xu.datetime64_to_nondim_time(axis, specs, ref64)
  if abs((nd_axis[1] - nd_axis[0]) - got) > 1e-9 * max(abs(float(nd_axis[0])), abs(float(nd_axis[1])), abs(got)):
    return out.fail(what='time-axis delta inconsistent with datetime64_to_nondim_time differences', step_s=step,
                    got=float(got), diff=float(nd_axis[1] - nd_axis[0]))
  faxis = np.asarray(nd_axis, dtype=np.float64)
  gotf = xu.nondim_time_delta_from_time_axis(faxis, specs)
  if gotf != float(faxis[1] - faxis[0]):
    return out.fail(what='floating time axis: delta is not time[1]-time[0]', got=gotf, want=float(faxis[1] - faxis[0]))
  return out


# ----------------------------------------------------------------------------
# orbital phases


@st.composite
def _orbital_case(draw, tier):
  ref_min = draw(st.one_of(st.integers(_MIN_1900, _MIN_2100),
                           st.sampled_from([ref.days_from_civil(1979, 1, 1) * 1440,
                                            ref.days_from_civil(2000, 12, 31) * 1440 + 1439,
                                            ref.days_from_civil(2001, 1, 1) * 1440])))
  return {'scale': draw(_scale_spec()), 'ref_min': ref_min, 'ref_kind': draw(st.sampled_from(['datetime', 'datetime64'])),
          'dtype': draw(st.sampled_from(['float64', 'float32'])), 'seed': draw(st.integers(0, 2 ** 20)),
          'max_days': draw(st.sampled_from([1.0, 30.0, 400.0, 1e4, 1e4])),
          'n': 20000 if tier == 'quick' else 200000,
          'singles_days': draw(st.lists(st.floats(-1e4, 1e4, allow_nan=False, width=32), max_size=4)),
          'whens': draw(st.lists(st.integers(_MIN_1900, _MIN_2100), min_size=1, max_size=6))}


@functools.lru_cache(maxsize=1)
def _tiny_coords():
  from dinosaur import coordinate_systems as cs, sigma_coordinates as sc, spherical_harmonic as sh
  return cs.CoordinateSystem(sh.Grid(longitude_wavenumbers=2, total_wavenumbers=3, longitude_nodes=4, latitude_nodes=2),
                             sc.SigmaCoordinates.equidistant(1))


_C_PHASE = 8.0    # rounding budget in units of eps*(|unreduced phase| + 2 pi): rate cast, product, sum, k*2pi, subtraction


def _check_phases(out, name, got, turns_ld, eps, extra):
  """got: phases (dtype array); turns_ld: unreduced phase / 2pi in long double."""
  got = np.asarray(got)
  two_pi = 2 * math.pi
  if not np.all(np.isfinite(got)):
    return out.fail(what=f'{name} phase not finite', **extra)
  if np.any(got < 0):
    i = int(np.argmin(got))
    return out.fail(what=f'{name} phase negative', got=float(got[i]), index=i, unreduced_turns=float(turns_ld[i]), **extra)
  # x - floor(x / 2pi) * 2pi in floating point is < 2pi + ulp(x)/2: the slack grows with the unreduced phase x
  upper = two_pi * (1 + 4 * eps) + eps * np.abs(turns_ld).astype(np.float64) * two_pi
  if np.any(got.astype(np.float64) >= upper):
    i = int(np.argmax(got.astype(np.float64) - upper))
    return out.fail(what=f'{name} phase >= 2 pi', got=float(got[i]), index=i, unreduced_turns=float(turns_ld[i]), **extra)
  frac = turns_ld - np.floor(turns_ld)
  d = np.abs(got.astype(np.longdouble) / np.longdouble(two_pi) - frac)
  d = np.minimum(d, 1 - d).astype(np.float64) * two_pi
  bound = _C_PHASE * eps * (np.abs(turns_ld).astype(np.float64) * two_pi + two_pi)
  viol = np.nonzero(d > bound)[0]
  if viol.size:
    i = int(viol[np.argmax((d / bound)[viol])])
    return out.fail(what=f'{name} phase not congruent to reference phase + rate * t (mod 2 pi)', got=float(got[i]),
                    want=float(frac[i]) * two_pi, error=float(d[i]), bound=float(bound[i]), index=i,
                    unreduced_turns=float(turns_ld[i]), **extra)
  return None


def run_orbital(case):
  import datetime as pydt
  import jax
  from dinosaur import radiation
  if np.finfo(np.longdouble).eps > 1e-18:
    raise RuntimeError('long double is not an extended precision type on this platform')
  spec = case['scale']
  specs = _specs(spec)
  T = _scale_si(spec)[1]
  dtype = np.dtype(case['dtype'])
  eps = float(np.finfo(dtype).eps)
  ref_min = int(case['ref_min'])
  refdt = pydt.datetime(1970, 1, 1) + pydt.timedelta(minutes=ref_min)
  ref_arg = refdt if case['ref_kind'] == 'datetime' else np.datetime64(ref_min, 'm')
  fy, fd = ref.calendar_fractions(ref_min)
  out = Outcome(labels=_scale_labels(spec) + [f"dtype={case['dtype']}", f"ref={case['ref_kind']}",
                                              f"max_days={case['max_days']:g}"],
                nontrivial=case['max_days'] >= 30.0, units=0)
  two_pi = 2 * math.pi
  # (a) calendar datetime -> orbital time
  for m in list(case['whens']) + [ref_min]:
    when = pydt.datetime(1970, 1, 1) + pydt.timedelta(minutes=int(m))
    ot = radiation.datetime_to_orbital_time(when)
    wy, wd = ref.calendar_fractions(int(m))
    out.units += 1
    for name, got, want in (('orbital', ot.orbital_phase, wy), ('synodic', ot.synodic_phase, wd)):
      got = float(got)
      if not (0.0 <= got < two_pi):
        return out.fail(what=f'datetime_to_orbital_time: {name} phase outside [0, 2 pi)', when=str(when), got=got)
      if abs(got - float(want) * two_pi) > 8 * np.finfo(np.float64).eps * two_pi:
        return out.fail(what=f'datetime_to_orbital_time: {name} phase differs from the calendar fraction',
                        when=str(when), got=got, want=float(want) * two_pi)
  sr = radiation.SolarRadiation(_tiny_coords(), specs, ref_arg)
  r0 = sr.reference_orbital_time
  if abs(float(r0.orbital_phase) - float(fy) * two_pi) > 1e-14 * two_pi or \
      abs(float(r0.synodic_phase) - float(fd) * two_pi) > 1e-14 * two_pi:
    return out.fail(what='SolarRadiation reference orbital time differs from the calendar fractions', ref=str(ref_arg),
                    got=[float(r0.orbital_phase), float(r0.synodic_phase)], want=[float(fy) * two_pi, float(fd) * two_pi])
  # (b) model time -> orbital time, bulk through vmap in the requested dtype
  rng = np.random.default_rng(case['seed'])
  day_nd = ref.SECONDS_PER_DAY / T                 # one day in model time units
  n = int(case['n'])
  md = float(case['max_days'])
  days = np.concatenate([
      rng.uniform(-md, md, n // 2),
      np.round(rng.uniform(-md, md, n // 4)),                                   # whole days: phase returns to the reference
      np.round(rng.uniform(-md, md, n // 8)) - float(fd),                        # synodic phase ~ 0 / 2 pi
      (np.round(rng.uniform(-md, md, n // 8)) - float(fd)) * (1 + rng.choice([-1, 1], n // 8) * 2.0 ** -rng.integers(20, 52, n // 8)),
      np.asarray(case['singles_days'], dtype=np.float64), [0.0]])
  t = (days * day_nd).astype(dtype)
  tl = t.astype(np.longdouble)
  Tl = np.longdouble(T)
  turns_syn = np.longdouble(fd.numerator) / np.longdouble(fd.denominator) + tl * Tl / np.longdouble(ref.SECONDS_PER_DAY)
  turns_orb = np.longdouble(fy.numerator) / np.longdouble(fy.denominator) + tl * Tl / np.longdouble(ref.JULIAN_YEAR_SECONDS)
  ot = jax.vmap(sr.time_to_orbital_time)(t)
  out.units += int(t.size)
  extra = {'dtype': case['dtype'], 'time_scale_s': T, 'ref': str(refdt)}
  for name, got, turns in (('orbital', ot.orbital_phase, turns_orb), ('synodic', ot.synodic_phase, turns_syn)):
    got = np.asarray(got)
    if got.dtype != dtype:
      return out.fail(what='phase dtype differs from the dtype of the model time', got=str(got.dtype), want=str(dtype))
    bad = _check_phases(out, name, got, turns, eps, extra)
    if bad is not None:
      i = bad.detail.get('index')
      if i is not None:
        bad.detail['time'] = float(t[i])
      return bad
  # (c) exact rational reference on a sample, scalar paths (python float and numpy scalar)
  idx = list(rng.integers(0, t.size, size=60)) + list(range(t.size - len(case['singles_days']) - 1, t.size))
  Tf = F(T)
  for j, i in enumerate(idx):
    tv = t[i]
    ex_syn = fd + F(float(tv)) * Tf / ref.SECONDS_PER_DAY
    ex_orb = fy + F(float(tv)) * Tf / ref.JULIAN_YEAR_SECONDS
    o_arr = (np.asarray(ot.orbital_phase)[i], np.asarray(ot.synodic_phase)[i])
    o_np = sr.time_to_orbital_time(dtype.type(tv))
    results = [('vmap', o_arr, eps), ('numpy scalar', (o_np.orbital_phase, o_np.synodic_phase), eps)]
    if dtype == np.float64 and j % 2 == 0:
      o_py = sr.time_to_orbital_time(float(tv))
      results.append(('python float', (o_py.orbital_phase, o_py.synodic_phase), eps))
    out.units += len(results) - 1
    for path, (po, ps), e in results:
      for name, got, ex in (('orbital', po, ex_orb), ('synodic', ps, ex_syn)):
        got = float(got)
        if not (0.0 <= got < two_pi * (1 + 4 * e) + e * abs(float(ex)) * two_pi):
          return out.fail(what=f'{name} phase outside [0, 2 pi) ({path} path)', time=float(tv), got=got, **extra)
        dist = ref.circular_distance_turns(got / two_pi, ex) * two_pi
        bound = _C_PHASE * e * (abs(float(ex)) * two_pi + two_pi)
        if dist > bound:
          return out.fail(what=f'{name} phase not congruent to reference phase + rate * t (mod 2 pi), exact rational '
                          f'reference ({path} path)', time=float(tv), got=got,
                          want=float(ref.turns_mod_one(ex)) * two_pi, error=dist, bound=bound, **extra)
  # (d) elapsed calendar time -> model time -> synodic phase equals the calendar's fraction of the day
  for m in case['whens']:
    when = pydt.datetime(1970, 1, 1) + pydt.timedelta(minutes=int(m))
    tm = sr.datetime_to_time(when)
    o = sr.time_to_orbital_time(float(tm))
    _, wd = ref.calendar_fractions(int(m))
    elapsed_turns = abs(int(m) - ref_min) / 1440.0
    dist = ref.circular_distance_turns(float(o.synodic_phase) / two_pi, wd) * two_pi
    out.units += 1
    if dist > _C_PHASE * np.finfo(np.float64).eps * (elapsed_turns + 1) * two_pi:
      return out.fail(what='synodic phase of datetime_to_time(when) differs from the time of day of `when`',
                      when=str(when), ref=str(refdt), got=float(o.synodic_phase), want=float(wd) * two_pi, error=dist)
  return out


# ----------------------------------------------------------------------------

SUBCHECKS = [
    Subcheck('quantity_roundtrip', run_quantity, strategy=lambda tier: _quantity_case(),
             examples={'quick': 2000, 'thorough': 100000}, shards={'quick': 2, 'thorough': 12},
             wall={'quick': 300.0, 'thorough': 1500.0},
             rule='non-trivial = quantity has >= 2 base dimensions with non-zero net exponent and the target unit '
                  'is a different expression',
             doc='nd(q) == unit table; dimensionalize(nd(q), u) == q.to(u); unit independence; products, quotients, powers'),
    Subcheck('missing_dimension', run_missing, strategy=lambda tier: _missing_case(),
             examples={'quick': 400, 'thorough': 5000}, shards={'quick': 1, 'thorough': 2},
             wall={'quick': 300.0, 'thorough': 1500.0},
             rule='non-trivial = scale defines some but not all of the four base dimensions',
             doc='ValueError iff a dimension with non-zero net exponent has no scale; invalid Scale() arguments raise'),
    Subcheck('timedelta_roundtrip', run_timedelta, strategy=_timedelta_case,
             examples={'quick': 100, 'thorough': 600}, shards={'quick': 2, 'thorough': 12},
             wall={'quick': 300.0, 'thorough': 1500.0},
             rule='non-trivial = bulk range reaches at least 2**10 seconds',
             doc='whole seconds survive nondimensionalize/dimensionalize_timedelta64 (array and scalar), round-down kept'),
    Subcheck('datetime_roundtrip', run_datetime, strategy=_datetime_case,
             examples={'quick': 60, 'thorough': 400}, shards={'quick': 2, 'thorough': 12},
             wall={'quick': 300.0, 'thorough': 1500.0},
             rule='non-trivial = stamps spread over at least a year around the reference date',
             doc='datetime64 <-> nondim time exact at minute resolution; datetime_to_time; time-axis delta'),
    Subcheck('orbital_phase', run_orbital, strategy=_orbital_case,
             examples={'quick': 80, 'thorough': 400}, shards={'quick': 2, 'thorough': 12},
             wall={'quick': 300.0, 'thorough': 1500.0},
             rule='non-trivial = model times span at least 30 days around the reference date',
             doc='phases in [0, 2pi), congruent to ref + rate*t mod 2pi (long double bulk, Fraction sample), float32/64'),
]
