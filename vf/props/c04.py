"""C04 The full tendency does not depend on the reference-temperature split.

Metamorphic relation: the same physical atmosphere (same absolute temperature) is described twice, once as
deviation from reference profile T_ref1 and once as deviation from T_ref2; `explicit_terms + implicit_terms`
must agree leaf by leaf to rounding error. Holds for PrimitiveEquations, PrimitiveEquationsWithTime,
MoistPrimitiveEquations and MoistPrimitiveEquationsWithCloudMoisture (zero cloud content); with non-zero
cloud content the latter has a *known* T_ref dependence whose exact form is verified here
(known_findings.json: C04-cloud-loading-tref) so that any other dependence is still a violation.
"""
from __future__ import annotations

import dataclasses

from hypothesis import strategies as st
import numpy as np

from vf import core, gens
from vf.core import Outcome, Subcheck

KNOWN_ID = 'C04-cloud-loading-tref'
RTOL = 1e-8            # whole-tendency tolerance of DESIGN.md section 2 (measured rounding: <= 3e-14)
SQRT_4PI = float(np.sqrt(4.0 * np.pi))   # modal (0,0) coefficient of the constant function 1

CLASSES = ('dry', 'with_time', 'moist', 'cloud')
Q = 'specific_humidity'
CLOUD = ('specific_cloud_liquid_water_content', 'specific_cloud_ice_water_content')
EXTRA_TRACERS = ('a', 'ozone')

# magnitudes of the state fields in the default non-dimensional units (radius = 1, Omega = 1, Kelvin):
# per-coefficient amplitudes, multiplied by the drawn overall amplitude
MAG = {'vorticity': 1e-2, 'divergence': 1e-2, 'temperature_variation': 5.0, 'log_surface_pressure': 0.05}
MAG_TRACER = 1e-2
MAG_CLOUD = 1e-3
MAG_OROGRAPHY = 1e-3   # 1e-3 planetary radii = 6 km

RULE = ('Hypothesis draws a configuration (equation class, alias-free grid, sigma levels, two reference profiles, '
        'physical constants, orography, tracer set, vertical matmul method) and a list of full-spectrum states '
        '(top wavenumber clipped, sparse entries + seeded noise, amplitude 1e-3..10); oracle = the same physical '
        'atmosphere expressed relative to the other reference profile (T\' shifted by (T_ref1-T_ref2)*sqrt(4 pi) on '
        'the (0,0) coefficient of every level): explicit+implicit must agree leaf by leaf within 1e-8 of the largest '
        'explicit/implicit entry of that leaf; distinct = hash of the JSON case; non-trivial = the two profiles differ '
        'by > 1 K on >= 2 levels and at least one state has non-zero divergence and a non-zero gradient of lnps')
ASSUMPTIONS = [
    'the grid has no node at a pole (equiangular_with_poles excluded) and resolves what the T_ref-linear terms need: '
    'uv round trip (D >= 2L-2) for the dry classes, products of two fields with one gradient (quadratic rule of '
    'DESIGN.md 2.1) for the moist classes; the T_ref-independent terms may alias freely',
    'states are admissible in the sense of the property: vorticity and divergence have zero mean, the top total '
    'wavenumber is empty',
    'include_vertical_advection is left at its default (True): switching it off removes the T\' half of a term whose '
    'T_ref half stays, which is a different equation set, not a different split',
    'grids have M >= 3 (with L = M = 2 the admissible spectrum l <= L-2 contains only the mean) and a single sigma layer '
    'is drawn 1 time in 8 (all profiles are then trivially constant)',
    'humidity amplitudes are capped (|q| well below 1) so that 1 + (cp_v/cp - 1) q stays away from zero',
    'the same physics constants, orography and sigma levels are used on both sides; only T_ref and T\' change',
]
MANIFEST = {
    'text': 'For generated equation classes (dry, with time, moist, moist with cloud water), grids (both transform '
            'implementations, Gauss and equiangular nodes, padded layouts, radii), even and uneven sigma levels, '
            'orographies, tracer sets, physical constants and pairs of reference profiles (constant, linear, random), '
            'explicit_terms+implicit_terms of full-spectrum states is the same to 1e-8 relative (measured 1e-14) when '
            'the same absolute temperature is split about either profile. The one listed exception (cloud loading in '
            'MoistPrimitiveEquationsWithCloudMoisture) is matched term by term against its predicted form.',
    'note': 'Metamorphic: the implementation is compared with itself under a change of T_ref, which cancels every '
            'T_ref-independent term; correctness of those terms is C05. The prediction of the known cloud residual uses '
            'the grid\'s own transforms and curl/div operators (C01/C02).',
    'technique': 'metamorphic relation over Hypothesis-generated configurations and states',
}


# ----------------------------------------------------------------------------
# generators


@st.composite
def _profile(draw, n):
  kind = draw(st.sampled_from(['random', 'random', 'linear', 'constant', 'near_constant']))    # simplest example = varying profile
  if kind == 'near_constant' and n > 1:
    # almost isothermal: shortcuts for "constant" reference profiles must be exact comparisons, not tolerances
    base, spread = float(draw(st.integers(200, 300))), draw(st.sampled_from([1e-6, 1e-4, 2e-3]))
    return [float(base + spread * k / (n - 1)) for k in range(n)]
  if kind == 'constant' or n == 1:
    return [float(draw(st.integers(150, 350)))] * n
  if kind == 'linear':
    top, bottom = draw(st.integers(150, 300)), draw(st.integers(200, 350))
    return [float(v) for v in np.round(np.linspace(top, bottom, n), 3)]
  return [float(draw(st.integers(150, 350))) for _ in range(n)]


@st.composite
def _levels(draw, max_layers):
  """Sigma boundaries; >= 2 uneven layers are the simplest example, a single layer is drawn 1 time in 8."""
  if draw(st.sampled_from([False] * 7 + [True])):
    return [0.0, 1.0]
  return draw(gens.sigma_boundaries(2, max_layers, kinds=('uneven', 'uneven', 'hybrid', 'equidistant')))


def _tracer_names(cls, extra):
  names = []
  if cls in ('moist', 'cloud'):
    names.append(Q)
  if cls == 'cloud':
    names += list(CLOUD)
  return names + list(extra)


@st.composite
def _case(draw, tier, cls=None):
  big = tier == 'thorough'
  cls = cls or draw(st.sampled_from(list(CLASSES)))
  kind = 'quadratic' if cls in ('moist', 'cloud') else draw(st.sampled_from(['vector', 'quadratic']))
  g = draw(gens.grid_configs(kind=kind, min_m=3, max_m=12 if big else 7, spacings=('gauss', 'gauss', 'equiangular'),
                             allow_radius=False, max_slack=3))
  g['radius'] = draw(st.sampled_from([None, 1.0, 2.5, 0.4]))
  b = draw(_levels(8 if big else 4))
  n = len(b) - 1
  t1 = draw(_profile(n))
  t2 = draw(_profile(n))
  if all(abs(a - b) <= 1.0 for a, b in zip(t1, t2)):     # identical profiles say nothing: move the second one
    t2 = [b + 13.0 for b in t2]
  elif sum(abs(a - b) > 1.0 for a, b in zip(t1, t2)) < min(2, n):
    t2 = [b + (13.0 if abs(a - b) <= 1.0 else 0.0) for a, b in zip(t1, t2)]
  extra = draw(st.sampled_from([[], [], ['a'], ['a', 'ozone']]))
  cfg = {
      'cls': cls, 'alias_rule': kind, 'grid': g, 'boundaries': b, 't_ref1': t1, 't_ref2': t2,
      'orography': {'amp': draw(st.sampled_from([0.0, 1.0, 1.0, 3.0])), 'seed': draw(st.integers(0, 999))},
      'tracers': _tracer_names(cls, extra),
      'cloud_amp': draw(st.sampled_from([0.0, 1.0, 3.0])) if cls == 'cloud' else 0.0,
      'consts': {k: draw(st.sampled_from([1.0, 1.0, 0.5, 2.0, 3.0])) for k in ('R', 'kappa', 'g', 'Rv', 'cpv', 'omega')},
      'matmul': draw(st.sampled_from([None, None, 'dense', 'sparse'])),
      # whole-Kelvin profiles may be handed over as an integer array (admissible: the code converts where needed)
      'tref_int_dtype': draw(st.sampled_from([False, False, True])),
  }
  fields = list(MAG) + cfg['tracers']
  n_inputs = draw(st.integers(2, 8 if big else 5))
  inputs = []
  for _ in range(n_inputs):
    d = draw(gens.input_descr(fields, n, g['M'], g['L'], g['L'] - 2))
    d['noise_amp'] = draw(st.sampled_from([1.0, 1.0, 0.3, 0.0]))   # simplest example = dense state
    d['amp'] = draw(st.sampled_from([1e-3, 0.1, 1.0, 1.0, 10.0]))
    inputs.append(d)
  return {'config': cfg, 'inputs': inputs}


# ----------------------------------------------------------------------------
# builders


def _specs(consts):
  from dinosaur import primitive_equations as pe
  s = pe.PrimitiveEquationsSpecs.from_si()
  c = {'R': 1.0, 'kappa': 1.0, 'g': 1.0, 'Rv': 1.0, 'cpv': 1.0, 'omega': 1.0}
  c.update(consts or {})
  return dataclasses.replace(
      s, ideal_gas_constant=s.ideal_gas_constant * c['R'], kappa=s.kappa * c['kappa'],
      gravity_acceleration=s.gravity_acceleration * c['g'], water_vapor_gas_constant=s.water_vapor_gas_constant * c['Rv'],
      water_vapor_isobaric_heat_capacity=s.water_vapor_isobaric_heat_capacity * c['cpv'],
      angular_velocity=s.angular_velocity * c['omega'])


def _equation_class(cls):
  from dinosaur import primitive_equations as pe
  return {'dry': pe.PrimitiveEquations, 'with_time': pe.PrimitiveEquationsWithTime,
          'moist': pe.MoistPrimitiveEquations, 'cloud': pe.MoistPrimitiveEquationsWithCloudMoisture}[cls]


def _state(cfg, grid, n, descr, t_shift=None):
  """State of the class in cfg from an input description; T' is relative to t_ref1 (+ t_shift per level)."""
  from dinosaur import primitive_equations as pe
  amp = float(descr.get('amp', 1.0))
  lmax = grid.total_wavenumbers - 2
  f = {}
  for name, mag in MAG.items():
    prefix = (1,) if name == 'log_surface_pressure' else (n,)
    f[name] = gens.modal_field(grid, prefix, descr, name, lmax=lmax,
                               zero_mean=name in ('vorticity', 'divergence'), amp=mag * amp)
  tracers = {}
  for name in cfg['tracers']:
    mag = MAG_CLOUD * float(cfg.get('cloud_amp', 0.0)) if name in CLOUD else MAG_TRACER
    tracers[name] = gens.modal_field(grid, (n,), descr, name, lmax=lmax, amp=mag * min(amp, 1.0))
  if t_shift is not None:
    f['temperature_variation'] = f['temperature_variation'].copy()
    f['temperature_variation'][:, 0, 0] += np.asarray(t_shift) * SQRT_4PI
  if cfg['cls'] == 'dry':
    return pe.State(tracers=tracers, **f)
  return pe.StateWithTime(sim_time=0.0, tracers=tracers, **f)


def _leaves(tree):
  d = dict(tree.asdict())
  tr = d.pop('tracers')
  out = {k: np.asarray(v, dtype=np.float64) for k, v in d.items()}
  for k, v in tr.items():
    out['tracers/' + k] = np.asarray(v, dtype=np.float64)
  return out


def _predicted_cloud_residual(grid, specs, state, t1, t2):
  """total(T_ref1) - total(T_ref2) predicted for the cloud class: -(curl, div)[R (T_ref1-T_ref2) (q_l+q_i) grad lnps].

  The cloud loading multiplies only T' in the pressure-gradient force; T'_1 - T'_2 = -(T_ref1 - T_ref2) while the
  (1 + moisture) part of the same product is compensated by the implicit and humidity-correction terms.
  """
  c = sum(np.asarray(grid.to_nodal(state.tracers[k])) for k in CLOUD)
  gl = [np.asarray(a) for a in grid.to_nodal(grid.cos_lat_grad(state.log_surface_pressure, clip=False))]
  dT = (np.asarray(t1) - np.asarray(t2))[:, None, None]
  sec2 = np.asarray(grid.sec2_lat)
  cu = grid.to_modal(specs.R * dT * c * gl[0] * sec2)
  cv = grid.to_modal(specs.R * dT * c * gl[1] * sec2)
  pv = np.asarray(grid.clip_wavenumbers(-grid.curl_cos_lat((cu, cv), clip=False)))
  pd = np.asarray(grid.clip_wavenumbers(-grid.div_cos_lat((cu, cv), clip=False)))
  return {'vorticity': pv, 'divergence': pd}


def _floors(specs, grid, t1, t2, state):
  """Lower bounds for the per-leaf scale from 'operator norm x input norm' (largest individual term).

  The T' half and the T_ref half of a term cancel inside one leaf (e.g. T'div - div(u T') for a constant T'), so
  for nearly empty states the leaf itself can be pure rounding noise of terms of this size.
  """
  L, r = grid.total_wavenumbers, float(grid.radius)
  tabs = max(float(np.max(np.abs(t1))), float(np.max(np.abs(t2)))) + float(np.max(np.abs(state.temperature_variation)))
  z = float(np.max(np.abs(state.vorticity))) + float(np.max(np.abs(state.divergence)))
  lsp = np.array(state.log_surface_pressure, dtype=np.float64)
  lsp[..., 0, 0] = 0.0
  p = float(np.max(np.abs(lsp)))
  dyn = specs.R * tabs * p * (L / r) ** 2 + z * (z + 2 * specs.angular_velocity)
  return {'vorticity': dyn, 'divergence': dyn, 'temperature_variation': tabs * z}


def _worst(diff, scales):
  """(leaf, relative error) of the leaf with the largest |diff| / scale."""
  worst = (None, 0.0)
  for k, d in diff.items():
    m = float(np.max(np.abs(d))) if d.size else 0.0
    if not np.isfinite(m):
      return k, float('inf')
    s = scales[k]
    r = (m / s) if s > 0 else (0.0 if m == 0.0 else float('inf'))
    if r > worst[1]:
      worst = (k, r)
  return worst


def run_tref(case):
  import jax
  from dinosaur import coordinate_systems as cs
  cfg, inputs = case['config'], case['inputs']
  cls = cfg['cls']
  grid = gens.build_grid(cfg['grid'])
  vert = gens.build_sigma(cfg['boundaries'])
  n = vert.layers
  coords = cs.CoordinateSystem(grid, vert)
  specs = _specs(cfg.get('consts'))
  t1, t2 = np.asarray(cfg['t_ref1'], dtype=np.float64), np.asarray(cfg['t_ref2'], dtype=np.float64)
  oc = cfg.get('orography') or {'amp': 0.0, 'seed': 0}
  oro = gens.modal_field(grid, (), {'sparse': [], 'noise_amp': 1.0, 'noise_seed': oc['seed'], 'slope': 1},
                         'orography', lmax=grid.total_wavenumbers - 2, amp=MAG_OROGRAPHY * float(oc['amp']))
  kw = {}
  if cfg.get('matmul'):
    kw['vertical_matmul_method'] = cfg['matmul']
  eq_cls = _equation_class(cls)
  def as_given(t):
    if cfg.get('tref_int_dtype') and np.all(t == np.round(t)):
      return t.astype(np.int64)
    return t
  eq1 = eq_cls(as_given(t1), oro, coords, specs, **kw)
  eq2 = eq_cls(as_given(t2), oro, coords, specs, **kw)
  # one compilation per equation object, re-used by every state of the case
  f1 = jax.jit(lambda s: (eq1.explicit_terms(s), eq1.implicit_terms(s)))
  f2 = jax.jit(lambda s: (eq2.explicit_terms(s), eq2.implicit_terms(s)))

  n_diff = int(np.sum(np.abs(t1 - t2) > 1.0))
  labels = [f'class={cls}', f'alias_rule={cfg.get("alias_rule")}'] + gens.grid_labels(cfg['grid']) \
      + gens.sigma_labels(cfg['boundaries'])
  kinds = sorted('constant' if np.ptp(t) == 0 else ('near_constant' if np.ptp(t) < 0.01 else 'varying') for t in (t1, t2))
  if cfg.get('tref_int_dtype') and (np.all(t1 == np.round(t1)) or np.all(t2 == np.round(t2))):
    labels.append('tref_dtype=int64')
  labels += [f'profiles={kinds[0]}+{kinds[1]}', 'orography=yes' if oc['amp'] else 'orography=no',
             f'extra_tracers={len([t for t in cfg["tracers"] if t in EXTRA_TRACERS])}',
             f'matmul={cfg.get("matmul")}']
  if cls == 'cloud':
    labels.append('cloud_content=nonzero' if cfg.get('cloud_amp') else 'cloud_content=zero')
  labels += sorted({f'amp={d.get("amp", 1.0):g}' for d in inputs})
  out = Outcome(labels=labels, units=len(inputs))

  nontrivial_state = False
  known_hits = 0
  for idx, descr in enumerate(inputs):
    s1 = _state(cfg, grid, n, descr)
    s2 = _state(cfg, grid, n, descr, t_shift=t1 - t2)
    if np.any(s1.divergence != 0) and np.any(np.asarray(s1.log_surface_pressure)[..., 1:] != 0):
      nontrivial_state = True
    e1, i1 = (_leaves(t) for t in f1(s1))
    e2, i2 = (_leaves(t) for t in f2(s2))
    floors = _floors(specs, grid, t1, t2, s1)
    scales = {k: max([floors.get(k, 0.0)] + [float(np.max(np.abs(a))) if a.size else 0.0
                                             for a in (e1[k], i1[k], e2[k], i2[k])]) for k in e1}
    diff = {k: (e1[k] + i1[k]) - (e2[k] + i2[k]) for k in e1}
    leaf, rel = _worst(diff, scales)
    if rel <= RTOL:
      continue
    cloud_nonzero = cls == 'cloud' and any(np.any(np.asarray(s1.tracers[k]) != 0) for k in CLOUD)
    if cloud_nonzero:
      pred = _predicted_cloud_residual(grid, specs, s1, t1, t2)
      rest = dict(diff)
      for k, p in pred.items():
        rest[k] = diff[k] - p
      leaf2, rel2 = _worst(rest, scales)
      if rel2 <= RTOL:
        known_hits += 1
        continue
      leaf, rel, diff = leaf2, rel2, rest
    d = diff[leaf]
    where = core.argmax_index(d, np.zeros_like(d))
    tot1, tot2 = e1[leaf] + i1[leaf], e2[leaf] + i2[leaf]
    return out.fail(
        what=('explicit+implicit depends on the reference temperature'
              + (' beyond the known cloud-loading term (difference after subtracting the predicted term)'
                 if cloud_nonzero else '')),
        leaf=leaf, relerr=rel, rtol=RTOL, scale=scales[leaf], index=where, input=idx,
        total_with_t_ref1=float(tot1[tuple(where)]), total_with_t_ref2=float(tot2[tuple(where)]),
        residual=float(d[tuple(where)]), t_ref1=t1, t_ref2=t2, equation_class=eq_cls.__name__)
  out.nontrivial = bool(n_diff >= 2 and nontrivial_state)
  if known_hits:
    out.ok = False
    out.known = KNOWN_ID
    out.detail = {'states_matching_the_predicted_cloud_term': known_hits, 'of': len(inputs)}
  return out


# ----------------------------------------------------------------------------
# a fixed matrix that crosses every class with the options (same every run: guarantees that each class, each
# profile-kind pair and the known finding are exercised whatever VERIF_SEED is)


def _matrix(tier):
  cases = []
  grid_r = {'M': 4, 'L': 5, 'nlon': 12, 'nlat': 8, 'spacing': 'gauss', 'impl': 'real', 'offset': 0.0, 'radius': None}
  grid_f = {'M': 5, 'L': 6, 'nlon': 15, 'nlat': 18, 'spacing': 'equiangular', 'impl': 'fast', 'offset': 0.0,
            'radius': 2.5, 'bsm': 2, 'stacked': None, 'reverse': None, 'precision': 'float32'}
  profiles = [([200.0, 230.0, 310.0], [320.0, 180.0, 260.0]),
              ([288.0, 288.0, 288.0], [210.0, 250.0, 300.0]),
              ([250.0, 250.0, 250.0], [290.0, 290.0, 290.0])]
  k = 0
  for pi, (t1, t2) in enumerate(profiles):
    for oro in (0.0, 1.0):
      for cls in CLASSES:       # classes innermost: a budget-truncated run still sees every class early
        for cloud_amp in ((1.0, 0.0) if cls == 'cloud' else (0.0,)):
          k += 1
          g = grid_f if (pi + int(oro)) % 2 else grid_r
          cfg = {'cls': cls, 'alias_rule': 'quadratic', 'grid': g,
                 'boundaries': [0.0, 0.2, 0.55, 1.0] if pi != 1 else [0.0, 1 / 3, 2 / 3, 1.0],
                 't_ref1': t1, 't_ref2': t2, 'orography': {'amp': oro, 'seed': k},
                 'tracers': _tracer_names(cls, ['a'] if oro else []), 'cloud_amp': cloud_amp,
                 'consts': {}, 'matmul': 'sparse' if k % 3 == 0 else None}
          inputs = [{'sparse': [], 'noise_amp': 1.0, 'noise_seed': 100 * k + j, 'slope': j % 3, 'amp': a}
                    for j, a in enumerate([1.0, 0.1, 10.0] if tier == 'thorough' else [1.0, 10.0])]
          cases.append({'config': cfg, 'inputs': inputs})
  return cases


SUBCHECKS = [
    Subcheck('tref_invariance', run_tref, strategy=lambda tier: _case(tier),
             examples={'quick': 96, 'thorough': 1600}, shards={'quick': 4, 'thorough': 10},
             wall={'quick': 420.0, 'thorough': 1500.0},
             rule='non-trivial = T_ref profiles differ by > 1 K on >= 2 levels and a state has non-zero divergence and '
                  'non-zero grad(lnps)',
             doc='explicit+implicit of the same physical atmosphere under two reference profiles, all four classes; '
                 'cloud class with non-zero cloud tracers must show exactly the predicted known residual', weight=3),
    Subcheck('tref_invariance_matrix', run_tref, cases=_matrix,
             examples={'quick': 0, 'thorough': 0}, shards={'quick': 2, 'thorough': 2},
             wall={'quick': 420.0, 'thorough': 600.0},
             rule='non-trivial = as tref_invariance (every case of the fixed matrix is)',
             doc='fixed cross product class x profile kinds x orography x cloud content on two small grids', weight=1),
]
