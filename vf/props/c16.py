"""C16 Conservative regridding preserves constants, bounds and integrals."""
from __future__ import annotations

from hypothesis import strategies as st
import numpy as np

from vf import core, gens
from vf.core import Outcome, Subcheck
from vf.oracles import overlap_ref

RULE = ('Hypothesis-generated source/target grid pairs (>= 4 longitudes, 1..64 latitudes, all three latitude spacings, '
        'longitude offsets incl. negative and > 2 pi, coarser and finer) and vertical cases (synthetic hybrid sets, '
        'ECMWF137, UFS127 x surface pressures x sigma level sets). Oracle: brute-force overlaps of midpoint-bounded cells '
        'on the circle / in sin(latitude) / on the line (vf/oracles/overlap_ref.py); the weight matrices are compared '
        'entry-wise, and fields (random, constant, NaN patterns: one cell, a latitude row, a longitude column, random 30 %, '
        'all) are pushed through the regridder and compared with the reference mean, the area-weighted integral and the '
        'documented NaN rules. distinct = hash of the canonical JSON case; non-trivial rules per sub-check.')
ASSUMPTIONS = [
    'longitude point sets have >= 4 equispaced points each (1/n_src + 1/n_tgt <= 1/2: the source states the periodic '
    'overlap is valid only while no cell is wider than half the period)',
    'skipna=False: a target cell whose overlap fraction with NaN source cells lies in (1e-9, 2e-3] is "do not care" '
    '(the code documents an rtol=1e-3 closeness test against rounding-level overlaps); skipna=True: a non-NaN overlap '
    'fraction in (0, 1e-9] is "do not care"',
    'vertical: hybrid sigma boundaries a/sp + b strictly increasing for the drawn surface pressures (documented '
    'precondition of conservative_regrid_weights); target cells without any overlap with the source range are unconstrained',
    'grids use the default (unpadded) nodal layout: regridders work on nodal_axes, padded nodal layouts are not increasing',
]
MANIFEST = {
    'text': 'Conservative horizontal (longitude / latitude) and vertical (hybrid to sigma) regridding weights are compared '
            'entry-wise with brute-force cell overlaps for generated grid pairs and level sets: non-negative, rows sum to '
            'one, constants reproduced, outputs within the input range, area- / thickness-weighted integrals conserved, and '
            'missing values propagate (skipna=False) or are ignored (skipna=True) exactly as documented.',
    'note': 'trusted base: numpy float64, math.sin, the loop overlaps in vf/oracles/overlap_ref.py (self-checked: cell '
            'areas sum to 4 pi / widths to the period, raw overlap marginals equal the cell sizes)',
    'technique': 'entry-wise weight matrices vs brute-force overlaps + conservation / NaN-rule checks on generated fields',
}

RTOL = 1e-9
_OFFSETS = [0.0, 0.3, -1.0, 2.5, 7.0, -8.3, 6.283185307179586, 0.0]


# ----------------------------------------------------------------------------
# generators


@st.composite
def _hgrid(draw, tier, max_lon=None, max_lat=None):
  max_lon = max_lon or (24 if tier == 'quick' else 128)
  max_lat = max_lat or (24 if tier == 'quick' else 64)
  off = draw(st.one_of(st.sampled_from(_OFFSETS), st.floats(-10.0, 10.0, allow_nan=False, width=32)))
  return {'nlon': draw(st.integers(4, max_lon)), 'nlat': draw(st.integers(1, max_lat)),
          'spacing': draw(st.sampled_from(['equiangular', 'gauss', 'equiangular_with_poles'])), 'offset': float(off)}


def _hbuild(g):
  from dinosaur import spherical_harmonic as sh
  return sh.Grid(longitude_nodes=g['nlon'], latitude_nodes=g['nlat'], latitude_spacing=g['spacing'],
                 longitude_offset=g['offset'])


def _pair_labels(s, t):
  labs = [f"src={s['spacing']}", f"tgt={t['spacing']}"]
  labs.append('lon:' + ('finer' if t['nlon'] > s['nlon'] else 'coarser' if t['nlon'] < s['nlon'] else 'same'))
  labs.append('lat:' + ('finer' if t['nlat'] > s['nlat'] else 'coarser' if t['nlat'] < s['nlat'] else 'same'))
  labs.append('nested_lon' if max(s['nlon'], t['nlon']) % min(s['nlon'], t['nlon']) == 0 else 'non_nested_lon')
  d = (s['offset'] - t['offset'])
  labs.append('same_offset' if d == 0 else 'offset_differs')
  if max(abs(s['offset']), abs(t['offset'])) > 2 * np.pi or min(s['offset'], t['offset']) < 0:
    labs.append('offset<0_or_>2pi')
  if 1 in (s['nlat'], t['nlat']):
    labs.append('single_latitude')
  return labs


def _reference(s, t):
  """Reference weights and cell sizes from the grids' node coordinates."""
  slon, slat = np.asarray(s.longitudes, dtype=np.float64), np.asarray(s.latitudes, dtype=np.float64)
  tlon, tlat = np.asarray(t.longitudes, dtype=np.float64), np.asarray(t.latitudes, dtype=np.float64)
  raw_lon, raw_lat = overlap_ref.lon_overlap(slon, tlon), overlap_ref.lat_overlap(slat, tlat)
  ws, wt = overlap_ref.lon_widths(slon), overlap_ref.lon_widths(tlon)
  as_, at = overlap_ref.lat_areas(slat), overlap_ref.lat_areas(tlat)
  # oracle self-check: cells tile the circle / the sphere, and the raw overlaps have the cell sizes as marginals
  ok = (abs(ws.sum() - 2 * np.pi) < 1e-12 and abs(wt.sum() - 2 * np.pi) < 1e-12 and abs(as_.sum() - 2) < 1e-12
        and abs(at.sum() - 2) < 1e-12 and np.allclose(raw_lon.sum(1), wt, atol=1e-12) and np.allclose(raw_lon.sum(0), ws, atol=1e-12)
        and np.allclose(raw_lat.sum(1), at, atol=1e-12) and np.allclose(raw_lat.sum(0), as_, atol=1e-12))
  if not ok:
    raise AssertionError('overlap_ref self-check failed (oracle bug, not a violation)')
  return (overlap_ref.normalise_rows(raw_lon), overlap_ref.normalise_rows(raw_lat), ws, wt, as_, at)


# ----------------------------------------------------------------------------
# 1. weight matrices


@st.composite
def _weights_case(draw, tier='quick'):
  s = draw(_hgrid(tier, max_lon=48 if tier == 'quick' else 256))
  t = draw(_hgrid(tier, max_lon=48 if tier == 'quick' else 256))
  if t == s and draw(st.sampled_from([True, True, True, False])):   # identical pairs only occasionally
    t['nlon'] += 1
  return {'src': s, 'tgt': t}


def _check_weights(out, name, w, ref):
  w = np.asarray(w, dtype=np.float64)
  if w.shape != ref.shape:
    return out.fail(what=name + ': wrong shape', got=list(w.shape), want=list(ref.shape))
  if not np.all(np.isfinite(w)):
    return out.fail(what=name + ': weights are not finite', index=[int(i) for i in np.argwhere(~np.isfinite(w))[0]])
  if w.min() < 0:
    return out.fail(what=name + ': negative weight', min=float(w.min()))
  if np.max(np.abs(w.sum(axis=1) - 1)) > 1e-12:
    return out.fail(what=name + ': rows do not sum to one', worst=float(np.max(np.abs(w.sum(axis=1) - 1))))
  if np.max(np.abs(w - ref)) > RTOL:
    idx = [int(i) for i in np.unravel_index(int(np.argmax(np.abs(w - ref))), w.shape)]
    return out.fail(what=name + ': weight differs from the brute-force cell overlap', index=idx, got=w[tuple(idx)],
                    want=ref[tuple(idx)])
  return None


def run_weights(case):
  from dinosaur import horizontal_interpolation as hi
  s, t = _hbuild(case['src']), _hbuild(case['tgt'])
  ref_lon, ref_lat, *_ = _reference(s, t)
  out = Outcome(labels=_pair_labels(case['src'], case['tgt']),
                nontrivial=(case['src'] != case['tgt']), units=ref_lon.size + ref_lat.size)
  slon, tlon = np.asarray(s.longitudes), np.asarray(t.longitudes)
  slat, tlat = np.asarray(s.latitudes), np.asarray(t.latitudes)
  bad = _check_weights(out, 'conservative_longitude_weights', hi.conservative_longitude_weights(slon, tlon), ref_lon)
  if bad is not None:
    bad.detail.update(src_lon0=float(slon[0]), tgt_lon0=float(tlon[0]), n_src=len(slon), n_tgt=len(tlon))
    return bad
  bad = _check_weights(out, 'conservative_latitude_weights', hi.conservative_latitude_weights(slat, tlat), ref_lat)
  if bad is not None:
    return bad
  r = hi.ConservativeRegridder(s, t)
  for name, w, ref in (('ConservativeRegridder.lon_weights', r.lon_weights, ref_lon),
                       ('ConservativeRegridder.lat_weights', r.lat_weights, ref_lat)):
    bad = _check_weights(out, name, w, ref)
    if bad is not None:
      return bad
  return out


# ----------------------------------------------------------------------------
# 2. fields: constants, bounds, integrals, NaN rules

_PATTERNS = ('none', 'constant', 'one_cell', 'lat_row', 'lon_column', 'random30', 'all')


@st.composite
def _field_case(draw, tier='quick'):
  s, t = draw(_hgrid(tier)), draw(_hgrid(tier))
  if t == s and draw(st.sampled_from([True, True, True, False])):   # identical pairs only occasionally
    t['nlon'] += 1
  return {'src': s, 'tgt': t, 'seed': draw(st.integers(0, 2 ** 16)), 'lead2': draw(st.booleans())}


def run_fields(case):
  from dinosaur import horizontal_interpolation as hi
  s, t = _hbuild(case['src']), _hbuild(case['tgt'])
  wl, wa, ws, wt, as_, at = _reference(s, t)
  rng = np.random.default_rng(case['seed'])
  nlon, nlat = s.nodal_shape
  fields, nulls = [], []
  for pat in _PATTERNS:
    f = np.full((nlon, nlat), 2.5) if pat == 'constant' else rng.standard_normal((nlon, nlat)) * 3 + 1
    m = np.zeros((nlon, nlat), dtype=bool)
    if pat == 'one_cell':
      m[rng.integers(nlon), rng.integers(nlat)] = True
    elif pat == 'lat_row':
      m[:, rng.integers(nlat)] = True
    elif pat == 'lon_column':
      m[rng.integers(nlon), :] = True
    elif pat == 'random30':
      m = rng.random((nlon, nlat)) < 0.3
    elif pat == 'all':
      m[:] = True
    fields.append(np.where(m, np.nan, f))
    nulls.append(m)
  x = np.stack(fields)
  if case['lead2']:
    x = x[:, None]      # an extra leading axis: (pattern, 1, lon, lat)
  out = Outcome(labels=_pair_labels(case['src'], case['tgt']) + ['lead=2' if case['lead2'] else 'lead=1'],
                nontrivial=(case['src'] != case['tgt']), units=2 * len(_PATTERNS))
  area_s, area_t = ws[:, None] * as_[None, :], wt[:, None] * at[None, :]
  for skipna in (False, True):
    got_all = np.asarray(hi.ConservativeRegridder(s, t, skipna=skipna)(x), dtype=np.float64)
    if got_all.shape != x.shape[:-2] + tuple(t.nodal_shape):
      return out.fail(what='wrong output shape', got=list(got_all.shape), skipna=skipna)
    got_all = got_all.reshape((len(_PATTERNS),) + tuple(t.nodal_shape))
    for pat, f, m, got in zip(_PATTERNS, fields, nulls, got_all):
      info = dict(pattern=pat, skipna=skipna)
      f0 = np.where(m, 0.0, f)
      mean = wl @ f0 @ wa.T                  # sum of w * x over non-NaN cells
      frac = wl @ (~m).astype(float) @ wa.T   # overlap fraction with non-NaN cells
      scale = max(float(np.max(np.abs(f0))), 1e-300)
      if skipna:
        must_nan, care = frac <= 0.0, (frac <= 0.0) | (frac > 1e-9)
        must_val = frac > 1e-9
      else:
        must_nan, must_val = (1 - frac) > 2e-3, (1 - frac) <= 1e-9
        care = must_nan | must_val
      if np.any(~np.isnan(got) & must_nan):
        idx = [int(i) for i in np.argwhere(~np.isnan(got) & must_nan)[0]]
        return out.fail(what='missing values not propagated as documented (finite value where NaN is required)',
                        index=idx, got=got[tuple(idx)], nan_overlap_fraction=float(1 - frac[tuple(idx)]), **info)
      if np.any(np.isnan(got) & must_val):
        idx = [int(i) for i in np.argwhere(np.isnan(got) & must_val)[0]]
        return out.fail(what='NaN where a value is required', index=idx, non_nan_overlap_fraction=float(frac[tuple(idx)]),
                        **info)
      with np.errstate(invalid='ignore', divide='ignore'):
        want = mean / frac
      chk = must_val & care
      if chk.any():
        err = np.max(np.abs(got[chk] - want[chk])) / scale
        if not err <= RTOL:
          return out.fail(what='regridded value differs from the overlap-weighted mean of the non-missing source cells',
                          relerr=float(err), **info)
        valid = f[~m]
        if got[chk].max() > valid.max() + 1e-12 * scale or got[chk].min() < valid.min() - 1e-12 * scale:
          return out.fail(what='output outside the [min, max] range of the input', got_max=float(got[chk].max()),
                          in_max=float(valid.max()), got_min=float(got[chk].min()), in_min=float(valid.min()), **info)
      if pat == 'constant' and np.max(np.abs(got - 2.5)) > 1e-12:
        return out.fail(what='constant field not reproduced', maxdev=float(np.max(np.abs(got - 2.5))), **info)
      if pat in ('none', 'constant'):
        i_s, i_t = float(np.sum(area_s * f)), float(np.sum(area_t * got))
        if not abs(i_s - i_t) <= RTOL * float(np.sum(area_s * np.abs(f))):
          return out.fail(what='area-weighted integral not conserved', source_integral=i_s, target_integral=i_t, **info)
  return out


# ----------------------------------------------------------------------------
# 3. vertical: hybrid -> sigma


@st.composite
def _vertical_case(draw, tier='quick'):
  kind = draw(st.sampled_from(['synthetic', 'synthetic', 'synthetic', 'ECMWF137', 'UFS127']))
  return {'hybrid': {'kind': kind, 'layers': draw(st.integers(1, 12)), 'c': draw(st.sampled_from([0.0, 0.1, 0.3])),
                     'power': draw(st.sampled_from([1.0, 2.0, 3.0])), 'top': draw(st.sampled_from([0.0, 150.0, 20.0]))},
          'sigma': draw(gens.sigma_boundaries(1, 10)), 'nx': draw(st.integers(1, 3)), 'ny': draw(st.integers(1, 2)),
          'sp_range': draw(st.sampled_from([[300.0, 1100.0], [950.0, 1050.0], [300.0, 500.0]])),
          'batch': draw(st.sampled_from([0, 0, 2])), 'seed': draw(st.integers(0, 2 ** 16))}


def _hybrid(h):
  from dinosaur import vertical_interpolation as vi
  if h['kind'] == 'ECMWF137':
    return vi.HybridCoordinates.ECMWF137()
  if h['kind'] == 'UFS127':
    return vi.HybridCoordinates.UFS127()
  # a + b*sp strictly increasing in the level index for every sp >= 300 (derivative 1000c(1-2s) + 2 s sp > 0)
  # pressure = top + b (sp - top) + 1000 c (s - s^2), b = s^2: derivative in s is 2 s (sp - top) + 1000 c (1 - 2 s) > 0
  # for sp - top > 500 c, i.e. c <= 0.1 when the model top is at 150 hPa (target cells above it are not covered)
  s = np.linspace(0.0, 1.0, h['layers'] + 1) ** h['power']
  b = s ** 2
  c = min(h['c'], 0.1) if h['top'] > 100 else h['c']
  a = 1000.0 * c * (s - s ** 2) + h['top'] * (1 - b)
  a[-1] = 0.0
  return vi.HybridCoordinates(a_boundaries=a, b_boundaries=b)


def run_vertical(case):
  from dinosaur import vertical_interpolation as vi
  hyb = _hybrid(case['hybrid'])
  sig = gens.build_sigma(case['sigma'])
  tb = np.asarray(sig.boundaries, dtype=np.float64)
  X, Y, B = case['nx'], case['ny'], case['batch']
  lead = (B,) if B else ()
  rng = np.random.default_rng(case['seed'])
  sp = rng.uniform(case['sp_range'][0], case['sp_range'][1], size=(X, Y))
  a, b = np.asarray(hyb.a_boundaries, dtype=np.float64), np.asarray(hyb.b_boundaries, dtype=np.float64)
  n_src, n_tgt = hyb.layers, sig.layers
  f = rng.standard_normal(lead + (n_src, X, Y)) * 2 + 0.5
  const = np.full((n_src, X, Y), 2.5)
  out = Outcome(labels=[f"hybrid={case['hybrid']['kind']}", f'batch={B}', f"sp={int(case['sp_range'][0])}-{int(case['sp_range'][1])}"]
                + gens.sigma_labels(case['sigma']) + (['model_top>0'] if a[0] > 0 else ['model_top=0']),
                nontrivial=(n_tgt >= 2 and n_src >= 2), units=X * Y * max(B, 1))
  got = np.asarray(vi.regrid_hybrid_to_sigma({'t': f, 'clock': 4.0}, hyb, sig, sp)['t'], dtype=np.float64)
  got_cls = np.asarray(vi.ConservativeRegridder(hyb, sig)(f, sp), dtype=np.float64)
  got_const = np.asarray(vi.regrid_hybrid_to_sigma(const, hyb, sig, sp), dtype=np.float64)
  if got.shape != lead + (n_tgt, X, Y):
    return out.fail(what='regrid_hybrid_to_sigma: wrong output shape', got=list(got.shape))
  if not np.array_equal(got, got_cls, equal_nan=True):
    return out.fail(what='vertical ConservativeRegridder differs from regrid_hybrid_to_sigma')
  uncovered = 0
  for ix in range(X):
    for iy in range(Y):
      sb = a / sp[ix, iy] + b
      if np.any(np.diff(sb) <= 0):
        return Outcome(skipped=True)
      raw = overlap_ref.interval_overlap(sb, tb)
      cov_t, cov_s = raw.sum(axis=1), raw.sum(axis=0)
      covered = cov_t > 1e-12
      uncovered += int((~covered).sum())
      w_ref = overlap_ref.normalise_rows(raw)
      # direct weights
      w = np.asarray(vi.conservative_regrid_weights(sb, tb), dtype=np.float64)
      if w.shape != raw.shape:
        return out.fail(what='conservative_regrid_weights: wrong shape', got=list(w.shape))
      wc = w[covered]
      if wc.size and (not np.all(np.isfinite(wc)) or wc.min() < 0 or np.max(np.abs(wc.sum(axis=1) - 1)) > 1e-12
                      or np.max(np.abs(wc - w_ref[covered])) > RTOL):
        return out.fail(what='conservative_regrid_weights: not non-negative / rows do not sum to one / differ from the '
                        'interval overlaps', column=[ix, iy], surface_pressure=float(sp[ix, iy]))
      gc = got_const[:, ix, iy]
      if covered.any() and np.max(np.abs(gc[covered] - 2.5)) > 1e-12:
        return out.fail(what='vertical regridding does not reproduce a constant', column=[ix, iy], got=gc)
      for idx in np.ndindex(*lead):
        col_in = f[idx + (slice(None), ix, iy)]
        col = got[idx + (slice(None), ix, iy)]
        scale = float(np.max(np.abs(col_in)))
        want = w_ref[covered] @ col_in
        if np.isnan(col[covered]).any() or np.max(np.abs(col[covered] - want)) > RTOL * scale:
          return out.fail(what='regrid_hybrid_to_sigma differs from the overlap-weighted mean', column=[ix, iy],
                          got=col, want=w_ref @ col_in, surface_pressure=float(sp[ix, iy]))
        if col[covered].max() > col_in.max() + 1e-12 * scale or col[covered].min() < col_in.min() - 1e-12 * scale:
          return out.fail(what='vertical regridding leaves the range of the input column', column=[ix, iy])
        i_s, i_t = float(np.sum(cov_s * col_in)), float(np.sum(cov_t[covered] * col[covered]))
        if abs(i_s - i_t) > RTOL * float(np.sum(cov_s * np.abs(col_in)) + 1e-300):
          return out.fail(what='thickness-weighted integral over the covered range not conserved', column=[ix, iy],
                          source_integral=i_s, target_integral=i_t)
  out.labels = list(out.labels) + ['has_uncovered_target_cells' if uncovered else 'all_target_cells_covered']
  return out


SUBCHECKS = [
    Subcheck('horizontal_weights', run_weights, strategy=lambda tier: _weights_case(tier),
             examples={'quick': 70, 'thorough': 1000}, shards={'quick': 2, 'thorough': 10}, weight=2,
             rule='non-trivial = source and target grid differ',
             doc='longitude / latitude weight matrices vs brute-force overlaps: >= 0, rows sum to 1, entry-wise equal'),
    Subcheck('horizontal_fields', run_fields, strategy=lambda tier: _field_case(tier),
             examples={'quick': 40, 'thorough': 600}, shards={'quick': 2, 'thorough': 12}, weight=4,
             rule='non-trivial = source and target grid differ (7 field patterns x skipna on/off per case)',
             doc='constants, range, area-weighted integral, overlap-weighted mean, NaN propagation / skipping'),
    Subcheck('vertical_hybrid_to_sigma', run_vertical, strategy=lambda tier: _vertical_case(tier),
             examples={'quick': 40, 'thorough': 600}, shards={'quick': 2, 'thorough': 12}, weight=4,
             rule='non-trivial = at least 2 source and 2 target layers',
             doc='vertical conservative weights / regrid_hybrid_to_sigma: rows sum to 1 on covered cells, constants, range, '
                 'thickness-weighted integral over the covered range'),
]

# Wall budgets are safety nets only (they truncate, never decide): the machine is shared with other checks, a fresh
# worker needs 10-200 s just to import jax + dinosaur depending on the load. Budgets proper are the example counts.
for _s in SUBCHECKS:
  _s.wall = {'quick': 900.0, 'thorough': 3600.0}
