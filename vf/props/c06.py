"""C06 IMEX integrators reach their design order and never amplify stiff linear modes.

Anchors: dinosaur/time_integration.py  backward_forward_euler, crank_nicolson_rk2,
low_storage_runge_kutta_crank_nicolson (crank_nicolson_rk3 / rk4), ImExButcherTableau, imex_runge_kutta,
imex_rk_sil3, semi_implicit_leapfrog.

Facets
  order_<integrator>   exact Taylor coefficients in the step size h of one step Phi_h(u0) (nested forward-mode
                       differentiation through the code, implicit_inverse = linalg.solve) against the Taylor
                       coefficients of the exact flow of du/dt = F(u) + G u (Lie derivatives).  All problem
                       parameters are traced inputs of one jitted evaluator per integrator; the state dimension is
                       fixed to 4 and problems of dimension d < 4 are embedded (trailing components have zero
                       tendency), so hundreds of problems run per compilation.
  order_leapfrog       the leapfrog is fed the exact u(-h), u(0); u(h) must match through h^2 for alpha = 1/2 and
                       through h^1 otherwise.
  reductions           F = 0 -> the underlying implicit method (Crank-Nicolson sub-step products / backward Euler /
                       DIRK solved as one Kronecker system), G = 0 -> the explicit Runge-Kutta method in published
                       Butcher form, for finite (not infinitesimal) step sizes.
  stiff_stability      F = 0, G = complex lambda in the closed left half-plane, |h lambda| in [1e-3, 1e6]:
                       |R| <= 1 + 1e-12 and R equals the closed-form stability function; leapfrog companion matrix
                       spectral radius <= 1 for alpha in [1/2, 1].
  length_validation    exhaustive coefficient-list lengths 0..6: ValueError iff inconsistent.
"""
from __future__ import annotations

import functools
import itertools
import math

from hypothesis import strategies as st
import numpy as np

from vf import core
from vf.core import Outcome, Subcheck

D = 4            # fixed evaluator dimension (problems of dimension 1..4 are embedded)
NB = 48          # problems per evaluator call (fixed batch shape: no recompilation)
NZ = 2048        # bulk z values per stability case
NPTS = 8         # explicit (Hypothesis-drawn, shrinkable) z values per stability case
RTOL_COEF = 1e-9
STAB_TOL = 1e-12

ONE_STEP = ['backward_forward_euler', 'crank_nicolson_rk2', 'crank_nicolson_rk3', 'crank_nicolson_rk4',
            'imex_rk_sil3']
SHORT = {'backward_forward_euler': 'euler', 'crank_nicolson_rk2': 'cn_rk2', 'crank_nicolson_rk3': 'cn_rk3',
         'crank_nicolson_rk4': 'cn_rk4', 'imex_rk_sil3': 'sil3', 'semi_implicit_leapfrog': 'leapfrog'}
# required orders: exactly the property statement
ORDER_GENERAL = {'backward_forward_euler': 1, 'crank_nicolson_rk2': 2, 'crank_nicolson_rk3': 2,
                 'crank_nicolson_rk4': 2, 'imex_rk_sil3': 2}
ORDER_G0_NONLINEAR = {'backward_forward_euler': 1, 'crank_nicolson_rk2': 2, 'crank_nicolson_rk3': 3,
                      'crank_nicolson_rk4': 4, 'imex_rk_sil3': 2}
ORDER_G0_LINEAR = dict(ORDER_G0_NONLINEAR, imex_rk_sil3=3)
P_EVAL = {'backward_forward_euler': 2, 'crank_nicolson_rk2': 3, 'crank_nicolson_rk3': 4, 'crank_nicolson_rk4': 5,
          'imex_rk_sil3': 4, 'semi_implicit_leapfrog': 4}

RULE = ('Hypothesis draws (dimension 1..4, F kind in {nonlinear quadratic+sin, linear, zero}, G kind in {general '
        'non-normal, skew, negative definite, commuting with F, zero}, amplitude, seed, number of problems); the '
        'seed expands into up to 48 random problems evaluated by one jitted Taylor evaluator per integrator. Oracle: '
        'Lie-derivative Taylor coefficients of the exact flow (orders), published Butcher tableaux / Crank-Nicolson '
        'products in numpy (reductions, stability functions). Stability: 2048 seeded + 8 drawn z per case, imaginary '
        'and negative real axes over-sampled. Lengths: exhaustive 0..6. distinct = hash of canonical JSON case; '
        'non-trivial = non-zero F and G with non-commuting G (orders/reductions), some |z| > 100 (stability), '
        'contains an inconsistent combination (lengths)')
ASSUMPTIONS = [
    'F is smooth (quadratic + sine), G is linear with implicit_inverse the exact resolvent solve(I - s G, .)',
    'order is decided by exact Taylor coefficients (relative 1e-9) for dimension <= 4; the hard-coded Carpenter-Kennedy '
    'coefficients carry 13 digits, so their order conditions hold to ~1e-12 only (measured 3e-12), inside the tolerance',
    'the coefficient of h^(p+1) is reported but not asserted to be non-zero',
    'stiff stability is claimed for the purely implicit scalar test equation only (F = 0), as the property states; '
    'leapfrog stability only for alpha in [1/2, 1]',
    'finite-step reductions use |I - mu G| systems with condition number <= 1e8 (tolerance 1e-11 * cond); worse '
    'conditioned draws are counted as skipped',
    'length validation concerns the outer lengths only (row lengths of a_ex / a_im are not validated by the code and '
    'not claimed)',
    'the amplification factor is evaluated in floating point by the code itself: for SIL3 the final combination '
    'y0 + dt*sum(b_j G Y_j) cancels terms of size |z|, so agreement with the closed form is required to '
    '1e-9 + 16 eps |z| only (the bound |R| <= 1 + 1e-12 is unaffected: |R| is far below 1 there)',
]
MANIFEST = {
    'text': 'Exploration: for Hypothesis-drawn smooth right-hand sides (dimension <= 4) the Taylor expansion in h of one '
            'step of every provided integrator matches the exact flow through the stated design order (general, G = 0, '
            'linear F cases, leapfrog with exact history); finite-step reductions to the published explicit / implicit '
            'methods; |R(z)| <= 1 on >= 20 000 z in the closed left half-plane with |z| in [1e-3, 1e6]; exhaustive '
            'length validation 0..6.',
    'note': 'trusted base: jax forward-mode differentiation (jacfwd/jvp), numpy.linalg, published tableaux written out '
            'in vf/oracles/ode_ref.py (Williamson 1980, Carpenter-Kennedy 1994 rationals, Whitaker-Kar 2013); float64',
    'technique': 'exact Taylor-coefficient comparison (order conditions) + differential testing against written-out '
                 'tableaux + dense sampling of the stability region + exhaustive enumeration of lengths',
}


# ----------------------------------------------------------------------------
# problem family


def _mask(d):
  m = np.zeros(D)
  m[:d] = 1.0
  return m


def _problems(case, nb=NB):
  """Expands a case into `nb` problems (A, B, c, s, G, u0), each embedded in dimension D."""
  # the integrator name enters the stream so that the per-integrator sub-checks see different problems
  tag = (ONE_STEP + ['semi_implicit_leapfrog']).index(case['integrator']) + 1 if 'integrator' in case else 0
  rng = np.random.default_rng([int(case['seed']), tag])
  d, amp = int(case['dim']), float(case['amp'])
  m = _mask(d)
  m2 = m[:, None] * m[None, :]
  m3 = m[:, None, None] * m[None, :, None] * m[None, None, :]
  A = rng.standard_normal((nb, D, D)) * 0.5 * amp * m2
  B = rng.standard_normal((nb, D, D, D)) * 0.3 * amp * m3
  c = rng.standard_normal((nb, D)) * 0.2 * amp * m
  s = np.full((nb,), 0.1 * amp)
  X = rng.standard_normal((nb, D, D)) * 0.7 * amp * m2
  u0 = rng.standard_normal((nb, D)) * m
  a01 = rng.standard_normal((nb, 2))
  fk, gk = case['fkind'], case['gkind']
  if fk == 'linear':
    B, s = B * 0, s * 0
  elif fk == 'zero':
    A, B, c, s = A * 0, B * 0, c * 0, s * 0
  if gk == 'general':
    G = X
  elif gk == 'zero':
    G = X * 0
  elif gk == 'skew':
    G = (X - np.swapaxes(X, 1, 2)) / math.sqrt(2.0)
  elif gk == 'negdef':
    G = -(X @ np.swapaxes(X, 1, 2)) / (0.7 * amp * d) - 0.1 * amp * np.eye(D)[None] * m2
  elif gk == 'commuting':     # polynomial in A: commutes with the linear part of F
    G = (a01[:, 0, None, None] * 0.5 * amp * np.eye(D)[None] * m2 + a01[:, 1, None, None] * A)
  else:
    raise ValueError(gk)
  n = max(1, min(int(case['nprob']), nb))
  idx = np.arange(nb)
  idx[n:] = 0            # unused slots repeat problem 0 (fixed batch shape)
  return tuple(np.ascontiguousarray(x[idx]) for x in (A, B, c, s, G, u0)), n


def _noncommuting(params, n):
  A, _, _, _, G, _ = params
  com = np.abs(G[:n] @ A[:n] - A[:n] @ G[:n]).max(axis=(1, 2))
  return com > 1e-3


def _problem_detail(params, i, d):
  A, B, c, s, G, u0 = params
  return {'A': A[i, :d, :d], 'B': B[i, :d, :d, :d], 'c': c[i, :d], 'sin_amp': s[i], 'G': G[i, :d, :d], 'u0': u0[i, :d],
          'F': 'A u + B:uu + c + sin_amp*sin(u)'}


# joint (F kind, G kind) classes; G = 0 (explicit orders 3/4/3-for-linear-F) and the non-commuting general case
# are the classes the statement distinguishes, so they get most of the weight
_KINDS = [('nonlinear', 'general'), ('nonlinear', 'zero'), ('linear', 'zero'), ('nonlinear', 'general'),
          ('nonlinear', 'zero'), ('linear', 'zero'), ('linear', 'general'), ('nonlinear', 'skew'),
          ('nonlinear', 'negdef'), ('nonlinear', 'skew'), ('nonlinear', 'negdef'), ('linear', 'commuting'),
          ('zero', 'general'), ('zero', 'negdef'), ('zero', 'skew')]
_DIMS = [1, 2, 3, 4, 2, 3, 4, 4]


@st.composite
def _order_case(draw, name):
  fk, gk = draw(st.sampled_from(_KINDS))
  return {'integrator': name, 'dim': draw(st.sampled_from(_DIMS)), 'fkind': fk, 'gkind': gk,
          'amp': draw(st.sampled_from([1.0, 0.3, 2.0])), 'seed': draw(st.integers(0, 10**6)),
          'nprob': draw(st.sampled_from([1, NB // 4, NB, NB, NB]))}


def _required_order(name, fk, gk):
  if gk == 'zero':
    return (ORDER_G0_LINEAR if fk == 'linear' else ORDER_G0_NONLINEAR)[name]
  return ORDER_GENERAL[name]


def _rhs_fns(A, B, c, s, Gm):
  import jax.numpy as jnp
  F = lambda u: A @ u + jnp.einsum('ijk,j,k->i', B, u, u) + c + s * jnp.sin(u)
  G = lambda u: Gm @ u
  Ginv = lambda u, eta: jnp.linalg.solve(jnp.eye(D) - eta * Gm, u)
  return F, G, Ginv


@functools.lru_cache(maxsize=None)
def _order_evaluator(name):
  import jax
  import jax.numpy as jnp
  from dinosaur import time_integration as ti
  from vf.oracles import ode_ref
  P = P_EVAL[name]
  mk = getattr(ti, name)

  def one(A, B, c, s, Gm, u0):
    F, G, Ginv = _rhs_fns(A, B, c, s, Gm)
    eq = ti.ImplicitExplicitODE.from_functions(F, G, Ginv)
    num = ode_ref.taylor_in_h(lambda h: mk(eq, h)(u0), P)
    ex = ode_ref.exact_flow_taylor(lambda u: F(u) + G(u), u0, P)
    return jnp.stack(num), jnp.stack(ex)
  return jax.jit(jax.vmap(one))


def _guard(out, what, thunk):
  """Taking a step on an admissible problem must not raise: an exception is a violation, not a harness error."""
  try:
    return True, thunk()
  except Exception as e:   # pylint: disable=broad-except
    out.fail(what=what + ' raised on an admissible problem', error=repr(e)[:600])
    return False, None


def _coef_errors(num, ex, n):
  """Relative error of every Taylor coefficient: [n, P+1] (max over components, scale from the coefficient)."""
  num, ex = np.asarray(num)[:n], np.asarray(ex)[:n]
  scale = np.maximum(1.0, np.maximum(np.abs(num).max(axis=2), np.abs(ex).max(axis=2)))
  err = np.abs(num - ex).max(axis=2) / scale
  return np.where(np.isfinite(err), err, np.inf)


def _run_order(name, case):
  params, n = _problems(case)
  pre = Outcome(units=n)
  ok, res = _guard(pre, name, lambda: _order_evaluator(name)(*params))
  if not ok:
    return pre
  num, ex = res
  p = _required_order(name, case['fkind'], case['gkind'])
  err = _coef_errors(num, ex, n)
  nc = _noncommuting(params, n)
  fnz, gnz = case['fkind'] != 'zero', case['gkind'] != 'zero'
  higher = p < P_EVAL[name] and bool(np.median(err[:, p + 1]) > 1e-6)    # reported, not asserted
  out = Outcome(nontrivial=bool(fnz and gnz and nc.any()), units=n,
                labels=[f'F={case["fkind"]}', f'G={case["gkind"]}', f'dim={case["dim"]}', f'amp={case["amp"]}',
                        f'required_order={p}', f'next_coefficient_{"differs" if higher else "also_matches"}',
                        'noncommuting' if (fnz and gnz and nc.any()) else 'commuting_or_single_part'])
  bad = err[:, :p + 1] > RTOL_COEF
  if bad.any():
    i = int(np.argmax(bad.any(axis=1)))
    return out.fail(what=f'{name}: Taylor coefficients of one step differ from the exact flow below the design order',
                    required_order=p, relerr_by_power_of_h=err[i], rtol=RTOL_COEF, problem_index=i,
                    step_coefficients=np.asarray(num)[i, :p + 2, :case['dim']],
                    exact_coefficients=np.asarray(ex)[i, :p + 2, :case['dim']],
                    problem=_problem_detail(params, i, case['dim']))
  return out


# ----------------------------------------------------------------------------
# leapfrog consistency


@st.composite
def _leapfrog_order_case(draw):
  c = draw(_order_case('semi_implicit_leapfrog'))
  c['alpha'] = draw(st.sampled_from([0.5, 0.5, 0.5, 1.0, 0.75, 0.0, 0.6, 0.25]))
  return c


@functools.lru_cache(maxsize=None)
def _leapfrog_order_evaluator():
  import jax
  import jax.numpy as jnp
  from dinosaur import time_integration as ti
  from vf.oracles import ode_ref
  P = P_EVAL['semi_implicit_leapfrog']

  def one(A, B, c, s, Gm, u0, alpha):
    F, G, Ginv = _rhs_fns(A, B, c, s, Gm)
    eq = ti.ImplicitExplicitODE.from_functions(F, G, Ginv)
    ex = ode_ref.exact_flow_taylor(lambda u: F(u) + G(u), u0, P)

    def flow(t):          # Taylor polynomial of the exact solution: exact through t^P
      return sum(ex[k] * t**k for k in range(P + 1))

    def lf(h):
      cur, fut = ti.semi_implicit_leapfrog(eq, h, alpha)((flow(-h), u0))
      return jnp.stack([cur, fut])
    num = ode_ref.taylor_in_h(lf, P - 1)
    return jnp.stack(num), jnp.stack(ex[:P])
  return jax.jit(jax.vmap(one))


def run_order_leapfrog(case):
  params, n = _problems(case)
  alpha = float(case['alpha'])
  pre = Outcome(units=n)
  ok, res = _guard(pre, 'semi_implicit_leapfrog', lambda: _leapfrog_order_evaluator()(*params, np.full((NB,), alpha)))
  if not ok:
    return pre
  num, ex = res
  num, ex = np.asarray(num), np.asarray(ex)
  p = 2 if alpha == 0.5 else 1
  err = _coef_errors(num[:, :, 1, :], ex, n)
  nc = _noncommuting(params, n)
  fnz, gnz = case['fkind'] != 'zero', case['gkind'] != 'zero'
  out = Outcome(nontrivial=bool(fnz and gnz and nc.any()), units=n,
                labels=[f'F={case["fkind"]}', f'G={case["gkind"]}', f'dim={case["dim"]}', f'alpha={alpha}',
                        f'required_order={p}',
                        f'next_coefficient_{"differs" if np.median(err[:, p + 1]) > 1e-6 else "also_matches"}'])
  # the first slot of the returned pair is the unchanged current state
  cur = num[:n, :, 0, :]
  want_cur = np.zeros_like(cur)
  want_cur[:, 0, :] = params[5][:n]
  if np.abs(cur - want_cur).max() > 0:
    return out.fail(what='leapfrog: first element of the returned pair is not the (unchanged) current state',
                    maxdiff=float(np.abs(cur - want_cur).max()))
  bad = err[:, :p + 1] > RTOL_COEF
  if bad.any():
    i = int(np.argmax(bad.any(axis=1)))
    return out.fail(what='leapfrog fed with exact u(-h), u(0): Taylor coefficients of u(h) differ below the required order',
                    alpha=alpha, required_order=p, relerr_by_power_of_h=err[i], rtol=RTOL_COEF, problem_index=i,
                    problem=_problem_detail(params, i, case['dim']))
  return out


# ----------------------------------------------------------------------------
# reductions at finite step size


ALL = ONE_STEP + ['semi_implicit_leapfrog']


def _integrator_lists():
  # shrinks towards a single integrator; half of the generated cases run all six on the same problems
  return st.one_of(st.lists(st.sampled_from(ALL), min_size=1, max_size=3, unique=True), st.just(list(ALL)))


@st.composite
def _reduction_case(draw):
  which = draw(st.sampled_from(['F=0', 'G=0']))
  return {'integrators': draw(_integrator_lists()), 'which': which, 'dim': draw(st.sampled_from(_DIMS)),
          'fkind': 'zero' if which == 'F=0' else draw(st.sampled_from(['nonlinear', 'nonlinear', 'linear'])),
          'gkind': 'zero' if which == 'G=0' else draw(st.sampled_from(['general', 'general', 'skew', 'negdef'])),
          'amp': draw(st.sampled_from([1.0, 0.3, 2.0])), 'seed': draw(st.integers(0, 10**6)),
          'nprob': draw(st.sampled_from([1, NB // 4, NB, NB])),
          'log10_h': draw(st.sampled_from([-1.0, -3.0, -2.0, -1.3, -0.5, 0.0, 0.5, 1.0, 2.0, 3.0] if which == 'F=0'
                                          else [-1.0, -3.0, -2.0, -1.3, -0.5, -0.3, 0.0])),
          'alpha': draw(st.sampled_from([0.5, 0.5, 1.0, 0.75, 0.0, 0.3]))}


@functools.lru_cache(maxsize=None)
def _step_evaluator(name):
  import jax
  from dinosaur import time_integration as ti

  if name == 'semi_implicit_leapfrog':
    def one(A, B, c, s, Gm, u0, uprev, h, alpha):
      F, G, Ginv = _rhs_fns(A, B, c, s, Gm)
      eq = ti.ImplicitExplicitODE.from_functions(F, G, Ginv)
      return ti.semi_implicit_leapfrog(eq, h, alpha)((uprev, u0))
  else:
    def one(A, B, c, s, Gm, u0, uprev, h, alpha):
      del uprev, alpha
      F, G, Ginv = _rhs_fns(A, B, c, s, Gm)
      eq = ti.ImplicitExplicitODE.from_functions(F, G, Ginv)
      return getattr(ti, name)(eq, h)(u0)
  return jax.jit(jax.vmap(one))


def _np_F(A, B, c, s):
  return lambda u: A @ u + np.einsum('ijk,j,k->i', B, u, u) + c + s * np.sin(u)


def run_reduction(case):
  which = case['which']
  params, n = _problems(case)
  h = 10.0 ** float(case['log10_h'])
  out = Outcome(units=0, nontrivial=h >= 0.05,
                labels=[which, f'dim={case["dim"]}', 'h<0.05' if h < 0.05 else ('h<=1' if h <= 1 else 'h>1'),
                        f'G={case["gkind"]}' if which == 'F=0' else f'F={case["fkind"]}',
                        'all_integrators' if len(case['integrators']) == len(ALL) else 'integrator_subset']
                + [f'integrator={SHORT[k]}' for k in case['integrators']])
  for name in case['integrators']:
    bad = _reduction_one(name, case, params, n, h, out)
    if bad is not None:
      return bad
  if out.units == 0:
    out.skipped = True
  return out


def _reduction_one(name, case, params, n, h, out):
  from vf.oracles import ode_ref
  which = case['which']
  A, B, c, s, G, u0 = params
  alpha = float(case.get('alpha', 0.5))
  rng = np.random.default_rng(int(case['seed']) + 1)
  uprev = rng.standard_normal((NB, D)) * _mask(case['dim'])
  ok, got = _guard(out, name, lambda: _step_evaluator(name)(A, B, c, s, G, u0, uprev, np.full((NB,), h),
                                                           np.full((NB,), alpha)))
  if not ok:
    return out
  for i in range(n):
    cond = 1.0
    if name == 'semi_implicit_leapfrog':
      cur, fut = np.asarray(got[0][i]), np.asarray(got[1][i])
      if not np.array_equal(cur, u0[i]):
        return out.fail(what='leapfrog: first element of the returned pair is not the current state', problem_index=i)
      if which == 'F=0':
        M = np.eye(D) - 2 * h * alpha * G[i]
        cond = float(np.linalg.cond(M))
        want = np.linalg.solve(M, uprev[i] + 2 * h * (1 - alpha) * (G[i] @ uprev[i]))
      else:
        want = uprev[i] + 2 * h * _np_F(A[i], B[i], c[i], s[i])(u0[i])     # explicit leapfrog
      g = fut
    else:
      g = np.asarray(got[i])
      if which == 'F=0':
        want, cond = ode_ref.implicit_reference_step(name, G[i], u0[i], h)
      else:
        with np.errstate(all='ignore'):
          want = ode_ref.explicit_rk_step(_np_F(A[i], B[i], c[i], s[i]), u0[i], h, ode_ref.EXPLICIT_TABLEAU[name])
    if not cond <= 1e8:
      continue        # ill-conditioned resolvent: outside the domain (ASSUMPTIONS), not counted
    if not np.all(np.isfinite(want)) or np.abs(want).max() > 1e12:
      continue        # explicit step blew up: nothing to compare
    scale = max(1.0, float(np.abs(want).max()), float(np.abs(u0[i]).max()))
    tol = 1e-11 * cond if which == 'F=0' else 1e-10
    e = core.relerr(g, want, scale)
    if not e <= tol:
      return out.fail(what=f'{name} with {which} is not the underlying {"implicit" if which == "F=0" else "explicit"} method',
                      integrator=name, relerr=e, tol=tol, cond=cond, h=h, alpha=alpha, got=g[:case['dim']],
                      want=want[:case['dim']], problem_index=i, problem=_problem_detail(params, i, case['dim']))
    out.units += 1
  return None


# ----------------------------------------------------------------------------
# stiff stability


_ANGLES = ['i+', 'i-', 'neg', 'near+', 'near-']


@st.composite
def _stab_case(draw):
  pts = draw(st.lists(st.tuples(st.sampled_from([2.0, -3.0, -1.0, 0.0, 0.3, 1.0, 3.0, 4.5, 6.0]) |
                                st.floats(-3.0, 6.0).map(lambda x: round(x, 3)),
                                st.one_of(st.sampled_from(_ANGLES), st.floats(0.0, 1.0).map(lambda x: round(x, 4)))),
                      min_size=0, max_size=NPTS))
  return {'integrators': draw(_integrator_lists()), 'points': [list(p) for p in pts],
          'bulk': draw(st.sampled_from([False, True, True, True])), 'bulk_seed': draw(st.integers(0, 10**6)),
          'log10_h': draw(st.sampled_from([0.0, 0.0, -3.0, -1.0, 2.0, 3.0])),
          'alpha': draw(st.one_of(st.sampled_from([0.5, 1.0, 0.5, 1.0, 0.75, 0.6, 0.9]),
                                  st.floats(0.5, 1.0).map(lambda x: round(x, 3))))}


def _z_from(lm, ang):
  mag = 10.0 ** float(lm)
  if ang == 'i+':
    return complex(0.0, mag)
  if ang == 'i-':
    return complex(0.0, -mag)
  if ang == 'neg':
    return complex(-mag, 0.0)
  if ang == 'near+':
    return complex(-mag * 1e-9, mag)
  if ang == 'near-':
    return complex(-mag * 1e-9, -mag)
  th = math.pi / 2 + float(ang) * math.pi
  z = mag * complex(math.cos(th), math.sin(th))
  return complex(min(z.real, 0.0), z.imag)


def _bulk_z(seed):
  rng = np.random.default_rng(int(seed))
  mag = 10.0 ** rng.uniform(-3, 6, NZ)
  ang = rng.uniform(np.pi / 2, 3 * np.pi / 2, NZ)
  z = mag * np.exp(1j * ang)
  k = NZ // 8
  z[:k] = 1j * mag[:k]                       # imaginary axis, exactly
  z[k:2 * k] = -1j * mag[k:2 * k]
  z[2 * k:3 * k] = -mag[2 * k:3 * k]         # negative real axis, exactly
  z[3 * k:4 * k] = mag[3 * k:4 * k] * (1j * np.sign(rng.standard_normal(k)) - 10.0 ** rng.uniform(-12, -2, k))
  return np.where(z.real > 0, 1j * z.imag, z)


@functools.lru_cache(maxsize=None)
def _amp_evaluator(name):
  import jax
  import jax.numpy as jnp
  from dinosaur import time_integration as ti

  def eq_for(lam):
    return ti.ImplicitExplicitODE.from_functions(lambda x: 0 * x, lambda x: lam * x, lambda x, s: x / (1 - s * lam))

  if name == 'semi_implicit_leapfrog':
    @jax.jit
    def amp(lam, h, alpha):
      step = ti.semi_implicit_leapfrog(eq_for(lam), h, alpha)
      c1 = step((jnp.ones_like(lam), jnp.zeros_like(lam)))     # columns of the companion matrix
      c2 = step((jnp.zeros_like(lam), jnp.ones_like(lam)))
      return jnp.stack([jnp.stack([c1[0], c2[0]], -1), jnp.stack([c1[1], c2[1]], -1)], -2)
  else:
    @jax.jit
    def amp(lam, h, alpha):
      del alpha
      return getattr(ti, name)(eq_for(lam), h)(jnp.ones_like(lam))
  return amp


def run_stability(case):
  n_pts = len(case['points'])
  pts = [_z_from(lm, ang) for lm, ang in case['points']] + [complex(-1.0, 0.0)] * (NPTS - n_pts)
  bulk = _bulk_z(case['bulk_seed']) if case['bulk'] else np.full(NZ, complex(-1.0, 0.0))
  z = np.concatenate([np.asarray(pts, dtype=np.complex128), bulk])
  used = np.concatenate([np.arange(NPTS) < n_pts, np.full(NZ, bool(case['bulk']))])
  h = 10.0 ** float(case['log10_h'])
  alpha = float(case.get('alpha', 0.5))
  nz = int(used.sum())
  out = Outcome(units=nz * len(case['integrators']), nontrivial=bool(nz and (np.abs(z[used]) > 100).any()),
                labels=['bulk' if case['bulk'] else 'points_only', f'log10_h={case["log10_h"]}',
                        'has_imag_axis' if nz and (z[used].real == 0).any() else 'no_imag_axis',
                        'has_|z|>1e4' if nz and (np.abs(z[used]) > 1e4).any() else 'no_|z|>1e4',
                        'alpha=0.5' if alpha == 0.5 else ('alpha=1' if alpha == 1.0 else '0.5<alpha<1'),
                        'all_integrators' if len(case['integrators']) == len(ALL) else 'integrator_subset']
                + [f'integrator={SHORT[k]}' for k in case['integrators']])
  if nz == 0:
    out.skipped = True
    return out
  for name in case['integrators']:
    bad = _stability_one(name, z, used, h, alpha, out)
    if bad is not None:
      return bad
  return out


def _stability_one(name, z, used, h, alpha, out):
  from vf.oracles import ode_ref
  lam = z / h
  zz = lam * h                       # the z the code effectively sees
  ok, r = _guard(out, name, lambda: np.asarray(_amp_evaluator(name)(lam, h, alpha)))
  if not ok:
    return out
  if name == 'semi_implicit_leapfrog':
    want = ode_ref.leapfrog_companion(zz, alpha)
    e = np.abs(r - want).max(axis=(-1, -2)) / np.maximum(1.0, np.abs(want).max(axis=(-1, -2)))
    e = np.where(used, e, 0.0)
    if not e.max() <= 1e-9:
      i = int(np.argmax(e))
      return out.fail(what='leapfrog companion matrix (F=0) differs from [[0,1],[(1+2(1-a)z)/(1-2az),0]]', z=complex(z[i]),
                      alpha=alpha, h=h, got=r[i], want=want[i], relerr=float(e[i]))
    rho = np.abs(np.linalg.eigvals(r)).max(axis=-1)
    rho = np.where(used, rho, 0.0)
    if not rho.max() <= 1 + STAB_TOL:
      i = int(np.argmax(rho))
      return out.fail(what='leapfrog amplifies a linear mode in the closed left half-plane', z=complex(z[i]), alpha=alpha,
                      h=h, spectral_radius_minus_1=float(rho[i] - 1))
    return None
  mod = np.where(used, np.abs(r), 0.0)
  if not np.all(np.isfinite(mod)) or not mod.max() <= 1 + STAB_TOL:
    i = int(np.argmax(np.where(np.isfinite(mod), mod, np.inf)))
    return out.fail(what=f'{name}: |R(z)| > 1 for a purely implicit linear mode in the closed left half-plane',
                    integrator=name, z=complex(z[i]), h=h, lam=complex(lam[i]), R=complex(r[i]),
                    modulus_minus_1=float(mod[i] - 1))
  want = ode_ref.stability_function(name, zz)
  e = np.abs(r - want) / (np.maximum(1.0, np.abs(want)))
  tol = 1e-9 + 16 * np.finfo(float).eps * np.abs(zz)
  e = np.where(used, e / tol, 0.0)
  if not e.max() <= 1.0:
    i = int(np.argmax(e))
    return out.fail(what=f'{name}: amplification factor differs from the closed-form stability function',
                    integrator=name, z=complex(z[i]), h=h, got=complex(r[i]), want=complex(want[i]),
                    err_over_tol=float(e[i]))
  return None


# ----------------------------------------------------------------------------
# length validation (exhaustive)


LMAX = 6


def _length_cases(tier):
  cases = []
  for la in range(LMAX + 1):
    cases.append({'target': 'low_storage',
                  'lengths': [[la, lb, lg] for lb in range(LMAX + 1) for lg in range(LMAX + 1)]})
  for nae, nai in itertools.product(range(LMAX + 1), repeat=2):
    cases.append({'target': 'tableau',
                  'lengths': [[nae, nai, nbe, nbi] for nbe in range(LMAX + 1) for nbi in range(LMAX + 1)]})
  return cases


def _test_equation():
  from dinosaur import time_integration as ti
  return ti.ImplicitExplicitODE.from_functions(lambda x: -0.3 * x, lambda x: -0.5 * x, lambda x, s: x / (1 + 0.5 * s))


def run_lengths(case):
  from dinosaur import time_integration as ti
  eq = _test_equation()
  x0 = np.array([1.0, -2.0])
  n_incons = 0
  out = Outcome(units=len(case['lengths']), labels=[f'target={case["target"]}'])
  for ls in case['lengths']:
    if case['target'] == 'low_storage':
      la, lb, lg = ls
      consistent = (la - 1 == lb == lg)
      build = lambda: ti.low_storage_runge_kutta_crank_nicolson(     # pylint: disable=g-long-lambda
          [0.1 * (i + 1) for i in range(la)], [-0.1 * i for i in range(lb)], [0.2] * lg, eq, 0.1)
      run_step = lambda f: f(x0)
    else:
      nae, nai, nbe, nbi = ls
      consistent = (nae + 1 == nai + 1 == nbe == nbi)
      # well-formed rows: a_ex row i has i+1 entries, a_im row i has i+2 entries
      build = lambda: ti.ImExButcherTableau(     # pylint: disable=g-long-lambda
          a_ex=[[0.1] * (i + 1) for i in range(nae)], a_im=[[0.05] * (i + 2) for i in range(nai)],
          b_ex=[0.2] * nbe, b_im=[0.1] * nbi)
      run_step = lambda tab: ti.imex_runge_kutta(tab, eq, 0.1)(x0)
    n_incons += not consistent
    try:
      obj = build()
    except ValueError:
      if consistent:
        return out.fail(what='consistent coefficient lengths were rejected', target=case['target'], lengths=ls)
      continue
    except Exception as e:   # pylint: disable=broad-except
      return out.fail(what='construction raised something other than ValueError', target=case['target'], lengths=ls,
                      error=repr(e))
    if not consistent:
      try:
        res = run_step(obj)
        after = 'the step then ran silently with truncated coefficients: ' + repr(np.asarray(res).tolist())
      except Exception as e:   # pylint: disable=broad-except
        after = 'the step then failed late with ' + type(e).__name__
      return out.fail(what='inconsistent coefficient lengths were accepted at construction', target=case['target'],
                      lengths=ls, afterwards=after)
    try:
      res = np.asarray(run_step(obj))
    except Exception as e:   # pylint: disable=broad-except
      return out.fail(what='consistent coefficient lengths: the step raised', target=case['target'], lengths=ls,
                      error=repr(e))
    if res.shape != x0.shape or not np.all(np.isfinite(res)):
      return out.fail(what='consistent coefficient lengths: the step returned a malformed state', lengths=ls)
  out.nontrivial = n_incons > 0
  out.labels = list(out.labels) + ['has_consistent' if n_incons < len(case['lengths']) else 'all_inconsistent']
  return out


# ----------------------------------------------------------------------------


def _order_sub(name, ex_q, ex_t, weight):
  return Subcheck(f'order_{SHORT[name]}', functools.partial(_run_order, name),
                  strategy=lambda tier, name=name: _order_case(name),
                  examples={'quick': ex_q, 'thorough': ex_t}, shards={'quick': 1, 'thorough': 2},
                  wall={'quick': 300.0, 'thorough': 2400.0}, weight=weight,
                  rule='non-trivial = F != 0, G != 0 and [G, DF] != 0 for some problem of the case',
                  doc=f'{name}: Taylor coefficients of one step == exact flow through the design order')


SUBCHECKS = [
    _order_sub('crank_nicolson_rk4', 60, 6000, 9),
    _order_sub('crank_nicolson_rk3', 60, 6000, 7),
    _order_sub('imex_rk_sil3', 60, 6000, 6),
    _order_sub('crank_nicolson_rk2', 60, 6000, 4),
    _order_sub('backward_forward_euler', 60, 6000, 3),
    Subcheck('order_leapfrog', run_order_leapfrog, strategy=lambda tier: _leapfrog_order_case(),
             examples={'quick': 60, 'thorough': 6000}, shards={'quick': 1, 'thorough': 2},
             wall={'quick': 300.0, 'thorough': 2400.0}, weight=5,
             rule='non-trivial = F != 0, G != 0 and non-commuting',
             doc='leapfrog with exact u(-h), u(0): u(h) through h^2 (alpha = 1/2) / h^1 (otherwise)'),
    Subcheck('reductions', run_reduction, strategy=lambda tier: _reduction_case(),
             examples={'quick': 60, 'thorough': 6000}, shards={'quick': 2, 'thorough': 6},
             wall={'quick': 300.0, 'thorough': 2400.0}, weight=4,
             rule='non-trivial = step size h >= 0.05 (a finite step, far from the Taylor regime)',
             doc='F=0 -> implicit method (CN products / backward Euler / DIRK), G=0 -> explicit RK in Butcher form'),
    Subcheck('stiff_stability', run_stability, strategy=lambda tier: _stab_case(),
             examples={'quick': 60, 'thorough': 8000}, shards={'quick': 1, 'thorough': 8},
             wall={'quick': 300.0, 'thorough': 2400.0}, weight=3,
             rule='non-trivial = the case contains z with |z| > 100',
             doc='|R(z)| <= 1 + 1e-12 on the closed left half-plane, R == closed form; leapfrog spectral radius'),
    Subcheck('length_validation', run_lengths, cases=_length_cases, weight=1, wall={'quick': 300.0, 'thorough': 2400.0},
             rule='non-trivial = the group contains at least one inconsistent combination',
             doc='exhaustive lengths 0..6: ValueError iff inconsistent; consistent ones construct and step'),
]


# ----------------------------------------------------------------------------
# user-supplied coefficient sets: the generic IMEX-RK / low-storage drivers equal their definition, and building an
# integrator never changes the coefficient containers it was given (history: the same arrays are reused)


_COEF = [0.0, 0.0, 0.5, 1.0, 1 / 3, 0.25, -0.5, 0.75, 1 / 6]


@st.composite
def _generic_case(draw):
  d = draw(st.integers(1, 3))
  s_ = draw(st.integers(2, 4))
  c = lambda: draw(st.sampled_from(_COEF))   # noqa: E731
  a_ex = [[c() for _ in range(i + 1)] for i in range(s_ - 1)]
  a_im = [[c() for _ in range(i + 1)] + [draw(st.sampled_from([0.0, 0.25, 0.5, 1 / 3, 1.0]))] for i in range(s_ - 1)]
  b_ex = [c() for _ in range(s_)]
  b_im = [c() for _ in range(s_)]
  if draw(st.booleans()):       # stiffly accurate implicit part (a common special case), explicit weights free
    b_im = list(a_im[-1])
    if draw(st.booleans()):
      b_ex = list(a_ex[-1]) + [0.0]
  n_low = draw(st.integers(1, 4))
  alphas = sorted(draw(st.sampled_from([0.0, 0.2, 1 / 3, 0.5, 0.6, 0.75, 1.0])) for _ in range(n_low - 1))
  low = {'alphas': [0.0] + alphas + [1.0] if n_low > 1 else [0.0, 1.0],
         'betas': None, 'gammas': None}
  k = len(low['alphas']) - 1
  low['betas'] = [0.0] + [draw(st.sampled_from([-0.5, -1.0, -0.25, 0.0])) for _ in range(k - 1)]
  low['gammas'] = [draw(st.sampled_from([1.0, 0.5, 0.75, 0.25])) for _ in range(k)]
  return {'dim': d, 'a_ex': a_ex, 'a_im': a_im, 'b_ex': b_ex, 'b_im': b_im, 'low': low,
          'seed': draw(st.integers(0, 9999)), 'log10_h': draw(st.sampled_from([-2.0, -1.0, -0.5, 0.0])),
          'containers': draw(st.sampled_from(['list', 'ndarray', 'tuple'])), 'builds': draw(st.integers(1, 3))}


def _generic_problem(case):
  rng = np.random.default_rng([int(case['seed']), 5])
  d = case['dim']
  A = rng.standard_normal((d, d)) * 0.7
  B = rng.standard_normal((d, d)) * 0.5
  Gm = -np.abs(rng.standard_normal((d, d))) * 0.8 - np.eye(d) * 0.5 + np.triu(rng.standard_normal((d, d)), 1)
  u0 = rng.standard_normal(d)
  return A, B, Gm, u0


def _np_imex_rk(a_ex, a_im, b_ex, b_im, F, Gm, u0, h):
  """The IMEX Runge-Kutta definition (stage 0 explicit; stage i solves for Y_i with diagonal a_im[i-1][i])."""
  s_ = len(b_ex)
  Y = [u0]
  f, g = [F(u0)], [Gm @ u0]
  eye = np.eye(len(u0))
  for i in range(1, s_):
    rhs = u0 + h * sum(a_ex[i - 1][j] * f[j] for j in range(i)) + h * sum(a_im[i - 1][j] * g[j] for j in range(i))
    Yi = np.linalg.solve(eye - h * a_im[i - 1][i] * Gm, rhs)
    Y.append(Yi)
    f.append(F(Yi))
    g.append(Gm @ Yi)
  return u0 + h * sum(b_ex[j] * f[j] for j in range(s_)) + h * sum(b_im[j] * g[j] for j in range(s_))


def _np_low_storage(alphas, betas, gammas, F, Gm, u0, h):
  """Low-storage RK (explicit part, 2N storage) with Crank-Nicolson sub-steps for the linear part:
  for k: Fk = F(u) + beta_k F_{k-1};  u <- (I - mu G)^-1 (u + gamma_k h Fk + mu G u),  mu = h (alpha_{k+1}-alpha_k)/2."""
  u, Fk = u0, 0.0
  eye = np.eye(len(u0))
  for k in range(len(betas)):
    Fk = F(u) + betas[k] * Fk
    mu = 0.5 * h * (alphas[k + 1] - alphas[k])
    u = np.linalg.solve(eye - mu * Gm, u + gammas[k] * h * Fk + mu * (Gm @ u))
  return u


def run_generic(case):
  import copy
  import jax.numpy as jnp
  from dinosaur import time_integration as ti
  A, B, Gm, u0 = _generic_problem(case)
  h = 10.0 ** case['log10_h']
  F_np = lambda u: A @ u + B @ np.tanh(u)   # noqa: E731
  eq = ti.ImplicitExplicitODE.from_functions(
      lambda u: jnp.asarray(A) @ u + jnp.asarray(B) @ jnp.tanh(u),
      lambda u: jnp.asarray(Gm) @ u,
      lambda u, eta: jnp.linalg.solve(jnp.eye(len(u0)) - eta * jnp.asarray(Gm), u))
  wrap = {'list': lambda x: copy.deepcopy(x), 'tuple': lambda x: tuple(tuple(r) if isinstance(r, list) else r for r in x),
          'ndarray': lambda x: (np.array(x, dtype=np.float64) if not isinstance(x[0], list) else [np.array(r, dtype=np.float64) for r in x])}[case['containers']]
  stiffly = list(case['b_im']) == list(case['a_im'][-1])
  out = Outcome(units=0, nontrivial=len(case['b_ex']) >= 3 and np.any(Gm != 0),
                labels=[f"stages={len(case['b_ex'])}", f"containers={case['containers']}", f"builds={case['builds']}",
                        'implicit_stiffly_accurate' if stiffly else 'general_weights',
                        'b_ex==last_row' if list(case['b_ex']) == list(case['a_ex'][-1]) + [0.0] else 'b_ex_free'])
  scale = max(1.0, float(np.abs(u0).max()))
  # generic IMEX-RK driver
  a_ex, a_im, b_ex, b_im = (wrap(case[k]) for k in ('a_ex', 'a_im', 'b_ex', 'b_im'))
  want = _np_imex_rk(case['a_ex'], case['a_im'], case['b_ex'], case['b_im'], F_np, Gm, u0, h)
  for n_build in range(case['builds']):
    tab = ti.ImExButcherTableau(a_ex=a_ex, a_im=a_im, b_ex=b_ex, b_im=b_im)
    got = np.asarray(ti.imex_runge_kutta(tab, eq, h)(jnp.asarray(u0)))
    out.units += 1
    err = core.relerr(got, want, scale=max(scale, float(np.abs(want).max())))
    if not err <= 1e-9:
      return out.fail(what='imex_runge_kutta(tableau) differs from the IMEX Runge-Kutta definition', relerr=err,
                      build_number=n_build + 1, got=got, want=want, h=h)
  # low-storage driver, the same coefficient containers reused for every build (and for a second step size)
  low = case['low']
  al, be, ga = wrap(low['alphas']), wrap(low['betas']), wrap(low['gammas'])
  for n_build in range(case['builds']):
    for hh in (h, 0.5 * h):
      want = _np_low_storage(low['alphas'], low['betas'], low['gammas'], F_np, Gm, u0, hh)
      got = np.asarray(ti.low_storage_runge_kutta_crank_nicolson(al, be, ga, eq, hh)(jnp.asarray(u0)))
      out.units += 1
      err = core.relerr(got, want, scale=max(scale, float(np.abs(want).max())))
      if not err <= 1e-9:
        return out.fail(what='low_storage_runge_kutta_crank_nicolson differs from its definition', relerr=err,
                        build_number=n_build + 1, h=hh, got=got, want=want, alphas=low['alphas'], betas=low['betas'],
                        gammas=low['gammas'])
  for name, given, orig in (('alphas', al, low['alphas']), ('betas', be, low['betas']), ('gammas', ga, low['gammas']),
                            ('b_ex', b_ex, case['b_ex']), ('b_im', b_im, case['b_im'])):
    if not np.array_equal(np.asarray(given, dtype=np.float64), np.asarray(orig, dtype=np.float64)):
      return out.fail(what='building / stepping an integrator modified the coefficient container it was given',
                      container=name, before=orig, after=np.asarray(given))
  return out


SUBCHECKS.append(
    Subcheck('generic_tableaux', run_generic, strategy=lambda tier: _generic_case(),
             examples={'quick': 60, 'thorough': 6000}, shards={'quick': 2, 'thorough': 6},
             wall={'quick': 300.0, 'thorough': 2400.0}, weight=3,
             rule='non-trivial = >= 3 stages and a non-zero implicit operator',
             doc='imex_runge_kutta / low_storage_runge_kutta_crank_nicolson with generated coefficient sets (lists, '
                 'tuples, ndarrays; built 1-3 times from the same containers) equal a numpy implementation of their '
                 'definition and leave the containers unchanged'))
