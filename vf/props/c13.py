"""C13 Vertical (sigma) calculus is consistent, conservative and exact on affine data."""
from __future__ import annotations

import math

from hypothesis import strategies as st
import numpy as np

from vf import core, gens
from vf.core import Outcome, Subcheck

RTOL = 1e-9       # float64 algebra on <= 24 layers; measured rounding is 1e-15..1e-13
RTOL32 = 2e-5     # float32 data through the float32-weight matmul cumsum

RULE = ('Hypothesis draws a sigma level set (1..12 layers: equidistant, random thickness ratios up to 1:30, '
        'NWP-like stretched), an array layout (vertical axis anywhere, positive or negative axis index, leading / '
        'trailing dims) and a short list of column data descriptions (unit vector at one level, constant, affine in '
        'sigma, seeded random; interface velocities likewise). Oracles: plain python-loop implementations of the '
        'documented formulas (vf/oracles/sigma_ref.py), closed forms (midpoint rule on affine data, trapezoid rule on '
        'constants, slope of affine profiles), algebraic identities (down + up - total = local layer contribution, '
        'summation by parts) and cross-implementation agreement (dot / jax cumsum, dense / sparse geopotential). '
        'distinct = hash of the canonical JSON case; non-trivial = at least 3 layers with max/min thickness ratio > 2 '
        '(constructor sub-check: an invalid mutation of such a set, or a valid uneven set).')
ASSUMPTIONS = [
    'level sets handed to the calculus are valid (increasing from 0 to 1); invalid sets are only used to check that '
    'the constructor raises ValueError, and are made invalid by at least 1e-3 (the constructor accepts end points '
    'within numpy.isclose of 0 and 1 by design)',
    'float64 data decide (rtol 1e-9 of the sum of absolute contributions); float32 data are only used for the '
    'cumulative-sum strategies with rtol 2e-5',
    'get_geopotential_diff is called with (layers, a, b)-shaped data as in the model (its cumulative-sum variant is '
    'written for the vertical axis at position 0 of a 3-D array)',
    'centred differences / advection of a single layer have no interfaces: only shapes and zero output are required',
]
MANIFEST = {
    'text': 'Property-based exploration: for generated uneven sigma level sets and array layouts every operator of the '
            'vertical calculus (midpoint and log-sigma trapezoid integrals in both directions, both cumulative-sum '
            'strategies, centred difference, centred and upwind advection, geopotential weights in dense and '
            'cumulative-sum form, constructor validation) is compared with independent loop implementations of the '
            'documented formulas, closed forms on constant/affine data and the conservation identities '
            '(down + up - total = local term, summation by parts).',
    'note': 'trusted base: numpy float64 loops in vf/oracles/sigma_ref.py written from the docstrings / Durran 8.6; '
            'Hypothesis generation; no claim beyond the explored level sets (1..12 layers quick, 1..24 thorough)',
    'technique': 'property-based testing against loop reference implementations, closed forms and algebraic identities',
}

_KINDS = ['unit', 'constant', 'affine', 'random']


def _max_layers(tier):
  return 12 if tier == 'quick' else 24


@st.composite
def _levels(draw, tier):
  """Level sets: the shared generator, re-weighted so that 1 and 2 layers and strongly uneven sets are all frequent."""
  top = _max_layers(tier)
  lo, hi = draw(st.sampled_from([(1, 1), (2, 2), (3, 3), (3, top), (3, top), (3, top), (4, top), (4, 8)]))
  if draw(st.sampled_from([True, True, False])):
    # integer thickness weights: shrink towards equidistant, readable (e.g. [1, 1, 5] -> boundaries 0, 1/7, 2/7, 1)
    n = draw(st.integers(lo, hi))
    t = [draw(st.sampled_from([1, 1, 2, 3, 5, 10, 30])) for _ in range(n)]
    b = np.round(np.concatenate([[0.0], np.cumsum(t) / float(np.sum(t))]), 6)
    b[-1] = 1.0
    return [float(v) for v in b]
  return draw(gens.sigma_boundaries(lo, hi, kinds=('equidistant', 'uneven', 'hybrid', 'hybrid')))


@st.composite
def _inputs(draw, n_layers, max_inputs=4):
  k = draw(st.integers(1, max_inputs))
  out = []
  for _ in range(k):
    out.append({'kind': draw(st.sampled_from(_KINDS)), 'level': draw(st.integers(0, max(n_layers - 1, 0))),
                'seed': draw(st.integers(0, 9999)),
                'wkind': draw(st.sampled_from(['unit', 'constant', 'random', 'random_signed']))})
  return out


@st.composite
def _layout_case(draw, tier, fixed_trail=None):
  b = draw(_levels(tier))
  lead = draw(st.sampled_from([[], [], [2], [1, 2]]))
  trail = fixed_trail if fixed_trail is not None else draw(st.sampled_from([[2, 3], [2, 3], [], [3], [1, 1]]))
  return {'boundaries': b, 'lead': lead, 'trail': trail, 'neg_axis': draw(st.booleans()),
          'inputs': draw(_inputs(len(b) - 1))}


def _axis(case):
  nd = len(case['lead']) + 1 + len(case['trail'])
  ax = len(case['lead'])
  return (ax - nd) if case['neg_axis'] else ax, ax


def _column_profile(kind, n, level, b, rng):
  c = np.asarray(b[:-1]) / 2 + np.asarray(b[1:]) / 2
  if kind == 'unit':
    v = np.zeros(n)
    v[min(level, n - 1)] = 1.0
    return v, None
  if kind == 'constant':
    a = float(np.round(rng.uniform(-3, 3), 3)) or 1.5
    return np.full(n, a), (a, 0.0)
  if kind == 'affine':
    a, s = float(np.round(rng.uniform(-3, 3), 3)), float(np.round(rng.uniform(-5, 5), 3)) or 2.0
    return a + s * c, (a, s)
  return rng.standard_normal(n) * 10.0 ** rng.integers(-2, 3), None


def _field(inp, case, n, b):
  """Array with the n layers along the vertical axis; every column gets its own profile of the same kind."""
  rng = np.random.default_rng([int(inp['seed']), n])
  ax = len(case['lead'])
  rest = tuple(case['lead']) + tuple(case['trail'])
  ncol = int(np.prod(rest)) if rest else 1
  cols = np.zeros((n, ncol))
  coefs = []
  for j in range(ncol):
    v, co = _column_profile(inp['kind'], n, inp['level'], b, rng)
    cols[:, j] = v
    coefs.append(co)
  x = np.moveaxis(cols.reshape((n,) + rest), 0, ax)
  return np.ascontiguousarray(x), coefs


def _w_field(inp, case, n_if):
  rng = np.random.default_rng([int(inp['seed']), 77, n_if])
  shape = tuple(case['lead']) + (n_if,) + tuple(case['trail'])
  k = inp['wkind']
  if n_if == 0:
    return np.zeros(shape)
  if k == 'unit':
    w = np.zeros(shape)
    idx = [slice(None)] * len(shape)
    idx[len(case['lead'])] = min(inp['level'], n_if - 1)
    w[tuple(idx)] = -1.0 if inp['seed'] % 2 else 1.0
    return w
  if k == 'constant':
    return np.full(shape, 0.7 if inp['seed'] % 2 else -0.7)
  w = rng.standard_normal(shape)
  if k == 'random':
    return np.abs(w) * (1 if inp['seed'] % 2 else -1)    # one-signed: pure up- or down-winding
  return w


def _labels(case):
  labs = gens.sigma_labels(case['boundaries'])
  labs += [f"axis={'neg' if case['neg_axis'] else 'pos'}", f"lead_dims={len(case['lead'])}",
           f"trail_dims={len(case['trail'])}"]
  for inp in case['inputs']:
    labs.append(f"data={inp['kind']}")
  return sorted(set(labs))


def _nontrivial(b):
  d = np.diff(np.asarray(b))
  return len(d) >= 3 and float(d.max() / d.min()) > 2.0


def _cmp(out, what, got, want, scale, rtol=RTOL, **extra):
  got = np.asarray(got)
  want = np.asarray(want)
  if got.shape != want.shape:
    out.fail(what=what + ': shape', got_shape=list(got.shape), want_shape=list(want.shape), **extra)
    return False
  err = core.relerr(got, want, scale=scale)
  if not err <= rtol:
    idx = core.argmax_index(got, want) if got.size else []
    out.fail(what=what, relerr=err, rtol=rtol, scale=scale, index=idx,
             got=float(got[tuple(idx)]) if got.size else None, want=float(want[tuple(idx)]) if got.size else None,
             **extra)
    return False
  return True


def _expand(v, ndim, ax):
  shape = [1] * ndim
  shape[ax] = len(v)
  return np.asarray(v, dtype=np.float64).reshape(shape)


# ----------------------------------------------------------------------------
# integrals


def run_integrals(case):
  from dinosaur import sigma_coordinates as sc
  from vf.oracles import sigma_ref as ref
  b = case['boundaries']
  coords = gens.build_sigma(b)
  n = len(b) - 1
  axis, ax = _axis(case)
  nd = len(case['lead']) + 1 + len(case['trail'])
  d = np.diff(np.asarray(b))
  c = (np.asarray(b)[1:] + np.asarray(b)[:-1]) / 2
  out = Outcome(nontrivial=_nontrivial(b), labels=_labels(case), units=0)
  for inp in case['inputs']:
    x, coefs = _field(inp, case, n, b)
    out.units += x.size // n
    scale = float(np.max(np.sum(np.abs(x) * _expand(d, nd, ax), axis=ax))) or 1.0
    extra = {'input': inp, 'axis': axis}
    tot = np.asarray(sc.sigma_integral(x, coords, axis=axis, keepdims=True))
    tot_nk = np.asarray(sc.sigma_integral(x, coords, axis=axis, keepdims=False))
    if not _cmp(out, 'sigma_integral != loop reference', tot, ref.sigma_integral(x, b, axis), scale, **extra):
      return out
    if not _cmp(out, 'sigma_integral(keepdims=False) != squeeze(keepdims=True)', tot_nk, np.squeeze(tot, axis=ax), scale, **extra):
      return out
    local = x * _expand(d, nd, ax)
    results = {}
    for method in ('dot', 'jax'):
      dn = np.asarray(sc.cumulative_sigma_integral(x, coords, axis=axis, downward=True, cumsum_method=method))
      up = np.asarray(sc.cumulative_sigma_integral(x, coords, axis=axis, downward=False, cumsum_method=method))
      results[method] = (dn, up)
      e = dict(extra, cumsum_method=method)
      if not _cmp(out, 'cumulative_sigma_integral(downward) != loop reference', dn,
                  ref.cumulative_sigma_integral(x, b, axis, True), scale, **e):
        return out
      if not _cmp(out, 'cumulative_sigma_integral(upward) != loop reference', up,
                  ref.cumulative_sigma_integral(x, b, axis, False), scale, **e):
        return out
      if not _cmp(out, 'downward cumulative integral does not end at the total integral',
                  np.take(dn, [n - 1], axis=ax), tot, scale, **e):
        return out
      if not _cmp(out, 'upward cumulative integral does not start at the total integral',
                  np.take(up, [0], axis=ax), tot, scale, **e):
        return out
      if not _cmp(out, 'down + up - total != x * layer_thickness', dn + up - tot, local, scale, **e):
        return out
      if inp['kind'] in ('constant', 'affine'):
        # midpoint rule is exact for affine integrands: int_0^B (a + s sigma) = a B + s B^2 / 2
        a_ = np.array([co[0] for co in coefs]).reshape(tuple(case['lead']) + tuple(case['trail']))
        s_ = np.array([co[1] for co in coefs]).reshape(tuple(case['lead']) + tuple(case['trail']))
        B = _expand(np.asarray(b)[1:], nd, ax)
        exact = np.expand_dims(a_, ax) * B + np.expand_dims(s_, ax) * B ** 2 / 2
        sc_aff = float(np.max(np.abs(a_) + np.abs(s_))) or 1.0
        if not _cmp(out, 'midpoint rule not exact on affine data', dn, exact, sc_aff, **e):
          return out
    if not _cmp(out, 'cumsum methods disagree (sigma integral, downward)', results['dot'][0], results['jax'][0], scale, **extra):
      return out
    if not _cmp(out, 'cumsum methods disagree (sigma integral, upward)', results['dot'][1], results['jax'][1], scale, **extra):
      return out
    # --- log-sigma trapezoid integral
    seg = ref.log_sigma_segments(x, b, axis)
    lscale = float(np.max(np.sum(np.abs(seg), axis=ax))) or 1.0
    want_up = ref.trapezoid_up_log_sigma(x, b, axis)
    lres = {}
    for method in ('dot', 'jax'):
      dn = np.asarray(sc.cumulative_log_sigma_integral(x, coords, axis=axis, downward=True, cumsum_method=method))
      up = np.asarray(sc.cumulative_log_sigma_integral(x, coords, axis=axis, downward=False, cumsum_method=method))
      lres[method] = (dn, up)
      e = dict(extra, cumsum_method=method)
      if not _cmp(out, 'cumulative_log_sigma_integral(upward) != composite trapezoid rule from each centre to the surface',
                  up, want_up, lscale, **e):
        return out
      if not _cmp(out, 'cumulative_log_sigma_integral(upward) != loop reference', up,
                  ref.cumulative_log_sigma_integral(x, b, axis, False), lscale, **e):
        return out
      if not _cmp(out, 'cumulative_log_sigma_integral(downward) != loop reference', dn,
                  ref.cumulative_log_sigma_integral(x, b, axis, True), lscale, **e):
        return out
      total = np.take(up, [0], axis=ax)
      if not _cmp(out, 'log-sigma: downward integral does not end at the upward total',
                  np.take(dn, [n - 1], axis=ax), total, lscale, **e):
        return out
      if not _cmp(out, 'log-sigma: down + up - total != local trapezoid segment', dn + up - total, seg, lscale, **e):
        return out
      if inp['kind'] == 'constant':
        a_ = np.array([co[0] for co in coefs]).reshape(tuple(case['lead']) + tuple(case['trail']))
        exact = -np.expand_dims(a_, ax) * _expand(np.log(c), nd, ax)
        if not _cmp(out, 'log-sigma trapezoid of a constant != -a log(sigma)', up, exact,
                    float(np.max(np.abs(a_)) * max(-math.log(c[0]), 1.0)), **e):
          return out
    if not _cmp(out, 'cumsum methods disagree (log-sigma integral)', np.stack(lres['dot']), np.stack(lres['jax']), lscale, **extra):
      return out
  return out


# ----------------------------------------------------------------------------
# cumulative-sum strategies


@st.composite
def _cumsum_case(draw, tier):
  nd = draw(st.integers(1, 4))
  shape = [draw(st.integers(1, 7 if tier == 'quick' else 12)) for _ in range(nd)]
  ax = draw(st.integers(0, nd - 1))
  return {'shape': shape, 'axis': ax - nd if draw(st.booleans()) else ax, 'seed': draw(st.integers(0, 9999)),
          'dtype': draw(st.sampled_from(['f8', 'f8', 'f4'])), 'kind': draw(st.sampled_from(['unit', 'ones', 'random', 'positive_wide']))}


def run_cumsum(case):
  from dinosaur import jax_numpy_utils as jnu
  shape, axis = tuple(case['shape']), case['axis']
  nd = len(shape)
  ax = axis % nd
  rng = np.random.default_rng(case['seed'])
  if case['kind'] == 'unit':
    x = np.zeros(shape)
    x[tuple(int(rng.integers(0, s)) for s in shape)] = 1.0
  elif case['kind'] == 'ones':
    x = np.ones(shape)
  elif case['kind'] == 'positive_wide':
    # positive data spanning 8 decades along the summed axis (e.g. humidity or mass from the model top to the surface):
    # every partial sum is a sum of positive terms, so each strategy must be accurate entry by entry
    ramp = np.moveaxis(np.linspace(0.0, 8.0, shape[ax]).reshape((-1,) + (1,) * (nd - 1)), 0, ax)
    x = 10.0 ** (-ramp if rng.integers(0, 2) else ramp - 8.0) * rng.uniform(0.5, 1.5, size=shape)
  else:
    x = rng.standard_normal(shape)
  x = x.astype(case['dtype'])
  n = shape[ax]
  out = Outcome(nontrivial=n >= 3 and nd >= 2,
                labels=[f'ndim={nd}', f"axis={'neg' if axis < 0 else 'pos'}", f"dtype={case['dtype']}",
                        f"data={case['kind']}", 'len=1' if n == 1 else ('len=2' if n == 2 else 'len>=3')],
                units=int(np.prod(shape)) // n)
  # loop reference
  xm = np.moveaxis(x.astype(np.float64), ax, 0)
  fwd = np.zeros_like(xm)
  rev = np.zeros_like(xm)
  acc = np.zeros(xm.shape[1:])
  for k in range(n):
    acc = acc + xm[k]
    fwd[k] = acc
  acc = np.zeros(xm.shape[1:])
  for k in range(n - 1, -1, -1):
    acc = acc + xm[k]
    rev[k] = acc
  fwd, rev = np.moveaxis(fwd, 0, ax), np.moveaxis(rev, 0, ax)
  scale = float(np.max(np.sum(np.abs(x.astype(np.float64)), axis=ax))) or 1.0
  rtol = RTOL if case['dtype'] == 'f8' else RTOL32
  extra = {'shape': list(shape), 'axis': axis}
  for method in ('dot', 'jax'):
    got_f = np.asarray(jnu.cumsum(x, axis, method=method))
    got_r = np.asarray(jnu.reverse_cumsum(x, axis, method=method))
    if not _cmp(out, f'cumsum(method={method}) != loop reference', got_f, fwd, scale, rtol, **extra):
      return out
    if not _cmp(out, f'reverse_cumsum(method={method}) != loop reference', got_r, rev, scale, rtol, **extra):
      return out
    if got_f.dtype != x.dtype and case['dtype'] == 'f8':
      return out.fail(what=f'cumsum(method={method}) changed float64 data to {got_f.dtype}', **extra)
    if case['kind'] == 'positive_wide':
      eps = np.finfo(np.float64 if case['dtype'] == 'f8' else np.float32).eps
      for what, got, ref_ in ((f'cumsum(method={method})', got_f, fwd), (f'reverse_cumsum(method={method})', got_r, rev)):
        rel = np.abs(np.asarray(got, dtype=np.float64) - ref_) / ref_
        if not np.all(rel <= 16 * n * eps):
          idx = [int(i) for i in np.unravel_index(int(np.argmax(rel)), rel.shape)]
          return out.fail(what=what + ' of positive data is not accurate entry by entry (a sum of positive terms '
                          'has relative error <= n eps; cancellation against the column total is not rounding)',
                          index=idx, relerr=float(rel.max()), bound=float(16 * n * eps), **extra)
  got = np.asarray(jnu._single_device_dot_cumsum(x, axis))   # pylint: disable=protected-access
  gotr = np.asarray(jnu._single_device_dot_cumsum(x, axis, reverse=True))   # pylint: disable=protected-access
  if not _cmp(out, '_single_device_dot_cumsum != loop reference', got, fwd, scale, rtol, **extra):
    return out
  if not _cmp(out, '_single_device_dot_cumsum(reverse) != loop reference', gotr, rev, scale, rtol, **extra):
    return out
  for fn in (jnu.cumsum, jnu.reverse_cumsum):
    try:
      fn(x, axis, method='scan')
    except ValueError:
      pass
    else:
      return out.fail(what=f'{fn.__name__} accepted an unknown method')
  return out


# ----------------------------------------------------------------------------
# centred difference, centred and upwind advection


def run_advection(case):
  from dinosaur import sigma_coordinates as sc
  from vf.oracles import sigma_ref as ref
  b = case['boundaries']
  coords = gens.build_sigma(b)
  n = len(b) - 1
  axis, ax = _axis(case)
  nd = len(case['lead']) + 1 + len(case['trail'])
  d = np.diff(np.asarray(b))
  c2c = np.diff((np.asarray(b)[1:] + np.asarray(b)[:-1]) / 2)
  out = Outcome(nontrivial=_nontrivial(b), labels=_labels(case), units=0)
  for inp in case['inputs']:
    x, coefs = _field(inp, case, n, b)
    w = _w_field(inp, case, n - 1)
    out.units += x.size // n
    out.labels = sorted(set(list(out.labels) + [f"w={inp['wkind']}"]))
    extra = {'input': inp, 'axis': axis}
    dx = np.asarray(sc.centered_difference(x, coords, axis=axis))
    want_dx = ref.centered_difference(x, b, axis)
    dscale = (float(np.max(np.abs(x))) or 1.0) / (float(c2c.min()) if n > 1 else 1.0)
    if not _cmp(out, 'centered_difference != loop reference', dx, want_dx, dscale, **extra):
      return out
    if inp['kind'] in ('constant', 'affine') and n > 1:
      s_ = np.array([co[1] for co in coefs]).reshape(tuple(case['lead']) + tuple(case['trail']))
      a_ = np.array([co[0] for co in coefs]).reshape(tuple(case['lead']) + tuple(case['trail']))
      exact = np.repeat(np.expand_dims(s_, ax), n - 1, axis=ax)
      # rounding of (x[k+1]-x[k]) is relative to |x| ~ |a|+|s|, amplified by 1/(c[k+1]-c[k])
      if not _cmp(out, 'centered_difference not exact on an affine profile', dx, exact,
                  float(np.max(np.abs(a_) + np.abs(s_))) / float(c2c.min()), **extra):
        return out
    # centred advection, default (zero) boundary values
    adv = np.asarray(sc.centered_vertical_advection(w, x, coords, axis=axis))
    want = ref.centered_vertical_advection(w, x, b, axis)
    ascale = (float(np.max(np.abs(w))) if w.size else 0.0) * dscale or 1.0
    if not _cmp(out, 'centered_vertical_advection != loop reference', adv, want, ascale, **extra):
      return out
    if inp['kind'] == 'constant' and np.any(adv != 0):
      return out.fail(what='vertical advection of a constant profile is not zero', max=float(np.abs(adv).max()), **extra)
    # summation by parts: sum_k dsigma[k] adv[k] == sum_k x[k] (w[k+1/2] - w[k-1/2]) with w = 0 at top and bottom
    D = _expand(d, nd, ax)
    lhs = np.sum(D * adv, axis=ax)
    zero = np.zeros_like(np.take(x, [0], axis=ax))
    wpad = np.concatenate([zero, w, zero], axis=ax)
    dw = np.diff(wpad, axis=ax)
    rhs = np.sum(x * dw, axis=ax)
    sbp_scale = float(np.max(np.sum(np.abs(x * dw), axis=ax) + np.sum(np.abs(D * adv), axis=ax))) or 1.0
    if not _cmp(out, 'summation by parts violated: sum dsigma*advection != sum x*(w[k+1/2]-w[k-1/2])', lhs, rhs, sbp_scale, **extra):
      return out
    # advection + convergence (-x dw/dsigma) = flux form -(d(w x)/dsigma): its mass-weighted column sum telescopes
    # to the boundary fluxes, which vanish
    conv = -x * dw / D
    if not _cmp(out, 'mass-weighted column sum of advection + convergence does not vanish',
                np.sum(D * (adv + conv), axis=ax), np.zeros_like(lhs), sbp_scale, **extra):
      return out
    # explicit boundary values
    rng = np.random.default_rng([int(inp['seed']), 5])
    bshape = list(x.shape)
    bshape[ax] = 1
    wb = (rng.standard_normal(bshape), rng.standard_normal(bshape))
    db = (rng.standard_normal(bshape), rng.standard_normal(bshape))
    adv_b = np.asarray(sc.centered_vertical_advection(w, x, coords, axis=axis, w_boundary_values=wb,
                                                      dx_dsigma_boundary_values=db))
    want_b = ref.centered_vertical_advection(w, x, b, axis, w_boundary=wb, dx_boundary=db)
    bscale = max(ascale, float(np.max(np.abs(wb[0] * db[0]))), float(np.max(np.abs(wb[1] * db[1]))))
    if not _cmp(out, 'centered_vertical_advection with boundary values != loop reference', adv_b, want_b,
                bscale, **extra):
      return out
    # upwind
    upw = np.asarray(sc.upwind_vertical_advection(w, x, coords, axis=axis))
    want_u = ref.upwind_vertical_advection(w, x, b, axis)
    if not _cmp(out, 'upwind_vertical_advection != first-order upwind definition', upw, want_u, ascale, **extra):
      return out
    if inp['kind'] == 'constant' and np.any(upw != 0):
      return out.fail(what='upwind advection of a constant profile is not zero', **extra)
  return out


# ----------------------------------------------------------------------------
# geopotential


def run_geopotential(case):
  from dinosaur import primitive_equations as pe, sigma_coordinates as sc
  from vf.oracles import sigma_ref as ref
  b = case['boundaries']
  coords = gens.build_sigma(b)
  n = len(b) - 1
  R = case['R']
  c = (np.asarray(b)[1:] + np.asarray(b)[:-1]) / 2
  sub = dict(case, lead=[], neg_axis=False)
  out = Outcome(nontrivial=_nontrivial(b), labels=_labels(sub) + [f'R={R}'], units=0)
  alpha = np.asarray(pe.get_sigma_ratios(coords))
  want_alpha = np.asarray(ref.sigma_ratios(b))
  ascale = float(np.max(np.abs(want_alpha)))
  if not _cmp(out, 'get_sigma_ratios != documented log ratios', alpha, want_alpha, ascale):
    return out
  G = np.asarray(pe.get_geopotential_weights(coords, R))
  want_G = ref.geopotential_weights(b, R)
  if not _cmp(out, 'get_geopotential_weights != documented matrix', G, want_G, R * ascale):
    return out
  if np.any(np.tril(G, -1) != 0):
    return out.fail(what='geopotential weights not upper triangular')
  for inp in case['inputs']:
    x, coefs = _field(inp, sub, n, b)
    out.units += x.size // n
    extra = {'input': inp}
    seg = ref.log_sigma_segments(x, b, 0)
    scale = R * float(np.max(np.sum(np.abs(seg), axis=0))) or 1.0
    want = ref.geopotential_trapezoid(x, b, R, axis=0)
    dense = np.asarray(pe.get_geopotential_diff(x, coords, R, method='dense'))
    sparse = np.asarray(pe.get_geopotential_diff(x, coords, R, method='sparse'))
    if not _cmp(out, 'get_geopotential_diff(dense) != R * trapezoid integral of T d(log sigma) to the surface', dense, want, scale, **extra):
      return out
    if not _cmp(out, 'get_geopotential_diff(sparse) != R * trapezoid integral of T d(log sigma) to the surface', sparse, want, scale, **extra):
      return out
    if not _cmp(out, 'get_geopotential_diff dense != sparse', dense, sparse, scale, **extra):
      return out
    for method in ('dot', 'jax'):
      up = R * np.asarray(sc.cumulative_log_sigma_integral(x, coords, axis=0, downward=False, cumsum_method=method))
      if not _cmp(out, 'get_geopotential_diff != R * cumulative_log_sigma_integral(downward=False)', dense, up, scale,
                  cumsum_method=method, **extra):
        return out
    if not _cmp(out, 'geopotential weights matrix applied by loops != get_geopotential_diff', np.einsum('jk,kab->jab', want_G, x), dense, scale, **extra):
      return out
    if inp['kind'] == 'constant':
      a_ = np.array([co[0] for co in coefs]).reshape(tuple(case['trail']))
      exact = -R * a_[None] * np.log(c)[:, None, None]
      if not _cmp(out, 'geopotential of an isothermal column != -R T log(sigma)', dense, exact,
                  R * float(np.max(np.abs(a_))) * max(-math.log(c[0]), 1.0), **extra):
        return out
  return out


@st.composite
def _geopotential_case(draw, tier):
  case = draw(_layout_case(tier, fixed_trail=draw(st.sampled_from([[1, 1], [2, 3], [1, 4]]))))
  case['R'] = draw(st.sampled_from([1.0, 287.0, 3.3e-4, 0.5]))
  return case


# ----------------------------------------------------------------------------
# constructor


_MUTATIONS = ['none', 'none', 'first_nonzero', 'last_not_one', 'swap', 'repeat', 'nan', 'reversed', 'drop_last',
              'drop_first', 'scaled', 'shifted']


@st.composite
def _ctor_case(draw, tier):
  b = draw(_levels(tier))
  return {'boundaries': b, 'mutation': draw(st.sampled_from(_MUTATIONS)), 'pos': draw(st.integers(0, len(b) - 1)),
          'delta': draw(st.sampled_from([1e-3, 1e-2, 0.3, -1e-3, -0.05])),
          'container': draw(st.sampled_from(['list', 'array', 'tuple']))}


def _mutate(b, kind, pos, delta):
  b = [float(v) for v in b]
  n = len(b) - 1
  if kind == 'first_nonzero':
    b[0] = delta
  elif kind == 'last_not_one':
    b[-1] = 1.0 + delta
  elif kind == 'swap':
    i = min(pos, n - 1)
    b[i], b[i + 1] = b[i + 1], b[i]
  elif kind == 'repeat':
    i = min(pos, n - 1)
    if i + 1 == n:       # keep the end points valid when possible so that only monotonicity is violated
      if n == 1:
        b[1] = b[0]
      else:
        b[i] = b[i + 1]
    else:
      b[i + 1] = b[i]
  elif kind == 'nan':
    b[pos] = float('nan')
  elif kind == 'reversed':
    b = b[::-1]
  elif kind == 'drop_last':
    b = b[:-1]
  elif kind == 'drop_first':
    b = b[1:]
  elif kind == 'scaled':
    b = [v * (1.0 + abs(delta) * 10) for v in b]
  elif kind == 'shifted':
    b = [v + delta for v in b]
  return b


def run_constructor(case):
  from dinosaur import sigma_coordinates as sc
  from vf.oracles import sigma_ref as ref
  b0 = case['boundaries']
  kind = case['mutation']
  b = _mutate(b0, kind, case['pos'], case['delta'])
  n = len(b0) - 1
  cont = case['container']
  arg = {'list': list(b), 'tuple': tuple(b), 'array': np.asarray(b, dtype=np.float64)}[cont]
  valid = kind == 'none'
  uneven = n >= 2 and float(np.diff(b0).max() / np.diff(b0).min()) > 1.0001
  out = Outcome(nontrivial=(_nontrivial(b0) if not valid else uneven),
                labels=gens.sigma_labels(b0) + [f'mutation={kind}', f'container={cont}'])
  if len(b) < 1:
    return Outcome(skipped=True)
  if not valid:
    try:
      sc.SigmaCoordinates(arg)
    except ValueError:
      return out
    except Exception as e:   # pylint: disable=broad-except
      return out.fail(what='invalid level set raised something other than ValueError', error=repr(e), boundaries=b)
    return out.fail(what='invalid level set accepted', boundaries=b, mutation=kind)
  try:
    coords = sc.SigmaCoordinates(arg)
  except Exception as e:   # pylint: disable=broad-except
    return out.fail(what='valid level set rejected', error=repr(e), boundaries=b)
  if coords.layers != n:
    return out.fail(what='layers != len(boundaries) - 1', got=coords.layers)
  for name, want in (('boundaries', b), ('centers', ref.centers(b)), ('layer_thickness', ref.thickness(b)),
                     ('center_to_center', ref.center_to_center(b)), ('internal_boundaries', b[1:-1])):
    got = np.asarray(getattr(coords, name))
    if got.shape != (len(want),) or (len(want) and core.relerr(got, want, scale=1.0) > 1e-15):
      return out.fail(what=f'{name} differs from the loop definition', got=got, want=want)
  twin = sc.SigmaCoordinates(np.array(b))
  if not (coords == twin) or hash(coords) != hash(twin):
    return out.fail(what='equal level sets compare or hash differently')
  if n >= 2:
    other = list(b)
    other[1] = (b[1] + b[2]) / 2 if n >= 2 else b[1]
    if sc.SigmaCoordinates(other) == coords:
      return out.fail(what='different level sets compare equal', other=other)
  eq = sc.SigmaCoordinates.equidistant(n)
  if eq.layers != n or core.relerr(eq.boundaries, [k / n for k in range(n + 1)], scale=1.0) > 1e-15:
    return out.fail(what='equidistant(n) is not k/n', got=eq.boundaries)
  if not isinstance(coords.asdict()['boundaries'], list):
    return out.fail(what='asdict does not give plain lists')
  return out


SUBCHECKS = [
    Subcheck('integrals', run_integrals, strategy=lambda tier: _layout_case(tier),
             examples={'quick': 160, 'thorough': 2400}, shards={'quick': 4, 'thorough': 12},
             wall={'quick': 150.0, 'thorough': 1200.0}, weight=3,
             rule='non-trivial = at least 3 layers with thickness ratio > 2',
             doc='midpoint sigma integrals and log-sigma trapezoid integrals, both directions and cumsum strategies: '
                 'loops, closed forms, end-point and down+up-total identities'),
    Subcheck('cumsum_methods', run_cumsum, strategy=_cumsum_case,
             examples={'quick': 200, 'thorough': 3000}, shards={'quick': 2, 'thorough': 6},
             wall={'quick': 150.0, 'thorough': 1200.0}, weight=2,
             rule='non-trivial = at least 3 entries along the summed axis of an array with >= 2 dims',
             doc='cumsum / reverse_cumsum, dot and jax strategies, _single_device_dot_cumsum vs loops on any axis'),
    Subcheck('difference_advection', run_advection, strategy=lambda tier: _layout_case(tier),
             examples={'quick': 160, 'thorough': 2400}, shards={'quick': 4, 'thorough': 12},
             wall={'quick': 150.0, 'thorough': 1200.0}, weight=3,
             rule='non-trivial = at least 3 layers with thickness ratio > 2',
             doc='centred difference exact on affine data; centred advection = loops, summation by parts, zero on '
                 'constants, boundary values; upwind = first-order definition'),
    Subcheck('geopotential', run_geopotential, strategy=_geopotential_case,
             examples={'quick': 160, 'thorough': 2400}, shards={'quick': 3, 'thorough': 8},
             wall={'quick': 150.0, 'thorough': 1200.0}, weight=2,
             rule='non-trivial = at least 3 layers with thickness ratio > 2',
             doc='sigma ratios / geopotential weights vs documented formulas; dense == sparse == R * upward log-sigma '
                 'trapezoid integral; isothermal closed form'),
    Subcheck('constructor', run_constructor, strategy=_ctor_case,
             examples={'quick': 600, 'thorough': 8000}, shards={'quick': 1, 'thorough': 2},
             wall={'quick': 120.0, 'thorough': 900.0},
             rule='non-trivial = invalid mutation of a set with >= 3 layers and thickness ratio > 2, or a valid uneven set',
             doc='valid sets accepted with geometry equal to the loop definitions; sets that are not strictly '
                 'increasing from 0 to 1 raise ValueError'),
]
