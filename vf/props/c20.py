"""C20 Physical forcings are bounded, periodic and dissipative (solar radiation, Held-Suarez)."""
from __future__ import annotations

from fractions import Fraction as F
import functools
import math

from hypothesis import strategies as st
import numpy as np

from vf import core, gens
from vf.core import Outcome, Subcheck
from vf.oracles import forcing_ref as fr
from vf.oracles import time_units_ref as tref

RULE = ('Solar radiation: Hypothesis draws orbital/synodic phases anywhere in +-1e4 turns, longitude/latitude arrays '
        '(meshes, point clouds, poles, sub-solar and terminator points constructed from the oracle geometry), solar '
        'constants, grids of all three latitude spacings, reference datetimes, model times and scales. Held-Suarez: '
        'grids (both implementations, gauss/equiangular, radius), sigma levels (uneven), reference temperatures, all '
        'forcing parameters in physical ranges, scales and seeded admissible states (l <= L-2). Oracle = independent '
        'float64 numpy implementation of the solar geometry and of the Held-Suarez coefficients written from the '
        'published formulas; metamorphic relations for periodicity, longitude/time-of-day shifts and change of '
        'scale. distinct = hash of the canonical JSON case; non-trivial rules per sub-check.')
ASSUMPTIONS = [
    'night-side zero / day-side value are decided by the oracle where |sin(altitude)| > 1e-9 (phases up to 1e4 turns '
    'carry 1e-11 of rounding); inside that band only 0 <= flux <= S * 2e-9 is required',
    'global mean: grids with >= 7 latitude and >= 8 longitude nodes; quadrature error bound 1/N_lat^2 + 6/N_lon^2 '
    '(measured <= 0.2/N_lat^2 + 3.2/N_lon^2: the integrand has a kink at the terminator)',
    'Held-Suarez drag/relaxation identities are asserted for admissible states (spectral content l <= L-2, the model '
    'invariant) on grids whose quadrature resolves the vector round trip (2L-2 <= D); with content at l = L-1 the '
    'clipped wind round trip is not the identity (measured 1e-1 relative) and nothing is claimed',
    'Held-Suarez parameters: 0.2 <= sigma_b <= 0.95, positive rates, minT < maxT; k_a <= k_t <= k_s is stated for '
    'either ordering of k_a, k_s as min <= k_t <= max',
    'no pole nodes for Held-Suarez (equiangular_with_poles excluded: sec^2(lat) is infinite there, DESIGN 2.1)',
]
MANIFEST = {
    'text': 'get_radiation_flux / SolarRadiation agree with an independent numpy implementation of the solar geometry: '
            'flux is 0 on the night side, S*sin(altitude) on the day side, within [0, S0+dS], 2pi-periodic in both '
            'phases, invariant under a longitude shift compensated by time of day, normalised flux <= 1, global mean '
            'S/4 to quadrature error, class API consistent with the functions under any scale. Held-Suarez '
            'explicit_terms equals -k_v(sigma) * (vorticity, divergence) (zero above sigma_b), '
            'to_modal(-k_t (T - T_eq)) with T_eq >= minT from an independent implementation, zero surface-pressure '
            'tendency, non-negative bounded rates, enstrophy sink, and is independent of the non-dimensionalisation.',
    'note': 'trusted base: numpy trigonometry, the spectral transforms of the grid (decided by C01/C02), pint',
    'technique': 'property-based testing against an independent reference plus metamorphic relations',
}

TWO_PI = 2 * math.pi
SIN_TOL = 1e-9

# ----------------------------------------------------------------------------
# solar radiation: point-wise


@st.composite
def _solar_case(draw, tier):
  amp = draw(st.sampled_from([1, 3, 100, 10000, 10000]))
  consts = draw(st.sampled_from(['default', 'default', 'custom', 'quantity_default', 'normalized_like']))
  case = {
      'po_turns': draw(st.floats(-1.0, 1.0, allow_nan=False, width=32)) * amp,
      'ps_turns': draw(st.floats(-1.0, 1.0, allow_nan=False, width=32)) * amp,
      'orbital_special': draw(st.sampled_from([None, None, None, 'perihelion', 'aphelion', 'equinox', 'solstice'])),
      'k_o': draw(st.integers(-50, 50)), 'k_s': draw(st.integers(-5000, 5000)),
      'lon_shift': draw(st.floats(-7.0, 7.0, allow_nan=False, width=32)),
      'layout': draw(st.sampled_from(['mesh', 'mesh', 'points', 'scalar_lat'])),
      'n_lon': draw(st.sampled_from([1, 6, 25])), 'n_lat': draw(st.sampled_from([1, 5, 16])),   # few shapes: jax compiles per shape
      'lon_range': draw(st.sampled_from(['0_2pi', '0_2pi', 'wide'])),
      'seed': draw(st.integers(0, 2 ** 20)), 'consts': consts,
  }
  if consts == 'custom':
    case['mean'] = draw(st.floats(0.5, 3000.0, allow_nan=False, width=32))
    case['variation'] = case['mean'] * draw(st.floats(0.0, 0.5, allow_nan=False, width=32))
  return case


_SPECIAL_PHASE = {'perihelion': TWO_PI * 3 / 365.25, 'aphelion': TWO_PI * 3 / 365.25 + math.pi,
                  'equinox': TWO_PI * 79 / 365.25, 'solstice': TWO_PI * 79 / 365.25 + math.pi / 2}


def _solar_inputs(case):
  rng = np.random.default_rng(case['seed'])
  po = case['po_turns'] * TWO_PI
  if case['orbital_special']:
    po = _SPECIAL_PHASE[case['orbital_special']] + round(case['po_turns']) * TWO_PI
  ps = case['ps_turns'] * TWO_PI
  lo, hi = (0.0, TWO_PI) if case['lon_range'] == '0_2pi' else (-20.0, 20.0)
  nlon, nlat = case['n_lon'], case['n_lat']
  lon = rng.uniform(lo, hi, nlon)
  lat = np.arcsin(rng.uniform(-1, 1, nlat))
  # constructed points: poles, equator, the sub-solar point, its antipode and points on the terminator
  dec = float(fr.declination(po))
  lon_noon = math.pi - (ps + float(fr.equation_of_time_phase(po)))      # hour angle 0: local solar noon
  lat = np.concatenate([lat, [math.pi / 2, -math.pi / 2, 0.0, dec, -dec]])
  lon = np.concatenate([lon, [lon_noon, lon_noon + math.pi, lon_noon + math.pi / 2]])
  if case['layout'] == 'mesh':
    return po, ps, lon[:, None], lat[None, :]
  if case['layout'] == 'scalar_lat':
    return po, ps, lon, float(lat[case['seed'] % lat.size])
  n = min(lon.size, lat.size)
  return po, ps, lon[:n], lat[:n]


def _consts(case):
  if case['consts'] == 'custom':
    return float(case['mean']), float(case['variation'])
  if case['consts'] == 'normalized_like':
    return fr.TSI / (fr.TSI + fr.TSI_VARIATION), fr.TSI_VARIATION / (fr.TSI + fr.TSI_VARIATION)
  return fr.TSI, fr.TSI_VARIATION


def _mag(x):
  return np.asarray(getattr(x, 'magnitude', x), dtype=np.float64)


def _compare_flux(out, got, want, sin_alt, s_now, s_max, what, phase_mag, extra):
  """Night: exactly 0. Day: S*sin(alt). Bounds. Tolerance grows with the unreduced phase (argument rounding)."""
  got = np.asarray(got, dtype=np.float64)
  want = np.broadcast_to(want, got.shape)
  sin_alt = np.broadcast_to(sin_alt, got.shape)
  if got.shape != want.shape:
    return out.fail(what=f'{what}: wrong shape', got=list(got.shape), want=list(want.shape), **extra)
  if not np.all(np.isfinite(got)):
    return out.fail(what=f'{what}: flux not finite', **extra)
  if np.any(got < 0):
    i = np.unravel_index(int(np.argmin(got)), got.shape)
    return out.fail(what=f'{what}: negative flux', got=float(got[i]), sin_altitude=float(sin_alt[i]), index=list(i), **extra)
  if np.any(got > s_max * (1 + 1e-12)):
    i = np.unravel_index(int(np.argmax(got)), got.shape)
    return out.fail(what=f'{what}: flux exceeds the perihelion solar constant', got=float(got[i]), bound=s_max,
                    index=list(i), **extra)
  night = sin_alt < -SIN_TOL
  if np.any(got[night] != 0):
    i = np.unravel_index(int(np.argmax(np.where(night, got, 0))), got.shape)
    return out.fail(what=f'{what}: non-zero flux where the sun is below the horizon', got=float(got[i]),
                    sin_altitude=float(sin_alt[i]), index=list(i), **extra)
  day = sin_alt > SIN_TOL
  rtol = 1e-12 + 8 * np.finfo(np.float64).eps * phase_mag
  err = np.abs(got - want)
  if np.any(err[day] > rtol * s_max):
    i = np.unravel_index(int(np.argmax(np.where(day, err, 0))), got.shape)
    return out.fail(what=f'{what}: day-side flux differs from S * sin(altitude)', got=float(got[i]), want=float(want[i]),
                    sin_altitude=float(sin_alt[i]), relerr=float(err[i] / s_max), rtol=rtol, index=list(i), **extra)
  band = ~night & ~day
  if np.any(got[band] > 2 * SIN_TOL * s_max):
    return out.fail(what=f'{what}: flux at the terminator is not small', got=float(got[band].max()), **extra)
  return None


def run_solar(case):
  from dinosaur import radiation as rad
  po, ps, lon, lat = _solar_inputs(case)
  mean, var = _consts(case)
  s_max = mean + var
  labels = [f"layout={case['layout']}", f"consts={case['consts']}", f"orbital={case['orbital_special'] or 'random'}",
            f"lon={case['lon_range']}", 'phase>100 turns' if max(abs(case['po_turns']), abs(case['ps_turns'])) > 100
            else 'phase<=100 turns']
  phase_mag = max(abs(po), abs(ps) + float(np.max(np.abs(lon))), 1.0)
  want, sin_alt = fr.flux(po, ps, lon, lat, mean, var)
  s_now = float(fr.irradiance(po, mean, var))
  n_day = int(np.sum(sin_alt > SIN_TOL))
  n_night = int(np.sum(sin_alt < -SIN_TOL))
  out = Outcome(labels=labels, units=int(np.size(want)) * 4, nontrivial=n_day >= 1 and n_night >= 1)
  extra = {'orbital_phase': po, 'synodic_phase': ps}
  ot = rad.OrbitalTime(po, ps)
  if case['consts'] == 'quantity_default':
    got = rad.get_radiation_flux(ot, lon, lat)
    if str(getattr(got, 'units', '')) != 'watt / meter ** 2':
      return out.fail(what='default solar constants: result is not in W/m^2', got=str(getattr(got, 'units', type(got))))
  else:
    got = rad.get_radiation_flux(ot, lon, lat, mean, var)
  got = _mag(got)
  bad = _compare_flux(out, got, want, sin_alt, s_now, s_max, 'get_radiation_flux', phase_mag, extra)
  if bad:
    return bad
  # component functions against the oracle (the pieces the flux is made of)
  for name, g, w, scale in (
      ('get_direct_solar_irradiance', rad.get_direct_solar_irradiance(po, mean, var), s_now, s_max),
      ('get_declination', rad.get_declination(po), fr.declination(po), 1.0),
      ('equation_of_time', rad.equation_of_time(po), fr.equation_of_time_phase(po), 1.0),
      ('get_solar_sin_altitude', rad.get_solar_sin_altitude(po, ps, lon, lat), sin_alt, 1.0)):
    e = float(np.max(np.abs(_mag(g) - w))) / scale
    if e > 1e-12 + 8 * np.finfo(np.float64).eps * phase_mag:
      return out.fail(what=f'{name} differs from the reference geometry', error=e, **extra)
  if not (mean - var) * (1 - 1e-12) <= s_now <= s_max * (1 + 1e-12):
    return out.fail(what='oracle irradiance outside [S0-dS, S0+dS]', got=s_now)   # self-check of the reference
  # periodicity in both phases
  po2, ps2 = po + case['k_o'] * TWO_PI, ps + case['k_s'] * TWO_PI
  got2 = _mag(rad.get_radiation_flux(rad.OrbitalTime(po2, ps2), lon, lat, mean, var))
  tol = (1e-12 + 16 * np.finfo(np.float64).eps * max(phase_mag, abs(po2), abs(ps2))) * s_max
  clear = np.broadcast_to(np.abs(sin_alt) > 10 * SIN_TOL, got.shape)
  d = np.abs(got2 - got)
  if np.any(d[clear] > tol) or np.any(d > tol + 20 * SIN_TOL * s_max):
    return out.fail(what='flux is not periodic in the orbital / synodic phase', k_orbital=case['k_o'],
                    k_synodic=case['k_s'], maxdiff=float(d.max()), tol=tol, **extra)
  # a longitude shift is compensated by the time of day
  a = float(case['lon_shift'])
  got3 = _mag(rad.get_radiation_flux(rad.OrbitalTime(po, ps + a), lon - a, lat, mean, var))
  d = np.abs(got3 - got)
  if np.any(d[clear] > tol) or np.any(d > tol + 20 * SIN_TOL * s_max):
    return out.fail(what='flux(lon - a, synodic + a) != flux(lon, synodic)', shift=a, maxdiff=float(d.max()), tol=tol, **extra)
  # normalised variant: same geometry, unit perihelion constant
  if case['consts'] == 'quantity_default':
    gn = rad.get_normalized_radiation_flux(ot, lon, lat)
  else:
    gn = rad.get_normalized_radiation_flux(ot, lon, lat, mean, var)
  gn = _mag(gn)
  if np.any(gn > 1 + 1e-12) or np.any(gn < 0):
    return out.fail(what='normalised flux outside [0, 1]', max=float(gn.max()), min=float(gn.min()), **extra)
  if float(np.max(np.abs(gn * s_max - got))) > 1e-12 * s_max:
    return out.fail(what='normalised flux != flux / (S0 + dS)', error=float(np.max(np.abs(gn * s_max - got))), **extra)
  return out


# ----------------------------------------------------------------------------
# solar radiation: global mean


@st.composite
def _mean_case(draw, tier):
  big = tier != 'quick'
  nlat = draw(st.integers(7, 48 if not big else 160))
  nlon = draw(st.integers(8, 96 if not big else 320))
  return {'nlat': nlat, 'nlon': nlon, 'spacing': draw(st.sampled_from(list(gens.SPACINGS))),
          'offset': draw(st.sampled_from([0.0, 0.3, -1.0])), 'radius': draw(st.sampled_from([None, 1.0, 2.5, 6.37e6])),
          'times': [[draw(st.floats(0, 1, allow_nan=False, width=32)), draw(st.floats(0, 1, allow_nan=False, width=32))]
                    for _ in range(draw(st.integers(8, 20)))],
          'consts': draw(st.sampled_from(['default', 'normalized_like']))}


@functools.lru_cache(maxsize=8)
def _mean_grid(nlon, nlat, spacing, offset, radius):
  from dinosaur import spherical_harmonic as sh
  return sh.Grid(longitude_wavenumbers=2, total_wavenumbers=3, longitude_nodes=nlon, latitude_nodes=nlat,
                 latitude_spacing=spacing, longitude_offset=offset, radius=radius)


def run_mean(case):
  from dinosaur import radiation as rad
  g = _mean_grid(case['nlon'], case['nlat'], case['spacing'], case['offset'], case['radius'])
  lon, sin_lat = g.nodal_mesh
  lat = np.arcsin(np.asarray(sin_lat))
  lon = np.asarray(lon)
  mean, var = _consts(case)
  r = g.radius
  bound = 1.0 / case['nlat'] ** 2 + 6.0 / case['nlon'] ** 2
  out = Outcome(labels=[f"spacing={case['spacing']}", f"nlat_parity={'odd' if case['nlat'] % 2 else 'even'}",
                        f"nlon_parity={'odd' if case['nlon'] % 2 else 'even'}",
                        'radius=default' if case['radius'] in (None, 1.0) else 'radius=other',
                        'bound<1e-2' if bound < 1e-2 else 'bound>=1e-2'],
                units=len(case['times']), nontrivial=bound < 0.02)
  for fo, fs in case['times']:
    po, ps = fo * TWO_PI, fs * TWO_PI
    flux = rad.get_radiation_flux(rad.OrbitalTime(po, ps), lon, lat, mean, var)
    got = float(g.integrate(flux)) / (4 * math.pi * r ** 2)
    want = float(fr.irradiance(po, mean, var)) / 4
    if abs(got / want - 1) > bound:
      return out.fail(what='global mean insolation differs from S/4 by more than the quadrature error', got=got, want=want,
                      relerr=abs(got / want - 1), bound=bound, orbital_phase=po, synodic_phase=ps)
    # independent quadrature of the oracle flux over the same nodes (cell-area weights from the node positions)
    ref_flux, _ = fr.flux(po, ps, lon, lat, mean, var)
    if float(np.max(np.abs(np.asarray(flux) - ref_flux))) > 1e-12 * (mean + var):
      return out.fail(what='flux on the grid nodes differs from the reference', orbital_phase=po, synodic_phase=ps)
  return out


# ----------------------------------------------------------------------------
# SolarRadiation class

_MIN_1900 = tref.days_from_civil(1900, 1, 1) * 1440
_MIN_2100 = tref.days_from_civil(2100, 1, 1) * 1440


@st.composite
def _scale_spec(draw):
  kind = draw(st.sampled_from(['default', 'default', 'atmospheric', 'custom', 'custom']))
  if kind != 'custom':
    return {'kind': kind}
  return {'kind': 'custom', 'quad': draw(gens.scale_quads())}


_DEFAULT_SI = [6.37122e6, 1 / 2 / 7.292e-5, 1.0, 1.0]


def _scale_si(spec):
  if spec['kind'] == 'default':
    return list(_DEFAULT_SI)
  if spec['kind'] == 'atmospheric':
    return [_DEFAULT_SI[0], _DEFAULT_SI[1], 5.18e18, 1.0]
  return [float(v) for v in spec['quad']]


@functools.lru_cache(maxsize=32)
def _specs_cached(key):
  import json
  from dinosaur import primitive_equations as pe, scales
  spec = json.loads(key)
  if spec['kind'] == 'default':
    sc = scales.DEFAULT_SCALE
  elif spec['kind'] == 'atmospheric':
    sc = scales.ATMOSPHERIC_SCALE
  else:
    sc = gens.build_scale(spec['quad'])
  return pe.PrimitiveEquationsSpecs.from_si(scale=sc)


def _specs(spec):
  return _specs_cached(core.canon(spec))


@st.composite
def _class_case(draw, tier):
  return {'scale': draw(_scale_spec()), 'ref_min': draw(st.integers(_MIN_1900, _MIN_2100)),
          'nlon': draw(st.integers(1, 12)), 'nlat': draw(st.integers(1, 9)),
          'spacing': draw(st.sampled_from(list(gens.SPACINGS))), 'offset': draw(st.sampled_from([0.0, 0.3, -1.0])),
          'days': [draw(st.floats(-1e4, 1e4, allow_nan=False, width=32)) * draw(st.sampled_from([1.0, 1.0, 0.01]))
                   for _ in range(draw(st.integers(2, 6)))],
          'whens': draw(st.lists(st.integers(_MIN_1900, _MIN_2100), min_size=1, max_size=3)),
          'jit': draw(st.booleans())}


def run_class(case):
  import datetime as pydt
  import jax
  from dinosaur import coordinate_systems as cs, radiation as rad, scales, sigma_coordinates as sc, spherical_harmonic as sh
  u = scales.units
  spec = case['scale']
  specs = _specs(spec)
  L_, T_, M_, _ = _scale_si(spec)
  nlat = max(case['nlat'], 2 if case['spacing'] == 'equiangular_with_poles' else 1)
  grid = sh.Grid(longitude_wavenumbers=1, total_wavenumbers=2, longitude_nodes=case['nlon'], latitude_nodes=nlat,
                 latitude_spacing=case['spacing'], longitude_offset=case['offset'])
  coords = cs.CoordinateSystem(grid, sc.SigmaCoordinates.equidistant(1))
  ref_min = int(case['ref_min'])
  refdt = pydt.datetime(1970, 1, 1) + pydt.timedelta(minutes=ref_min)
  sr = rad.SolarRadiation(coords, specs, refdt)
  srn = rad.SolarRadiation.normalized(coords, specs, np.datetime64(ref_min, 'm'))
  fy, fd = tref.calendar_fractions(ref_min)
  lon, sin_lat = grid.nodal_mesh
  lon, lat = np.asarray(lon), np.arcsin(np.asarray(sin_lat))
  flux_unit = M_ / T_ ** 3            # W/m^2 = kg s^-3 in scale units
  s_max_nd = (fr.TSI + fr.TSI_VARIATION) / flux_unit
  out = Outcome(labels=[f"scale={spec['kind']}", f"spacing={case['spacing']}", 'jit' if case['jit'] else 'eager',
                        'offset!=0' if case['offset'] else 'offset=0'],
                units=0, nontrivial=True)
  f_flux = jax.jit(sr.radiation_flux) if case['jit'] else sr.radiation_flux
  day_nd = 86400.0 / T_
  times = [float(d) * day_nd for d in case['days']]
  for m in case['whens']:
    times.append(float(sr.datetime_to_time(pydt.datetime(1970, 1, 1) + pydt.timedelta(minutes=int(m)))))
  any_day = any_night = False
  for t in times:
    out.units += 1
    # exact phases (turns) from the calendar fractions of the reference date and the elapsed model time
    tt = F(float(t)) * F(T_)
    po = float(tref.turns_mod_one(fy + tt / tref.JULIAN_YEAR_SECONDS)) * TWO_PI
    ps = float(tref.turns_mod_one(fd + tt / tref.SECONDS_PER_DAY)) * TWO_PI
    unreduced = abs(float(tt / tref.SECONDS_PER_DAY)) * TWO_PI + TWO_PI
    want, sin_alt = fr.flux(po, ps, lon, lat, fr.TSI / flux_unit, fr.TSI_VARIATION / flux_unit)
    got = np.asarray(f_flux(t))
    extra = {'time': t, 'ref': str(refdt), 'time_scale_s': T_}
    bad = _compare_flux(out, got, want, sin_alt, None, s_max_nd, 'SolarRadiation.radiation_flux', unreduced, extra)
    if bad:
      return bad
    any_day |= bool(np.any(sin_alt > SIN_TOL))
    any_night |= bool(np.any(sin_alt < -SIN_TOL))
    # same thing through the functional API
    ot = sr.time_to_orbital_time(t)
    g2 = np.asarray(rad.get_radiation_flux(ot, sr.lon, sr.lat, sr.total_solar_irradiance, sr.solar_irradiance_variation))
    if float(np.max(np.abs(g2 - got))) > (1e-12 + 8 * 2.2e-16 * unreduced) * s_max_nd:   # jit and eager round differently
      return out.fail(what='radiation_flux(t) != get_radiation_flux(time_to_orbital_time(t))',
                      error=float(np.max(np.abs(g2 - got))), **extra)
    # physical value in W/m^2 does not depend on the scale
    si = _mag(specs.dimensionalize(got, u.W / u.m ** 2))
    if float(np.max(np.abs(si - want * flux_unit))) > (1e-12 + 8 * 2.2e-16 * unreduced) * (fr.TSI + fr.TSI_VARIATION):
      return out.fail(what='dimensional flux depends on the scale', error=float(np.max(np.abs(si - want * flux_unit))), **extra)
    # normalised model
    gn = np.asarray(srn.radiation_flux(t))
    if np.any(gn > 1 + 1e-12) or np.any(gn < 0) or \
        float(np.max(np.abs(gn * s_max_nd - got))) > (1e-12 + 8 * 2.2e-16 * unreduced) * s_max_nd:
      return out.fail(what='SolarRadiation.normalized: flux not in [0,1] or != flux/(S0+dS)', max=float(gn.max()), **extra)
    # both phases return after 1461 days (4 Julian years)
    t2 = t + 1461 * day_nd
    gp = np.asarray(f_flux(t2))
    tolp = (1e-12 + 16 * 2.2e-16 * (unreduced + 1461 * TWO_PI)) * s_max_nd
    d = np.abs(gp - got)
    clear = np.abs(sin_alt) > 1e-6
    if np.any(d[clear] > tolp) or np.any(d > tolp + 2e-6 * s_max_nd):
      return out.fail(what='radiation_flux(t + 1461 days) != radiation_flux(t)', maxdiff=float(d.max()), tol=tolp, **extra)
    # hour angle of the class
    ha = np.asarray(sr.solar_hour_angle(t))
    wha = fr.hour_angle(po, ps, lon)
    if float(np.max(np.abs(np.cos(ha) - np.cos(wha)) + np.abs(np.sin(ha) - np.sin(wha)))) > 1e-12 + 8 * 2.2e-16 * unreduced:
      return out.fail(what='solar_hour_angle differs from the reference (mod 2 pi)', **extra)
  out.nontrivial = any_day and any_night
  return out


# ----------------------------------------------------------------------------
# Held-Suarez


@st.composite
def _hs_params(draw):
  return {'p0': draw(st.sampled_from([1e5, 1e5, 101325.0, 6e4])), 'sigma_b': draw(st.sampled_from([0.7, 0.7, 0.2, 0.5, 0.85, 0.95])),
          'kf_days': draw(st.sampled_from([1.0, 1.0, 0.25, 4.0])), 'ka_days': draw(st.sampled_from([40.0, 40.0, 10.0, 80.0, 2.0])),
          'ks_days': draw(st.sampled_from([4.0, 4.0, 1.0, 8.0, 60.0])), 'minT': draw(st.sampled_from([200.0, 200.0, 150.0, 230.0])),
          'maxT': draw(st.sampled_from([315.0, 315.0, 290.0, 330.0])), 'dTy': draw(st.sampled_from([60.0, 60.0, 20.0, 80.0, 0.0])),
          'dThz': draw(st.sampled_from([10.0, 10.0, 0.0, 20.0]))}


@st.composite
def _hs_case(draw, tier):
  g = draw(gens.grid_configs(kind='vector', max_m=8 if tier == 'quick' else 16, min_m=2,
                             spacings=('gauss', 'gauss', 'equiangular'), max_slack=4))
  b = draw(gens.sigma_boundaries(1, 6))
  n = len(b) - 1
  return {'grid': g, 'boundaries': b, 'params': draw(_hs_params()), 'scale': draw(_scale_spec()),
          'scale2': draw(gens.scale_quads()),
          't_ref': [draw(st.floats(200.0, 310.0, allow_nan=False, width=32)) for _ in range(n)],
          'lnps_amp': draw(st.sampled_from([0.0, 0.05, 0.05, 0.3])), 'mean_ps': draw(st.sampled_from([1e5, 1e5, 7e4, 1.05e5])),
          'states': [{'seed': draw(st.integers(0, 2 ** 16)), 'amp': draw(st.sampled_from([1.0, 1.0, 0.01, 30.0])),
                      'slope': draw(st.sampled_from([0, 0, 1, 2]))} for _ in range(draw(st.integers(2, 5)))]}


def _hs_build(case, grid_cfg, spec_scale_si, specs):
  """(coords, forcing, oracle parameters in the units of `specs`)."""
  from dinosaur import coordinate_systems as cs, held_suarez, scales
  u = scales.units
  grid = gens.build_grid(grid_cfg)
  vert = gens.build_sigma(case['boundaries'])
  coords = cs.CoordinateSystem(grid, vert)
  L_, T_, M_, K_ = spec_scale_si
  p = case['params']
  t_ref = np.asarray(case['t_ref'], dtype=np.float64) / K_
  hs = held_suarez.HeldSuarezForcing(
      coords, specs, t_ref, p0=p['p0'] * u.pascal, sigma_b=p['sigma_b'], kf=1 / (p['kf_days'] * u.day),
      ka=1 / (p['ka_days'] * u.day), ks=1 / (p['ks_days'] * u.day), minT=p['minT'] * u.degK, maxT=p['maxT'] * u.degK,
      dTy=p['dTy'] * u.degK, dThz=p['dThz'] * u.degK)
  p_unit = M_ / (L_ * T_ ** 2)          # pascal in scale units
  o = {'p0': p['p0'] / p_unit, 'sigma_b': p['sigma_b'], 'kf': T_ / (p['kf_days'] * 86400.0),
       'ka': T_ / (p['ka_days'] * 86400.0), 'ks': T_ / (p['ks_days'] * 86400.0), 'minT': p['minT'] / K_,
       'maxT': p['maxT'] / K_, 'dTy': p['dTy'] / K_, 'dThz': p['dThz'] / K_, 'kappa': 2.0 / 7.0, 't_ref': t_ref,
       'p_unit': p_unit}
  return coords, hs, o


def _hs_state(case, descr, grid, n, o, T_, K_):
  """Admissible modal state (l <= L-2) in the units of the scale: SI magnitudes 1e-5 1/s, 5 K, given surface pressure."""
  L = grid.total_wavenumbers
  d = {'sparse': [], 'noise_amp': 1.0, 'noise_seed': descr['seed'], 'slope': descr['slope']}
  amp = descr['amp']
  vor = gens.modal_field(grid, (n,), d, 'vorticity', lmax=L - 2, zero_mean=True, amp=1e-5 * T_ * amp)
  div = gens.modal_field(grid, (n,), d, 'divergence', lmax=L - 2, zero_mean=True, amp=1e-5 * T_ * amp)
  tv = gens.modal_field(grid, (n,), d, 'temperature_variation', lmax=L - 2, amp=5.0 / K_ * min(amp, 4.0))
  lsp = gens.modal_field(grid, (1,), d, 'log_surface_pressure', lmax=L - 2, zero_mean=True, amp=case['lnps_amp'])
  ones = np.asarray(grid.to_modal(np.ones(grid.nodal_shape)))
  lsp = lsp + math.log(case['mean_ps'] / o['p_unit']) * ones[np.newaxis]
  return vor, div, tv, lsp


def run_hs(case):
  from dinosaur import primitive_equations as pe
  spec = case['scale']
  specs = _specs(spec)
  si = _scale_si(spec)
  coords, hs, o = _hs_build(case, case['grid'], si, specs)
  grid, vert = coords.horizontal, coords.vertical
  n = vert.layers
  sigma = np.asarray(vert.centers)
  lat = np.arcsin(np.asarray(grid.nodal_mesh[1]))
  kv_ref = fr.hs_kv(sigma, o['sigma_b'], o['kf'])
  kt_ref = fr.hs_kt(sigma, lat, o['sigma_b'], o['ka'], o['ks'])
  n_above = int(np.sum(sigma <= o['sigma_b']))
  labels = gens.grid_labels(case['grid']) + gens.sigma_labels(case['boundaries']) + [
      f"scale={spec['kind']}", 'all levels above sigma_b' if n_above == n else
      ('no level above sigma_b' if n_above == 0 else 'levels on both sides of sigma_b'),
      'ks<ka' if o['ks'] < o['ka'] else 'ks>=ka']
  out = Outcome(labels=labels, units=0, nontrivial=0 < n_above < n)
  rt = 1e-9
  # coefficients
  kv = np.asarray(hs.kv())
  kt = np.asarray(hs.kt())
  if kv.shape != (n, 1, 1) or core.relerr(kv[:, 0, 0], kv_ref, scale=o['kf']) > 1e-13:
    return out.fail(what='kv differs from k_f max(0, (sigma - sigma_b)/(1 - sigma_b))', got=kv.ravel(), want=kv_ref)
  if np.any(kv < 0) or np.any(kv[sigma <= o['sigma_b']] != 0):
    return out.fail(what='kv negative or non-zero above the boundary layer', got=kv.ravel(), sigma=sigma)
  if core.relerr(kt, kt_ref, scale=max(o['ka'], o['ks'])) > 1e-13:
    return out.fail(what='kt differs from k_a + (k_s - k_a) max(0, .) cos^4(lat)', relerr=core.relerr(kt, kt_ref))
  lo, hi = min(o['ka'], o['ks']), max(o['ka'], o['ks'])
  if np.any(kt < lo * (1 - 1e-14)) or np.any(kt > hi * (1 + 1e-14)) or np.any(kt < 0):
    return out.fail(what='kt outside [min(ka, ks), max(ka, ks)]', min=float(kt.min()), max=float(kt.max()), ka=o['ka'], ks=o['ks'])
  ones00 = np.asarray(grid.to_modal(np.ones(grid.nodal_shape)))
  floor_active = False
  tend0 = None
  for descr in case['states']:
    vor, div, tv, lsp = _hs_state(case, descr, grid, n, o, si[1], si[3])
    state = pe.State(vor, div, tv, lsp)
    t = hs.explicit_terms(state)
    out.units += 1
    tvor, tdiv = np.asarray(t.vorticity), np.asarray(t.divergence)
    ttemp, tlsp = np.asarray(t.temperature_variation), np.asarray(t.log_surface_pressure)
    for name, a, ref_shape in (('vorticity', tvor, vor.shape), ('divergence', tdiv, div.shape),
                               ('temperature_variation', ttemp, tv.shape), ('log_surface_pressure', tlsp, lsp.shape)):
      if a.shape != ref_shape or not np.all(np.isfinite(a)):
        return out.fail(what=f'{name} tendency has the wrong shape or is not finite', shape=list(a.shape))
    if np.any(tlsp != 0):
      return out.fail(what='surface pressure tendency is not identically zero', max=float(np.abs(tlsp).max()))
    if getattr(t, 'tracers', None):
      return out.fail(what='Held-Suarez forcing returned tracer tendencies')
    for name, got, x in (('vorticity', tvor, vor), ('divergence', tdiv, div)):
      want = -kv_ref[:, None, None] * x
      scale = max(float(np.abs(o['kf'] * x).max()), 1e-300)
      e = core.relerr(got, want, scale=scale)
      if e > rt:
        idx = core.argmax_index(got, want)
        return out.fail(what=f'{name} tendency != -k_v(sigma) * {name}', relerr=e, index=idx,
                        got=float(got[tuple(idx)]), want=float(want[tuple(idx)]), level_sigma=float(sigma[idx[0]]),
                        kv=float(kv_ref[idx[0]]))
      above = sigma <= o['sigma_b']
      if np.any(np.abs(got[above]) > rt * scale):
        return out.fail(what=f'{name} tendency not zero above the boundary layer', max=float(np.abs(got[above]).max()))
      # dissipative: the drag removes enstrophy / divergence variance on every level
      work = np.sum(got * x, axis=(1, 2))
      if np.any(work > rt * scale * float(np.abs(x).max())):
        return out.fail(what=f'{name} drag is not dissipative', work=work)
    # temperature relaxation towards an independently computed equilibrium
    t_nodal = o['t_ref'][:, None, None] + np.asarray(grid.to_nodal(tv))
    ps_nodal = np.exp(np.asarray(grid.to_nodal(lsp)))[0]
    teq = fr.hs_teq(sigma, lat, ps_nodal, o['p0'], o['kappa'], o['minT'], o['maxT'], o['dTy'], o['dThz'])
    teq_code = np.asarray(hs.equilibrium_temperature(ps_nodal[np.newaxis]))
    if np.any(teq_code < o['minT']):
      return out.fail(what='equilibrium temperature below its floor', min=float(teq_code.min()), floor=o['minT'])
    if core.relerr(teq_code, teq, scale=o['maxT']) > 1e-12:
      return out.fail(what='equilibrium temperature differs from the Held-Suarez formula',
                      relerr=core.relerr(teq_code, teq, scale=o['maxT']), index=core.argmax_index(teq_code, teq))
    floor_active |= bool(np.any(teq == o['minT'])) and bool(np.any(teq > o['minT']))
    nodal_t = -kt_ref * (t_nodal - teq)
    want = np.asarray(grid.to_modal(nodal_t))
    scale = float(np.abs(nodal_t).max())
    e = core.relerr(ttemp, want, scale=scale)
    if e > rt:
      return out.fail(what='temperature tendency != to_modal(-k_t (T - T_eq))', relerr=e, index=core.argmax_index(ttemp, want))
    if tend0 is None:
      tend0 = (vor, div, tv, lsp, tvor, tdiv, ttemp)
  out.labels = list(out.labels) + ['Teq floor active on part of the domain' if floor_active else 'Teq floor inactive/everywhere']
  # independence of the non-dimensionalisation: same SI problem under a second scale
  si2 = [float(v) for v in case['scale2']]
  specs2 = _specs({'kind': 'custom', 'quad': si2})
  g2 = dict(case['grid'])
  r1 = grid.radius
  g2['radius'] = float(r1) * si[0] / si2[0]
  coords2, hs2, o2 = _hs_build(case, g2, si2, specs2)
  vor, div, tv, lsp, tvor, tdiv, ttemp = tend0
  fT, fK = si2[1] / si[1], si[3] / si2[3]          # nondim time-rate and temperature conversion factors A -> B
  lsp2 = lsp + math.log(o['p_unit'] / o2['p_unit']) * ones00[np.newaxis]
  t2 = hs2.explicit_terms(pe.State(vor * fT, div * fT, tv * fK, lsp2))
  out.units += 1
  for name, got, want in (('vorticity', np.asarray(t2.vorticity), tvor * fT ** 2),
                          ('divergence', np.asarray(t2.divergence), tdiv * fT ** 2),
                          ('temperature_variation', np.asarray(t2.temperature_variation), ttemp * fK * fT)):
    scale = max(float(np.abs(want).max()), 1e-300)
    if name != 'temperature_variation':
      scale = max(scale, float(np.abs(o2['kf'] * vor * fT).max()))
    e = core.relerr(got, want, scale=scale)
    if e > 1e-8:
      return out.fail(what=f'{name} tendency depends on the non-dimensionalisation', relerr=e, scale_a=si, scale_b=si2)
  return out


@st.composite
def _hs_coeff_case(draw, tier):
  return {'boundaries': draw(gens.sigma_boundaries(1, 12)), 'params': draw(_hs_params()), 'scale': draw(_scale_spec()),
          'nlat': draw(st.integers(1, 24)), 'nlon': draw(st.integers(1, 6)),
          'spacing': draw(st.sampled_from(list(gens.SPACINGS))), 'seed': draw(st.integers(0, 2 ** 16)),
          'ps_lo': draw(st.sampled_from([3e4, 5e4, 9e4])), 'ps_hi': draw(st.sampled_from([1.0e5, 1.1e5]))}


def run_hs_coeff(case):
  """Coefficient functions alone on arbitrary (also pole-containing) latitude sets and surface pressures."""
  spec = case['scale']
  specs = _specs(spec)
  si = _scale_si(spec)
  nlat = max(case['nlat'], 2 if case['spacing'] == 'equiangular_with_poles' else 1)
  gcfg = {'M': 1, 'L': 2, 'nlon': case['nlon'], 'nlat': nlat, 'spacing': case['spacing'], 'impl': 'real', 'offset': 0.0,
          'radius': None}
  c = dict(case)
  c['t_ref'] = [250.0] * (len(case['boundaries']) - 1)
  coords, hs, o = _hs_build(c, gcfg, si, specs)
  grid, vert = coords.horizontal, coords.vertical
  sigma = np.asarray(vert.centers)
  lat = np.arcsin(np.asarray(grid.nodal_mesh[1]))
  rng = np.random.default_rng(case['seed'])
  ps = rng.uniform(case['ps_lo'], case['ps_hi'], grid.nodal_shape) / o['p_unit']
  out = Outcome(labels=gens.sigma_labels(case['boundaries']) + [f"spacing={case['spacing']}", f"scale={spec['kind']}"],
                units=3, nontrivial=bool(np.any(sigma > o['sigma_b'])) and bool(np.any(sigma <= o['sigma_b'])))
  kv, kt = np.asarray(hs.kv())[:, 0, 0], np.asarray(hs.kt())
  teq = np.asarray(hs.equilibrium_temperature(ps[np.newaxis]))
  if core.relerr(kv, fr.hs_kv(sigma, o['sigma_b'], o['kf']), scale=o['kf']) > 1e-13 or np.any(kv < 0):
    return out.fail(what='kv wrong or negative', got=kv, want=fr.hs_kv(sigma, o['sigma_b'], o['kf']))
  if np.any(kv > o['kf'] * (1 + 1e-14)):
    return out.fail(what='kv exceeds k_f', got=kv, kf=o['kf'])
  want_kt = fr.hs_kt(sigma, lat, o['sigma_b'], o['ka'], o['ks'])
  if kt.shape != want_kt.shape or core.relerr(kt, want_kt, scale=max(o['ka'], o['ks'])) > 1e-13:
    return out.fail(what='kt wrong', relerr=core.relerr(kt, want_kt), shape=list(kt.shape))
  if np.any(kt < min(o['ka'], o['ks']) * (1 - 1e-14)) or np.any(kt > max(o['ka'], o['ks']) * (1 + 1e-14)):
    return out.fail(what='kt outside [min(ka,ks), max(ka,ks)]', min=float(kt.min()), max=float(kt.max()))
  want_teq = fr.hs_teq(sigma, lat, ps, o['p0'], o['kappa'], o['minT'], o['maxT'], o['dTy'], o['dThz'])
  if teq.shape != want_teq.shape or core.relerr(teq, want_teq, scale=o['maxT']) > 1e-12:
    return out.fail(what='equilibrium temperature differs from the Held-Suarez formula',
                    relerr=core.relerr(teq, want_teq, scale=o['maxT']), index=core.argmax_index(teq, want_teq))
  if np.any(teq < o['minT']) or not np.all(np.isfinite(teq)):
    return out.fail(what='equilibrium temperature below its floor or not finite', min=float(np.nanmin(teq)), floor=o['minT'])
  out.labels = list(out.labels) + ['floor active' if np.any(teq == o['minT']) else 'floor inactive']
  return out


# ----------------------------------------------------------------------------

SUBCHECKS = [
    Subcheck('solar_pointwise', run_solar, strategy=_solar_case,
             examples={'quick': 400, 'thorough': 20000}, shards={'quick': 2, 'thorough': 12},
             wall={'quick': 300.0, 'thorough': 1500.0},
             rule='non-trivial = the point set has day-side and night-side points (|sin altitude| > 1e-9)',
             doc='flux vs reference geometry: 0 at night, S*sin(alt) by day, bounds, periodicity, lon/time shift, normalised'),
    Subcheck('solar_global_mean', run_mean, strategy=_mean_case,
             examples={'quick': 60, 'thorough': 600}, shards={'quick': 2, 'thorough': 12},
             wall={'quick': 300.0, 'thorough': 1500.0},
             rule='non-trivial = quadrature bound 1/N_lat^2 + 6/N_lon^2 below 2 %',
             doc='integrate(flux)/(4 pi r^2) == S/4 within the quadrature error'),
    Subcheck('solar_radiation_class', run_class, strategy=_class_case,
             examples={'quick': 60, 'thorough': 800}, shards={'quick': 2, 'thorough': 12},
             wall={'quick': 300.0, 'thorough': 1500.0},
             rule='non-trivial = the grid sees both day and night over the drawn times',
             doc='SolarRadiation.radiation_flux(t) vs reference with exact phases; functional API; scale; 1461-day period'),
    Subcheck('held_suarez_coefficients', run_hs_coeff, strategy=_hs_coeff_case,
             examples={'quick': 300, 'thorough': 5000}, shards={'quick': 1, 'thorough': 4},
             wall={'quick': 300.0, 'thorough': 1500.0},
             rule='non-trivial = levels on both sides of sigma_b',
             doc='kv, kt, T_eq vs Held & Suarez (1994); non-negative, bounded, T_eq >= minT'),
    Subcheck('held_suarez_tendencies', run_hs, strategy=_hs_case,
             examples={'quick': 24, 'thorough': 240}, shards={'quick': 4, 'thorough': 12},
             wall={'quick': 300.0, 'thorough': 1600.0}, weight=3,
             rule='non-trivial = levels on both sides of sigma_b',
             doc='explicit_terms == (-kv zeta, -kv delta, to_modal(-kt (T - Teq)), 0); dissipative; scale invariant'),
]
