"""C09 The two spherical-harmonic implementations are observationally equivalent."""
from __future__ import annotations

from hypothesis import strategies as st
import numpy as np

from vf import core, gens
from vf.core import Outcome, Subcheck
from vf.oracles import grid_cases as gc

RULE = ('Differential (translation-validation style) comparison: Hypothesis draws a grid configuration (any '
        'resolution, incl. under-resolved, three spacings, radius, offset) and a Fast option set (base_shape_multiple, '
        'stacked_fourier_transforms, reverse_einsum_arg_order, transform_precision, optionally a trivial device mesh); '
        'the Real grid and the Fast grid are built from the same sizes; the fixed re-indexing Real -> Fast (insert the '
        'dead sin(0) row after row 0, zero-pad) is written down independently. Every public Grid method is applied to '
        'ALL unit vectors of the Real layout plus dense random fields on both grids and must commute with the '
        're-indexing; equation classes (dry / moist primitive equations, shallow water) built on either grid must give '
        'the same tendencies, implicit solves and k-step trajectories. distinct = hash of the canonical JSON case.')
ASSUMPTIONS = [
    'the comparison tolerance is rtol 1e-9 x (largest entry of the reference output) for Grid methods and 1e-8 for '
    'tendencies / trajectories; options that do not change array shapes (einsum argument order, precision hint) must '
    'agree bit-for-bit on CPU, stacking / padding to 1e-12',
    'vector operations (sec2_lat, wind conversions, equation classes) are not exercised on equiangular_with_poles',
    'dead / padded entries of Fast outputs must be exactly zero, with one exclusion: on layouts padded in the total '
    'wavenumber direction the un-clipped latitude derivatives (cos_lat_d_dlat, sec_lat_d_dlat_cos2, and grad / div / '
    'curl with clip=False) store the l = L coefficient of the analytic derivative in the first padding column when '
    'the input has energy at l = L-1 (the Real layout drops it). The check verifies that the stored value is exactly '
    'that coefficient and that nothing else leaks; it is invisible to to_nodal, laplacian, clip_wavenumbers.',
    'equation classes are compared on states whose top total wavenumber is clipped (admissible model states)',
]
MANIFEST = {
    'text': 'On every generated grid pair and Fast option set, all public Grid methods (transforms, derivatives, '
            'Laplacians, clipping, gradient / divergence / curl, integrals, masks, axes, wind conversions) commute '
            'with the Real -> Fast re-indexing on every unit vector and on dense random fields; option changes alone '
            'never change results; explicit / implicit tendencies, implicit inverses and multi-step IMEX trajectories '
            'of the dry and moist primitive equations and the shallow-water equations agree between implementations.',
    'note': 'trusted: the written-down re-indexing (row insertion + zero padding); nothing else (pure differential check)',
    'technique': 'differential testing of two implementations on exhaustive unit-vector batches under Hypothesis-drawn configurations',
}

RTOL = 1e-9
_NO_POLES = ('gauss', 'equiangular')


def _np(x):
  import jax
  return jax.tree_util.tree_map(np.asarray, x)


def _pad_nodal(z, nodal_shape):
  z = np.asarray(z)
  out = np.zeros(z.shape[:-2] + tuple(nodal_shape), dtype=z.dtype)
  out[..., :z.shape[-2], :z.shape[-1]] = z
  return out


def _trivial_mesh():
  import jax
  return jax.sharding.Mesh(np.array(jax.devices()[:1]).reshape((1, 1, 1)), ['z', 'x', 'y'])


def _build_fast(cfg):
  if cfg.get('mesh'):
    return gens.build_grid(dict(cfg, impl='fast'), mesh=_trivial_mesh())
  return gc.build(cfg, impl='fast')


def _fast_labels(cfg, F, L):
  padded_l = F.modal_shape[1] > L
  padded_m = F.modal_shape[0] > 2 * cfg['M']
  return [('padded_l' if padded_l else 'tight_l'), ('padded_m' if padded_m else 'tight_m'),
          f"precision={cfg.get('precision')}", f"reverse={cfg.get('reverse')}", 'mesh=1x1x1' if cfg.get('mesh') else 'mesh=None']


class _Cmp:
  """Compares a Fast result with the re-indexed Real result: live entries to rounding, dead entries exactly zero."""

  def __init__(self, out, R, F, cfg):
    self.out, self.R, self.F, self.cfg = out, R, F, cfg
    self.leaks = 0

  def modal(self, what, yF, yR, leak_ok=False, X_R=None, op=None, scale=None):
    yF, yR = np.asarray(yF), np.asarray(yR)
    rs, fs = tuple(self.R.modal_shape), tuple(self.F.modal_shape)
    if yF.shape[-2:] != fs or yR.shape[-2:] != rs or yF.shape[:-2] != yR.shape[:-2]:
      return self.out.fail(what=what + ': output shapes are not the two modal layouts', fast=yF.shape, real=yR.shape)
    live = gc.fast_to_real(yF, rs)
    sc = scale if scale is not None else max(float(np.abs(yR).max()), 1e-300)
    if not np.all(np.isfinite(yF)) and np.all(np.isfinite(yR)):
      return self.out.fail(what=what + ': Fast result is non-finite where the Real result is finite')
    err = core.relerr(live, yR, sc)
    if err > RTOL:
      idx = core.argmax_index(live, yR)
      return self.out.fail(what=what + ': Fast result differs from the re-indexed Real result', index_real_layout=idx,
                           fast=float(live[tuple(idx)]), real=float(yR[tuple(idx)]), relerr=err, rtol=RTOL)
    dead = yF - gc.real_to_fast(live, fs)
    if np.any(dead != 0):
      L = self.cfg['L']
      if leak_ok and fs[1] > L:
        # the only admissible dead entry: column L holding the l = L coefficient of the analytic derivative
        rest = dead.copy()
        rest[..., :, L] = 0
        if np.any(rest != 0):
          return self.out.fail(what=what + ': Fast result is non-zero in a dead / padded entry (beyond the known '
                               'first padding column)', index=np.argwhere(rest != 0)[0])
        want = self._extended(op, X_R)
        got = gc.fast_to_real(yF, (rs[0], L + 1))[..., L]      # live rows of column L
        if core.relerr(got, want, max(float(np.abs(want).max()), sc)) > RTOL:
          return self.out.fail(what=what + ': value stored in the first padding column is not the l = L coefficient '
                               'of the analytic derivative', relerr=core.relerr(got, want))
        self.leaks += 1
        return None
      return self.out.fail(what=what + ': Fast result is non-zero in a dead (sin m=0) or padded entry',
                           index=np.argwhere(dead != 0)[0], value=float(dead[tuple(np.argwhere(dead != 0)[0])]))
    return None

  def _extended(self, op, X_R):
    """Column L of `op` on a Real grid with one more total wavenumber (the coefficient the Real layout drops)."""
    Rx = gc.build({k: v for k, v in dict(self.cfg, L=self.cfg['L'] + 1).items() if k != 'via'}, impl='real')
    pad = lambda a: np.concatenate([np.asarray(a), np.zeros(np.asarray(a).shape[:-1] + (1,))], axis=-1)   # noqa: E731
    return np.asarray(op(Rx, _tree_map(pad, X_R)))[..., self.cfg['L']]

  def nodal(self, what, zF, zR, scale=None):
    zF, zR = np.asarray(zF), np.asarray(zR)
    nlon, nlat = self.cfg['nlon'], self.cfg['nlat']
    if zF.shape[-2:] != tuple(self.F.nodal_shape) or zR.shape[-2:] != (nlon, nlat):
      return self.out.fail(what=what + ': output shapes are not the two nodal layouts', fast=zF.shape, real=zR.shape)
    sc = scale if scale is not None else max(float(np.abs(zR).max()), 1e-300)
    err = core.relerr(zF[..., :nlon, :nlat], zR, sc)
    if err > RTOL:
      return self.out.fail(what=what + ': Fast nodal result differs from the Real one',
                           index=core.argmax_index(zF[..., :nlon, :nlat], zR), relerr=err, rtol=RTOL)
    return None


def _tree_map(f, x):
  if isinstance(x, tuple):
    return tuple(f(a) for a in x)
  return f(x)


# ----------------------------------------------------------------------------
# 1. every public Grid method commutes with the re-indexing


def run_methods(case):
  cfg = case['grid']
  R = gc.build(cfg, impl='real')
  F = _build_fast(cfg)
  L, M, nlon, nlat = cfg['L'], cfg['M'], cfg['nlon'], cfg['nlat']
  rs, fs = tuple(R.modal_shape), tuple(F.modal_shape)
  poles = cfg['spacing'] == 'equiangular_with_poles'
  nontrivial = fs != (2 * M, L) or cfg.get('stacked') is True or bool(cfg.get('mesh'))
  out = Outcome(labels=gc.labels(dict(cfg, impl='fast')) + _fast_labels(cfg, F, L), nontrivial=nontrivial)
  if rs != (2 * M - 1, L) or fs != gc.expected_modal_shape(dict(cfg, impl='fast')) \
      or tuple(F.nodal_shape) != gc.expected_nodal_shape(dict(cfg, impl='fast')) or tuple(R.nodal_shape) != (nlon, nlat):
    return out.fail(what='array shapes differ from the documented layouts', real=rs, fast=fs, fast_nodal=F.nodal_shape)
  # static data under the re-indexing
  r2f = lambda a: gc.real_to_fast(a, fs)   # noqa: E731
  if not np.array_equal(np.asarray(F.mask), r2f(np.asarray(R.mask))):
    return out.fail(what='mask does not commute with the re-indexing', index=core.argmax_index(F.mask, r2f(R.mask)))
  mR, lR = (np.asarray(a) for a in R.modal_axes)
  mF, lF = (np.asarray(a) for a in F.modal_axes)
  if not np.array_equal(mF, np.concatenate([[0, 0], mR[1:], np.zeros(fs[0] - 2 * M, int)])) or \
     not np.array_equal(lF, np.concatenate([lR, np.zeros(fs[1] - L, int)])):
    return out.fail(what='modal_axes do not commute with the re-indexing', m=mF, l=lF)
  for name in ('nodal_axes', 'quadrature_weights', 'laplacian_eigenvalues', 'cos_lat', 'sec2_lat'):
    if poles and name == 'sec2_lat':
      continue
    a, b = getattr(R, name), getattr(F, name)
    a, b = (a, b) if isinstance(a, tuple) else ((a,), (b,))
    for x, y in zip(a, b):
      x, y = np.asarray(x), np.asarray(y)
      crop = tuple(slice(0, n) for n in x.shape)
      if not np.array_equal(y[crop], x):
        return out.fail(what=f'{name} differs between implementations on the un-padded part')
      rest = y.copy()
      rest[crop] = 0
      # (padded *longitudes* repeat the latitude weights: nodal padding is required to hold zeros, see C01)
      if (name == 'laplacian_eigenvalues' and np.any(rest != 0)) or \
         (name == 'quadrature_weights' and np.any(y[:, x.shape[1]:] != 0)):
        return out.fail(what=f'{name} is non-zero in the padding')
  if float(R.radius) != float(F.radius):
    return out.fail(what='radius differs')
  # inputs: all unit vectors of the Real layout + dense random fields
  K = rs[0] * rs[1]
  rng = np.random.default_rng(case['seed'])
  dense = rng.standard_normal((4,) + rs)
  dense[2:] *= np.asarray(R.mask)
  XR = np.concatenate([np.eye(K).reshape((K,) + rs), dense], axis=0)
  XF = r2f(XR)
  YR = rng.permutation(XR, axis=0)
  YF = r2f(YR)
  out.units = len(XR) * 20
  cmp = _Cmp(out, R, F, cfg)
  ops = [
      ('d_dlon', lambda g, x: g.d_dlon(x), False),
      ('cos_lat_d_dlat', lambda g, x: g.cos_lat_d_dlat(x), True),
      ('sec_lat_d_dlat_cos2', lambda g, x: g.sec_lat_d_dlat_cos2(x), True),
      ('laplacian', lambda g, x: g.laplacian(x), False),
      ('inverse_laplacian', lambda g, x: g.inverse_laplacian(x), False),
      ('clip_wavenumbers(n=1)', lambda g, x: g.clip_wavenumbers(x), False),
      (f'clip_wavenumbers(n={case["clip_n"]})', lambda g, x: g.clip_wavenumbers(x, n=case['clip_n']), False),
      ('cos_lat_grad(clip=True)[0]', lambda g, x: g.cos_lat_grad(x)[0], False),
      ('cos_lat_grad(clip=True)[1]', lambda g, x: g.cos_lat_grad(x)[1], False),
      ('cos_lat_grad(clip=False)[0]', lambda g, x: g.cos_lat_grad(x, clip=False)[0], False),
      ('cos_lat_grad(clip=False)[1]', lambda g, x: g.cos_lat_grad(x, clip=False)[1], True),
  ]
  for name, op, leak_ok in ops:
    bad = cmp.modal(name, op(F, XF), op(R, XR), leak_ok=leak_ok, X_R=XR, op=op)
    if bad is not None:
      return bad
  vops = [
      ('div_cos_lat(clip=True)', lambda g, v: g.div_cos_lat(v), False),
      ('curl_cos_lat(clip=True)', lambda g, v: g.curl_cos_lat(v), False),
      ('div_cos_lat(clip=False)', lambda g, v: g.div_cos_lat(v, clip=False), True),
      ('curl_cos_lat(clip=False)', lambda g, v: g.curl_cos_lat(v, clip=False), True),
      ('k_cross[0]', lambda g, v: g.k_cross(v)[0], False),
      ('k_cross[1]', lambda g, v: g.k_cross(v)[1], False),
  ]
  for name, op, leak_ok in vops:
    bad = cmp.modal(name, op(F, (XF, YF)), op(R, (XR, YR)), leak_ok=leak_ok, X_R=(XR, YR), op=op)
    if bad is not None:
      return bad
  # transforms
  nR, nF = np.asarray(R.to_nodal(XR)), np.asarray(F.to_nodal(XF))
  bad = cmp.nodal('to_nodal', nF, nR)
  if bad is not None:
    return bad
  if np.any(nF[..., nlon:, :] != 0) or np.any(nF[..., :, nlat:] != 0):
    return out.fail(what='Fast to_nodal wrote into padded nodes')
  ZR = rng.standard_normal((5, nlon, nlat)) * case['amp']
  ZR[0] = 1.0
  ZF = _pad_nodal(ZR, F.nodal_shape)
  bad = cmp.modal('to_modal (arbitrary nodal data)', F.to_modal(ZF), R.to_modal(ZR))
  if bad is not None:
    return bad
  iR, iF = np.asarray(R.integrate(ZR)), np.asarray(F.integrate(ZF))
  if core.relerr(iF, iR, max(float(np.abs(iR).max()), 4 * np.pi * float(R.radius) ** 2 * case['amp'])) > RTOL:
    return out.fail(what='integrate differs between implementations', fast=iF, real=iR)
  # wind conversions (jitted public functions), admissible inputs only
  if not poles and L >= 3:
    from dinosaur import spherical_harmonic as sh
    lim = (np.arange(rs[1]) <= L - 2) & (np.arange(rs[1]) >= 1)
    vor, div = XR[-4:] * lim, YR[-4:] * lim
    for clip in (True, False):
      uR, vR = sh.vor_div_to_uv_nodal(R, vor, div, clip=clip)
      uF, vF = sh.vor_div_to_uv_nodal(F, r2f(vor), r2f(div), clip=clip)
      sc = max(float(np.abs(np.asarray(uR)).max()), float(np.abs(np.asarray(vR)).max()), 1e-300)
      for nm, a, b in (('u', uF, uR), ('v', vF, vR)):
        bad = cmp.nodal(f'vor_div_to_uv_nodal(clip={clip}) {nm}', a, b, scale=sc)
        if bad is not None:
          return bad
      un, vn = ZR[1:3], ZR[3:5]
      a = sh.uv_nodal_to_vor_div_modal(R, un, vn, clip=clip)
      b = sh.uv_nodal_to_vor_div_modal(F, _pad_nodal(un, F.nodal_shape), _pad_nodal(vn, F.nodal_shape), clip=clip)
      sc = max(float(np.abs(np.asarray(a[0])).max()), float(np.abs(np.asarray(a[1])).max()), 1e-300)
      for nm, x, y in (('vorticity', b[0], a[0]), ('divergence', b[1], a[1])):
        # clip=False applied to arbitrary (not band-limited) winds: only the live entries are compared
        bad = (cmp.modal(f'uv_nodal_to_vor_div_modal(clip=True) {nm}', x, y, scale=sc) if clip
               else _live_only(cmp, f'uv_nodal_to_vor_div_modal(clip=False) {nm}', x, y, sc))
        if bad is not None:
          return bad
  if cmp.leaks:
    out.labels = list(out.labels) + ['first-padding-column holds l=L coefficient (verified)']
  return out


def _live_only(cmp, what, yF, yR, sc):
  live = gc.fast_to_real(np.asarray(yF), tuple(cmp.R.modal_shape))
  err = core.relerr(live, np.asarray(yR), sc)
  if err > RTOL:
    return cmp.out.fail(what=what + ': Fast result differs from the re-indexed Real result', relerr=err)
  return None


@st.composite
def _pair_cfgs(draw, tier, max_m=None, resolutions=('resolved', 'under_lat', 'under_lon', 'under_both'), spacings=gens.SPACINGS,
               allow_mesh=True, special=True, allow_radius=True):
  max_m = max_m or (10 if tier == 'quick' else 24)
  cfg = draw(gc.grid_cfgs(max_m=max_m, kinds=('scalar', 'vector'), resolutions=resolutions, impls=('fast',),
                          spacings=spacings, special=special, allow_radius=allow_radius))
  if allow_mesh and cfg.get('via') is None and draw(st.booleans()):
    cfg['mesh'] = True     # a 1x1x1 device mesh switches the transforms to the sharded-einsum code path
    cfg['reverse'] = draw(st.sampled_from([True, True, False, None]))
  return cfg


def _methods_strategy(tier):
  return st.fixed_dictionaries({'grid': _pair_cfgs(tier, allow_mesh=False), 'seed': st.integers(0, 2 ** 16),
                                'clip_n': st.integers(2, 4), 'amp': st.sampled_from([1.0, 1e4, 1e-3])})


# ----------------------------------------------------------------------------
# 2. tuning options never change results (Fast vs Fast)


def run_options(case):
  cfg = dict(case['grid'])
  base_cfg = dict(cfg, bsm=None, stacked=None, reverse=None, precision='tensorfloat32')
  base_cfg.pop('mesh', None)
  B = gc.build(base_cfg, impl='fast')
  V = _build_fast(cfg)
  L, M, nlon, nlat = cfg['L'], cfg['M'], cfg['nlon'], cfg['nlat']
  same_shape = tuple(V.modal_shape) == tuple(B.modal_shape) and tuple(V.nodal_shape) == tuple(B.nodal_shape)
  same_stack = bool(V.spherical_harmonics.stacked_fourier_transforms) == bool(B.spherical_harmonics.stacked_fourier_transforms)
  exact = same_shape and same_stack and not cfg.get('mesh')
  out = Outcome(labels=gc.labels(dict(cfg, impl='fast')) + _fast_labels(cfg, V, L) + ['bitwise' if exact else 'to-rounding'],
                nontrivial=(not same_shape) or (not same_stack) or bool(cfg.get('mesh')) or cfg.get('reverse') is True
                or cfg.get('precision') != 'tensorfloat32')
  sh_ = V.spherical_harmonics
  for attr, want in (('base_shape_multiple', cfg.get('bsm') or 1), ('reverse_einsum_arg_order', bool(cfg.get('reverse'))),
                     ('transform_precision', cfg.get('precision') or 'tensorfloat32')):
    if getattr(sh_, attr) != want:
      return out.fail(what='Fast option was not passed through to the implementation', option=attr, got=getattr(sh_, attr), want=want)
  if cfg.get('stacked') is not None and bool(sh_.stacked_fourier_transforms) != cfg['stacked']:
    return out.fail(what='stacked_fourier_transforms option ignored')
  bs, vs = tuple(B.modal_shape), tuple(V.modal_shape)
  rshape = (2 * M - 1, L)
  b2v = lambda a: gc.real_to_fast(gc.fast_to_real(a, rshape), vs)   # noqa: E731
  K = bs[0] * bs[1]
  rng = np.random.default_rng(case['seed'])
  XB = np.concatenate([np.eye(K).reshape((K,) + bs) * np.asarray(B.mask), rng.standard_normal((3,) + bs) * np.asarray(B.mask)])
  XV = b2v(XB)
  out.units = len(XB) * 6
  tol = 0.0 if exact else 1e-12

  def close(what, a, b, scale):
    a, b = np.asarray(a), np.asarray(b)
    if a.shape != b.shape:
      return out.fail(what=what + ': shapes differ', a=a.shape, b=b.shape)
    if exact:
      if not np.array_equal(a, b):
        return out.fail(what=what + ': option change (einsum argument order / precision hint) changed bits on CPU',
                        relerr=core.relerr(a, b, scale))
    elif core.relerr(a, b, scale) > tol:
      return out.fail(what=what + ': option change altered the result beyond rounding', relerr=core.relerr(a, b, scale),
                      index=core.argmax_index(a, b))
    return None
  nB, nV = np.asarray(B.to_nodal(XB)), np.asarray(V.to_nodal(XV))
  sc = max(float(np.abs(nB).max()), 1e-300)
  bad = close('to_nodal', nV[..., :nlon, :nlat], nB[..., :nlon, :nlat], sc)
  if bad is not None:
    return bad
  Z = rng.standard_normal((6, nlon, nlat))
  mB, mV = np.asarray(B.to_modal(_pad_nodal(Z, B.nodal_shape))), np.asarray(V.to_modal(_pad_nodal(Z, V.nodal_shape)))
  bad = close('to_modal', gc.fast_to_real(mV, rshape), gc.fast_to_real(mB, rshape), max(float(np.abs(mB).max()), 1e-300))
  if bad is not None:
    return bad
  if np.any(mV != gc.real_to_fast(gc.fast_to_real(mV, rshape), vs)):
    return out.fail(what='to_modal wrote into dead / padded entries under this option set')
  # round trip through both (bit-compare the composition as well)
  for name in ('d_dlon', 'cos_lat_d_dlat', 'sec_lat_d_dlat_cos2', 'laplacian', 'inverse_laplacian', 'clip_wavenumbers'):
    yB, yV = np.asarray(getattr(B, name)(XB)), np.asarray(getattr(V, name)(XV))
    a, b = gc.fast_to_real(yV, rshape), gc.fast_to_real(yB, rshape)
    if not np.array_equal(a, b):
      return out.fail(what=f'{name}: layout padding / options changed a purely spectral operator (must be bit-identical)',
                      relerr=core.relerr(a, b))
  iB, iV = np.asarray(B.integrate(_pad_nodal(Z, B.nodal_shape))), np.asarray(V.integrate(_pad_nodal(Z, V.nodal_shape)))
  bad = close('integrate', iV, iB, max(float(np.abs(iB).max()), 4 * np.pi * float(B.radius) ** 2))
  if bad is not None:
    return bad
  return out


def _options_strategy(tier):
  return st.fixed_dictionaries({'grid': _pair_cfgs(tier, resolutions=('resolved', 'under_both')), 'seed': st.integers(0, 2 ** 16)})


# ----------------------------------------------------------------------------
# 3. equation classes built on either grid


def _rand_modal(rng, grid, prefix, lmax, amp, zero_mean=False, slope=1):
  _, l = grid.modal_mesh
  x = rng.standard_normal(tuple(prefix) + tuple(grid.modal_shape)) * np.asarray(grid.mask) * (l <= lmax)
  x = x * amp / (1.0 + l) ** slope
  if zero_mean:
    x[..., 0, 0] = 0
  return x


def _tree_leaves_with_names(tree):
  import jax
  return [(jax.tree_util.keystr(p), np.asarray(v)) for p, v in jax.tree_util.tree_flatten_with_path(tree)[0]]


def _compare_states(out, what, sF, sR, rs, rtol, extra=None):
  lf, lr = _tree_leaves_with_names(sF), _tree_leaves_with_names(sR)
  if [n for n, _ in lf] != [n for n, _ in lr]:
    return out.fail(what=what + ': state structures differ', fast=[n for n, _ in lf], real=[n for n, _ in lr])
  for (name, a), (_, b) in zip(lf, lr):
    if a.ndim < 2 or b.ndim < 2:
      if core.relerr(a, b) > rtol:
        return out.fail(what=what + f': scalar leaf {name} differs', fast=a, real=b)
      continue
    live = gc.fast_to_real(a, rs)
    sc = max(float(np.abs(b).max()), 1e-300)
    err = core.relerr(live, b, sc)
    if err > rtol:
      return out.fail(what=what + f': {name} differs between the implementations', relerr=err, scale=sc,
                      index=core.argmax_index(live, b), rtol=rtol, **(extra or {}))
    if np.any(a != gc.real_to_fast(live, a.shape[-2:])):
      return out.fail(what=what + f': {name} of the Fast run is non-zero in a dead / padded entry', **(extra or {}))
  return None


def run_equations(case):
  import jax
  from dinosaur import coordinate_systems as cs, primitive_equations as pe, shallow_water as sw
  from dinosaur import layer_coordinates as lc, time_integration as ti, scales
  units = scales.units
  cfg = dict(case['grid'])
  kind = case['equation']
  rng = np.random.default_rng(case['seed'])
  if kind == 'shallow_water':
    specs = sw.ShallowWaterSpecs.from_si(np.array(case['densities']) * units.kg / units.m ** 3)
    n = len(case['densities'])
  else:
    specs = pe.PrimitiveEquationsSpecs.from_si()
    n = len(case['boundaries']) - 1
  cfg['radius'] = float(specs.radius)
  R = gc.build(cfg, impl='real')
  F = _build_fast(cfg)
  L = cfg['L']
  rs, fs = tuple(R.modal_shape), tuple(F.modal_shape)
  r2f = lambda a: gc.real_to_fast(a, fs)   # noqa: E731
  out = Outcome(labels=gc.labels(dict(cfg, impl='fast'), 'quadratic') + _fast_labels(cfg, F, L) + [f'equation={kind}', f'steps={case["steps"]}'],
                nontrivial=(fs != (2 * cfg['M'], L) or cfg.get('stacked') is True), units=3 + case['steps'])
  amp = case['amp']
  lmax = L - 2
  nd = specs.nondimensionalize
  if kind == 'shallow_water':
    vert = lc.LayerCoordinates(n)
    oro = _rand_modal(rng, R, (), lmax, float(nd(100.0 * units.m ** 2 / units.s ** 2)))
    ref_pot = np.asarray(nd(np.linspace(3e4, 5e4, n) * units.m ** 2 / units.s ** 2))

    def make(grid, conv):
      coords = cs.CoordinateSystem(grid, vert)
      return sw.ShallowWaterEquations(coords, specs, conv(oro), ref_pot)
    sR = sw.State(_rand_modal(rng, R, (n,), lmax, amp * 1e-2, True), _rand_modal(rng, R, (n,), lmax, amp * 1e-3, True),
                  _rand_modal(rng, R, (n,), lmax, amp * float(nd(50.0 * units.m ** 2 / units.s ** 2))))
    sF = sw.State(r2f(sR.vorticity), r2f(sR.divergence), r2f(sR.potential))
    dt = float(nd(600 * units.s))
  else:
    vert = gens.build_sigma(case['boundaries'])
    t_ref = np.asarray(case['t_ref'], dtype=np.float64)[:n]
    oro = _rand_modal(rng, R, (), lmax, float(nd(300.0 * units.m)))
    cls = {'dry': pe.PrimitiveEquations, 'moist': pe.MoistPrimitiveEquations}[kind]

    def make(grid, conv):
      coords = cs.CoordinateSystem(grid, vert)
      return cls(t_ref, conv(oro), coords, specs)
    fields = dict(vorticity=_rand_modal(rng, R, (n,), lmax, amp * 1e-2, True),
                  divergence=_rand_modal(rng, R, (n,), lmax, amp * 1e-3, True),
                  temperature_variation=_rand_modal(rng, R, (n,), lmax, amp * 5.0),
                  log_surface_pressure=_rand_modal(rng, R, (1,), lmax, amp * 0.05))
    if kind == 'moist':
      tr = {'specific_humidity': _rand_modal(rng, R, (n,), lmax, amp * 0.01)}
      sR = pe.StateWithTime(**fields, sim_time=0.0, tracers=tr)
      sF = pe.StateWithTime(**{k: r2f(v) for k, v in fields.items()}, sim_time=0.0,
                            tracers={k: r2f(v) for k, v in tr.items()})
    else:
      sR = pe.State(**fields)
      sF = pe.State(**{k: r2f(v) for k, v in fields.items()})
    dt = float(nd(600 * units.s))
  eqR, eqF = make(R, lambda a: a), make(F, r2f)
  eta = case['eta'] * dt
  for name, fn in (('explicit_terms', lambda e, s: e.explicit_terms(s)), ('implicit_terms', lambda e, s: e.implicit_terms(s)),
                   ('implicit_inverse', lambda e, s: e.implicit_inverse(s, eta))):
    bad = _compare_states(out, f'{kind}.{name}', fn(eqF, sF), fn(eqR, sR), rs, 1e-8, {'eta': eta})
    if bad is not None:
      return bad
  if case['steps']:
    stepper = {'sil3': ti.imex_rk_sil3, 'cn_rk2': ti.crank_nicolson_rk2}[case['integrator']]
    outs = []
    for eq, s in ((eqF, sF), (eqR, sR)):
      step = jax.jit(ti.repeated(stepper(eq, dt), case['steps']))
      outs.append(step(s))
    bad = _compare_states(out, f'{kind} state after {case["steps"]} {case["integrator"]} steps', outs[0], outs[1], rs, 1e-8)
    if bad is not None:
      return bad
    if not all(np.all(np.isfinite(v)) for _, v in _tree_leaves_with_names(outs[1])):
      return out.fail(what='trajectory became non-finite (test input not admissible)')
  return out


@st.composite
def _equation_case(draw, tier, kinds=('dry', 'moist', 'shallow_water')):
  kind = draw(st.sampled_from(list(kinds)))
  cfg = draw(gc.grid_cfgs(max_m=6 if tier == 'quick' else 12, min_m=3, kinds=('quadratic',), resolutions=('resolved',),
                          impls=('fast',), spacings=_NO_POLES, special=False, allow_radius=False, allow_offset=True))
  # compiling two models per case is expensive: spend the cases on layouts that differ from the default one
  cfg['bsm'] = draw(st.sampled_from([8, 3, 8, 2, None]))
  cfg['stacked'] = draw(st.sampled_from([True, None, False]))
  case = {'grid': cfg, 'equation': kind, 'seed': draw(st.integers(0, 2 ** 16)),
          'steps': draw(st.sampled_from([2, 0, 2] if tier == 'quick' else [2, 5])),
          'integrator': draw(st.sampled_from(['sil3', 'cn_rk2'])),
          'eta': draw(st.sampled_from([0.5, 1.0, 0.25])), 'amp': draw(st.sampled_from([1.0, 0.1, 3.0]))}
  if kind == 'shallow_water':
    nl = draw(st.integers(1, 3))
    case['densities'] = [900.0 + 50.0 * i for i in range(nl)]
  else:
    b = draw(gens.sigma_boundaries(2, 4 if tier == 'quick' else 8))
    case['boundaries'] = b
    case['t_ref'] = [250.0 + 10.0 * draw(st.integers(0, 5)) for _ in range(len(b) - 1)]
  return case


# ----------------------------------------------------------------------------
# 4. float32 pass (x64 disabled)


def run_float32(case):
  import jax
  cfg = case['grid']
  L, nlon, nlat = cfg['L'], cfg['nlon'], cfg['nlat']
  with jax.enable_x64(False):
    R = gc.build(cfg, impl='real')
    F = gc.build(cfg, impl='fast')
    rs, fs = tuple(R.modal_shape), tuple(F.modal_shape)
    out = Outcome(labels=gc.labels(dict(cfg, impl='fast')) + _fast_labels(cfg, F, L), nontrivial=L >= 3, units=8)
    rng = np.random.default_rng(case['seed'])
    xR = (rng.standard_normal((3,) + rs) * np.asarray(R.mask)).astype(np.float32)
    xF = gc.real_to_fast(xR, fs)
    zR = rng.standard_normal((3, nlon, nlat)).astype(np.float32)
    zF = _pad_nodal(zR, F.nodal_shape)
    res = []
    nR, nF = R.to_nodal(xR), F.to_nodal(xF)
    if str(nF.dtype) != 'float32' or str(nR.dtype) != 'float32':
      return out.fail(what='float32 input did not give float32 output', fast=str(nF.dtype), real=str(nR.dtype))
    res.append(('to_nodal', np.asarray(nF, np.float64)[..., :nlon, :nlat], np.asarray(nR, np.float64)))
    res.append(('to_modal', gc.fast_to_real(np.asarray(F.to_modal(zF), np.float64), rs), np.asarray(R.to_modal(zR), np.float64)))
    for name in ('d_dlon', 'cos_lat_d_dlat', 'sec_lat_d_dlat_cos2', 'laplacian', 'inverse_laplacian', 'clip_wavenumbers'):
      res.append((name, gc.fast_to_real(np.asarray(getattr(F, name)(xF), np.float64), rs),
                  np.asarray(getattr(R, name)(xR), np.float64)))
  for name, a, b in res:
    err = core.relerr(a, b, max(float(np.abs(b).max()), 1e-30))
    if err > 3e-4:
      return out.fail(what=f'float32 {name}: Fast differs from Real by more than 3e-4', relerr=err)
  return out


def _float32_strategy(tier):
  return st.fixed_dictionaries({'grid': _pair_cfgs(tier, resolutions=('resolved', 'under_both'), allow_mesh=False),
                                'seed': st.integers(0, 2 ** 16)})


SUBCHECKS = [
    Subcheck('grid_methods_commute', run_methods, strategy=_methods_strategy,
             examples={'quick': 24, 'thorough': 160}, shards={'quick': 3, 'thorough': 8},
             wall={'quick': 300.0, 'thorough': 1500.0}, weight=3,
             rule='non-trivial = the Fast layout is padded, or stacked Fourier transforms are forced on',
             doc='20 public Grid methods + wind conversions commute with the Real -> Fast re-indexing on all unit vectors'),
    Subcheck('options_never_change_results', run_options, strategy=_options_strategy,
             examples={'quick': 30, 'thorough': 200}, shards={'quick': 2, 'thorough': 8},
             wall={'quick': 300.0, 'thorough': 1500.0}, weight=2,
             rule='non-trivial = padding, stacking, einsum order, precision hint or mesh differs from the default',
             doc='Fast(option set) vs Fast(defaults): bit-identical where shapes agree, 1e-12 otherwise'),
    Subcheck('equations_on_either_grid', run_equations, strategy=lambda tier: _equation_case(tier),
             examples={'quick': 9, 'thorough': 90}, shards={'quick': 3, 'thorough': 10},
             wall={'quick': 300.0, 'thorough': 1600.0}, weight=5,
             rule='non-trivial = the Fast layout is padded, or stacked Fourier transforms are forced on',
             doc='explicit / implicit terms, implicit inverse and k-step IMEX trajectories of dry / moist PE and SW agree'),
    Subcheck('float32_equivalence', run_float32, strategy=_float32_strategy,
             examples={'quick': 10, 'thorough': 150}, shards={'quick': 1, 'thorough': 4},
             wall={'quick': 300.0, 'thorough': 900.0}, weight=1,
             rule='non-trivial = L >= 3',
             doc='float32 inputs with x64 disabled: Real and Fast agree within 3e-4 on transforms and operators'),
]
