"""C12 Physical results do not depend on the non-dimensionalisation scale.

The same physical problem (SI constants, radius, rotation rate, SI state, SI time step) is set up under two
different `scales.Scale` objects; tendencies, implicit solves and short filtered trajectories converted back to SI
with `dimensionalize` must agree to rounding error. Covers the dry and moist primitive equations, the Held-Suarez
forcing (alone and composed with the dry equations) and the layered shallow-water equations.
"""
from __future__ import annotations

import functools

from hypothesis import strategies as st
import numpy as np

from vf import core, gens
from vf.core import Outcome, Subcheck

RTOL = 1e-9           # tendencies: measured 1e-14; 1e-9 leaves room for the lnps constant (|ln p_unit| ~ 1e2)
RTOL_STEPS = 1e-8     # implicit solve and trajectories (numerical inverse of a matrix whose row scaling follows the units)
SQRT_4PI = float(np.sqrt(4.0 * np.pi))
Q = 'specific_humidity'
CLOUD = ('specific_cloud_liquid_water_content', 'specific_cloud_ice_water_content')

# SI magnitudes per modal coefficient (multiplied by the drawn amplitude)
MAG = {'vorticity': 2e-6, 'divergence': 1e-6, 'temperature_variation': 3.0, 'log_surface_pressure': 0.02}
MAG_TRACER = 2e-3
MAG_SW_POTENTIAL = 50.0        # m^2/s^2
MAG_OROGRAPHY = 300.0          # m
MAG_SW_OROGRAPHY = 3000.0      # m^2/s^2  (g * 300 m)

# SI values of the two named scales (length m, time s, mass kg, temperature K), used for the non-triviality rule
_DEFAULT_QUAD = [6.37122e6, 1.0 / (2 * 7.292e-5), 1.0, 1.0]
_ATMOSPHERIC_QUAD = [6.37122e6, 1.0 / (2 * 7.292e-5), 5.18e18, 1.0]

TEND_UNITS = {'vorticity': '1/s**2', 'divergence': '1/s**2', 'temperature_variation': 'K/s',
              'log_surface_pressure': '1/s', 'tracers': '1/s', 'sim_time': 'dimensionless',
              'potential': 'm**2/s**3'}
STATE_UNITS = {'vorticity': '1/s', 'divergence': '1/s', 'temperature_variation': 'K',
               'log_surface_pressure': 'dimensionless', 'tracers': 'dimensionless', 'sim_time': 's',
               'potential': 'm**2/s**2'}

RULE = ('Hypothesis draws an SI problem (radius, rotation rate, gravity, gas constants, kappa, reference profile, mean '
        'surface pressure, orography, densities / reference potentials, time step, filter time scales), a target '
        '(dry, moist, Held-Suarez, shallow water), a grid and levels, two unit scales (named default/atmospheric or '
        'four base units log-uniform over 12 decades; within 3.5 decades of the default for sub-checks that invert '
        'the implicit matrix) and a list of SI states; both set-ups are built through *Specs.from_si(scale=...) and '
        'Grid(radius=specs.radius); oracle = the other scale: outputs converted with dimensionalize agree leaf by leaf '
        'within 1e-9 of the largest entry of the leaf (lnps up to its additive constant ln(pressure unit) on the (0,0) '
        'coefficient); distinct = hash of the JSON case; non-trivial = the two scales differ by more than a factor 10 '
        'in at least two base dimensions and a state has non-zero vorticity, divergence and grad(lnps) / potential')
ASSUMPTIONS = [
    'every dimensional input is passed through the scale: states, reference temperature, orography, time step, '
    'Held-Suarez parameters, and also the filter time scale tau (its default 0.010938 is a number in default-scale '
    'time units, so leaving it at the default under another scale is a different physical filter)',
    'log_surface_pressure of the same physical state differs between scales by ln(pressure unit ratio) on the (0,0) '
    'coefficient (times sqrt(4 pi)); the comparison removes exactly that constant, tendencies of lnps are compared '
    'as they are',
    'sub-checks that invert (1 - eta*implicit) use scales within 3.5 decades of the default per base unit: the matrix '
    'is numerically inverted in non-dimensional variables and an extreme ratio of temperature / time units makes it '
    'arbitrarily badly row-scaled (a floating point limit of any dense solve, not a units defect); pure tendencies '
    'use the full 12 decades',
    'grids have no pole nodes; the mean surface pressure puts the Held-Suarez equilibrium temperature in its active '
    'range (with T_eq clipped to minT everywhere the p0 dependence would be invisible)',
    'trajectories are <= 6 steps with time steps of 5-20 minutes on grids with M <= 8: stable, no chaotic '
    'amplification of the 1e-15 differences beyond 1e-9',
]
MANIFEST = {
    'text': 'For generated SI problems and pairs of unit scales spanning 12 decades per base unit, the dimensionalised '
            'explicit and implicit tendencies of the dry and moist primitive equations, the Held-Suarez forcing and '
            'the layered shallow-water equations agree to 1e-9 relative (measured 1e-14); with scales within 3.5 decades '
            'of the default the implicit solve and filtered 1-6 step trajectories of SIL3, CN-RK2/3/4, backward-forward '
            'Euler and leapfrog agree as well, including Held-Suarez forcing composed with the dynamics.',
    'note': 'Metamorphic: the implementation is compared with itself under a change of units; pint and '
            'Scale.nondimensionalize/dimensionalize are used on both sides (their own round trip is C18).',
    'technique': 'metamorphic relation (change of units) over generated SI problems, scale pairs and states',
}


# ----------------------------------------------------------------------------
# generators


def _named_or_custom(custom):
  return st.one_of(st.just({'kind': 'default'}), st.just({'kind': 'atmospheric'}),
                   custom.map(lambda q: {'kind': 'custom', 'quad': q}),
                   custom.map(lambda q: {'kind': 'custom', 'quad': q}))


@st.composite
def _near_default_quad(draw, decades):
  return [float(d * 10.0 ** draw(st.floats(-decades, decades, allow_nan=False, width=32))) for d in _DEFAULT_QUAD]


@st.composite
def _near_default_pair(draw):
  """Scale A = default | atmospheric | within one decade of the default; scale B = A moved by 1.25 - 2.5 decades in
  at least two base dimensions (so that the pair is non-trivial by construction), everything within 3.5 decades of
  the default."""
  a = draw(_named_or_custom(_near_default_quad(1.0)))
  qa = _quad(a)
  moved = draw(st.lists(st.booleans(), min_size=4, max_size=4))
  if sum(moved) < 2:
    moved = [True, True] + moved[2:]
  qb = []
  for i in range(4):
    base = qa[i] if i != 2 else _DEFAULT_QUAD[2]      # mass: relative to 1 kg (atmospheric mass is 18 decades away)
    if moved[i]:
      d = draw(st.sampled_from([1.0, -1.0])) * draw(st.floats(1.25, 2.5, allow_nan=False, width=32))
    else:
      d = draw(st.floats(-1.0, 1.0, allow_nan=False, width=32))
    qb.append(float(base * 10.0 ** d))
  return [a, {'kind': 'custom', 'quad': qb}]


def _scale_pair(wide):
  if not wide:
    return _near_default_pair()
  custom = gens.scale_quads()
  return st.tuples(_named_or_custom(custom), custom.map(lambda q: {'kind': 'custom', 'quad': q})).map(list)


def _quad(s):
  return {'default': _DEFAULT_QUAD, 'atmospheric': _ATMOSPHERIC_QUAD}.get(s['kind']) or s['quad']


@st.composite
def _case(draw, tier, targets, stepping):
  big = tier == 'thorough'
  target = draw(st.sampled_from(list(targets)))
  gkind = draw(st.sampled_from(['vector', 'quadratic', 'any']))
  g = draw(gens.grid_configs(kind=gkind, min_m=3, max_m=10 if big else 6, spacings=('gauss', 'gauss', 'equiangular'),
                             allow_radius=False, max_slack=3))
  g['nlon'] = max(g['nlon'], g['M'], 2)
  g['nlat'] = max(g['nlat'], 2)
  si = {'radius': draw(st.sampled_from([6.37122e6, 6.37122e6, 1.0e6, 3.0e7])),
        'omega': draw(st.sampled_from([7.292e-5, 7.292e-5, 2.0e-5, 1.5e-4])),
        'g': draw(st.sampled_from([9.80616, 9.80616, 3.7, 24.8])),
        'oro_amp': draw(st.sampled_from([0.0, 1.0, 1.0, 3.0])), 'oro_seed': draw(st.integers(0, 999))}
  cfg = {'target': target, 'grid_rule': gkind, 'grid': g, 'si': si, 'scales': draw(_scale_pair(wide=not stepping))}
  if target == 'sw':
    n = draw(st.integers(1, 3))
    cfg['layers'] = n
    si['densities'] = [float(v) for v in np.cumsum([draw(st.sampled_from([997.0, 100.0, 20.0])) for _ in range(n)])]
    si['ref_potential'] = [float(draw(st.sampled_from([1.0e4, 3.0e4, 5.0e4]))) for _ in range(n)]
    fields = ['vorticity', 'divergence', 'potential']
  else:
    b = ([0.0, 1.0] if draw(st.sampled_from([False] * 7 + [True])) else    # a single layer 1 time in 8
         draw(gens.sigma_boundaries(2, 6 if big else 4, kinds=('uneven', 'uneven', 'hybrid', 'equidistant'))))
    n = len(b) - 1
    cfg['boundaries'] = b
    si['t_ref'] = ([float(draw(st.integers(200, 320)))] * n if draw(st.booleans())
                   else [float(draw(st.integers(180, 330))) for _ in range(n)])
    si['R'] = draw(st.sampled_from([286.857, 286.857, 188.9, 518.0]))
    si['kappa'] = draw(st.sampled_from([2 / 7, 2 / 7, 0.23]))
    si['Rv'] = draw(st.sampled_from([461.0, 461.0, 300.0]))
    si['cpv'] = draw(st.sampled_from([1859.0, 1859.0, 1000.0]))
    si['p_mean'] = draw(st.sampled_from([1.0e5, 1.0e5, 7.0e4, 6.0e2]))
    cfg['tracers'] = ([Q] if target in ('moist', 'cloud') else []) + (list(CLOUD) if target == 'cloud' else []) + (
        draw(st.sampled_from([[], [], ['a']])) if target in ('dry', 'moist', 'cloud') else [])
    fields = list(MAG) + cfg['tracers']
  si['dt'] = draw(st.sampled_from([300.0, 600.0, 1200.0]))
  if stepping:
    cfg['integrator'] = draw(st.sampled_from(['sil3', 'cn_rk3', 'leapfrog', 'cn_rk2', 'cn_rk4', 'bfe']))
    cfg['steps'] = [draw(st.integers(1, 3)), draw(st.integers(1, 2))]
    si['tau'] = draw(st.sampled_from([150.0, 3600.0]))
    if cfg['integrator'] == 'leapfrog':
      cfg['filters'] = draw(st.sampled_from([[], ['exponential', 'robert_asselin'], ['robert_asselin']]))
    else:
      cfg['filters'] = draw(st.sampled_from([[], ['exponential'], ['exponential', 'diffusion'], ['diffusion']]))
    cfg['eta_factor'] = draw(st.sampled_from([0.5, 1.0, -0.5]))
  inputs = []
  for _ in range(draw(st.integers(1, 4 if big else 3))):
    d = draw(gens.input_descr(fields, n, g['M'], g['L'], g['L'] - 2))
    d['noise_amp'] = draw(st.sampled_from([1.0, 1.0, 0.3, 0.0]))   # simplest example = dense state
    d['amp'] = draw(st.sampled_from([0.1, 1.0, 1.0, 10.0])) if not stepping else draw(st.sampled_from([0.1, 1.0]))
    inputs.append(d)
  return {'config': cfg, 'inputs': inputs}


# ----------------------------------------------------------------------------
# one physical problem under one scale


def _build_scale(s):
  from dinosaur import scales
  if s['kind'] == 'default':
    return scales.DEFAULT_SCALE
  if s['kind'] == 'atmospheric':
    return scales.ATMOSPHERIC_SCALE
  return gens.build_scale(s['quad'])


class _Setup:
  """The problem of `cfg` non-dimensionalised with one scale."""

  def __init__(self, cfg, scale_descr):
    from dinosaur import coordinate_systems as cs, layer_coordinates as lc, primitive_equations as pe
    from dinosaur import scales, shallow_water as sw
    u = scales.units
    self.u = u
    self.cfg, self.si = cfg, cfg['si']
    si = self.si
    self.target = cfg['target']
    self.scale = _build_scale(scale_descr)
    if self.target == 'sw':
      self.specs = sw.ShallowWaterSpecs.from_si(
          np.asarray(si['densities']) * u.kg / u.m ** 3, si['radius'] * u.m, si['omega'] / u.s,
          si['g'] * u.m / u.s ** 2, scale=self.scale)
    else:
      self.specs = pe.PrimitiveEquationsSpecs.from_si(
          si['radius'] * u.m, si['omega'] / u.s, si['g'] * u.m / u.s ** 2, si['R'] * u.J / u.kg / u.degK,
          si['Rv'] * u.J / u.kg / u.degK, si['cpv'] * u.J / u.kg / u.degK, si['kappa'] * u.dimensionless,
          scale=self.scale)
    g = dict(cfg['grid'])
    g['radius'] = float(self.specs.radius)
    self.grid = gens.build_grid(g)
    self.nd = self.specs.nondimensionalize
    L = self.grid.total_wavenumbers
    oro_descr = {'sparse': [], 'noise_amp': 1.0, 'noise_seed': si['oro_seed'], 'slope': 1}
    if self.target == 'sw':
      self.n = int(cfg['layers'])
      self.coords = cs.CoordinateSystem(self.grid, lc.LayerCoordinates(self.n))
      oro_si = gens.modal_field(self.grid, (), oro_descr, 'orography', lmax=L - 2,
                                amp=MAG_SW_OROGRAPHY * float(si['oro_amp']))
      self.orography = np.asarray(self.nd(oro_si * u.m ** 2 / u.s ** 2))
      self.ref_potential = np.asarray(self.nd(np.asarray(si['ref_potential']) * u.m ** 2 / u.s ** 2))
      self.lnps_const = 0.0
    else:
      vert = gens.build_sigma(cfg['boundaries'])
      self.n = vert.layers
      self.coords = cs.CoordinateSystem(self.grid, vert)
      oro_si = gens.modal_field(self.grid, (), oro_descr, 'orography', lmax=L - 2,
                                amp=MAG_OROGRAPHY * float(si['oro_amp']))
      self.orography = np.asarray(self.nd(oro_si * u.m))
      self.t_ref = np.asarray(self.nd(np.asarray(si['t_ref']) * u.degK))
      self.lnps_const = float(np.log(self.nd(si['p_mean'] * u.pascal))) * SQRT_4PI
    self.dt = float(self.nd(si['dt'] * u.s))

  # -- equations
  def equation(self, with_forcing=True):
    from dinosaur import held_suarez, primitive_equations as pe, shallow_water as sw, time_integration as ti
    if self.target == 'sw':
      return sw.ShallowWaterEquations(self.coords, self.specs, self.orography, self.ref_potential)
    if self.target == 'moist':
      return pe.MoistPrimitiveEquations(self.t_ref, self.orography, self.coords, self.specs)
    if self.target == 'cloud':   # the condensate-loading variant of the moist equations (non-zero cloud tracers)
      return pe.MoistPrimitiveEquationsWithCloudMoisture(self.t_ref, self.orography, self.coords, self.specs)
    dry = pe.PrimitiveEquations(self.t_ref, self.orography, self.coords, self.specs)
    if self.target == 'hs' and with_forcing:
      return ti.compose_equations([dry, self.forcing()])
    return dry

  def forcing(self):
    from dinosaur import held_suarez
    return held_suarez.HeldSuarezForcing(self.coords, self.specs, self.t_ref)

  # -- states
  def state(self, descr):
    from dinosaur import primitive_equations as pe, shallow_water as sw
    u, nd, grid, n = self.u, self.nd, self.grid, self.n
    amp = float(descr.get('amp', 1.0))
    lmax = grid.total_wavenumbers - 2
    mf = functools.partial(gens.modal_field, grid)
    vor = np.asarray(nd(mf((n,), descr, 'vorticity', lmax=lmax, zero_mean=True, amp=MAG['vorticity'] * amp) / u.s))
    div = np.asarray(nd(mf((n,), descr, 'divergence', lmax=lmax, zero_mean=True, amp=MAG['divergence'] * amp) / u.s))
    if self.target == 'sw':
      pot = np.asarray(nd(mf((n,), descr, 'potential', lmax=lmax, amp=MAG_SW_POTENTIAL * amp) * u.m ** 2 / u.s ** 2))
      return sw.State(vor, div, pot)
    tv = np.asarray(nd(mf((n,), descr, 'temperature_variation', lmax=lmax,
                          amp=MAG['temperature_variation'] * amp) * u.degK))
    lsp = mf((1,), descr, 'log_surface_pressure', lmax=lmax, amp=MAG['log_surface_pressure'] * amp)
    lsp[0, 0, 0] = self.lnps_const          # ln of the non-dimensional mean surface pressure
    tracers = {t: mf((n,), descr, t, lmax=lmax, amp=MAG_TRACER * min(amp, 1.0)) for t in self.cfg.get('tracers', [])}
    if self.target in ('moist', 'cloud'):
      return pe.StateWithTime(vor, div, tv, lsp, sim_time=0.0, tracers=tracers)
    return pe.State(vor, div, tv, lsp, tracers=tracers)

  # -- back to SI
  def to_si(self, tree, kind):
    """Flat {leaf: SI float64 array} of a state-like pytree (kind = 'tendency' | 'state'); tuples are prefixed."""
    if isinstance(tree, (tuple, list)) and not hasattr(tree, 'asdict'):
      out = {}
      for i, e in enumerate(tree):
        out.update({f'{i}/{k}': v for k, v in self.to_si(e, kind).items()})
      return out
    table = TEND_UNITS if kind == 'tendency' else STATE_UNITS
    out = {}
    for k, v in tree.asdict().items():
      items = {f'tracers/{n}': a for n, a in v.items()} if isinstance(v, dict) else {k: v}
      for name, a in items.items():
        unit = table['tracers' if name.startswith('tracers/') else name]
        a = np.asarray(a, dtype=np.float64)
        val = np.asarray(self.specs.dimensionalize(a, self.u(unit)).magnitude, dtype=np.float64)
        if kind == 'state' and name == 'log_surface_pressure':
          val = val.copy()
          val[..., 0, 0] -= self.lnps_const    # known additive constant: ln(pressure unit)
        out[name] = val
    return out


def _floors_si(cfg, setup, descr_amp):
  """SI lower bounds for tendency scales (operator norm x input norm), cf. C04._floors."""
  si = cfg['si']
  L, r, om = cfg['grid']['L'], si['radius'], si['omega']
  z = (MAG['vorticity'] + MAG['divergence']) * descr_amp
  if cfg['target'] == 'sw':
    p = MAG_SW_POTENTIAL * descr_amp + max(si['ref_potential'])
    dyn = z * (z + 2 * om) + (L / r) ** 2 * (p + MAG_SW_OROGRAPHY * si['oro_amp'])
    return {'vorticity': dyn, 'divergence': dyn, 'potential': p * z}
  tabs = max(si['t_ref']) + MAG['temperature_variation'] * descr_amp
  dyn = z * (z + 2 * om) + (L / r) ** 2 * (si['R'] * tabs * (1 + MAG['log_surface_pressure'] * descr_amp)
                                           + si['g'] * MAG_OROGRAPHY * si['oro_amp'])
  return {'vorticity': dyn, 'divergence': dyn, 'temperature_variation': tabs * (z + 1e-7),
          'log_surface_pressure': z, 'tracers': MAG_TRACER * z, 'sim_time': 1.0}


def _state_floors_si(cfg, descr_amp):
  """Natural magnitudes of the state fields (a field that starts at zero only carries rounding noise)."""
  f = {k: v * descr_amp for k, v in MAG.items()}
  f.update({'tracers': MAG_TRACER * min(descr_amp, 1.0), 'potential': MAG_SW_POTENTIAL * descr_amp,
            'sim_time': cfg['si']['dt']})
  return f


def _rounding_floor_si(su, state_nd, ulps=512):
  """Per leaf kind: ulps * eps * max|non-dimensional state entry| expressed in the SI unit of that leaf."""
  import jax
  leaves = [np.abs(np.asarray(a, dtype=np.float64)) for a in jax.tree_util.tree_leaves(state_nd)]
  nd_max = max([float(a.max()) for a in leaves if a.size] + [1.0])
  eps = float(np.finfo(np.float64).eps)
  out = {}
  for key, unit in STATE_UNITS.items():
    try:
      one = abs(float(np.asarray(su.specs.dimensionalize(1.0, su.u(unit)).magnitude)))
    except Exception:   # pylint: disable=broad-except
      continue
    out[key] = ulps * eps * nd_max * one
  return out


def _amplitude(a):
  if a.size == 0:
    return 0.0
  b = np.abs(a)
  if a.ndim >= 2:
    b = b.copy()
    b[..., 0, 0] = 0.0
  m = float(b.max())
  return m if m > 0 else float(np.abs(a).max())


def _compare(out, a, b, what, floors=None, rtol=RTOL, **ctx):
  for name in a:
    x, y = a[name], b[name]
    key = 'tracers' if 'tracers/' in name else name.split('/')[-1]
    scale = max(_amplitude(x), _amplitude(y), (floors or {}).get(key, 0.0))
    err = core.relerr(x, y, scale)
    if not err <= rtol:
      idx = core.argmax_index(x, y)
      return out.fail(what=what, leaf=name, relerr=err, rtol=rtol, scale=scale, index=idx,
                      si_value_scale_a=float(x[tuple(idx)]) if x.ndim else float(x),
                      si_value_scale_b=float(y[tuple(idx)]) if y.ndim else float(y), **ctx)
  return None


def _labels(cfg):
  g = cfg['grid']
  qa, qb = (_quad(s) for s in cfg['scales'])
  ratio = [abs(np.log10(a / b)) for a, b in zip(qa, qb)]
  labs = [f"target={cfg['target']}", f"grid_rule={cfg['grid_rule']}"] + gens.grid_labels({**g, 'radius': 2.0}) \
      + [f"scale_a={cfg['scales'][0]['kind']}", f'dims_differing_10x={sum(r > 1 for r in ratio)}',
         'max_ratio>1e6' if max(ratio) > 6 else 'max_ratio<=1e6',
         'orography=yes' if cfg['si']['oro_amp'] else 'orography=no',
         'earth_constants' if (cfg['si']['radius'], cfg['si']['omega'], cfg['si']['g']) == (6.37122e6, 7.292e-5, 9.80616)
         else 'other_planet']
  if cfg['target'] == 'sw':
    labs.append(f"layers={cfg['layers']}")
  else:
    labs += gens.sigma_labels(cfg['boundaries'])
  if 'integrator' in cfg:
    labs += [f"integrator={cfg['integrator']}", 'filters=' + ('+'.join(cfg['filters']) or 'none')]
  return labs, sum(r > 1 for r in ratio) >= 2


def _state_nontrivial(cfg, states):
  for s in states:
    third = s.potential if cfg['target'] == 'sw' else np.asarray(s.log_surface_pressure)[..., 1:]
    if np.any(np.asarray(s.vorticity) != 0) and np.any(np.asarray(s.divergence) != 0) and np.any(np.asarray(third) != 0):
      return True
  return False


# ----------------------------------------------------------------------------
# sub-check 1: tendencies (no matrix inversion: full 12 decades of scales)


def run_tendencies(case):
  import jax
  cfg, inputs = case['config'], case['inputs']
  setups = [_Setup(cfg, s) for s in cfg['scales']]
  labels, scales_differ = _labels(cfg)
  results = []
  for su in setups:
    eq = su.equation(with_forcing=False)
    if su.target == 'sw':
      fn = jax.jit(lambda s, eq=eq: {'explicit_terms': eq.explicit_terms(s), 'implicit_terms': eq.implicit_terms(s)})
    else:     # the Held-Suarez forcing of the same state is evaluated with every primitive-equation case
      hs = su.forcing()
      fn = jax.jit(lambda s, eq=eq, hs=hs: {'explicit_terms': eq.explicit_terms(s),
                                            'implicit_terms': eq.implicit_terms(s),
                                            'held_suarez_explicit_terms': hs.explicit_terms(s)})
    states = [su.state(d) for d in inputs]
    results.append([{k: su.to_si(v, 'tendency') for k, v in fn(s).items()} for s in states])
    su.states = states
  out = Outcome(labels=labels, units=len(inputs),
                nontrivial=scales_differ and _state_nontrivial(cfg, setups[0].states))
  for i, (ra, rb) in enumerate(zip(*results)):
    floors = _floors_si(cfg, setups[0], float(inputs[i].get('amp', 1.0)))
    for name in ra:
      bad = _compare(out, ra[name], rb[name], f'dimensionalised {name} differs between the two scales', floors,
                     input=i, scales=cfg['scales'], target=cfg['target'])
      if bad is not None:
        return bad
  return out


# ----------------------------------------------------------------------------
# sub-check 2: implicit solve and trajectories


def _step_fn(su, eq):
  from dinosaur import time_integration as ti
  cfg, dt = su.cfg, su.dt
  integ = {'sil3': ti.imex_rk_sil3, 'cn_rk2': ti.crank_nicolson_rk2, 'cn_rk3': ti.crank_nicolson_rk3,
           'cn_rk4': ti.crank_nicolson_rk4, 'bfe': ti.backward_forward_euler,
           'leapfrog': ti.semi_implicit_leapfrog}[cfg['integrator']]
  step = integ(eq, dt)
  leap = cfg['integrator'] == 'leapfrog'
  tau = float(su.nd(su.si['tau'] * su.u.s))
  filters = []
  for f in cfg.get('filters', []):
    if f == 'exponential':
      filters.append((ti.exponential_leapfrog_step_filter if leap else ti.exponential_step_filter)(
          su.grid, dt, tau=tau, order=3))
    elif f == 'diffusion':
      filters.append(ti.horizontal_diffusion_step_filter(su.grid, dt, tau=4 * tau, order=2))
    elif f == 'robert_asselin':
      filters.append(ti.robert_asselin_leapfrog_filter(0.05))
  return ti.step_with_filters(step, filters)


def run_steps(case):
  import jax
  from dinosaur import time_integration as ti
  cfg, inputs = case['config'], case['inputs']
  setups = [_Setup(cfg, s) for s in cfg['scales']]
  labels, scales_differ = _labels(cfg)
  outer, inner = int(cfg['steps'][0]), int(cfg['steps'][1])
  leap = cfg['integrator'] == 'leapfrog'
  results = []
  for su in setups:
    eq = su.equation()
    eta = su.dt * float(cfg.get('eta_factor', 0.5))
    traj = ti.trajectory_from_step(_step_fn(su, eq), outer, inner)
    fn = jax.jit(lambda s, s0, eq=eq, eta=eta, traj=traj: (eq.implicit_inverse(s0, eta), traj(s)))
    res = []
    states = []
    for d in inputs:
      s0 = su.state(d)
      s = s0
      if leap:
        d2 = dict(d)
        d2['noise_seed'] = int(d2.get('noise_seed', 0)) + 1
        d2['amp'] = 0.02 * float(d2.get('amp', 1.0))
        s2 = su.state(d2)
        if su.target != 'sw':     # the sum below must keep the mean surface pressure of the first snapshot
          lsp2 = np.array(s2.log_surface_pressure)
          lsp2[0, 0, 0] = 0.0
          s2 = s2.replace(log_surface_pressure=lsp2)
        s = (s0, jax.tree_util.tree_map(lambda a, b: np.asarray(a) + np.asarray(b), s0, s2))
      inv, (final, frames) = fn(s, s0)
      res.append({'implicit_inverse': su.to_si(inv, 'state'), 'final state': su.to_si(final, 'state'),
                  'trajectory frames': su.to_si(frames, 'state'),
                  '_rounding_floor_si': _rounding_floor_si(su, s0)})
      states.append(s0)
    su.states = states
    results.append(res)
  out = Outcome(labels=labels + [f'steps={outer * inner}'], units=len(inputs),
                nontrivial=scales_differ and _state_nontrivial(cfg, setups[0].states))
  for i, (ra, rb) in enumerate(zip(*results)):
    if not all(np.all(np.isfinite(v)) for r in (ra, rb) for v in r['final state'].values()):
      return Outcome(skipped=True)
    floors = _state_floors_si(cfg, float(inputs[i].get('amp', 1.0)))
    # rounding floor of the coupled implicit solve: the numerically inverted block matrix mixes the fields with
    # relative error ~eps of the *largest non-dimensional* entry of the state, whatever leaf it sits in; in SI this is
    # eps * max|state_nd| * (SI value of one non-dimensional unit of the leaf), which depends on the scale by design
    rf = {k: max(ra['_rounding_floor_si'][k], rb['_rounding_floor_si'][k]) for k in ra['_rounding_floor_si']}
    floors = {k: max(v, rf.get(k, 0.0) / RTOL_STEPS) for k, v in floors.items()}
    for name in ra:
      if name.startswith('_'):
        continue
      bad = _compare(out, ra[name], rb[name], f'{name} (converted to SI) differs between the two scales', floors, RTOL_STEPS,
                     input=i, scales=cfg['scales'], target=cfg['target'], integrator=cfg['integrator'],
                     filters=cfg.get('filters'))
      if bad is not None:
        return bad
  return out


SUBCHECKS = [
    Subcheck('tendencies_scale_invariance_pe', run_tendencies,
             strategy=lambda tier: _case(tier, ('dry', 'moist', 'cloud'), False),
             examples={'quick': 48, 'thorough': 600}, shards={'quick': 3, 'thorough': 8},
             wall={'quick': 420.0, 'thorough': 1500.0},
             rule='non-trivial = scales differ by > 10x in >= 2 base dimensions; a state has non-zero vorticity, '
                  'divergence and grad(lnps)',
             doc='explicit_terms / implicit_terms of the dry and moist primitive equations and the Held-Suarez forcing '
                 'of the same state, in SI, under two scales over 12 decades', weight=3),
    Subcheck('tendencies_scale_invariance_sw', run_tendencies,
             strategy=lambda tier: _case(tier, ('sw',), False),
             examples={'quick': 24, 'thorough': 300}, shards={'quick': 1, 'thorough': 3},
             wall={'quick': 420.0, 'thorough': 1500.0},
             rule='non-trivial = scales differ by > 10x in >= 2 base dimensions; a state has non-zero vorticity, '
                  'divergence and layer potential',
             doc='the same for the 1-3 layer shallow-water equations', weight=2),
    Subcheck('steps_scale_invariance_pe', run_steps,
             strategy=lambda tier: _case(tier, ('dry', 'moist', 'hs', 'cloud'), True),
             examples={'quick': 42, 'thorough': 400}, shards={'quick': 3, 'thorough': 8},
             wall={'quick': 420.0, 'thorough': 1500.0},
             rule='non-trivial = as above',
             doc='implicit_inverse and 1-6 step filtered trajectories (6 integrators; hs = dry equations + Held-Suarez '
                 'forcing) in SI under two scales within 3.5 decades of the default', weight=3),
    Subcheck('steps_scale_invariance_sw', run_steps,
             strategy=lambda tier: _case(tier, ('sw',), True),
             examples={'quick': 20, 'thorough': 200}, shards={'quick': 1, 'thorough': 3},
             wall={'quick': 420.0, 'thorough': 1500.0},
             rule='non-trivial = as above',
             doc='the same for shallow water (incl. filtered leapfrog)', weight=2),
]
