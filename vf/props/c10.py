"""C10 Dynamics are equivariant under the symmetries of the rotating sphere.

S = rotation about the polar axis by k longitude grid steps, the reflection about the equator (vorticity changes
sign as a pseudo-scalar), or their composition. For every generated configuration and state
    F(S x; S orography) == S F(x)
for F in {explicit_terms, implicit_terms, implicit_inverse, Held-Suarez forcing, n-step trajectories with filters}
of the dry / moist primitive equations and the layered shallow-water equations. The relation is exact (rounding)
on any grid without pole nodes, aliased or not, because S maps the nodal grid onto itself.
"""
from __future__ import annotations

import dataclasses
import functools

from hypothesis import strategies as st
import numpy as np

from vf import core, gens
from vf.core import Outcome, Subcheck
from vf.oracles import sh_oracle, symmetry

RTOL = 1e-8       # whole tendencies / steps (DESIGN.md numeric policy; measured <= 3e-14)
RTOL_MAP = 1e-9   # transform-level algebra
Q = 'specific_humidity'

MAG = {'vorticity': 1e-2, 'divergence': 1e-2, 'temperature_variation': 5.0, 'log_surface_pressure': 0.05}
MAG_TRACER = 1e-2
MAG_OROGRAPHY = 1e-3
SW_POTENTIAL = 0.05   # non-dimensional g*h' per coefficient (reference potentials are O(0.1..1))

RULE = ('Hypothesis draws a configuration (equation set, any grid without pole nodes incl. heavily aliased ones, both '
        'transform implementations and padded layouts, levels/layers, reference profile, constants, orography, '
        'integrator, filters), a list of symmetry operations (rotation by k grid steps, equatorial mirror, both) and '
        'a list of full-spectrum states; oracle = the same computation on the transformed state and orography, '
        'compared with the transformed result leaf by leaf (rtol 1e-8 of the largest entry of the leaf); the '
        'coefficient-space action of S is itself validated against np.roll / [::-1] of nodal fields on all unit '
        'vectors; distinct = hash of the JSON case; non-trivial = some operation is not the identity (k mod nodes != 0 '
        'or mirror) and some state has components with m >= 1 and both parities of l+m')
ASSUMPTIONS = [
    'grids have no node at a pole (equiangular_with_poles is invalid for dynamics: sec2_lat = inf)',
    'rotations are by whole longitude grid steps (other angles do not map the nodal grid onto itself; equivariance '
    'then only holds for alias-free products, which is not what the property states)',
    'the orography (and every other spatial parameter) is transformed together with the state; scalar parameters '
    '(reference temperature, constants, densities, reference potentials) are invariant',
    'longitude_nodes >= longitude_wavenumbers (the Fourier basis constructor rejects anything else); under-resolved '
    'grids therefore alias in longitude only through products, and in latitude arbitrarily',
    'padded nodal entries of the fast layout are zero (they are not part of the domain) when nodal data are fed to '
    'to_modal',
    'filters use integer orders and time steps a few times 1e-2 (non-dimensional), trajectories are <= 6 steps: no '
    'chaotic amplification of rounding differences beyond the 1e-8 tolerance',
]
MANIFEST = {
    'text': 'For generated grids (aliased or resolved, Gauss/equiangular, odd/even node counts, longitude offsets, '
            'real and fast layouts incl. padding), equation sets (dry and moist primitive equations with orography and '
            'tracers, Held-Suarez forcing, 1-3 layer shallow water) and integrators with filters, computing explicit '
            'terms, implicit terms, the implicit solve and short trajectories commutes with every grid-step rotation, '
            'with the equatorial mirror (vorticity as pseudo-scalar) and with their composition to 1e-8 relative '
            '(measured 1e-14); the coefficient-space symmetry maps equal nodal roll/flip for every unit vector.',
    'note': 'Metamorphic: the implementation is compared with itself on transformed inputs. The symmetry maps are an '
            'independent numpy implementation (vf/oracles/symmetry.py) tied to the code\'s nodal grid by the '
            'symmetry_maps_vs_nodal sub-check.',
    'technique': 'metamorphic equivariance relation over generated configurations, symmetry operations and states',
}


# ----------------------------------------------------------------------------
# symmetry operations


def _ops_strategy(nlon, n):
  """Every case applies a rotation, the mirror and their composition (evaluation is cheap once compiled)."""
  k = st.integers(1, max(nlon - 1, 1))
  fixed = st.tuples(k, k).map(lambda kk: [{'kind': 'rot', 'k': kk[0]}, {'kind': 'mirror'},
                                          {'kind': 'rot_mirror', 'k': kk[1]}])
  if n <= 3:
    return fixed
  extra = st.lists(st.fixed_dictionaries({'kind': st.sampled_from(['rot', 'rot_mirror']), 'k': k}),
                   min_size=0, max_size=n - 3)
  return st.tuples(fixed, extra).map(lambda t: t[0] + t[1])


def _op_is_identity(op, nlon):
  return op['kind'] == 'rot' and int(op['k']) % nlon == 0


class Sym:
  """One symmetry operation on a given grid, acting on modal arrays, states and nodal arrays."""

  def __init__(self, grid, op):
    self.grid = grid
    self.rows = sh_oracle.layout_rows(grid)
    self.nlon, self.nlat = grid.longitude_nodes, grid.latitude_nodes
    self.k = int(op.get('k', 0)) if op['kind'] in ('rot', 'rot_mirror') else 0
    self.mirror = op['kind'] in ('mirror', 'rot_mirror')

  def modal(self, x, pseudo=False):
    x = np.asarray(x, dtype=np.float64)
    if self.k:
      x = symmetry.rotate(x, self.rows, self.k * 2 * np.pi / self.nlon)
    if self.mirror:
      x = symmetry.mirror(x, self.rows)
      if pseudo:
        x = -x
    return x

  def nodal(self, z):
    """The same operation on nodal arrays [..., lon, lat] (padding beyond the real nodes is left in place)."""
    z = np.array(z, dtype=np.float64, copy=True)
    core_ = z[..., :self.nlon, :self.nlat]
    if self.k:
      core_ = np.roll(core_, self.k, axis=-2)
    if self.mirror:
      core_ = core_[..., ::-1]
    z[..., :self.nlon, :self.nlat] = core_
    return z

  def tree(self, t):
    """Applies the operation to a state-like pytree (State, StateWithTime, shallow-water State, tuples of them)."""
    if isinstance(t, (tuple, list)) and not hasattr(t, 'asdict'):
      return type(t)(self.tree(e) for e in t)
    ms = tuple(self.grid.modal_shape)

    def leaf(name, a):
      a = np.asarray(a)
      if a.ndim >= 2 and tuple(a.shape[-2:]) == ms:
        return self.modal(a, pseudo=(name == 'vorticity'))
      return a
    d = t.asdict()
    out = {}
    for k_, v in d.items():
      if isinstance(v, dict):
        out[k_] = {n: leaf(n, a) for n, a in v.items()}
      else:
        out[k_] = leaf(k_, v)
    return type(t)(**out)


def _leaves(t, prefix=''):
  """Flat {name: float64 array} of a state-like pytree."""
  if isinstance(t, (tuple, list)) and not hasattr(t, 'asdict'):
    out = {}
    for i, e in enumerate(t):
      out.update(_leaves(e, f'{prefix}{i}/'))
    return out
  out = {}
  for k_, v in t.asdict().items():
    if isinstance(v, dict):
      for n, a in v.items():
        out[f'{prefix}tracers/{n}'] = np.asarray(a, dtype=np.float64)
    else:
      out[prefix + k_] = np.asarray(v, dtype=np.float64)
  return out


def _amplitude(a):
  """Largest |entry| not counting the (0,0) coefficient (means of lnps and T' would otherwise set the scale)."""
  if a.size == 0:
    return 0.0
  b = np.abs(a)
  if a.ndim >= 2:
    b = b.copy()
    b[..., 0, 0] = 0.0
  m = float(b.max())
  return m if m > 0 else float(np.abs(a).max())


def _compare(out, got_tree, want_tree, what, floors=None, **ctx):
  """Leaf-wise comparison; returns a failed Outcome or None."""
  got, want = _leaves(got_tree), _leaves(want_tree)
  for name in want:
    g, w = got[name], want[name]
    key = 'tracers' if 'tracers/' in name else name.split('/')[-1]
    floor = (floors or {}).get(key, 0.0)
    scale = max(_amplitude(w), _amplitude(g), floor)
    err = core.relerr(g, w, scale)
    if not err <= RTOL:
      idx = core.argmax_index(g, w)
      return out.fail(what=what, leaf=name, relerr=err, rtol=RTOL, scale=scale, index=idx,
                      of_transformed_input=float(g[tuple(idx)]) if g.ndim else float(g),
                      transformed_output=float(w[tuple(idx)]) if w.ndim else float(w), **ctx)
  return None


# ----------------------------------------------------------------------------
# sub-check 1: the symmetry maps against nodal roll / flip, equivariance of the transforms themselves


@st.composite
def _maps_case(draw, tier):
  g = draw(gens.grid_configs(kind=draw(st.sampled_from(['any', 'any', 'scalar'])), min_m=1,
                             max_m=16 if tier == 'thorough' else 9,
                             spacings=('gauss', 'equiangular'), allow_radius=False))
  g['nlon'] = max(g['nlon'], g['M'])     # constructor contract of the Fourier basis: nodes >= wavenumbers
  return {'grid': g, 'ops': draw(_ops_strategy(g['nlon'], 3)), 'seed': draw(st.integers(0, 2 ** 16))}


def run_maps(case):
  g = case['grid']
  grid = gens.build_grid(g)
  rows = sh_oracle.layout_rows(grid)
  L, nlon, nlat = grid.total_wavenumbers, grid.longitude_nodes, grid.latitude_nodes
  ops = case['ops']
  labels = gens.grid_labels(g) + sorted({f"op={o['kind']}" for o in ops}) \
      + [f'nlon_parity={"odd" if nlon % 2 else "even"}', 'lon_aliased' if nlon < 2 * g['M'] - 1 else 'lon_resolved']
  # all unit vectors of the admissible modal space
  idx = [(i, l) for i, m in enumerate(rows) if m is not None for l in range(abs(m), L)]
  basis = np.zeros((len(idx),) + tuple(grid.modal_shape))
  for n, (i, l) in enumerate(idx):
    basis[n, i, l] = 1.0
  nodal_basis = np.asarray(grid.to_nodal(basis))
  rng = np.random.default_rng(case['seed'])
  z = np.zeros((3,) + tuple(grid.nodal_shape))
  z[:, :nlon, :nlat] = rng.standard_normal((3, nlon, nlat))     # arbitrary (not band-limited) nodal data
  modal_z = np.asarray(grid.to_modal(z))
  out = Outcome(labels=labels, units=len(idx) * len(ops),
                nontrivial=any(not _op_is_identity(o, nlon) for o in ops) and g['M'] >= 2 and L >= 3)
  scale_n = max(float(np.abs(nodal_basis).max()), 1e-300)
  scale_m = max(float(np.abs(modal_z).max()), 1e-300)
  for op in ops:
    s = Sym(grid, op)
    got = np.asarray(grid.to_nodal(s.modal(basis)))
    want = s.nodal(nodal_basis)
    err = core.relerr(got, want, scale_n)
    if not err <= RTOL_MAP:
      n, i, j = core.argmax_index(got, want)
      return out.fail(what='to_nodal(S e) != roll/flip of to_nodal(e): synthesis is not equivariant (or the '
                           'coefficient-space map disagrees with the grid)', op=op, relerr=err,
                      unit_vector={'row': idx[n][0], 'm': rows[idx[n][0]], 'l': idx[n][1]}, node=[i, j],
                      got=float(got[n, i, j]), want=float(want[n, i, j]))
    got_m = np.asarray(grid.to_modal(s.nodal(z)))
    want_m = s.modal(modal_z)
    err = core.relerr(got_m, want_m, scale_m)
    if not err <= RTOL_MAP:
      n, i, l = core.argmax_index(got_m, want_m)
      return out.fail(what='to_modal(roll/flip z) != S to_modal(z): analysis is not equivariant', op=op, relerr=err,
                      row=i, m=rows[i], l=l, got=float(got_m[n, i, l]), want=float(want_m[n, i, l]))
  return out


# ----------------------------------------------------------------------------
# configurations of the equation sets


@st.composite
def _profile(draw, n):
  kind = draw(st.sampled_from(['constant', 'random']))
  if kind == 'constant':
    return [float(draw(st.integers(200, 320)))] * n
  return [float(draw(st.integers(180, 330))) for _ in range(n)]


@st.composite
def _eq_config(draw, tier, kinds, trajectory):
  big = tier == 'thorough'
  kind = draw(st.sampled_from(list(kinds)))
  gkind = draw(st.sampled_from(['any', 'vector', 'vector', 'quadratic']))
  g = draw(gens.grid_configs(kind=gkind, min_m=3, max_m=10 if big else 6, spacings=('gauss', 'equiangular'),
                             allow_radius=False, max_slack=3))
  if gkind == 'any':   # at least two nodes in each direction so that the operations act
    g['nlon'] = max(g['nlon'], g['M'], 2)    # Fourier basis contract: nodes >= wavenumbers
    g['nlat'] = max(g['nlat'], 2)
  g['radius'] = draw(st.sampled_from([None, 1.0, 2.5]))
  cfg = {'eq': kind, 'grid_rule': gkind, 'grid': g,
         'orography': {'amp': draw(st.sampled_from([0.0, 1.0, 1.0, 3.0])), 'seed': draw(st.integers(0, 999))},
         'consts': {k: draw(st.sampled_from([1.0, 1.0, 0.5, 2.0])) for k in ('R', 'g', 'omega')}}
  if kind == 'sw':
    n = draw(st.integers(1, 3))
    cfg['layers'] = n
    dens = np.cumsum([draw(st.sampled_from([1.0, 0.5, 0.1])) for _ in range(n)])
    cfg['densities'] = [float(v) for v in dens]
    cfg['ref_potential'] = [float(draw(st.sampled_from([0.1, 0.3, 1.0]))) for _ in range(n)]
    fields = ['vorticity', 'divergence', 'potential']
  else:
    b = ([0.0, 1.0] if draw(st.sampled_from([False] * 7 + [True])) else    # a single layer 1 time in 8
         draw(gens.sigma_boundaries(2, 6 if big else 4, kinds=('uneven', 'uneven', 'hybrid', 'equidistant'))))
    n = len(b) - 1
    cfg['boundaries'] = b
    cfg['t_ref'] = draw(_profile(n))
    cfg['tracers'] = ([Q] if kind == 'moist' else []) + draw(st.sampled_from([[], [], ['a']]))
    fields = list(MAG) + cfg['tracers']
  if trajectory:
    cfg['integrator'] = draw(st.sampled_from(['sil3', 'cn_rk2', 'cn_rk3', 'cn_rk4', 'bfe', 'leapfrog']))
    cfg['dt'] = draw(st.sampled_from([0.01, 0.03]))
    cfg['steps'] = [draw(st.integers(2, 3)), draw(st.integers(1, 2))]   # outer, inner: always a multi-step run
    cfg['filters'] = draw(st.sampled_from([[], ['exponential'], ['exponential', 'diffusion'], ['diffusion']]))
    if cfg['integrator'] == 'leapfrog':
      cfg['filters'] = draw(st.sampled_from([[], ['exponential', 'robert_asselin'], ['robert_asselin']]))
  else:
    cfg['eta'] = draw(st.sampled_from([0.02, -0.05, 0.3]))
  inputs = []
  for _ in range(draw(st.integers(1, 4 if big else 3))):
    d = draw(gens.input_descr(fields, n, g['M'], g['L'], g['L'] - 1))
    d['noise_amp'] = draw(st.sampled_from([1.0, 1.0, 0.3, 0.0]))   # simplest example = dense state
    d['amp'] = draw(st.sampled_from([0.1, 1.0, 1.0, 10.0])) if not trajectory else draw(st.sampled_from([0.1, 1.0]))
    inputs.append(d)
  ops = draw(_ops_strategy(g['nlon'], 4 if big else 3))
  return {'config': cfg, 'ops': ops, 'inputs': inputs}


def _specs(consts):
  from dinosaur import primitive_equations as pe
  s = pe.PrimitiveEquationsSpecs.from_si()
  c = {'R': 1.0, 'g': 1.0, 'omega': 1.0}
  c.update(consts or {})
  return dataclasses.replace(s, ideal_gas_constant=s.ideal_gas_constant * c['R'],
                             gravity_acceleration=s.gravity_acceleration * c['g'],
                             angular_velocity=s.angular_velocity * c['omega'])


class _Model:
  """Everything derived from a configuration: grid, coords, equation factory (orography as argument), states."""

  def __init__(self, cfg):
    from dinosaur import coordinate_systems as cs, layer_coordinates as lc, shallow_water as sw
    self.cfg = cfg
    self.kind = cfg['eq']
    self.grid = gens.build_grid(cfg['grid'])
    L = self.grid.total_wavenumbers
    oc = cfg.get('orography') or {'amp': 0.0, 'seed': 0}
    self.has_orography = bool(oc['amp'])
    if self.kind == 'sw':
      self.n = int(cfg['layers'])
      self.coords = cs.CoordinateSystem(self.grid, lc.LayerCoordinates(self.n))
      c = {'g': 1.0, 'omega': 1.0}
      c.update(cfg.get('consts') or {})
      base = sw.ShallowWaterSpecs.from_si()
      self.specs = dataclasses.replace(base, densities=np.asarray(cfg['densities'], dtype=np.float64),
                                       angular_velocity=base.angular_velocity * c['omega'],
                                       gravity_acceleration=base.gravity_acceleration * c['g'])
      oro_amp = 0.02 * float(oc['amp'])     # orography enters as a geopotential
    else:
      vert = gens.build_sigma(cfg['boundaries'])
      self.n = vert.layers
      self.coords = cs.CoordinateSystem(self.grid, vert)
      self.specs = _specs(cfg.get('consts'))
      self.t_ref = np.asarray(cfg['t_ref'], dtype=np.float64)
      from dinosaur import scales
      self.p_mean = float(self.specs.nondimensionalize(1e5 * scales.units.pascal))
      oro_amp = MAG_OROGRAPHY * float(oc['amp'])
    self.orography = gens.modal_field(self.grid, (), {'sparse': [], 'noise_amp': 1.0, 'noise_seed': oc['seed'],
                                                      'slope': 1}, 'orography', lmax=L - 1, amp=oro_amp)

  def equation(self, orography):
    from dinosaur import primitive_equations as pe, shallow_water as sw
    if self.kind == 'sw':
      return sw.ShallowWaterEquations(self.coords, self.specs, orography,
                                      np.asarray(self.cfg['ref_potential'], dtype=np.float64))
    cls = pe.MoistPrimitiveEquations if self.kind == 'moist' else pe.PrimitiveEquations
    return cls(self.t_ref, orography, self.coords, self.specs)

  def forcing(self):
    from dinosaur import held_suarez
    return held_suarez.HeldSuarezForcing(self.coords, self.specs, self.t_ref)

  def state(self, descr):
    from dinosaur import primitive_equations as pe, shallow_water as sw
    grid, n = self.grid, self.n
    amp = float(descr.get('amp', 1.0))
    lmax = grid.total_wavenumbers - 1      # full spectrum incl. the top wavenumber: symmetry needs no clipping
    if self.kind == 'sw':
      f = {k: gens.modal_field(grid, (n,), descr, k, lmax=lmax, zero_mean=True, amp=1e-2 * amp)
           for k in ('vorticity', 'divergence')}
      f['potential'] = gens.modal_field(grid, (n,), descr, 'potential', lmax=lmax, amp=SW_POTENTIAL * amp)
      return sw.State(**f)
    f = {}
    for name, mag in MAG.items():
      prefix = (1,) if name == 'log_surface_pressure' else (n,)
      f[name] = gens.modal_field(grid, prefix, descr, name, lmax=lmax,
                                 zero_mean=name in ('vorticity', 'divergence'), amp=mag * amp)
    # mean surface pressure of 1e5 Pa: irrelevant for the dynamics (only grad lnps enters) but it puts the
    # Held-Suarez equilibrium temperature in its active range (otherwise T_eq == minT everywhere)
    f['log_surface_pressure'][0, 0, 0] += np.log(self.p_mean) * np.sqrt(4 * np.pi)
    tracers = {t: gens.modal_field(grid, (n,), descr, t, lmax=lmax, amp=MAG_TRACER * min(amp, 1.0))
               for t in self.cfg.get('tracers', [])}
    if self.kind == 'moist':
      return pe.StateWithTime(sim_time=0.0, tracers=tracers, **f)
    return pe.State(tracers=tracers, **f)

  def state_floors(self, descr):
    """Natural magnitudes of the state fields (a field that starts at zero only carries rounding noise)."""
    amp = float(descr.get('amp', 1.0))
    f = {k: v * amp for k, v in MAG.items()}
    f.update({'tracers': MAG_TRACER * min(amp, 1.0), 'potential': SW_POTENTIAL * amp, 'sim_time': 1.0})
    if self.kind == 'sw':
      f.update({'vorticity': 1e-2 * amp, 'divergence': 1e-2 * amp})
    return f

  def floors(self, state):
    """Lower bounds for tendency scales ('operator norm x input norm'), see C04: avoids judging rounding noise."""
    L, r = self.grid.total_wavenumbers, float(self.grid.radius)
    z = float(np.max(np.abs(state.vorticity))) + float(np.max(np.abs(state.divergence)))
    om = float(self.specs.angular_velocity)
    oro = float(np.max(np.abs(self.orography)))
    if self.kind == 'sw':
      p = float(np.max(np.abs(state.potential))) + float(np.max(np.abs(self.cfg['ref_potential'])))
      dyn = z * (z + 2 * om) + (L / r) ** 2 * (p + oro)
      return {'vorticity': dyn, 'divergence': dyn, 'potential': p * z}
    tabs = float(np.max(np.abs(self.t_ref))) + float(np.max(np.abs(state.temperature_variation)))
    lsp = np.array(state.log_surface_pressure, dtype=np.float64)
    lsp[..., 0, 0] = 0.0
    lsp = float(np.max(np.abs(lsp)))
    dyn = z * (z + 2 * om) + (L / r) ** 2 * (self.specs.R * tabs * (1 + lsp) + self.specs.g * oro)
    q = max([float(np.max(np.abs(v))) for v in getattr(state, 'tracers', {}).values()] + [0.0])
    return {'vorticity': dyn, 'divergence': dyn, 'temperature_variation': tabs * (z + 1e-3),
            'log_surface_pressure': z, 'tracers': q * z, 'sim_time': 1.0}


def _labels(cfg, ops, inputs):
  g = cfg['grid']
  labs = [f"eq={cfg['eq']}", f"grid_rule={cfg['grid_rule']}"] + gens.grid_labels(g) \
      + [f'nlon_parity={"odd" if g["nlon"] % 2 else "even"}',
         'orography=yes' if cfg['orography']['amp'] else 'orography=no'] \
      + sorted({f"op={o['kind']}" for o in ops})
  if cfg['eq'] == 'sw':
    labs.append(f"layers={cfg['layers']}")
  else:
    labs += gens.sigma_labels(cfg['boundaries'])
  for key in ('integrator',):
    if key in cfg:
      labs.append(f'{key}={cfg[key]}')
  if 'filters' in cfg:
    labs.append('filters=' + ('+'.join(cfg['filters']) or 'none'))
  return labs


def _nontrivial(model, ops, states):
  nlon = model.grid.longitude_nodes
  if all(_op_is_identity(o, nlon) for o in ops):
    return False
  rows = sh_oracle.layout_rows(model.grid)
  signs = symmetry.mirror_signs(rows, model.grid.modal_shape[1])
  has_m = np.array([m is not None and m != 0 for m in rows])[:, None]
  for s in states:
    x = np.abs(np.asarray(s.vorticity)).sum(axis=0) + np.abs(np.asarray(s.divergence)).sum(axis=0)
    nz = (x != 0) & has_m
    if np.any(nz & (signs > 0)) and np.any(nz & (signs < 0)):
      return True
  return False


# ----------------------------------------------------------------------------
# sub-check 2: tendencies and the implicit solve


def run_tendencies(case):
  import jax
  cfg, ops, inputs = case['config'], case['ops'], case['inputs']
  model = _Model(cfg)
  kind = model.kind
  eta = float(cfg.get('eta', 0.02))

  def all_terms(oro, s):
    eq = model.equation(oro)
    res = {'explicit_terms': eq.explicit_terms(s), 'implicit_terms': eq.implicit_terms(s),
           'implicit_inverse': eq.implicit_inverse(s, eta)}
    if kind != 'sw':      # the Held-Suarez forcing of the same state (cheap: shares the compilation)
      res['held_suarez_explicit_terms'] = model.forcing().explicit_terms(s)
    return res
  fn = jax.jit(all_terms)

  states = [model.state(d) for d in inputs]
  out = Outcome(labels=_labels(cfg, ops, inputs), units=len(states) * len(ops),
                nontrivial=_nontrivial(model, ops, states))
  syms = [Sym(model.grid, op) for op in ops]
  for i, s in enumerate(states):
    base = fn(model.orography, s)
    floors = model.floors(s)
    for op, sym in zip(ops, syms):
      got = fn(sym.modal(model.orography), sym.tree(s))
      for name in base:
        fl = floors if name != 'implicit_inverse' else model.state_floors(inputs[i])
        bad = _compare(out, got[name], sym.tree(base[name]), f'{name}(S x; S orography) != S {name}(x)', fl,
                       op=op, input=i, equation=cfg['eq'])
        if bad is not None:
          return bad
  # history: an equation object that has already been evaluated is copied and re-configured with the transformed
  # orography (the equation classes are plain mutable dataclasses); it must behave like a freshly built one --
  # nothing derived from the old orography may survive on the copy
  if model.has_orography and states and ops:
    import copy
    s0, sym0 = states[0], syms[0]
    eq0 = model.equation(model.orography)
    t0 = eq0.explicit_terms(s0)
    eq1 = copy.copy(eq0)
    eq1.orography = sym0.modal(model.orography)
    got = eq1.explicit_terms(sym0.tree(s0))
    bad = _compare(out, got, sym0.tree(t0), 'explicit_terms of a copied, re-configured equation object '
                   '(S x; S orography) != S explicit_terms(x)', model.floors(s0), op=ops[0], input=0,
                   equation=cfg['eq'])
    if bad is not None:
      return bad
    out.labels = list(out.labels) + ['reconfigured_copy_checked']
    out.units += 1
  return out


# ----------------------------------------------------------------------------
# sub-check 3: trajectories (integrators + filters)


def _step_fn(model, cfg, eq):
  from dinosaur import time_integration as ti
  dt = float(cfg['dt'])
  integ = {'sil3': ti.imex_rk_sil3, 'cn_rk2': ti.crank_nicolson_rk2, 'cn_rk3': ti.crank_nicolson_rk3,
           'cn_rk4': ti.crank_nicolson_rk4, 'bfe': ti.backward_forward_euler,
           'leapfrog': ti.semi_implicit_leapfrog}[cfg['integrator']]
  step = integ(eq, dt)
  filters = []
  leap = cfg['integrator'] == 'leapfrog'
  for f in cfg.get('filters', []):
    if f == 'exponential':
      filters.append((ti.exponential_leapfrog_step_filter if leap else ti.exponential_step_filter)(
          model.grid, dt, tau=0.05, order=3))
    elif f == 'diffusion':
      filters.append(ti.horizontal_diffusion_step_filter(model.grid, dt, tau=0.1, order=2))
    elif f == 'robert_asselin':
      filters.append(ti.robert_asselin_leapfrog_filter(0.05))
  return ti.step_with_filters(step, filters)


def run_trajectory(case):
  import jax
  from dinosaur import time_integration as ti
  cfg, ops, inputs = case['config'], case['ops'], case['inputs']
  model = _Model(cfg)
  outer, inner = int(cfg['steps'][0]), int(cfg['steps'][1])
  leap = cfg['integrator'] == 'leapfrog'

  def traj(oro, s):
    eq = model.equation(oro)
    f = ti.trajectory_from_step(_step_fn(model, cfg, eq), outer, inner)
    return f(s)
  fn = jax.jit(traj)

  states = [model.state(d) for d in inputs]
  out = Outcome(labels=_labels(cfg, ops, inputs) + [f'steps={outer * inner}'], units=len(states) * len(ops),
                nontrivial=_nontrivial(model, ops, states) and outer * inner >= 2)
  syms = [Sym(model.grid, op) for op in ops]
  for i, s in enumerate(states):
    if leap:   # leapfrog state = (previous, current): an independent second snapshot close to the first
      d2 = dict(inputs[i])
      d2['noise_seed'] = int(d2.get('noise_seed', 0)) + 1
      d2['amp'] = 0.02 * float(d2.get('amp', 1.0))
      s2 = model.state(d2)
      s = (s, jax.tree_util.tree_map(lambda a, b: np.asarray(a) + np.asarray(b), s, s2))
    final, frames = fn(model.orography, s)
    if not all(np.all(np.isfinite(v)) for v in _leaves(final).values()):
      return Outcome(skipped=True)     # unstable configuration (not produced by the generator's dt range)
    for op, sym in zip(ops, syms):
      final_s, frames_s = fn(sym.modal(model.orography), sym.tree(s))
      for name, g_, w_ in (('final state', final_s, final), ('trajectory frames', frames_s, frames)):
        bad = _compare(out, g_, sym.tree(w_), f'{name} of the transformed initial state != transformed {name}',
                       model.state_floors(inputs[i]), op=op, input=i, equation=cfg['eq'], integrator=cfg['integrator'],
                       filters=cfg.get('filters'))
        if bad is not None:
          return bad
  return out


SUBCHECKS = [
    Subcheck('symmetry_maps_vs_nodal', run_maps, strategy=lambda tier: _maps_case(tier),
             examples={'quick': 80, 'thorough': 600}, shards={'quick': 1, 'thorough': 4},
             wall={'quick': 420.0, 'thorough': 900.0},
             rule='non-trivial = some operation is not the identity and the grid has M >= 2, L >= 3',
             doc='coefficient-space rotation / mirror == np.roll / [::-1] of to_nodal for all unit vectors; '
                 'to_modal of rolled/flipped arbitrary nodal data == transformed to_modal', weight=1),
    Subcheck('tendency_equivariance_pe', run_tendencies,
             strategy=lambda tier: _eq_config(tier, ('dry', 'moist'), False),
             examples={'quick': 48, 'thorough': 600}, shards={'quick': 3, 'thorough': 8},
             wall={'quick': 420.0, 'thorough': 1500.0},
             rule='non-trivial = a non-identity operation and a state with m >= 1 components of both parities of l+m',
             doc='explicit_terms, implicit_terms, implicit_inverse of the dry / moist primitive equations and the '
                 'Held-Suarez forcing of the same state commute with S', weight=3),
    Subcheck('tendency_equivariance_sw', run_tendencies,
             strategy=lambda tier: _eq_config(tier, ('sw',), False),
             examples={'quick': 24, 'thorough': 300}, shards={'quick': 1, 'thorough': 3},
             wall={'quick': 420.0, 'thorough': 1500.0},
             rule='non-trivial = as tendency_equivariance_pe',
             doc='the same for the 1-3 layer shallow-water equations with orography', weight=2),
    Subcheck('trajectory_equivariance_pe', run_trajectory,
             strategy=lambda tier: _eq_config(tier, ('dry', 'moist'), True),
             examples={'quick': 36, 'thorough': 300}, shards={'quick': 3, 'thorough': 8},
             wall={'quick': 420.0, 'thorough': 1500.0},
             rule='non-trivial = as above and at least 2 steps',
             doc='n-step trajectories (6 integrators, with filters) of S x equal S applied to the trajectory of x',
             weight=3),
    Subcheck('trajectory_equivariance_sw', run_trajectory,
             strategy=lambda tier: _eq_config(tier, ('sw',), True),
             examples={'quick': 20, 'thorough': 200}, shards={'quick': 1, 'thorough': 3},
             wall={'quick': 420.0, 'thorough': 1500.0},
             rule='non-trivial = as above and at least 2 steps',
             doc='the same for shallow water (incl. filtered leapfrog)', weight=2),
]
