"""Hypothesis / enumeration drivers with case recording, budgeted shrinking.

Every run is a pure function of the code under test and of VERIF_SEED: the
Hypothesis test is decorated with @seed(N), database=None, derandomize=False.
Wall-clock budgets only truncate how many cases are evaluated (reported as
`budget_truncated`), they never decide pass/fail.
"""
from __future__ import annotations

import collections
import os
import random
import time
import traceback
import zlib

import hypothesis
from hypothesis import HealthCheck, Phase, given, settings

from vf import core


class Recorder:
  """Collects what a sub-check run actually explored."""

  def __init__(self, max_samples=6):
    self.cases = 0
    self.units = 0
    self.nontrivial = set()
    self.distinct = set()
    self.labels = collections.Counter()
    self.samples = []
    self.failures = []          # (size, case, detail)
    self.known = collections.Counter()
    self.known_samples = {}
    self.excluded_known = 0
    self.skipped = 0
    self.budget_truncated = False
    self.max_samples = max_samples
    self._sample_rng = random.Random(0)   # reservoir sampling of recorded cases (not input generation)

  def record(self, case, out: core.Outcome):
    h = core.case_hash(case)
    if out.skipped:
      self.skipped += 1
      return
    self.cases += 1
    self.units += max(int(out.units), 0)
    self.excluded_known += out.excluded_known
    first_time = h not in self.distinct
    self.distinct.add(h)
    if out.nontrivial:
      self.nontrivial.add(h)
    if first_time:
      for lab in out.labels:
        self.labels[str(lab)] += 1
      js = core.to_jsonable(case)
      if len(self.samples) < self.max_samples:
        self.samples.append(js)
      else:
        k = self._sample_rng.randrange(self.cases)
        if 1 <= k < self.max_samples:   # keep the first sample forever
          self.samples[k] = js
    if not out.ok:
      if out.known:
        self.known[out.known] += 1
        self.known_samples.setdefault(out.known, core.to_jsonable(case))
      else:
        self.failures.append((len(core.canon(case)), core.to_jsonable(case), out.detail))

  def result(self):
    fails = sorted(self.failures, key=lambda t: t[0])
    return {
        'cases': self.cases,
        'units': self.units,
        'distinct': len(self.distinct),
        'nontrivial_hashes': sorted(self.nontrivial),
        'labels': dict(self.labels),
        'samples': self.samples,
        'failures': [{'case': c, 'detail': d} for _, c, d in fails[:3]],
        'n_failing_evaluations': len(fails),
        'known': dict(self.known),
        'known_samples': self.known_samples,
        'excluded_known': self.excluded_known,
        'skipped': self.skipped,
        'budget_truncated': self.budget_truncated,
    }


class _Violated(Exception):
  """Raised by the Hypothesis test body for a recorded property violation (never by code under test)."""


def _raised_below_code_under_test(tb) -> bool:
  """True if the exception was raised beneath a call from the harness into the repository's code."""
  repo = os.path.realpath(os.environ.get('VERIF_REPO', '/repo'))
  here = os.path.dirname(os.path.realpath(__file__))
  last_harness, last_repo = -1, -1
  for i, fs in enumerate(traceback.extract_tb(tb)):
    fn = os.path.realpath(fs.filename)
    if fn.startswith(here):
      last_harness = i
    elif fn.startswith(repo + os.sep):
      last_repo = i
  return last_repo > last_harness


def _safe_run(sub: core.Subcheck, case):
  """Runs a case. Exceptions raised from inside the code under test on a generated (admissible) input are
  violations ('raised instead of returning'); exceptions raised by harness code itself are harness errors."""
  try:
    return sub.run(case)
  except Exception as e:   # pylint: disable=broad-except
    if sub.raises_are_violations or _raised_below_code_under_test(e.__traceback__):
      tb = traceback.format_exc(limit=-8)
      return core.Outcome(ok=False, detail={'what': 'code under test raised on an admissible input',
                                            'raised': repr(e)[:500], 'traceback': tb[-2000:]})
    raise


def drive_enumeration(sub: core.Subcheck, tier: str, seed: int, shard: int, nshards: int):
  rec = Recorder()
  t0 = time.time()
  cases = list(sub.cases(tier))
  rec.total_enumerated = len(cases)
  for i, case in enumerate(cases):
    if i % nshards != shard:
      continue
    if time.time() - t0 > sub.wall[tier]:
      rec.budget_truncated = True
      break
    rec.record(case, _safe_run(sub, case))
  res = rec.result()
  res['exhaustive'] = not rec.budget_truncated
  res['enumerated'] = len(cases)
  return res


def drive_hypothesis(sub: core.Subcheck, tier: str, seed: int, shard: int, nshards: int,
                     shrink_budget: float | None = None):
  rec = Recorder()
  t0 = time.time()
  wall = sub.wall[tier]
  if shrink_budget is None:
    shrink_budget = 45.0 if tier == 'quick' else 300.0
  state = {'first_fail': None}
  n_examples = max(1, int(sub.examples[tier]) // nshards)
  # distinct stream per sub-check and shard (stable: crc32, not hash())
  eff_seed = seed * 1000003 + shard * 7919 + 1 + (zlib.crc32(sub.name.encode()) % 100000) * 131

  @hypothesis.seed(eff_seed)
  @settings(
      max_examples=n_examples,
      database=None,
      deadline=None,
      derandomize=False,
      report_multiple_bugs=False,
      print_blob=False,
      suppress_health_check=[HealthCheck.too_slow, HealthCheck.data_too_large,
                             HealthCheck.large_base_example],
      phases=[Phase.generate, Phase.shrink],
  )
  @given(sub.strategy(tier))
  def test(case):
    now = time.time()
    if state['first_fail'] is None:
      if now - t0 > wall:
        rec.budget_truncated = True
        return
    elif now - state['first_fail'] > shrink_budget:
      return   # stop shrinking: body no longer fails -> Hypothesis reports Flaky, caught below
    out = _safe_run(sub, case)
    rec.record(case, out)
    if not out.ok and not out.known:
      if state['first_fail'] is None:
        state['first_fail'] = time.time()
      raise _Violated('property violated')

  try:
    test()
  except _Violated:
    pass
  except BaseException as e:   # Flaky / FlakyFailure / exception groups after the budget cut
    if not rec.failures:
      raise
    name = type(e).__name__
    if 'Flaky' not in name and 'ExceptionGroup' not in name and 'Unsatisfiable' not in name:
      raise
  res = rec.result()
  res['exhaustive'] = False
  res['hypothesis_seed'] = eff_seed
  res['max_examples'] = n_examples
  return res
