"""Runs one sub-check shard (or one replay) in a fresh process and writes a JSON result."""
from __future__ import annotations

import importlib
import json
import os
import sys
import time
import traceback


def _prepare_env():
  os.environ.setdefault('JAX_PLATFORMS', 'cpu')
  os.environ.setdefault('PYTHONHASHSEED', '0')
  here = os.path.dirname(os.path.dirname(os.path.abspath(__file__)))
  repo = os.environ.get('VERIF_REPO', '/repo')
  # the current working tree of the repository first, third-party tooling last
  sys.path.insert(0, repo)
  deps = os.path.join(here, '.deps')
  if deps not in sys.path:
    sys.path.append(deps)


def load_property(pid: str):
  return importlib.import_module(f'vf.props.{pid.lower()}')


def find_sub(mod, name):
  for s in mod.SUBCHECKS:
    if s.name == name:
      return s
  raise KeyError(f'no sub-check {name!r} in {mod.__name__}')


def main(argv):
  _prepare_env()
  mode = argv[0]
  if mode == 'run':
    pid, name, tier, seed, shard, nshards, out = argv[1:8]
    seed, shard, nshards = int(seed), int(shard), int(nshards)
    t0 = time.time()
    res = {'subcheck': name, 'shard': shard, 'error': None}
    try:
      import jax
      jax.config.update('jax_enable_x64', True)
      from vf import hypo
      mod = load_property(pid)
      sub = find_sub(mod, name)
      if sub.cases is not None:
        r = hypo.drive_enumeration(sub, tier, seed, shard, nshards)
      else:
        r = hypo.drive_hypothesis(sub, tier, seed, shard, nshards)
      res.update(r)
      res['rule'] = sub.rule
      res['kind'] = 'enumeration' if sub.cases is not None else 'hypothesis'
    except BaseException:   # pylint: disable=broad-except
      res['error'] = traceback.format_exc()[-4000:]
    res['wall_s'] = time.time() - t0
    with open(out, 'w') as f:
      json.dump(res, f)
    return 0
  if mode == 'replay':
    pid, path, out = argv[1:4]
    res = {'error': None}
    try:
      import jax
      jax.config.update('jax_enable_x64', True)
      from vf import hypo
      rep = json.load(open(path))
      mod = load_property(pid)
      sub = find_sub(mod, rep['subcheck'])
      o = hypo._safe_run(sub, rep['case'])   # pylint: disable=protected-access
      res.update({'ok': bool(o.ok), 'known': o.known, 'detail': o.detail,
                  'skipped': o.skipped, 'subcheck': rep['subcheck']})
    except BaseException:   # pylint: disable=broad-except
      res['error'] = traceback.format_exc()[-4000:]
    with open(out, 'w') as f:
      json.dump(res, f)
    return 0
  raise SystemExit(f'unknown mode {mode}')


if __name__ == '__main__':
  sys.exit(main(sys.argv[1:]))
