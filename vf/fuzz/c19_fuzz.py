"""Coverage-guided (Atheris/libFuzzer) driver for the two pure-Python structural parts of C19.

Run as:  python -m vf.fuzz.c19_fuzz <target> <outdir> <corpusdir> -runs=N -seed=S [-max_len=..]
The libFuzzer byte string is decoded into a structured case by Hypothesis's `fuzz_one_input` using the *same*
strategies and the same oracle (`run_flatten` / `run_pytree`) as the Hypothesis sub-checks, so the semantic oracle
sits inside the fuzz target. On the first failing case the case is written to <outdir>/failure.json and the
process exits with status 7. Counters go to <outdir>/stats.json.
"""
import json
import os
import sys

HERE = os.path.dirname(os.path.dirname(os.path.dirname(os.path.abspath(__file__))))
sys.path.insert(0, os.environ.get('VERIF_REPO', '/repo'))
sys.path.insert(1, HERE)
sys.path.append(os.path.join(HERE, '.deps'))
os.environ.setdefault('JAX_PLATFORMS', 'cpu')

import atheris  # noqa: E402

target, outdir, corpus = sys.argv[1:4]
libfuzzer_args = sys.argv[4:]
N_RUNS = max([int(a.split('=')[1]) for a in libfuzzer_args if a.startswith('-runs=')] + [0])

with atheris.instrument_imports(include=['dinosaur.pytree_utils']):
  from dinosaur import pytree_utils  # noqa: F401,E402

import jax  # noqa: E402
jax.config.update('jax_enable_x64', True)
from hypothesis import HealthCheck, given, settings  # noqa: E402
from vf import core  # noqa: E402
from vf.props import c19  # noqa: E402

stats = {'executions': 0, 'valid_cases': 0, 'nontrivial': 0, 'distinct_nontrivial': 0}
seen = set()
samples = []

if target == 'flatten':
  strategy, run = c19._flatten_strategy('thorough'), c19.run_flatten   # pylint: disable=protected-access
else:
  strategy, run = c19._pytree_case(), c19.run_pytree   # pylint: disable=protected-access


def _dump():
  with open(os.path.join(outdir, 'stats.json'), 'w') as f:
    json.dump(dict(stats, samples=samples), f)


@settings(database=None, deadline=None, suppress_health_check=list(HealthCheck))
@given(strategy)
def test(case):
  stats['valid_cases'] += 1
  try:
    out = run(case)
    failed = not out.ok
    detail = out.detail
  except Exception as e:   # the contract of these utilities: admissible trees never raise
    failed, detail, out = True, {'raised': repr(e)[:400]}, None
  if out is not None and out.nontrivial:
    stats['nontrivial'] += 1
    h = core.case_hash(case)
    if h not in seen:
      seen.add(h)
      stats['distinct_nontrivial'] = len(seen)
      if len(samples) < 3:
        samples.append(core.to_jsonable(case))
  if failed:
    with open(os.path.join(outdir, 'failure.json'), 'w') as f:
      json.dump({'case': core.to_jsonable(case), 'detail': detail}, f)
    _dump()
    sys.stdout.flush()
    os._exit(7)


def one(data):
  stats['executions'] += 1
  test.hypothesis.fuzz_one_input(data)
  if stats['executions'] % 100 == 0 or stats['executions'] >= N_RUNS - 1:
    _dump()


atheris.Setup([sys.argv[0]] + libfuzzer_args + [corpus], one)
try:
  atheris.Fuzz()
finally:
  _dump()
