"""./check <ID> [--tier quick|thorough] [--replay FILE] [--only SUBCHECK]

Exit codes: 0 property held on everything explored (known findings are
reported with KNOWN-FINDING lines), 1 violation (VIOLATION line with replay
path), 2 harness error.
"""
from __future__ import annotations

import argparse
import concurrent.futures
import glob
import json
import os
import subprocess
import sys
import tempfile
import time

HERE = os.path.dirname(os.path.dirname(os.path.abspath(__file__)))
PY = '/venv/bin/python'


def _env(extra=None, devices=1):
  env = dict(os.environ)
  env['PYTHONHASHSEED'] = '0'
  env['JAX_PLATFORMS'] = 'cpu'
  repo = env.get('VERIF_REPO', '/repo')
  env['PYTHONPATH'] = os.pathsep.join([repo, HERE])
  env['PYTHONDONTWRITEBYTECODE'] = '1'
  flags = []
  if devices > 1:
    flags.append(f'--xla_force_host_platform_device_count={devices}')
  flags.append('--xla_cpu_multi_thread_eigen=false')
  flags.append('intra_op_parallelism_threads=2')
  env['XLA_FLAGS'] = ' '.join(flags)
  for k in ('OMP_NUM_THREADS', 'OPENBLAS_NUM_THREADS', 'MKL_NUM_THREADS'):
    env[k] = '2'
  env['DINOSAUR_VERIF'] = '1'
  if extra:
    env.update(extra)
  return env


def ensure_setup():
  if not os.path.exists(os.path.join(HERE, '.deps', '.ok')):
    r = subprocess.run(['/bin/sh', os.path.join(HERE, 'setup.sh')], capture_output=True, text=True)
    if r.returncode != 0:
      print('harness error: setup failed\n' + r.stdout + r.stderr)
      sys.exit(2)


def _worker(args, env, timeout):
  try:
    r = subprocess.run([PY, '-m', 'vf.worker'] + args, cwd=HERE, env=env,
                       capture_output=True, text=True, timeout=timeout)
    return r.returncode, (r.stdout[-3000:] + r.stderr[-3000:])
  except subprocess.TimeoutExpired:
    return 124, 'worker timed out'


def load_known():
  p = os.path.join(HERE, 'known_findings.json')
  if not os.path.exists(p):
    return []
  return json.load(open(p))['findings']


def write_replay(pid, subcheck, case, detail, seed):
  from vf import core
  os.makedirs(os.path.join(HERE, 'replays'), exist_ok=True)
  path = os.path.join(HERE, 'replays', f'{pid}-{subcheck}-{core.case_hash(case)}.json')
  with open(path, 'w') as f:
    json.dump({'property': pid, 'subcheck': subcheck, 'seed': seed, 'case': case,
               'observed': detail}, f, indent=1)
  return path


def do_replay(pid, path):
  ensure_setup()
  with tempfile.TemporaryDirectory(prefix='vfrun-', dir=_workdir()) as td:
    out = os.path.join(td, 'r.json')
    mod = _load_prop(pid)
    rep = json.load(open(path))
    sub = [s for s in mod.SUBCHECKS if s.name == rep['subcheck']]
    env = _env(sub[0].env if sub else None, devices=int((sub[0].env if sub else {}).get('VF_DEVICES', 1)))
    rc, log = _worker(['replay', pid, os.path.abspath(path), out], env, 3600)
    if not os.path.exists(out):
      print('harness error: replay worker died\n' + log)
      return 2
    res = json.load(open(out))
  if res.get('error'):
    print('harness error during replay:\n' + res['error'])
    return 2
  if res['ok']:
    print(f'ok property={pid} replay={path} (case passes)')
    return 0
  if res.get('known'):
    print(f'KNOWN-FINDING: property={pid} {res["known"]} (replay {path})')
    return 0
  print(json.dumps(res.get('detail'))[:2000])
  print(f'VIOLATION property={pid} replay={path}')
  return 1


def _workdir():
  d = os.path.join(HERE, '.work')
  os.makedirs(d, exist_ok=True)
  return d


def _load_prop(pid):
  sys.path.insert(0, os.environ.get('VERIF_REPO', '/repo'))
  if HERE not in sys.path:
    sys.path.insert(1, HERE)
  deps = os.path.join(HERE, '.deps')
  if deps not in sys.path:
    sys.path.append(deps)
  os.environ.setdefault('JAX_PLATFORMS', 'cpu')
  import importlib
  return importlib.import_module(f'vf.props.{pid.lower()}')


def main(argv=None):
  ap = argparse.ArgumentParser()
  ap.add_argument('pid')
  ap.add_argument('--tier', default=os.environ.get('VERIF_TIER', 'quick'), choices=['quick', 'thorough'])
  ap.add_argument('--replay')
  ap.add_argument('--only', action='append')
  ap.add_argument('--jobs', type=int, default=int(os.environ.get('VERIF_JOBS', '14')))
  ap.add_argument('--no-evidence', action='store_true')
  a = ap.parse_args(argv)
  pid = a.pid.upper()
  seed = int(os.environ.get('VERIF_SEED', '1') or '1')
  if a.replay:
    return do_replay(pid, a.replay)

  ensure_setup()
  t0 = time.time()
  try:
    mod = _load_prop(pid)
  except Exception:   # pylint: disable=broad-except
    import traceback
    print('harness error: cannot import property module\n' + traceback.format_exc())
    return 2
  from vf import core, evidence
  subs = [s for s in mod.SUBCHECKS if not a.only or s.name in a.only]
  tier = a.tier
  tasks = []
  td_obj = tempfile.TemporaryDirectory(prefix='vfrun-', dir=_workdir())
  td = td_obj.name
  for s in sorted(subs, key=lambda s: -s.weight):
    n = int(s.shards.get(tier, 1))
    for i in range(n):
      out = os.path.join(td, f'{s.name}.{i}.json')
      tasks.append((s, i, n, out))
  regress_files = sorted(glob.glob(os.path.join(HERE, 'regress', pid, '*.json')))

  def run_task(t):
    s, i, n, out = t
    env = _env(s.env, devices=int(s.env.get('VF_DEVICES', 1)))
    rc, log = _worker(['run', pid, s.name, tier, str(seed), str(i), str(n), out], env,
                      timeout=s.wall[tier] * 3 + 900)
    if not os.path.exists(out):
      return {'subcheck': s.name, 'shard': i, 'error': f'worker died rc={rc}\n{log}'}
    return json.load(open(out))

  def run_regress(path):
    out = os.path.join(td, 'regress-' + os.path.basename(path))
    rep = json.load(open(path))
    s = [x for x in mod.SUBCHECKS if x.name == rep['subcheck']]
    env = _env(s[0].env if s else None, devices=int((s[0].env if s else {}).get('VF_DEVICES', 1)))
    rc, log = _worker(['replay', pid, path, out], env, 1800)
    if not os.path.exists(out):
      return path, {'error': f'worker died rc={rc}\n{log}'}
    return path, json.load(open(out))

  results, regress_results = [], []
  with concurrent.futures.ThreadPoolExecutor(max_workers=a.jobs) as ex:
    futs = [ex.submit(run_task, t) for t in tasks]
    rfuts = [ex.submit(run_regress, p) for p in regress_files] if not a.only else []
    for f in futs:
      results.append(f.result())
    for f in rfuts:
      regress_results.append(f.result())
  td_obj.cleanup()

  errors = [r for r in results if r.get('error')]
  errors += [{'subcheck': os.path.basename(p), 'error': r['error']} for p, r in regress_results if r.get('error')]
  if errors:
    for e in errors:
      print(f'harness error in {e.get("subcheck")}:\n{e["error"]}')
    return 2

  known_entries = {k['id']: k for k in load_known() if k['property'] == pid}
  violations, known_seen = [], {}
  # regression cases first
  for path, r in regress_results:
    rep = json.load(open(path))
    if r['ok']:
      continue
    if r.get('known') and known_entries.get(r['known'], {}).get('status') == 'known':
      known_seen[r['known']] = known_seen.get(r['known'], 0) + 1
      continue
    rp = write_replay(pid, rep['subcheck'], rep['case'], r.get('detail'), seed)
    violations.append((rep['subcheck'], rp, r.get('detail')))
  for r in results:
    for kid, cnt in r.get('known', {}).items():
      if known_entries.get(kid, {}).get('status') == 'known':
        known_seen[kid] = known_seen.get(kid, 0) + cnt
      else:   # a failure attributed to something that is not a listed known finding is a violation
        case = r['known_samples'][kid]
        rp = write_replay(pid, r['subcheck'], case, {'unlisted_known_id': kid}, seed)
        violations.append((r['subcheck'], rp, {'unlisted_known_id': kid}))
    if r.get('failures'):
      f0 = r['failures'][0]
      ras = (f0.get('detail') or {}).get('replay_as') if isinstance(f0.get('detail'), dict) else None
      if ras:   # e.g. a fuzz campaign: the replayable unit is the failing input, not the campaign
        rp = write_replay(pid, ras['subcheck'], ras['case'], f0['detail'].get('detail'), seed)
      else:
        rp = write_replay(pid, r['subcheck'], f0['case'], f0['detail'], seed)
      violations.append((r['subcheck'], rp, f0['detail']))

  wall = time.time() - t0
  if not a.no_evidence and not a.only:
    try:
      evidence.write(pid, tier, seed, mod, subs, results, regress_results, violations,
                     known_seen, wall)
    except Exception:   # pylint: disable=broad-except
      import traceback
      print('harness error: evidence\n' + traceback.format_exc())
      return 2

  for s in subs:
    rs = [r for r in results if r['subcheck'] == s.name]
    c = sum(r['cases'] for r in rs)
    u = sum(r['units'] for r in rs)
    nt = len(set(h for r in rs for h in r['nontrivial_hashes']))
    tr = any(r['budget_truncated'] for r in rs)
    w = max(r['wall_s'] for r in rs)
    print(f'  {pid}.{s.name}: cases={c} units={u} nontrivial={nt} wall={w:.0f}s'
          + (' [budget-truncated]' if tr else ''))
  for kid, cnt in sorted(known_seen.items()):
    print(f'KNOWN-FINDING: property={pid} {known_entries[kid]["what"]} (observed {cnt}x this run)')
  for kid, k in known_entries.items():
    if k['status'] == 'known' and kid not in known_seen:
      print(f'note: listed known finding {kid} was not observed in this run')
  if violations:
    for name, rp, det in violations:
      print(f'  failing sub-check {name}: {json.dumps(det)[:1500]}')
      print(f'VIOLATION property={pid} replay={rp}')
    return 1
  print(f'OK property={pid} tier={tier} seed={seed} wall={wall:.0f}s')
  return 0


if __name__ == '__main__':
  sys.exit(main())
