"""Weak-form reference of the layered shallow-water equations on the sphere (DESIGN.md, Appendix A).

Independent of dinosaur. Layer i counted from the top, densities rho (non-decreasing downwards):

    p_i   = sum_{j<i} (rho_j/rho_i) phi_j + sum_{j>i} phi_j + orography_potential    (hydrostatic pressure / rho_i
                                                                                    without the layer's own phi_i)
    F     = (zeta+f) (U, V),  f = 2 Omega sin(lat),  KE = (U^2+V^2) / (2 cos^2)
    dzeta/dt  = <grad Y . F>                                            = -div((zeta+f) v)
    ddelta/dt = -<grad Y . (F_v, -F_u)> - lap_l <Y (p_i + KE + phi_i)>  = k.curl((zeta+f) v) - lap(p + KE + phi)
    dphi/dt   = <grad Y . (phi U, phi V)> - mean_phi_i <Y delta>        = -div(phi v) - mean_phi delta

The physical density matrix is used (the `get_density_ratios` docstring states its transpose).
"""
from __future__ import annotations

import numpy as np


def density_matrix(densities):
  """D[i][j] multiplying phi_j in the pressure of layer i (own layer excluded)."""
  n = len(densities)
  D = np.zeros((n, n))
  for i in range(n):
    for j in range(n):
      if j < i:
        D[i, j] = float(densities[j]) / float(densities[i])   # lighter layers above press with their own weight
      elif j > i:
        D[i, j] = 1.0                                          # layers below lift the interface
  return D


def tendencies(P, prm, st):
  """P: weakform_common.Projector; prm: {omega, densities, ref_potential[n], orography[nk] or None};
  st: {vorticity, divergence, potential} each [n, nk].  Returns (total, terms, floors):
  total[leaf] [n, nk]; terms[leaf][name] [n, nk] individual contributions; floors[leaf] magnitude of a generic
  individual term (field amplitude x rate) used as the lower bound of the comparison scale."""
  vor, div, pot = (np.asarray(st[k], dtype=np.float64) for k in ('vorticity', 'divergence', 'potential'))
  n = vor.shape[0]
  a = P.a
  f = 2.0 * float(prm['omega']) * P.mu
  D = density_matrix(prm['densities'])
  ref = [float(v) for v in prm['ref_potential']]
  oro = P.value(prm['orography']) if prm.get('orography') is not None else np.zeros(P.shape)
  Z = P.value(vor)
  Dv = P.value(div)
  Ph = P.value(pot)
  U, V = P.wind(vor, div)
  terms = {'vorticity': {}, 'divergence': {}, 'potential': {}}

  def per_layer(fn):
    return np.stack([fn(i) for i in range(n)])

  terms['vorticity']['planetary_vorticity_flux'] = per_layer(lambda i: P.pgrad(f * U[i], f * V[i]))
  terms['vorticity']['relative_vorticity_flux'] = per_layer(lambda i: P.pgrad(Z[i] * U[i], Z[i] * V[i]))
  terms['divergence']['coriolis'] = per_layer(lambda i: -P.pgrad(f * V[i], -f * U[i]))
  terms['divergence']['relative_vorticity'] = per_layer(lambda i: -P.pgrad(Z[i] * V[i], -Z[i] * U[i]))
  terms['divergence']['kinetic_energy'] = per_layer(
      lambda i: -P.lap * P.pscalar((U[i] ** 2 + V[i] ** 2) / (2 * P.cos2)))
  terms['divergence']['other_layers_pressure'] = per_layer(
      lambda i: -P.lap * P.pscalar(sum(D[i, j] * Ph[j] for j in range(n)) + 0.0 * oro))
  terms['divergence']['orography'] = per_layer(lambda i: -P.lap * P.pscalar(oro))
  terms['divergence']['own_potential'] = per_layer(lambda i: -P.lap * P.pscalar(Ph[i]))
  terms['potential']['flux'] = per_layer(lambda i: P.pgrad(Ph[i] * U[i], Ph[i] * V[i]))
  terms['potential']['mean_potential_divergence'] = per_layer(lambda i: -ref[i] * P.pscalar(Dv[i]))
  total = {k: sum(v.values()) for k, v in terms.items()}
  speed = np.sqrt((U ** 2 + V ** 2) / P.cos2)
  rate = max(float(np.abs(Z).max()), float(np.abs(f).max()), float(np.abs(Dv).max()), float(speed.max()) / a)
  floors = {'vorticity': rate * rate, 'divergence': rate * rate,
            'potential': (float(np.abs(Ph).max()) + max(abs(r) for r in ref)) * rate}
  # operator norm x input norm (|grad Y| <= L/a, |lap| <= L(L+1)/a^2): 1e-5 of it is the smallest scale used,
  # i.e. differences below 1e-13 of it are rounding
  mx = lambda x: float(np.abs(np.asarray(x)).max())   # noqa: E731
  gnorm, lnorm = P.L / a, P.L * (P.L + 1) / a ** 2
  pressure = np.stack([sum(D[i, j] * Ph[j] for j in range(n)) + oro + Ph[i] for i in range(n)])
  momentum = gnorm * mx((np.abs(Z) + np.abs(f)) * speed) + lnorm * (mx(speed) ** 2 / 2 + mx(pressure))
  norms = {'vorticity': momentum, 'divergence': momentum,
           'potential': gnorm * mx(Ph) * mx(speed) + max(abs(r) for r in ref) * mx(Dv)}
  floors = {k: max(v, 1e-5 * norms[k]) for k, v in floors.items()}
  return total, terms, floors
