"""Independent real spherical-harmonic basis (scipy) with analytic gradients.

Does not import anything from dinosaur. Conventions (measured to agree with the
code's basis to 1e-12 up to L=256): signed longitudinal wavenumber m,
m > 0 -> cos(m lon)/sqrt(pi), m < 0 -> sin(|m| lon)/sqrt(pi), m = 0 -> 1/sqrt(2 pi);
latitude factor = scipy's assoc_legendre_p(norm=True) (unit L2 norm on [-1,1],
Condon-Shortley sign).
"""
from __future__ import annotations

import functools

import numpy as np
import scipy.special as sps


class Basis:
  """Y_lm and derivatives on the tensor grid lon x mu (mu = sin(lat))."""

  def __init__(self, L: int, mu: np.ndarray, lon: np.ndarray):
    self.L = int(L)
    self.mu = np.asarray(mu, dtype=np.float64)
    self.lon = np.asarray(lon, dtype=np.float64)
    n = np.arange(self.L)[:, None, None]
    m = np.arange(self.L)[None, :, None]
    out = sps.assoc_legendre_p(n, m, self.mu[None, None, :], norm=True, diff_n=1)
    self.P = np.where(m <= n, out[0], 0.0)      # [l, |m|, j]
    self.dP = np.where(m <= n, out[1], 0.0)     # d/dmu
    self.one_minus_mu2 = 1.0 - self.mu ** 2

  def fourier(self, m: int):
    am = abs(int(m))
    lam = self.lon
    if m == 0:
      return np.full_like(lam, 1 / np.sqrt(2 * np.pi)), np.zeros_like(lam)
    if m > 0:
      return np.cos(am * lam) / np.sqrt(np.pi), -am * np.sin(am * lam) / np.sqrt(np.pi)
    return np.sin(am * lam) / np.sqrt(np.pi), am * np.cos(am * lam) / np.sqrt(np.pi)

  @functools.lru_cache(maxsize=None)
  def Y(self, m: int, l: int):
    """Returns (Y, dY/dlon, (1-mu^2) dY/dmu = cos(lat) dY/dlat), each [lon, lat]."""
    am = abs(int(m))
    if am > l or l >= self.L:
      z = np.zeros((len(self.lon), len(self.mu)))
      return z, z, z
    f, df = self.fourier(m)
    P, dP = self.P[l, am], self.dP[l, am]
    return (f[:, None] * P[None, :], df[:, None] * P[None, :],
            f[:, None] * (self.one_minus_mu2 * dP)[None, :])

  def synth(self, coeffs: dict):
    """coeffs: {(m_signed, l): value} -> (value, d/dlon, cos(lat) d/dlat)."""
    shape = (len(self.lon), len(self.mu))
    v, dl, dt = np.zeros(shape), np.zeros(shape), np.zeros(shape)
    for (m, l), c in coeffs.items():
      if c == 0:
        continue
      y, yl, yt = self.Y(int(m), int(l))
      v = v + c * y
      dl = dl + c * yl
      dt = dt + c * yt
    return v, dl, dt


class FineGrid(Basis):
  """Basis on an independent Gauss grid with quadrature (for weak-form projections)."""

  def __init__(self, L: int, nlat: int, nlon: int):
    mu, w = np.polynomial.legendre.leggauss(nlat)
    lon = np.arange(nlon) * 2 * np.pi / nlon
    super().__init__(L, mu, lon)
    self.wlat = w
    self.wlon = 2 * np.pi / nlon

  def integrate(self, z):
    return float((z * self.wlat[None, :]).sum() * self.wlon)


def signed_m_real(longitude_wavenumbers: int) -> np.ndarray:
  """Signed m along the first modal axis of the Real layout: [0, 1, -1, 2, -2, ...]."""
  m_pos = np.arange(1, longitude_wavenumbers)
  return np.concatenate([[0], np.stack([m_pos, -m_pos], axis=1).ravel()]).astype(int)


def signed_m_fast(longitude_wavenumbers: int, padded_rows: int) -> list:
  """Signed m (or None for structurally dead rows) of the Fast layout: [0, dead, 1, -1, 2, -2, ..., pad]."""
  m_pos = np.arange(1, longitude_wavenumbers)
  rows = [0, None] + [int(v) for v in np.stack([m_pos, -m_pos], axis=1).ravel()]
  rows += [None] * (padded_rows - len(rows))
  return rows


def layout_rows(grid) -> list:
  """Signed m (None = dead row) for each row of `grid`'s modal layout, derived from its *shape* only."""
  M = grid.longitude_wavenumbers
  rows = grid.modal_shape[0]
  if rows == 2 * M - 1:
    return [int(v) for v in signed_m_real(M)]
  return signed_m_fast(M, rows)


def coeff_dict(grid, x2d) -> dict:
  """Turns a 2-D modal array in `grid`'s layout into {(m,l): c} using layout_rows (ignores dead rows/padding)."""
  rows = layout_rows(grid)
  L = grid.total_wavenumbers
  out = {}
  x2d = np.asarray(x2d)
  for i, m in enumerate(rows):
    if m is None:
      continue
    for l in range(abs(m), L):
      c = float(x2d[i, l])
      if c != 0.0:
        out[(m, l)] = c
  return out
