"""Reference material for ODE time integrators (oracle for C06), independent of dinosaur/time_integration.py.

* `exact_flow_taylor`   Taylor coefficients in t of the exact flow of du/dt = rhs(u) by Lie derivatives
                        (c_0 = u0, c_k = (L_rhs^{k-1} rhs)(u0) / k!).
* `taylor_in_h`         Taylor coefficients in h of any differentiable h -> vector (nested forward mode;
                        `jax.experimental.jet` has no rule for linalg.solve).
* explicit Runge-Kutta tableaux *in Butcher form* as published (not in the 2N-storage form used by the code):
  forward Euler, Heun, Williamson (1980) RK3, Carpenter & Kennedy (1994) RK4(5) from the published rational
  2N-storage coefficients, explicit part of Whitaker & Kar (2013) "SIL3"; and the implicit (DIRK) part of SIL3.
* numpy reference steps: explicit RK step in Butcher form, implicit (fully coupled Kronecker) RK step for linear G,
  Crank-Nicolson sub-step products, stability functions R(z).
"""
from __future__ import annotations

from fractions import Fraction as Fr
import math

import numpy as np

# ----------------------------------------------------------------------------
# tableaux (Butcher form: a strictly lower triangular, b weights)

EULER = {'a': [[0.0]], 'b': [1.0]}
HEUN = {'a': [[0.0, 0.0], [1.0, 0.0]], 'b': [0.5, 0.5]}
# Williamson, J. Comput. Phys. 35 (1980), third-order 2N-storage scheme written as a Butcher tableau:
# c = (0, 1/3, 3/4); a21 = 1/3; a31 = -3/16, a32 = 15/16; b = (1/6, 3/10, 8/15)
WILLIAMSON_RK3 = {'a': [[0.0, 0.0, 0.0], [1 / 3, 0.0, 0.0], [-3 / 16, 15 / 16, 0.0]], 'b': [1 / 6, 3 / 10, 8 / 15]}
# implicit (Crank-Nicolson) sub-step fractions = differences of the stage times c_k (and 1 at the end)
WILLIAMSON_RK3_TIMES = [0.0, 1 / 3, 3 / 4, 1.0]

# Carpenter & Kennedy, NASA TM-109112 (1994), RK4(3)5[2N]: published rational coefficients
_CK_A = [Fr(0), Fr(-567301805773, 1357537059087), Fr(-2404267990393, 2016746695238),
         Fr(-3550918686646, 2091501179385), Fr(-1275806237668, 842570457699)]
_CK_B = [Fr(1432997174477, 9575080441755), Fr(5161836677717, 13612068292357), Fr(1720146321549, 2090206949498),
         Fr(3134564353537, 4481467310338), Fr(2277821191437, 14882151754819)]
_CK_C = [Fr(0), Fr(1432997174477, 9575080441755), Fr(2526269341429, 6820363962896),
         Fr(2006345519317, 3224310063776), Fr(2802321613138, 2924317926251)]
CARPENTER_KENNEDY_TIMES = [float(x) for x in _CK_C] + [1.0]


def two_n_storage_to_butcher(A, B):
  """2N-storage recurrence  dU_j = A_j dU_{j-1} + h F(U_{j-1});  U_j = U_{j-1} + B_j dU_j  ->  Butcher (a, b).

  dU_j = sum_i w[j][i] k_i with w[j][j] = 1, w[j][i] = A_j w[j-1][i];  U_j = u0 + h sum_i acc[j][i] k_i.
  Row j of `a` is the combination that produces the argument of k_{j+1}, the last accumulated row is b.
  """
  s = len(A)
  w = [Fr(0)] * s
  acc = [Fr(0)] * s
  rows = [[Fr(0)] * s]
  for j in range(s):
    w = [A[j] * x for x in w]
    w[j] = Fr(1)
    acc = [acc[i] + B[j] * w[i] for i in range(s)]
    rows.append(list(acc))
  a = [[float(x) for x in r] for r in rows[:s]]
  b = [float(x) for x in rows[s]]
  return {'a': a, 'b': b}


CARPENTER_KENNEDY_RK4 = two_n_storage_to_butcher(_CK_A, _CK_B)

# Whitaker & Kar, Mon. Wea. Rev. 141 (2013), scheme "SIL3" (their eq. for the 4-stage IMEX pair):
# explicit part (c = 0, 1/3, 2/3, 1) and implicit DIRK part
SIL3_EX = {'a': [[0, 0, 0, 0], [1 / 3, 0, 0, 0], [1 / 6, 1 / 2, 0, 0], [1 / 2, -1 / 2, 1, 0]], 'b': [1 / 2, -1 / 2, 1, 0]}
SIL3_IM = {'a': [[0, 0, 0, 0], [1 / 6, 1 / 6, 0, 0], [1 / 3, 0, 1 / 3, 0], [3 / 8, 0, 3 / 8, 1 / 4]],
           'b': [3 / 8, 0, 3 / 8, 1 / 4]}

EXPLICIT_TABLEAU = {
    'backward_forward_euler': EULER,
    'crank_nicolson_rk2': HEUN,
    'crank_nicolson_rk3': WILLIAMSON_RK3,
    'crank_nicolson_rk4': CARPENTER_KENNEDY_RK4,
    'imex_rk_sil3': SIL3_EX,
}

# ----------------------------------------------------------------------------
# numpy reference steps


def explicit_rk_step(F, u0, h, tab):
  """Textbook explicit Runge-Kutta step in Butcher form."""
  a, b = tab['a'], tab['b']
  ks = []
  for i in range(len(b)):
    y = u0 + h * sum((a[i][j] * ks[j] for j in range(i)), np.zeros_like(u0))
    ks.append(F(y))
  return u0 + h * sum((b[i] * ks[i] for i in range(len(b))), np.zeros_like(u0))


def implicit_rk_linear_step(G, u0, h, tab):
  """One step of an implicit RK method for du/dt = G u, all stages solved at once (Kronecker form).

  (I - h A (x) G) Y = 1 (x) u0,   u1 = u0 + h (b^T (x) G) Y.  Returns (u1, cond of the stage system).
  """
  A = np.asarray(tab['a'], dtype=float)
  b = np.asarray(tab['b'], dtype=float)
  s, d = len(b), len(u0)
  G = np.asarray(G)
  M = np.eye(s * d, dtype=G.dtype) - h * np.kron(A, G)
  Y = np.linalg.solve(M, np.tile(u0, s).astype(M.dtype))
  return u0 + h * (np.kron(b[None, :], G) @ Y), float(np.linalg.cond(M))


def crank_nicolson_product_step(G, u0, h, times):
  """Product of Crank-Nicolson sub-steps over the intervals between consecutive `times` (fractions of h)."""
  G = np.asarray(G)
  d = len(u0)
  u = np.asarray(u0).astype(np.result_type(G.dtype, np.asarray(u0).dtype))
  cond = 1.0
  for t0, t1 in zip(times[:-1], times[1:]):
    mu = 0.5 * h * (t1 - t0)
    M = np.eye(d) - mu * G
    cond = max(cond, float(np.linalg.cond(M)))
    u = np.linalg.solve(M, u + mu * (G @ u))
  return u, cond


def implicit_reference_step(name, G, u0, h):
  """Reference for one step with F = 0 (the implicit method underlying each IMEX pair)."""
  d = len(u0)
  if name == 'backward_forward_euler':
    M = np.eye(d) - h * np.asarray(G)
    return np.linalg.solve(M, u0), float(np.linalg.cond(M))
  if name == 'crank_nicolson_rk2':
    return crank_nicolson_product_step(G, u0, h, [0.0, 1.0])
  if name == 'crank_nicolson_rk3':
    return crank_nicolson_product_step(G, u0, h, WILLIAMSON_RK3_TIMES)
  if name == 'crank_nicolson_rk4':
    return crank_nicolson_product_step(G, u0, h, CARPENTER_KENNEDY_TIMES)
  if name == 'imex_rk_sil3':
    return implicit_rk_linear_step(G, u0, h, SIL3_IM)
  raise KeyError(name)


def stability_function(name, z):
  """R(z) of the implicit method underlying `name` (F = 0, du/dt = lambda u, z = h lambda); z complex array."""
  z = np.asarray(z, dtype=np.complex128)
  if name == 'backward_forward_euler':
    return 1.0 / (1.0 - z)
  if name in ('crank_nicolson_rk2', 'crank_nicolson_rk3', 'crank_nicolson_rk4'):
    times = {'crank_nicolson_rk2': [0.0, 1.0], 'crank_nicolson_rk3': WILLIAMSON_RK3_TIMES,
             'crank_nicolson_rk4': CARPENTER_KENNEDY_TIMES}[name]
    r = np.ones_like(z)
    for t0, t1 in zip(times[:-1], times[1:]):
      mu = 0.5 * (t1 - t0)
      r = r * (1.0 + mu * z) / (1.0 - mu * z)
    return r
  if name == 'imex_rk_sil3':
    A = np.asarray(SIL3_IM['a'], dtype=float)
    b = np.asarray(SIL3_IM['b'], dtype=float)
    s = len(b)
    M = np.eye(s)[None] - z.reshape(-1, 1, 1) * A[None]
    y = np.linalg.solve(M, np.ones((z.size, s, 1), dtype=np.complex128))[..., 0]
    return (1.0 + z.reshape(-1) * (y @ b)).reshape(z.shape)
  raise KeyError(name)


def leapfrog_companion(z, alpha):
  """Companion matrix of the semi-implicit leapfrog for du/dt = lambda u, z = h lambda:
  (1 - 2 alpha z) u_{n+1} = (1 + 2 (1 - alpha) z) u_{n-1};  state (u_{n-1}, u_n) -> (u_n, u_{n+1})."""
  z = np.asarray(z, dtype=np.complex128)
  w = (1.0 + 2.0 * (1.0 - alpha) * z) / (1.0 - 2.0 * alpha * z)
  M = np.zeros(z.shape + (2, 2), dtype=np.complex128)
  M[..., 0, 1] = 1.0
  M[..., 1, 0] = w
  return M


# ----------------------------------------------------------------------------
# Taylor coefficients (jax; call inside jit with traced problem parameters)


def exact_flow_taylor(rhs, u0, order):
  """[c_0 .. c_order] with u(t) = sum_k c_k t^k the exact solution of du/dt = rhs(u), u(0) = u0."""
  import jax
  out = [u0]
  g = rhs
  if order >= 1:
    out.append(rhs(u0))
  for k in range(2, order + 1):
    g = (lambda g_: (lambda u: jax.jvp(g_, (u,), (rhs(u),))[1]))(g)    # Lie derivative  L_rhs g = Dg . rhs
    out.append(g(u0) / math.factorial(k))
  return out


def taylor_in_h(fun, order):
  """[d^k fun/dh^k (0) / k!  for k = 0..order] for fun: scalar h -> array."""
  import jax
  out = [fun(0.0)]
  f = fun
  for k in range(1, order + 1):
    f = jax.jacfwd(f)
    out.append(f(0.0) / math.factorial(k))
  return out
