"""Brute-force cell overlaps for conservative regridding (plain python / numpy loops, nothing from /repo).

Longitude cells are arcs on the circle bounded by the midpoints to the neighbouring points; the overlap of two arcs
is computed on the unrolled line by trying every relevant period shift. Latitude cells are bounded by the midpoints
between neighbouring latitudes and the poles; their (normalised) area is the difference of sin(latitude).
Vertical cells are plain intervals.
"""
from __future__ import annotations

import math

import numpy as np

P = 2 * math.pi


def lon_cells(x, period=P):
  """(lower, upper) bound of the cell around every longitude point (points taken modulo the period)."""
  x = [float(v) % period for v in x]
  n = len(x)
  lo = [x[i] - ((x[i] - x[i - 1]) % period) / 2 for i in range(n)]
  up = [x[i] + ((x[(i + 1) % n] - x[i]) % period) / 2 for i in range(n)]
  return lo, up


def arc_overlap(a0, a1, b0, b1, period=P):
  tot = 0.0
  for k in (-2, -1, 0, 1, 2):
    tot += max(0.0, min(a1, b1 + k * period) - max(a0, b0 + k * period))
  return tot


def lon_overlap(src, tgt, period=P):
  """Raw overlap lengths, shape (target, source)."""
  sl, su = lon_cells(src, period)
  tl, tu = lon_cells(tgt, period)
  w = np.zeros((len(tl), len(sl)))
  for i in range(len(tl)):
    for j in range(len(sl)):
      w[i, j] = arc_overlap(tl[i], tu[i], sl[j], su[j], period)
  return w


def lon_widths(x, period=P):
  lo, up = lon_cells(x, period)
  return np.array([u - l for l, u in zip(lo, up)])


def lat_bounds(lat):
  lat = [float(v) for v in lat]
  return [-math.pi / 2] + [(a + b) / 2 for a, b in zip(lat[:-1], lat[1:])] + [math.pi / 2]


def lat_overlap(src, tgt):
  """Raw overlap areas (difference of sin latitude), shape (target, source)."""
  sb, tb = lat_bounds(src), lat_bounds(tgt)
  w = np.zeros((len(tb) - 1, len(sb) - 1))
  for i in range(len(tb) - 1):
    for j in range(len(sb) - 1):
      lo, up = max(tb[i], sb[j]), min(tb[i + 1], sb[j + 1])
      if up > lo:
        w[i, j] = math.sin(up) - math.sin(lo)
  return w


def lat_areas(lat):
  b = lat_bounds(lat)
  return np.array([math.sin(b[i + 1]) - math.sin(b[i]) for i in range(len(b) - 1)])


def interval_overlap(src_bounds, tgt_bounds):
  """Raw overlap lengths of 1-D cells, shape (target, source)."""
  sb, tb = [float(v) for v in src_bounds], [float(v) for v in tgt_bounds]
  w = np.zeros((len(tb) - 1, len(sb) - 1))
  for i in range(len(tb) - 1):
    for j in range(len(sb) - 1):
      w[i, j] = max(0.0, min(tb[i + 1], sb[j + 1]) - max(tb[i], sb[j]))
  return w


def normalise_rows(w):
  s = w.sum(axis=1, keepdims=True)
  with np.errstate(invalid='ignore', divide='ignore'):
    return w / s
