"""Action of the symmetries of the sphere on real spherical-harmonic coefficients (independent of dinosaur).

Layout: the first modal axis lists signed longitudinal wavenumbers (m > 0: cos(m lon), m < 0: sin(|m| lon),
None: structurally dead row), the second the total wavenumber l (entries beyond `L` are padding).

 * rotation about the polar axis by the angle `delta` (eastward: f'(lon) = f(lon - delta)):
     a'_m = a_m cos(m delta) - b_m sin(m delta),   b'_m = a_m sin(m delta) + b_m cos(m delta)
   for the pair (a_m, b_m) of cos / sin coefficients;
 * reflection about the equator, f'(lon, lat) = f(lon, -lat): P_l^m(-x) = (-1)^(l+m) P_l^m(x), so every
   coefficient is multiplied by (-1)^(l+|m|).
Both maps are validated against np.roll / [..., ::-1] of synthesised nodal fields by C10's first sub-check.
"""
from __future__ import annotations

import numpy as np


def rotate(x, rows, delta: float):
  """Coefficients of f(lon - delta) given coefficients x[..., row, l] of f; `rows` = signed m per row or None."""
  x = np.asarray(x, dtype=np.float64)
  out = np.array(x, copy=True)
  pos = {m: i for i, m in enumerate(rows) if m is not None and m > 0}
  neg = {-m: i for i, m in enumerate(rows) if m is not None and m < 0}
  for am, ic in pos.items():
    is_ = neg.get(am)
    c, s = np.cos(am * delta), np.sin(am * delta)
    if is_ is None:   # cannot happen in the layouts used (cos and sin rows come in pairs)
      raise ValueError(f'no sine row for m={am}')
    out[..., ic, :] = x[..., ic, :] * c - x[..., is_, :] * s
    out[..., is_, :] = x[..., ic, :] * s + x[..., is_, :] * c
  return out


def mirror_signs(rows, n_l: int):
  """(-1)^(l+|m|) for every (row, l); dead rows get +1."""
  am = np.array([0 if m is None else abs(m) for m in rows])[:, None]
  l = np.arange(n_l)[None, :]
  return np.where((am + l) % 2 == 0, 1.0, -1.0)


def mirror(x, rows):
  x = np.asarray(x, dtype=np.float64)
  return x * mirror_signs(rows, x.shape[-1])
