"""Independent float64 numpy reference for C20 (no dinosaur / jax imports).

Solar geometry: written from the formulas cited in dinosaur/radiation.py's docstrings (Wikipedia: Declination,
Equation of time, Hour angle, Solar zenith angle; NASA/NOAA total solar irradiance with a 6.9 % annual variation).
Held-Suarez: written from Held & Suarez (1994), BAMS 75, 1825-1830, eqs. for k_v, k_T and T_eq.
"""
from __future__ import annotations

import numpy as np

DAYS_PER_YEAR = 365.25
PERIHELION_DAY = 3.0          # Earth closest to the sun on January 3rd
SPRING_EQUINOX_DAY = 79.0     # March 20th
AXIS_TILT_DEG = 23.45
TSI = 1361.0                  # W / m^2
TSI_VARIATION = 47.0          # W / m^2, half of 6.9 % of TSI


def irradiance(orbital_phase, mean=TSI, variation=TSI_VARIATION):
  """Solar 'constant' at the current Earth-Sun distance."""
  return mean + variation * np.cos(orbital_phase - 2 * np.pi * PERIHELION_DAY / DAYS_PER_YEAR)


def declination(orbital_phase):
  return np.deg2rad(AXIS_TILT_DEG) * np.sin(orbital_phase - 2 * np.pi * SPRING_EQUINOX_DAY / DAYS_PER_YEAR)


def equation_of_time_phase(orbital_phase):
  """Equation of time (minutes, standard 3-term fit) expressed as a fraction of the day in radians."""
  b = orbital_phase - 2 * np.pi * SPRING_EQUINOX_DAY / DAYS_PER_YEAR
  minutes = 9.87 * np.sin(2 * b) - 7.53 * np.cos(b) - 1.5 * np.sin(b)
  return 2 * np.pi * minutes / 1440.0


def hour_angle(orbital_phase, synodic_phase, longitude):
  """Zero at local solar noon; synodic phase 0 is midnight UTC at longitude 0."""
  return synodic_phase + equation_of_time_phase(orbital_phase) + longitude - np.pi


def sin_altitude(orbital_phase, synodic_phase, longitude, latitude):
  d = declination(orbital_phase)
  h = hour_angle(orbital_phase, synodic_phase, longitude)
  return np.cos(latitude) * np.cos(d) * np.cos(h) + np.sin(latitude) * np.sin(d)


def flux(orbital_phase, synodic_phase, longitude, latitude, mean=TSI, variation=TSI_VARIATION):
  s = sin_altitude(orbital_phase, synodic_phase, longitude, latitude)
  return irradiance(orbital_phase, mean, variation) * np.maximum(s, 0.0), s


# ----------------------------------------------------------------------------
# Held-Suarez (1994)


def hs_kv(sigma, sigma_b, kf):
  """Rayleigh friction rate per level: k_f * max(0, (sigma - sigma_b) / (1 - sigma_b))."""
  sigma = np.asarray(sigma, dtype=np.float64)
  return kf * np.maximum(0.0, (sigma - sigma_b) / (1.0 - sigma_b))


def hs_kt(sigma, lat, sigma_b, ka, ks):
  """Newtonian cooling rate k_a + (k_s - k_a) max(0, (sigma - sigma_b)/(1 - sigma_b)) cos^4(lat); [level, *lat.shape]."""
  sigma = np.asarray(sigma, dtype=np.float64)
  lat = np.asarray(lat, dtype=np.float64)
  w = np.maximum(0.0, (sigma - sigma_b) / (1.0 - sigma_b)).reshape((-1,) + (1,) * lat.ndim)
  return ka + (ks - ka) * w * np.cos(lat)[np.newaxis] ** 4


def hs_teq(sigma, lat, surface_pressure, p0, kappa, min_t, max_t, d_ty, d_thz):
  """max(minT, [maxT - dTy sin^2(lat) - dThz log(p/p0) cos^2(lat)] (p/p0)^kappa), p = sigma * p_surface."""
  sigma = np.asarray(sigma, dtype=np.float64)
  lat = np.asarray(lat, dtype=np.float64)
  ps = np.broadcast_to(np.asarray(surface_pressure, dtype=np.float64), lat.shape)
  out = np.empty((sigma.size,) + lat.shape)
  for k, s in enumerate(sigma):            # plain loop over levels
    ratio = s * ps / p0
    t = (max_t - d_ty * np.sin(lat) ** 2 - d_thz * np.log(ratio) * np.cos(lat) ** 2) * ratio ** kappa
    out[k] = np.where(t < min_t, min_t, t)
  return out
