"""Independent reference for C18: unit algebra, calendar arithmetic and orbital phases.

Nothing here imports dinosaur or pint. Units are a hand-written table (SI factor as an exact Fraction and the
exponents of the four base dimensions length, time, mass, temperature); calendar arithmetic is the integer
"civil from days" algorithm on the proleptic Gregorian calendar; phases are reduced modulo one turn in exact
rational arithmetic (fractions.Fraction), so no value of pi enters the reduction.
"""
from __future__ import annotations

from fractions import Fraction as F
import math

# name -> (SI factor, (length, time, mass, temperature) exponents)
UNITS = {
    'm': (F(1), (1, 0, 0, 0)),
    'km': (F(1000), (1, 0, 0, 0)),
    'mm': (F(1, 1000), (1, 0, 0, 0)),
    's': (F(1), (0, 1, 0, 0)),
    'minute': (F(60), (0, 1, 0, 0)),
    'hour': (F(3600), (0, 1, 0, 0)),
    'day': (F(86400), (0, 1, 0, 0)),
    'kg': (F(1), (0, 0, 1, 0)),
    'g': (F(1, 1000), (0, 0, 1, 0)),
    'K': (F(1), (0, 0, 0, 1)),
    'Pa': (F(1), (-1, -2, 1, 0)),
    'hPa': (F(100), (-1, -2, 1, 0)),
    'N': (F(1), (1, -2, 1, 0)),
    'J': (F(1), (2, -2, 1, 0)),
    'W': (F(1), (2, -3, 1, 0)),
}
BASE_ALTERNATIVES = (('m', 'km', 'mm'), ('s', 'minute', 'hour', 'day'), ('kg', 'g'), ('K',))
DERIVED = ('Pa', 'hPa', 'N', 'J', 'W')
DIM_NAMES = ('[length]', '[time]', '[mass]', '[temperature]')
SECONDS_PER_DAY = 86400
JULIAN_YEAR_SECONDS = 31557600   # 365.25 days: the definition of the unit "year"


def dims_of(terms):
  """Net dimension exponents (Fractions) of a product of unit**(num/2) terms [[name, num], ...]."""
  d = [F(0)] * 4
  for name, num in terms:
    e = F(int(num), 2)
    for i, p in enumerate(UNITS[name][1]):
      d[i] += e * p
  return d


def si_factor(terms) -> float:
  """Factor converting a magnitude expressed in the product of terms to SI base units."""
  whole = F(1)
  half = F(1)
  for name, num in terms:
    f = UNITS[name][0]
    num = int(num)
    if num % 2 == 0:
      whole *= f ** (num // 2)
    else:
      half *= f ** num
  return float(whole) * math.sqrt(half.numerator / half.denominator)


def scale_factor(scale_si, dims) -> float:
  """prod_d scale_si[d] ** dims[d] with scale_si the four base scales in SI units (floats)."""
  out = 1.0
  for s, e in zip(scale_si, dims):
    if e == 0:
      continue
    if s is None:
      raise KeyError('missing dimension')
    out *= float(s) ** float(e)
  return out


def nondim_ref(magnitude, terms, scale_si):
  return magnitude * (si_factor(terms) / scale_factor(scale_si, dims_of(terms)))


def convert_ref(magnitude, terms_from, terms_to):
  return magnitude * (si_factor(terms_from) / si_factor(terms_to))


# ----------------------------------------------------------------------------
# calendar


def civil_from_days(z: int):
  """(year, month, day) of the proleptic Gregorian calendar for `z` days since 1970-01-01."""
  z += 719468
  era = z // 146097
  doe = z - era * 146097
  yoe = (doe - doe // 1460 + doe // 36524 - doe // 146096) // 365
  y = yoe + era * 400
  doy = doe - (365 * yoe + yoe // 4 - yoe // 100)
  mp = (5 * doy + 2) // 153
  d = doy - (153 * mp + 2) // 5 + 1
  m = mp + 3 if mp < 10 else mp - 9
  return (y + 1 if m <= 2 else y), m, d


def days_from_civil(y: int, m: int, d: int) -> int:
  y -= m <= 2
  era = y // 400
  yoe = y - era * 400
  doy = (153 * (m + (-3 if m > 2 else 9)) + 2) // 5 + d - 1
  doe = yoe * 365 + yoe // 4 - yoe // 100 + doy
  return era * 146097 + doe - 719468


def is_leap(y: int) -> bool:
  return y % 4 == 0 and (y % 100 != 0 or y % 400 == 0)


def calendar_fractions(minutes_since_epoch: int):
  """(fraction of the calendar year, fraction of the day) as exact Fractions, minute resolution."""
  days, minute_of_day = divmod(int(minutes_since_epoch), 1440)
  y, _, _ = civil_from_days(days)
  day_of_year = days - days_from_civil(y, 1, 1)
  frac_day = F(minute_of_day, 1440)
  frac_year = (day_of_year + frac_day) / (366 if is_leap(y) else 365)
  return frac_year, frac_day


def turns_mod_one(x: F) -> F:
  return x - (x.numerator // x.denominator)


def circular_distance_turns(a: float, b: F) -> float:
  """Distance on the unit circle (in turns) between float a and exact b."""
  d = turns_mod_one(F(a) - b)
  d = min(d, 1 - d)
  return float(d)
