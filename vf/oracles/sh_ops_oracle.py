"""Matrix elements of the spectral differential operators, integrated with the scipy basis on an independent
Gauss grid (no recurrences, nothing from dinosaur):

  G[am][l', l] = int P_l'^am P_l^am dmu                                  (identity for l, l' >= am)
  C[am][l', l] = int P_l'^am (1 - mu^2) d/dmu P_l^am dmu                  (cos(lat) d/dlat)
  S[am][l', l] = int P_l'^am d/dmu((1 - mu^2) P_l^am) dmu                 (sec(lat) d/dlat cos^2(lat) .)
  F[m', m]     = int f_m' d/dlon f_m dlon                                 (signed m: +cos, -sin)

`apply(op, cfg, X)` evaluates the exact Galerkin projection of the operator applied to the field with coefficients X
(array in the modal layout of `cfg`) onto the L total wavenumbers, as an array in the same layout. Entries of the
result at l' <= L-2 are what the spectral code claims to reproduce; the row l' = L-1 of a latitude derivative is
returned too (callers decide whether it is claimed).
"""
from __future__ import annotations

import functools

import numpy as np
import scipy.special as sps

from vf.oracles import grid_cases as gc


@functools.lru_cache(maxsize=8)
def lat_matrices(L: int):
  mu, w = np.polynomial.legendre.leggauss(L + 3)
  n = np.arange(L)[:, None, None]
  m = np.arange(L)[None, :, None]
  out = sps.assoc_legendre_p(n, m, mu[None, None, :], norm=True, diff_n=1)
  P = np.where(m <= n, out[0], 0.0)            # [l, am, j]
  dP = np.where(m <= n, out[1], 0.0)
  s = 1.0 - mu ** 2
  Pm = np.transpose(P, (1, 0, 2))              # [am, l, j]
  cosd = np.transpose(dP, (1, 0, 2)) * s       # (1-mu^2) dP/dmu
  G = np.einsum('akj,j,alj->akl', Pm, w, Pm)
  C = np.einsum('akj,j,alj->akl', Pm, w, cosd)
  S = np.einsum('akj,j,alj->akl', Pm, w, cosd - 2 * mu * Pm)
  return G, C, S


@functools.lru_cache(maxsize=8)
def lon_matrix(M: int):
  """F[(signed m'), (signed m)] as a dict -> value (only non-zero entries), from a fine trapezoid rule."""
  n = 2 * M + 3
  lam = np.arange(n) * 2 * np.pi / n
  wl = 2 * np.pi / n

  def f(m):
    a = abs(m)
    if m == 0:
      return np.full(n, 1 / np.sqrt(2 * np.pi)), np.zeros(n)
    if m > 0:
      return np.cos(a * lam) / np.sqrt(np.pi), -a * np.sin(a * lam) / np.sqrt(np.pi)
    return np.sin(a * lam) / np.sqrt(np.pi), a * np.cos(a * lam) / np.sqrt(np.pi)
  ms = [0] + [s * k for k in range(1, M) for s in (1, -1)]
  F = {}
  for mp in ms:
    for m in ms:
      v = float((f(mp)[0] * f(m)[1]).sum() * wl)
      if abs(v) > 1e-12:
        F[(mp, m)] = v
  return F


def apply(op: str, cfg, X, radius=1.0):
  """op in {'d_dlon', 'cos_lat_d_dlat', 'sec_lat_d_dlat_cos2', 'laplacian', 'inverse_laplacian', 'identity'}."""
  X = np.asarray(X, dtype=np.float64)
  shape = X.shape[-2:]
  L = cfg['L']
  ms, _ = gc.layout(cfg, shape)
  row_of = {m: i for i, m in enumerate(ms) if m is not None}
  G, C, S = lat_matrices(L)
  out = np.zeros_like(X)
  if op in ('cos_lat_d_dlat', 'sec_lat_d_dlat_cos2', 'identity'):
    A = {'cos_lat_d_dlat': C, 'sec_lat_d_dlat_cos2': S, 'identity': G}[op]
    for m, i in row_of.items():
      out[..., i, :L] = np.einsum('kl,...l->...k', A[abs(m)], X[..., i, :L])
    return out
  if op == 'd_dlon':
    F = lon_matrix(cfg['M'])
    for (mp, m), v in F.items():
      if m in row_of and mp in row_of:
        out[..., row_of[mp], :L] += v * np.einsum('kl,...l->...k', G[abs(m)], X[..., row_of[m], :L])
    return out
  if op in ('laplacian', 'inverse_laplacian'):
    l = np.arange(L, dtype=np.float64)
    eig = -l * (l + 1) / radius ** 2
    if op == 'inverse_laplacian':
      with np.errstate(divide='ignore'):
        eig = np.where(l > 0, 1.0 / np.where(l > 0, eig, 1.0), 0.0)
    for m, i in row_of.items():
      out[..., i, :L] = np.einsum('kl,...l->...k', G[abs(m)] * eig[None, :], X[..., i, :L])
    return out
  raise ValueError(op)
