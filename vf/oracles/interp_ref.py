"""Reference piecewise-linear interpolation (plain python loops, no jax, no code from /repo).

`weights(x, xp, mode, cells)` returns the operator matrix W (len(x), len(xp)) of the continuous
piecewise-linear interpolant through nodes `xp`, so that `W @ fp` is the interpolated value:
  mode='constant'  the end values outside [xp[0], xp[-1]]
  mode='linear'    the first / last segment continued without limit
  mode='safe'      the first / last segment continued for `cells` copies of the first / last cell width,
                   NaN rows beyond that
The search for the bracketing cell is a linear scan; nothing is shared with numpy.interp, which is used as a
second, independent reference in `check_against_numpy` (self test of this oracle, run by the sub-checks).
"""
from __future__ import annotations

import numpy as np


def limits(xp, cells):
  """Lower / upper end of the domain of the 'safe' interpolant with `cells` extrapolated cells."""
  xp = [float(v) for v in xp]
  return xp[0] - cells * (xp[1] - xp[0]), xp[-1] + cells * (xp[-1] - xp[-2])


def weights(x, xp, mode='constant', cells=1):
  xp = [float(v) for v in xp]
  n = len(xp)
  assert n >= 2 and all(b > a for a, b in zip(xp[:-1], xp[1:])), 'nodes must be strictly increasing'
  w = np.zeros((len(x), n))
  lo, hi = limits(xp, cells)
  for q, xv in enumerate(x):
    xv = float(xv)
    if xv < xp[0] or xv > xp[-1]:
      left = xv < xp[0]
      if mode == 'constant':
        w[q, 0 if left else n - 1] = 1.0
        continue
      if mode == 'safe' and (xv < lo or xv > hi):
        w[q, :] = np.nan
        continue
      i = 0 if left else n - 2
    else:
      i = 0
      while i < n - 2 and xv > xp[i + 1]:
        i += 1
    t = (xv - xp[i]) / (xp[i + 1] - xp[i])
    w[q, i] += 1.0 - t
    w[q, i + 1] += t
  return w


def apply(w, fp):
  """W @ fp with NaN rows kept NaN and zero weights never touching the data (0 * inf stays 0)."""
  fp = np.asarray(fp, dtype=np.float64)
  out = np.zeros((w.shape[0],) + fp.shape[1:])
  for q in range(w.shape[0]):
    if np.isnan(w[q]).any():
      out[q] = np.nan
      continue
    for j in np.nonzero(w[q])[0]:
      out[q] = out[q] + w[q, j] * fp[j]
  return out


def interp(x, xp, fp, mode='constant', cells=1):
  return apply(weights(np.atleast_1d(x), xp, mode, cells), np.asarray(fp))


def check_against_numpy(x, xp, fp):
  """Self test: inside the node range the reference must agree with numpy.interp."""
  x = np.asarray(x, dtype=np.float64)
  inside = (x >= xp[0]) & (x <= xp[-1])
  a = interp(x[inside], xp, fp, 'linear')
  b = np.interp(x[inside], np.asarray(xp, dtype=np.float64), np.asarray(fp, dtype=np.float64))
  s = max(float(np.max(np.abs(fp))), 1e-300)
  return float(np.max(np.abs(a - b)) / s) if a.size else 0.0
