"""Weak-form reference of the sigma-coordinate primitive equations (dry and moist), DESIGN.md Appendix A.

Independent of dinosaur: horizontal structure from weakform_common.Projector (scipy basis, analytic gradients, fine
Gauss quadrature), vertical structure from sigma_ref_c05 (plain loops of the documented finite differences).

n layers, D_k = delta_k + G_k, G_k = (U_k g_lon + V_k g_lat)/cos^2 = u_k . grad(ln ps):
    sigma_dot, adv(x), alpha, Phi(X), omega/p       -> sigma_ref_c05
    T = T_ref + T',  T_v = T (1 + (R_v/R - 1) q)    (dry: T_v = T)
    F_u = -(zeta+f) V - adv(U) + R T_v g_lon ,  F_v = (zeta+f) U - adv(V) + R T_v g_lat
    dzeta/dt  = <grad Y . (F_v, -F_u)>
    ddelta/dt = <grad Y . (F_u, F_v)> - lap_l <Y (KE + g orography + Phi_k(T_v))>
    dT'/dt    = <Y (T' delta + adv(T) + kappa T_v / (1 + (Cp_v/Cp - 1) q) omega/p)> + <grad Y . (U T', V T')>
    dq/dt     = <Y (q delta + adv(q))> + <grad Y . (U q, V q)>         (every tracer)
    dlnps/dt  = -<Y sum_k D_k dsigma_k>
"""
from __future__ import annotations

import numpy as np

from vf.oracles import sigma_ref_c05 as sr


def tendencies(P, prm, st):
  """P: Projector. prm: {omega, g, R, R_vapor, kappa, cp_ratio (= Cp_vapor/Cp), boundaries, t_ref[n],
  orography[nk], moist: bool, humidity: tracer name}. st: {vorticity, divergence, temperature_variation: [n, nk],
  log_surface_pressure: [nk], tracers: {name: [n, nk]}}.
  Returns (total, terms, floors); leaves 'vorticity', 'divergence', 'temperature_variation', 'log_surface_pressure'
  ([1, nk]) and 'tracers/<name>'."""
  vor = np.asarray(st['vorticity'], dtype=np.float64)
  div = np.asarray(st['divergence'], dtype=np.float64)
  n = vor.shape[0]
  a = P.a
  b = [float(v) for v in prm['boundaries']]
  assert len(b) == n + 1
  R, kappa, grav = float(prm['R']), float(prm['kappa']), float(prm['g'])
  t_ref = [float(v) for v in prm['t_ref']]
  f = 2.0 * float(prm['omega']) * P.mu
  Z = P.value(vor)
  Dv = P.value(div)
  U, V = P.wind(vor, div)
  Tp = P.value(st['temperature_variation'])
  T = [Tp[k] + t_ref[k] for k in range(n)]
  lp, lpl, lpt = P.synth(st['log_surface_pressure'])
  glon, glat = lpl / a, lpt / a                       # cos(lat) * grad(ln ps)
  oro = P.value(prm['orography'])
  tracers = {name: P.value(v) for name, v in st.get('tracers', {}).items()}
  if prm.get('moist'):
    q = tracers[prm.get('humidity', 'specific_humidity')]
    eps = float(prm['R_vapor']) / R
    cr = float(prm['cp_ratio'])
    Tv = [T[k] * (1 + (eps - 1) * q[k]) for k in range(n)]
    Tad = [Tv[k] / (1 + (cr - 1) * q[k]) for k in range(n)]
  else:
    Tv = T
    Tad = T
  G = [(U[k] * glon + V[k] * glat) / P.cos2 for k in range(n)]
  Dfull = [Dv[k] + G[k] for k in range(n)]
  sdot = sr.sigma_dot(Dfull, b)
  advU, advV = sr.advection(sdot, U, b), sr.advection(sdot, V, b)
  advT = sr.advection(sdot, T, b)
  Phi = sr.geopotential(Tv, b, R)
  wp = sr.omega_over_p(G, Dfull, b)
  S_G = sr.sigma_integral(G, b)
  S_d = sr.sigma_integral(Dv, b)

  def per_layer(fn):
    return np.stack([np.asarray(fn(k)) for k in range(n)])

  zero = np.zeros(P.shape)
  terms = {'vorticity': {}, 'divergence': {}, 'temperature_variation': {}, 'log_surface_pressure': {}}
  tv_ = terms['vorticity']
  tv_['planetary_vorticity_flux'] = per_layer(lambda k: P.pgrad(f * U[k], f * V[k]))
  tv_['relative_vorticity_flux'] = per_layer(lambda k: P.pgrad(Z[k] * U[k], Z[k] * V[k]))
  tv_['vertical_advection'] = per_layer(lambda k: P.pgrad(-advV[k] + zero, advU[k] + zero))
  tv_['pressure_gradient'] = per_layer(lambda k: P.pgrad(R * Tv[k] * glat, -R * Tv[k] * glon))
  td = terms['divergence']
  td['coriolis'] = per_layer(lambda k: P.pgrad(-f * V[k], f * U[k]))
  td['relative_vorticity'] = per_layer(lambda k: P.pgrad(-Z[k] * V[k], Z[k] * U[k]))
  td['vertical_advection'] = per_layer(lambda k: P.pgrad(-advU[k] + zero, -advV[k] + zero))
  td['pressure_gradient'] = per_layer(lambda k: P.pgrad(R * Tv[k] * glon, R * Tv[k] * glat))
  td['kinetic_energy'] = per_layer(lambda k: -P.lap * P.pscalar((U[k] ** 2 + V[k] ** 2) / (2 * P.cos2)))
  td['orography'] = per_layer(lambda k: -P.lap * P.pscalar(grav * oro))
  td['geopotential'] = per_layer(lambda k: -P.lap * P.pscalar(Phi[k] + zero))
  tt = terms['temperature_variation']
  tt['horizontal_advection'] = per_layer(
      lambda k: P.pscalar(Tp[k] * Dv[k]) + P.pgrad(U[k] * Tp[k], V[k] * Tp[k]))
  tt['vertical_advection'] = per_layer(lambda k: P.pscalar(advT[k] + zero))
  tt['adiabatic'] = per_layer(lambda k: P.pscalar(kappa * Tad[k] * wp[k]))
  terms['log_surface_pressure']['pressure_advection'] = -P.pscalar(S_G + zero)[None]
  terms['log_surface_pressure']['mass_divergence'] = -P.pscalar(S_d + zero)[None]
  for name, x in tracers.items():
    advx = sr.advection(sdot, x, b)
    terms['tracers/' + name] = {
        'horizontal_advection': per_layer(
            lambda k, x=x: P.pscalar(x[k] * Dv[k]) + P.pgrad(U[k] * x[k], V[k] * x[k])),
        'vertical_advection': per_layer(lambda k, advx=advx: P.pscalar(advx[k] + zero)),
    }
  total = {k: sum(v.values()) for k, v in terms.items()}
  speed = np.sqrt((U ** 2 + V ** 2) / P.cos2)
  rate = max(float(np.abs(Z).max()), float(np.abs(f).max()), float(np.abs(Dv).max()),
             float(np.abs(np.asarray(G)).max()), float(speed.max()) / a)
  tmax = float(np.abs(np.asarray(T)).max())
  floors = {'vorticity': rate * rate, 'divergence': rate * rate, 'temperature_variation': tmax * rate,
            'log_surface_pressure': rate}
  for name, x in tracers.items():
    floors['tracers/' + name] = float(np.abs(x).max()) * rate
  # operator norm x input norm of every leaf (sup norm of the un-differentiated integrands times |grad Y| <= L/a,
  # |lap| <= L(L+1)/a^2): 1e-5 of it is the smallest scale used, i.e. differences below 1e-13 of it are rounding
  mx = lambda x: float(np.abs(np.asarray(x)).max())   # noqa: E731
  gnorm, lnorm = P.L / a, P.L * (P.L + 1) / a ** 2
  grad_lnps = np.sqrt((glon ** 2 + glat ** 2) / P.cos2)
  adv_speed = np.sqrt((np.asarray(advU) ** 2 + np.asarray(advV) ** 2) / P.cos2) if n > 1 else 0.0
  momentum = (gnorm * (mx((np.abs(Z) + np.abs(f)) * speed) + mx(adv_speed) + R * mx(np.abs(np.asarray(Tv)) * grad_lnps))
              + lnorm * (mx(speed) ** 2 / 2 + grav * mx(oro) + mx(Phi)))
  norms = {'vorticity': momentum, 'divergence': momentum,
           'temperature_variation': (mx(Tp) * mx(Dv) + mx(advT) + kappa * mx(np.asarray(Tad) * np.asarray(wp))
                                     + gnorm * mx(Tp) * mx(speed)),
           'log_surface_pressure': mx(S_G) + mx(S_d)}
  for name, x in tracers.items():
    norms['tracers/' + name] = mx(x) * (mx(Dv) + gnorm * mx(speed)) + mx(sr.advection(sdot, x, b))
  floors = {k: max(v, 1e-5 * norms[k]) for k, v in floors.items()}
  return total, terms, floors


def geopotential_modal(P, prm, temperature_variation):
  """Coefficients of Phi_k = g h + R * (trapezoid in ln sigma of the full temperature), dry hydrostatic relation."""
  n = len(prm['t_ref'])
  const = np.zeros(P.nk)
  i00 = P.keys.index((0, 0))
  const[i00] = np.sqrt(4 * np.pi)              # coefficient of the constant function 1
  tfull = [np.asarray(temperature_variation[k], dtype=np.float64) + float(prm['t_ref'][k]) * const for k in range(n)]
  phi = sr.geopotential(tfull, prm['boundaries'], float(prm['R']))
  return np.stack([p + float(prm['g']) * np.asarray(prm['orography']) for p in phi])
