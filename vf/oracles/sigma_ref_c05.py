"""Plain-loop reference of the documented vertical calculus used by the sigma-coordinate primitive equations.

Independent of dinosaur (numpy only). Written from the docstrings of `sigma_coordinates.py` /
`primitive_equations.py` and Durran, "Numerical Methods for Fluid Dynamics", section 8.6 (DESIGN.md, Appendix A).

Conventions: `b` = layer boundaries sigma_{k+1/2}, b[0] = 0 (top) ... b[n] = 1 (surface); layer k = 0..n-1 from the
top; per-layer data are python lists (or arrays indexed on axis 0) of numpy arrays of identical shape.
"""
from __future__ import annotations

import math

import numpy as np


def thickness(b):
  return [float(b[k + 1]) - float(b[k]) for k in range(len(b) - 1)]


def centers(b):
  return [(float(b[k + 1]) + float(b[k])) / 2 for k in range(len(b) - 1)]


def alpha(b):
  """alpha_k = ln(c_{k+1}/c_k)/2 for k < n-1, alpha_{n-1} = -ln(c_{n-1})  (get_sigma_ratios docstring)."""
  c = centers(b)
  n = len(c)
  a = [0.5 * math.log(c[k + 1] / c[k]) for k in range(n - 1)]
  a.append(-math.log(c[n - 1]))
  return a


def sigma_integral(x, b):
  """sum_k x_k dsigma_k (midpoint rule)."""
  d = thickness(b)
  acc = 0.0
  for k in range(len(d)):
    acc = acc + x[k] * d[k]
  return acc


def cumulative_sigma_integral(x, b):
  """C_k = sum_{j<=k} x_j dsigma_j: integral from the top to the lower boundary of layer k."""
  d = thickness(b)
  out, acc = [], 0.0
  for k in range(len(d)):
    acc = acc + x[k] * d[k]
    out.append(acc)
  return out


def sigma_dot(dfull, b):
  """Vertical velocity at the n-1 internal boundaries: sigma_{k+1/2} * S - C_k, zero at top and bottom.

  dfull_k = delta_k + u_k . grad(ln ps) (continuity equation integrated from the top).
  """
  n = len(b) - 1
  c = cumulative_sigma_integral(dfull, b)
  s = c[-1]
  return [float(b[k + 1]) * s - c[k] for k in range(n - 1)]


def advection(sdot, x, b):
  """-(sigma_dot dx/dsigma)_k = -1/2 [ sdot_{k+1/2} (x_{k+1}-x_k)/(c_{k+1}-c_k) + sdot_{k-1/2} (x_k-x_{k-1})/(c_k-c_{k-1}) ].

  Boundary values of sigma_dot and of dx/dsigma are zero (centered_vertical_advection docstring).
  """
  c = centers(b)
  n = len(c)
  out = []
  for k in range(n):
    t = 0.0
    if k < n - 1:
      t = t + sdot[k] * (x[k + 1] - x[k]) / (c[k + 1] - c[k])
    if k > 0:
      t = t + sdot[k - 1] * (x[k] - x[k - 1]) / (c[k] - c[k - 1])
    out.append(-0.5 * t)
  return out


def geopotential(t, b, gas_constant):
  """Phi_k - Phi_surface = R [ alpha_k T_k + sum_{j>k} (alpha_j + alpha_{j-1}) T_j ]  (trapezoid rule in ln sigma)."""
  a = alpha(b)
  n = len(a)
  out = []
  for k in range(n):
    acc = a[k] * t[k]
    for j in range(k + 1, n):
      acc = acc + (a[j] + a[j - 1]) * t[j]
    out.append(gas_constant * acc)
  return out


def omega_over_p(g, dfull, b):
  """(omega/p)_k = G_k - (alpha_k C_k + alpha_{k-1} C_{k-1}) / dsigma_k   (Durran eq. 8.124).

  g_k = u_k . grad(ln ps), C = cumulative integral of dfull = delta + g from the top.
  """
  a = alpha(b)
  d = thickness(b)
  c = cumulative_sigma_integral(dfull, b)
  out = []
  for k in range(len(d)):
    t = a[k] * c[k]
    if k > 0:
      t = t + a[k - 1] * c[k - 1]
    out.append(g[k] - t / d[k])
  return out


def as_array(xs):
  return np.stack([np.asarray(x, dtype=np.float64) for x in xs])
