"""Weak-form (Galerkin) projection machinery shared by weakform_sw / weakform_pe (DESIGN.md, Appendix A).

Independent of dinosaur: scipy spherical harmonics with analytic gradients (sh_oracle.FineGrid) on a fine Gauss
grid. A field is a vector of coefficients ordered like `Projector.keys` = [(m_signed, l)]; synthesis and projection
are dense matrix products, no recurrences, no transforms, no clipping.

Integration is over the unit sphere (the basis is orthonormal there); the radius `a` only enters the gradients.
For cos-weighted vector components (A, B) = cos(lat) * W:
    <grad Y . W> = int (dY/dlon * A + cos(lat) dY/dlat * B) / (a cos^2(lat)) dA ,   <Y s> = int Y s dA
Integration by parts:  -int Y div W = <grad Y . W> ,   -int Y k.curl W = <grad Y . (W_v, -W_u)>.
"""
from __future__ import annotations

import functools

import numpy as np

from vf.oracles import sh_oracle


class Projector:

  def __init__(self, M: int, L: int, nlat: int, nlon: int, radius: float):
    fg = sh_oracle.FineGrid(L, nlat, nlon)
    self.M, self.L, self.nlat, self.nlon, self.a = int(M), int(L), int(nlat), int(nlon), float(radius)
    ms = [int(m) for m in sh_oracle.signed_m_real(M)]
    self.keys = [(m, l) for m in ms for l in range(abs(m), L)]
    self.nk = len(self.keys)
    self.l_of = np.array([l for _, l in self.keys])
    self.m_of = np.array([m for m, _ in self.keys])
    npts = nlon * nlat
    Y = np.empty((self.nk, npts))
    Yl = np.empty((self.nk, npts))
    Yt = np.empty((self.nk, npts))
    for i, (m, l) in enumerate(self.keys):
      y, yl, yt = fg.Y(m, l)
      Y[i], Yl[i], Yt[i] = y.ravel(), yl.ravel(), yt.ravel()
    self.Y, self.Yl, self.Yt = Y, Yl, Yt
    self.shape = (nlon, nlat)
    self.mu = np.broadcast_to(fg.mu[None, :], self.shape)          # sin(lat)
    self.cos2 = 1.0 - self.mu ** 2
    self.lon = np.broadcast_to(fg.lon[:, None], self.shape)
    w = (np.broadcast_to(fg.wlat[None, :], self.shape) * fg.wlon).ravel()
    self.w = w
    self.Yw = Y * w
    gw = w / (self.a * self.cos2.ravel())
    self.Ylw = Yl * gw
    self.Ytw = Yt * gw
    self.lap = -self.l_of * (self.l_of + 1.0) / self.a ** 2          # Laplacian eigenvalues

  # -- synthesis ------------------------------------------------------------
  def synth(self, vec):
    """vec[..., nk] -> (value, d/dlon, cos(lat) d/dlat), each [..., nlon, nlat]."""
    vec = np.asarray(vec, dtype=np.float64)
    lead = vec.shape[:-1]
    return tuple((vec @ B).reshape(lead + self.shape) for B in (self.Y, self.Yl, self.Yt))

  def value(self, vec):
    vec = np.asarray(vec, dtype=np.float64)
    return (vec @ self.Y).reshape(vec.shape[:-1] + self.shape)

  def inv_lap(self, vec):
    with np.errstate(divide='ignore'):
      inv = np.where(self.l_of > 0, 1.0 / np.where(self.l_of > 0, self.lap, 1.0), 0.0)
    return np.asarray(vec) * inv

  def wind(self, vor, div):
    """(U, V) = cos(lat) * (u, v) from vorticity / divergence coefficients (stream function / velocity potential)."""
    _, pl, pt = self.synth(self.inv_lap(vor))
    _, cl, ct = self.synth(self.inv_lap(div))
    return (cl - pt) / self.a, (ct + pl) / self.a

  # -- projection -----------------------------------------------------------
  def pscalar(self, s):
    """<Y s> for s[..., nlon, nlat] -> [..., nk]."""
    s = np.asarray(s, dtype=np.float64)
    lead = s.shape[:-2]
    return s.reshape(lead + (-1,)) @ self.Yw.T

  def pgrad(self, A, B):
    """<grad Y . W> with (A, B) = cos(lat) * (W_lon, W_lat)."""
    A = np.asarray(A, dtype=np.float64)
    B = np.asarray(B, dtype=np.float64)
    lead = A.shape[:-2]
    return A.reshape(lead + (-1,)) @ self.Ylw.T + B.reshape(lead + (-1,)) @ self.Ytw.T

  def project_function(self, f):
    """Coefficients of a function given on the fine grid (f[nlon, nlat]); exact if f is band-limited to L-1."""
    return self.pscalar(f)

  # -- layouts --------------------------------------------------------------
  def layout_index(self, rows):
    """Index arrays (row, l) into a modal array whose first axis has signed wavenumbers `rows` (None = dead row)."""
    pos = {m: i for i, m in enumerate(rows) if m is not None}
    return np.array([pos[m] for m, _ in self.keys]), self.l_of.copy()

  def to_vec(self, rows, x):
    ri, li = self.layout_index(rows)
    return np.asarray(x, dtype=np.float64)[..., ri, li]

  def from_vec(self, rows, vec, modal_shape):
    ri, li = self.layout_index(rows)
    vec = np.asarray(vec, dtype=np.float64)
    out = np.zeros(vec.shape[:-1] + tuple(modal_shape))
    out[..., ri, li] = vec
    return out


@functools.lru_cache(maxsize=4)
def projector(M, L, nlat, nlon, radius):
  return Projector(M, L, nlat, nlon, radius)


def fine_sizes(M: int, L: int, order: int, s: int, extra: int = 0):
  """(nlat, nlon) of a Gauss grid integrating products of `order` fields band-limited to s (+1 for winds),
  against a gradient of a basis function l <= L-1, exactly (with margin)."""
  deg = order * (s + 1) + L + 2 + extra
  nlat = deg // 2 + 2
  mm = min(s, M - 1)
  nlon = order * mm + M + 2 + extra
  nlon += nlon % 2
  return int(nlat), int(max(nlon, 4))
