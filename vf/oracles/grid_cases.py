"""Helpers shared by the transform-level properties C01 / C02 / C09.

* grid-configuration strategies with an explicit *resolution class* (resolved / under-resolved in
  latitude / longitude / both) and the standard factory grids,
* latitude nodes and modal layouts written down independently of dinosaur (closed forms / numpy),
* batched unit-vector pushes (operator matrices) with bounded memory,
* the fixed Real -> Fast coefficient re-indexing.

Nothing here imports dinosaur at module import time.
"""
from __future__ import annotations

import functools

from hypothesis import strategies as st
import numpy as np

from vf import gens

# ----------------------------------------------------------------------------
# standard truncations from the literature: name -> (max wavenumber, longitudes, latitudes)

FACTORY_TABLE = {
    'T21': (21, 64, 32), 'T31': (31, 96, 48), 'T42': (42, 128, 64), 'T85': (85, 256, 128),
    'T106': (106, 320, 160), 'T119': (119, 360, 180), 'T170': (170, 512, 256), 'T213': (213, 640, 320),
    'T340': (340, 1024, 512), 'T425': (425, 1280, 640),
    'TL31': (31, 64, 32), 'TL47': (47, 96, 48), 'TL63': (63, 128, 64), 'TL95': (95, 192, 96),
    'TL127': (127, 256, 128), 'TL159': (159, 320, 160), 'TL179': (179, 360, 180), 'TL255': (255, 512, 256),
    'TL639': (639, 1280, 640), 'TL1279': (1279, 2560, 1280),
}


def factory_cfg(name, impl='real', spacing='gauss', **opts):
  """Explicit configuration equivalent to Grid.<name>() according to the literature table."""
  mw, nlon, nlat = FACTORY_TABLE[name]
  cfg = {'M': mw + 1, 'L': mw + 2, 'nlon': nlon, 'nlat': nlat, 'spacing': spacing, 'impl': impl,
         'offset': 0.0, 'radius': None, 'factory': name}
  cfg.update(opts)
  return cfg


def _impl_arg(cfg):
  import functools as ft
  from dinosaur import spherical_harmonic as sh
  if cfg.get('impl', 'real') == 'real':
    return sh.RealSphericalHarmonics
  opts = {}
  for key, name in (('bsm', 'base_shape_multiple'), ('stacked', 'stacked_fourier_transforms'),
                    ('reverse', 'reverse_einsum_arg_order')):
    if cfg.get(key) is not None:
      opts[name] = cfg[key]
  if cfg.get('precision'):
    opts['transform_precision'] = cfg['precision']
  return ft.partial(sh.FastSphericalHarmonics, **opts) if opts else sh.FastSphericalHarmonics


def build(cfg, impl=None, **override):
  """Builds the Grid of `cfg`; factory / with_wavenumbers / construct configurations go through those entry points."""
  from dinosaur import spherical_harmonic as sh
  cfg = dict(cfg, **override)
  if impl is not None:
    cfg['impl'] = impl
  via = cfg.get('via')
  kw = dict(latitude_spacing=cfg.get('spacing', 'gauss'), longitude_offset=cfg.get('offset', 0.0) or 0.0,
            radius=cfg.get('radius'), spherical_harmonics_impl=_impl_arg(cfg))
  if via == 'factory':
    return getattr(sh.Grid, cfg['factory'])(**kw)
  if via == 'with_wavenumbers':
    return sh.Grid.with_wavenumbers(cfg['M'], dealiasing=cfg['dealiasing'], **kw)
  if via == 'construct':
    return sh.Grid.construct(max_wavenumber=cfg['M'] - 1, gaussian_nodes=cfg['nlat'] // 2, **kw)
  return gens.build_grid(cfg)


def check_shape_contract(cfg, grid):
  """The constructed grid has exactly the sizes the configuration (literature table / documented rule) says."""
  got = (grid.longitude_wavenumbers, grid.total_wavenumbers, grid.longitude_nodes, grid.latitude_nodes)
  want = (cfg['M'], cfg['L'], cfg['nlon'], cfg['nlat'])
  return got == want, got, want


# ----------------------------------------------------------------------------
# strategies

_FAST_BSM = [None, 1, 2, 3, 8]


@st.composite
def impl_options(draw, impls=('real', 'fast')):
  impl = draw(st.sampled_from(list(impls)))
  if impl == 'real':
    return {'impl': 'real'}
  return {'impl': 'fast', 'bsm': draw(st.sampled_from(_FAST_BSM)),
          'stacked': draw(st.sampled_from([None, True, False])),
          'reverse': draw(st.sampled_from([None, True, False])),
          'precision': draw(st.sampled_from(['tensorfloat32', 'float32', 'bfloat16']))}


@st.composite
def grid_cfgs(draw, max_m=12, min_m=1, kinds=('scalar',), resolutions=('resolved',), impls=('real', 'fast'),
              spacings=gens.SPACINGS, factories=(), special=True, allow_offset=True, allow_radius=True,
              max_slack=5):
  """JSON grid configuration.

  kinds: exactness kinds (see gens.required_degree) the *resolved* node counts are built for.
  resolutions: 'resolved' | 'under_lat' | 'under_lon' | 'under_both' (node counts below what `kind` needs,
    but still admissible for the constructors: longitude_nodes >= longitude_wavenumbers, >= 1 latitude).
  factories: names of T*/TL* grids that may be drawn instead; special: also Grid.with_wavenumbers / construct.
  """
  opts = draw(impl_options(impls))
  extra = {}
  extra['offset'] = draw(st.sampled_from([0.0, 0.0, 0.3, -1.0, 2.5])) if allow_offset else 0.0
  extra['radius'] = draw(st.sampled_from([None, 1.0, 2.5, 0.01, 6.37e6, 37.0])) if allow_radius else None
  branches = ['generic'] * 6 + (['factory'] if factories else []) + (['with_wavenumbers', 'construct'] if special else [])
  branch = draw(st.sampled_from(branches))
  if branch == 'factory':
    name = draw(st.sampled_from(list(factories)))
    spacing = draw(st.sampled_from([s for s in spacings if s != 'equiangular_with_poles'] or ['gauss']))
    cfg = factory_cfg(name, spacing=spacing, via='factory')
  elif branch == 'with_wavenumbers':
    M = draw(st.integers(max(min_m, 1), max_m))
    deal = draw(st.sampled_from(['linear', 'quadratic', 'cubic']))
    order = {'linear': 2, 'quadratic': 3, 'cubic': 4}[deal]
    nlon = order * M + 1
    cfg = {'M': M, 'L': M + 1, 'nlon': nlon, 'nlat': -(-nlon // 2), 'spacing': draw(st.sampled_from(list(spacings))),
           'via': 'with_wavenumbers', 'dealiasing': deal}
  elif branch == 'construct':
    mw = draw(st.integers(max(min_m - 1, 0), max_m - 1))
    gn = draw(st.integers(max(1, (mw + 4) // 4), max(1, (mw + 4) // 4) + mw + 2))   # 4*gn >= mw + 1
    cfg = {'M': mw + 1, 'L': mw + 2, 'nlon': 4 * gn, 'nlat': 2 * gn, 'spacing': draw(st.sampled_from(list(spacings))),
           'via': 'construct'}
  else:
    M = draw(st.integers(min_m, max_m))
    L = M + draw(st.sampled_from([0, 1, 1, 2]))
    spacing = draw(st.sampled_from(list(spacings)))
    kind = draw(st.sampled_from(list(kinds)))
    res = draw(st.sampled_from(list(resolutions)))
    lat_min = gens.min_lat_nodes(spacing, gens.required_degree(kind, L))
    lon_min = max(gens.required_lon_nodes(kind, M), M)
    lat_floor = 2 if spacing == 'equiangular_with_poles' else 1
    slack_lat, slack_lon = draw(st.integers(0, max_slack)), draw(st.integers(0, max_slack))
    nlat, nlon = lat_min + slack_lat, lon_min + slack_lon
    if res in ('under_lat', 'under_both') and lat_min - 1 >= lat_floor:
      nlat = draw(st.integers(lat_floor, lat_min - 1))
    if res in ('under_lon', 'under_both') and lon_min - 1 >= M:
      nlon = draw(st.integers(M, lon_min - 1))
    cfg = {'M': M, 'L': L, 'nlon': nlon, 'nlat': nlat, 'spacing': spacing, 'kind': kind}
  cfg.update(opts)
  cfg.update(extra)
  return cfg


def degree(cfg):
  return gens.lat_exactness(cfg['spacing'], cfg['nlat'])


def is_resolved(cfg, kind):
  return (degree(cfg) >= gens.required_degree(kind, cfg['L'])
          and cfg['nlon'] >= max(gens.required_lon_nodes(kind, cfg['M']), cfg['M']))


def labels(cfg, kind='scalar'):
  labs = gens.grid_labels(cfg)
  labs.append('via=' + cfg.get('via', 'Grid()'))
  labs.append(f"{kind}-resolved" if is_resolved(cfg, kind) else f"under-resolved({kind})")
  labs.append('nlon_parity=' + ('odd' if cfg['nlon'] % 2 else 'even'))
  if cfg.get('impl') == 'fast':
    labs.append(f"stacked={cfg.get('stacked')}")
    labs.append(f"bsm={cfg.get('bsm')}")
  if cfg['L'] != cfg['M']:
    labs.append('L>M')
  else:
    labs.append('L==M')
  return labs


# ----------------------------------------------------------------------------
# independent node positions / layouts


def lat_nodes(spacing, n):
  """sin(latitude) of the nodes, south to north, from the documented definitions (no dinosaur code)."""
  if spacing == 'gauss':
    return np.polynomial.legendre.leggauss(n)[0]
  if spacing == 'equiangular':
    return np.sin(-np.pi / 2 + (np.arange(n) + 0.5) * np.pi / n)
  if spacing == 'equiangular_with_poles':
    return np.sin(-np.pi / 2 + np.arange(n) * np.pi / (n - 1)) if n > 1 else np.array([-1.0])
  raise ValueError(spacing)


def lon_nodes(n):
  return np.arange(n) * (2 * np.pi / n)


def layout(cfg, modal_shape):
  """(m_signed[row] with None for dead rows, valid[row, col]) of a modal array of `modal_shape` for `cfg`.

  Real layout: rows [0, +1, -1, +2, -2, ...]; Fast layout: [0, dead, +1, -1, ...] then padding; columns l = 0..L-1
  then padding. Derived from the configuration and the array *shape* only.
  """
  M, L = cfg['M'], cfg['L']
  rows, cols = modal_shape
  if cfg.get('impl', 'real') == 'real':
    ms = [0] + [s * m for m in range(1, M) for s in (1, -1)]
  else:
    ms = [0, None] + [s * m for m in range(1, M) for s in (1, -1)]
  if len(ms) > rows or cols < L:
    raise AssertionError(f'modal shape {modal_shape} too small for M={M}, L={L}')
  ms = ms + [None] * (rows - len(ms))
  valid = np.zeros((rows, cols), dtype=bool)
  for i, m in enumerate(ms):
    if m is not None:
      valid[i, abs(m):L] = True
  return ms, valid


def flat_index_arrays(cfg, modal_shape):
  """Per flattened modal index: signed m (0 for dead), |m|, l, valid."""
  ms, valid = layout(cfg, modal_shape)
  rows, cols = modal_shape
  m_signed = np.array([0 if m is None else m for m in ms])
  mm = np.repeat(m_signed, cols)
  ll = np.tile(np.arange(cols), rows)
  return mm, np.abs(mm), ll, valid.reshape(-1)


def expected_modal_shape(cfg):
  M, L = cfg['M'], cfg['L']
  if cfg.get('impl', 'real') == 'real':
    return (2 * M - 1, L)
  b = cfg.get('bsm') or 1
  up = lambda x, k: k * (-(-x // k))   # noqa: E731
  return (up(2 * M, 2 * b), up(L, b))


def expected_nodal_shape(cfg):
  if cfg.get('impl', 'real') == 'real':
    return (cfg['nlon'], cfg['nlat'])
  b = cfg.get('bsm') or 1
  up = lambda x, k: k * (-(-x // k))   # noqa: E731
  return (up(cfg['nlon'], b), up(cfg['nlat'], b))


# ----------------------------------------------------------------------------
# operator matrices by pushing unit vectors


def push_units(fn, in_shape, chunk=768, indices=None):
  """Applies `fn` (acting on the trailing len(in_shape) axes) to unit vectors; returns array [n_in, *out_shape]."""
  K = int(np.prod(in_shape))
  idx = np.arange(K) if indices is None else np.asarray(indices)
  outs = []
  for s in range(0, len(idx), chunk):
    sel = idx[s:s + chunk]
    n = chunk if len(idx) > chunk else len(sel)       # constant batch size: one compilation per configuration
    E = np.zeros((n, K))
    E[np.arange(len(sel)), sel] = 1.0
    outs.append(np.asarray(fn(E.reshape((n,) + tuple(in_shape))))[:len(sel)])
  return np.concatenate(outs, axis=0) if outs else np.zeros((0,) + tuple(in_shape))


# ----------------------------------------------------------------------------
# Real <-> Fast re-indexing (the fixed relabelling of coefficient layouts)


def real_to_fast(x, fast_modal_shape):
  """Insert the dead sin(m=0) row after row 0 and zero-pad to the Fast layout's shape."""
  x = np.asarray(x)
  out = np.zeros(x.shape[:-2] + tuple(fast_modal_shape), dtype=x.dtype)
  r, c = x.shape[-2:]
  out[..., 0, :c] = x[..., 0, :]
  out[..., 2:r + 1, :c] = x[..., 1:, :]
  return out


def fast_to_real(y, real_modal_shape):
  y = np.asarray(y)
  r, c = real_modal_shape
  out = np.zeros(y.shape[:-2] + (r, c), dtype=y.dtype)
  out[..., 0, :] = y[..., 0, :c]
  out[..., 1:, :] = y[..., 2:r + 1, :c]
  return out


@functools.lru_cache(maxsize=64)
def oracle_basis(L, spacing, nlat, nlon):
  """scipy basis on the independently computed nodes of a (spacing, nlat, nlon) grid (offset-free longitudes)."""
  from vf.oracles import sh_oracle
  with np.errstate(all='ignore'):
    return sh_oracle.Basis(L, lat_nodes(spacing, nlat), lon_nodes(nlon))


def oracle_tensor(cfg, modal_shape, which=0):
  """want[row, col, lon, lat]: oracle value (which=0), d/dlon (1) or cos(lat) d/dlat (2) of each layout entry
  (zeros for dead/padded/out-of-triangle entries)."""
  ms, valid = layout(cfg, modal_shape)
  b = oracle_basis(cfg['L'], cfg['spacing'], cfg['nlat'], cfg['nlon'])
  rows, cols = modal_shape
  out = np.zeros((rows, cols, cfg['nlon'], cfg['nlat']))
  for i, m in enumerate(ms):
    if m is None:
      continue
    f, df = b.fourier(m)
    am = abs(m)
    P = b.P[am:cfg['L'], am, :]                       # [l, lat]
    if which == 0:
      out[i, am:cfg['L']] = f[None, :, None] * P[:, None, :]
    elif which == 1:
      out[i, am:cfg['L']] = df[None, :, None] * P[:, None, :]
    else:
      with np.errstate(all='ignore'):
        dP = b.one_minus_mu2[None, :] * b.dP[am:cfg['L'], am, :]
      dP = np.where(b.one_minus_mu2[None, :] == 0, 0.0, dP)
      out[i, am:cfg['L']] = f[None, :, None] * dP[:, None, :]
  return out
