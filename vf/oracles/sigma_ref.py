"""Plain-loop float64 reference implementations of the documented vertical (sigma) calculus.

Nothing here imports dinosaur or jax: every function is written from the docstrings of
`dinosaur/sigma_coordinates.py` / `dinosaur/primitive_equations.py` (Durran, "Numerical Methods for
Fluid Dynamics", section 8.6) with explicit python loops over layers, one column at a time, so that no
vectorisation / cumsum / einsum / roll trick of the code under test is repeated.

Conventions: `b` = boundaries (n+1 increasing values from 0 to 1), layer k lies between b[k] and b[k+1],
centre c[k] = (b[k]+b[k+1])/2, thickness d[k] = b[k+1]-b[k]; interface k+1/2 (k = 0..n-2) separates the
layers k and k+1. Layers are counted from the top (sigma = 0) to the surface (sigma = 1).
"""
from __future__ import annotations

import math

import numpy as np


# ----------------------------------------------------------------------------
# geometry


def centers(b):
  return [(float(b[k]) + float(b[k + 1])) / 2.0 for k in range(len(b) - 1)]


def thickness(b):
  return [float(b[k + 1]) - float(b[k]) for k in range(len(b) - 1)]


def center_to_center(b):
  c = centers(b)
  return [c[k + 1] - c[k] for k in range(len(c) - 1)]


def _columns(x, axis):
  """(n, ncols) float64 view of x with `axis` first; returns also a function restoring the layout."""
  x = np.asarray(x, dtype=np.float64)
  moved = np.moveaxis(x, axis, 0)
  rest = moved.shape[1:]
  cols = moved.reshape(moved.shape[0], int(np.prod(rest)) if rest else 1)

  def restore(y):
    y = np.asarray(y, dtype=np.float64).reshape((y.shape[0],) + rest)
    return np.moveaxis(y, 0, axis)
  return cols, restore


def _per_column(fn, x, axis, n_out):
  cols, restore = _columns(x, axis)
  out = np.zeros((n_out, cols.shape[1]))
  for j in range(cols.shape[1]):
    out[:, j] = fn([float(v) for v in cols[:, j]])
  return restore(out)


# ----------------------------------------------------------------------------
# integrals


def cumulative_sigma_integral(x, b, axis=-3, downward=True):
  """Midpoint rule: integral of x from sigma=0 to the lower boundary of each layer (downward), or from
  sigma=1 to the upper boundary of each layer (upward, counted positive)."""
  d = thickness(b)
  n = len(d)

  def col(v):
    out = [0.0] * n
    if downward:
      acc = 0.0
      for k in range(n):
        acc += v[k] * d[k]
        out[k] = acc
    else:
      acc = 0.0
      for k in range(n - 1, -1, -1):
        acc += v[k] * d[k]
        out[k] = acc
    return out
  return _per_column(col, x, axis, n)


def sigma_integral(x, b, axis=-3, keepdims=True):
  d = thickness(b)
  n = len(d)

  def col(v):
    return [math.fsum(v[k] * d[k] for k in range(n))]
  out = _per_column(col, x, axis, 1)
  return out if keepdims else np.squeeze(out, axis=axis)


def log_sigma_segments(x, b, axis=-3):
  """Trapezoid contributions of the n segments [c0,c1], [c1,c2], ..., [c_{n-1}, 1] to the integral of
  x d(log sigma); x is taken constant (= x[n-1]) between the lowest centre and the surface."""
  c = centers(b)
  n = len(c)

  def col(v):
    out = [0.0] * n
    for k in range(n - 1):
      out[k] = 0.5 * (v[k] + v[k + 1]) * (math.log(c[k + 1]) - math.log(c[k]))
    out[n - 1] = v[n - 1] * (0.0 - math.log(c[n - 1]))
    return out
  return _per_column(col, x, axis, n)


def cumulative_log_sigma_integral(x, b, axis=-3, downward=True):
  """downward=False: integral of x d(log sigma) from the centre of each layer to the surface (sigma=1).
  downward=True: from the centre of the top layer to the next centre below each layer (surface for the last)."""
  seg, restore = _columns(log_sigma_segments(x, b, axis), axis)
  n = seg.shape[0]
  out = np.zeros_like(seg)
  for j in range(seg.shape[1]):
    if downward:
      acc = 0.0
      for k in range(n):
        acc += seg[k, j]
        out[k, j] = acc
    else:
      acc = 0.0
      for k in range(n - 1, -1, -1):
        acc += seg[k, j]
        out[k, j] = acc
  return restore(out)


def trapezoid_up_log_sigma(x, b, axis=-3):
  """Independent formulation of the upward integral: for every layer k apply the composite trapezoid rule
  sum_i (s[i+1]-s[i]) (f[i]+f[i+1])/2 to the nodes s = log(c[k..n-1]) + [log 1], f = x[k..n-1] + [x[n-1]]."""
  c = centers(b)
  n = len(c)

  def col(v):
    out = [0.0] * n
    for k in range(n):
      s = [math.log(c[i]) for i in range(k, n)] + [0.0]
      f = [v[i] for i in range(k, n)] + [v[n - 1]]
      out[k] = math.fsum((s[i + 1] - s[i]) * (f[i] + f[i + 1]) / 2.0 for i in range(len(s) - 1))
    return out
  return _per_column(col, x, axis, n)


# ----------------------------------------------------------------------------
# differences and advection


def centered_difference(x, b, axis=-3):
  """(dx/dsigma)[k+1/2] = (x[k+1]-x[k]) / (c[k+1]-c[k]), k = 0..n-2."""
  c = centers(b)
  n = len(c)

  def col(v):
    return [(v[k + 1] - v[k]) / (c[k + 1] - c[k]) for k in range(n - 1)]
  return _per_column(col, x, axis, n - 1)


def _pairs(w, x, axis):
  wc, _ = _columns(w, axis)
  xc, restore = _columns(x, axis)
  return wc, xc, restore


def centered_vertical_advection(w, x, b, axis=-3, w_boundary=None, dx_boundary=None):
  """-(w dx/dsigma)[k] = -1/2 (w[k+1/2] dx[k+1/2] + w[k-1/2] dx[k-1/2]); interface values above the top
  layer / below the bottom layer come from the boundary values (default 0)."""
  c = centers(b)
  n = len(c)
  w = np.broadcast_to(np.asarray(w, dtype=np.float64), _shape_with(x, axis, n - 1))
  wc, xc, restore = _pairs(w, x, axis)
  ncol = xc.shape[1]
  wb = _boundary_cols(w_boundary, x, axis, ncol)
  db = _boundary_cols(dx_boundary, x, axis, ncol)
  out = np.zeros((n, ncol))
  for j in range(ncol):
    for k in range(n):
      if k < n - 1:
        w_dn, d_dn = wc[k, j], (xc[k + 1, j] - xc[k, j]) / (c[k + 1] - c[k])
      else:
        w_dn, d_dn = wb[1][j], db[1][j]
      if k > 0:
        w_up, d_up = wc[k - 1, j], (xc[k, j] - xc[k - 1, j]) / (c[k] - c[k - 1])
      else:
        w_up, d_up = wb[0][j], db[0][j]
      out[k, j] = -0.5 * (w_dn * d_dn + w_up * d_up)
  return restore(out)


def upwind_vertical_advection(w, x, b, axis=-3):
  """First-order upwind: downward motion (w > 0) at the interface above a layer brings the value from
  above, upward motion (w < 0) at the interface below brings the value from below; zero flux at top/bottom."""
  c = centers(b)
  n = len(c)
  w = np.broadcast_to(np.asarray(w, dtype=np.float64), _shape_with(x, axis, n - 1))
  wc, xc, restore = _pairs(w, x, axis)
  ncol = xc.shape[1]
  out = np.zeros((n, ncol))
  for j in range(ncol):
    for k in range(n):
      acc = 0.0
      if k > 0 and wc[k - 1, j] > 0:
        acc += wc[k - 1, j] * (xc[k, j] - xc[k - 1, j]) / (c[k] - c[k - 1])
      if k < n - 1 and wc[k, j] < 0:
        acc += wc[k, j] * (xc[k + 1, j] - xc[k, j]) / (c[k + 1] - c[k])
      out[k, j] = -acc
  return restore(out)


def _shape_with(x, axis, m):
  s = list(np.shape(x))
  s[axis] = m
  return tuple(s)


def _boundary_cols(bv, x, axis, ncol):
  if bv is None:
    return [np.zeros(ncol), np.zeros(ncol)]
  out = []
  for v in bv:
    v = np.broadcast_to(np.asarray(v, dtype=np.float64), _shape_with(x, axis, 1))
    out.append(_columns(v, axis)[0][0])
  return out


# ----------------------------------------------------------------------------
# geopotential (Durran 8.6.5: G) and implicit temperature weights (H)


def sigma_ratios(b):
  """alpha[j] = log(c[j+1]/c[j]) / 2 for j < n-1, alpha[n-1] = -log(c[n-1])."""
  c = centers(b)
  n = len(c)
  return [math.log(c[j + 1] / c[j]) / 2.0 for j in range(n - 1)] + [-math.log(c[n - 1])]


def geopotential_weights(b, gas_constant):
  """G[j][j] = R alpha[j]; G[j][k] = R (alpha[k] + alpha[k-1]) for k > j; 0 below the diagonal."""
  a = sigma_ratios(b)
  n = len(a)
  g = np.zeros((n, n))
  for j in range(n):
    for k in range(n):
      if k == j:
        g[j, k] = gas_constant * a[j]
      elif k > j:
        g[j, k] = gas_constant * (a[k] + a[k - 1])
  return g


def geopotential_trapezoid(temperature, b, gas_constant, axis=-3):
  """Phi[k] - Phi_surface = R * integral_{c[k]}^{1} T d(log sigma) by the documented trapezoid rule."""
  return gas_constant * trapezoid_up_log_sigma(temperature, b, axis)


def _P(i):
  return 1.0 if i >= 0 else 0.0


def temperature_implicit_weights(b, t_ref, kappa):
  """H from the docstring of get_temperature_implicit_weights, entry by entry:

  H[r,s]/d[s] = kappa T[r] (P(r-s) alpha[r] + P(r-s-1) alpha[r-1]) / d[r] - K[r,s] - K[r-1,s]
  K[r,s] = (T[r+1]-T[r]) / (d[r+1]+d[r]) * (P(r-s) - sum(d[:r+1])),  K = 0 for r < 0 and r = n-1.
  """
  d = thickness(b)
  a = sigma_ratios(b)
  n = len(d)
  t = [float(v) for v in t_ref]

  def K(r, s):
    if r < 0 or r >= n - 1:
      return 0.0
    return (t[r + 1] - t[r]) / (d[r + 1] + d[r]) * (_P(r - s) - math.fsum(d[:r + 1]))

  h = np.zeros((n, n))
  for r in range(n):
    for s in range(n):
      first = _P(r - s) * a[r]
      if r >= 1:
        first += _P(r - s - 1) * a[r - 1]
      h[r, s] = d[s] * (kappa * t[r] * first / d[r] - K(r, s) - K(r - 1, s))
  return h


def temperature_implicit(divergence, b, t_ref, kappa, axis=-3):
  """Implicit temperature tendency -H . divergence along `axis`, by loops."""
  h = temperature_implicit_weights(b, t_ref, kappa)
  n = h.shape[0]

  def col(v):
    return [-math.fsum(h[r, s] * v[s] for s in range(n)) for r in range(n)]
  return _per_column(col, divergence, axis, n)


def pe_implicit_matrix(b, t_ref, kappa, gas_constant, lam):
  """Matrix A of the implicit tendency of the primitive equations for one total wavenumber with Laplacian
  eigenvalue `lam`, acting on [divergence(n), temperature_variation(n), log_surface_pressure(1)]:

    d(div)/dt   = -lam * (G T' + R T_ref lnps)
    d(T')/dt    = -H div
    d(lnps)/dt  = -sum_k d[k] div[k]
  """
  n = len(b) - 1
  g = geopotential_weights(b, gas_constant)
  h = temperature_implicit_weights(b, t_ref, kappa)
  d = thickness(b)
  a = np.zeros((2 * n + 1, 2 * n + 1))
  for j in range(n):
    for k in range(n):
      a[j, n + k] = -lam * g[j, k]
      a[n + j, k] = -h[j, k]
    a[j, 2 * n] = -lam * gas_constant * float(t_ref[j])
    a[2 * n, j] = -d[j]
  return a
