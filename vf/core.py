"""Core data types shared by every property module.

A *sub-check* turns one facet of a listed property into an executable check:
  strategy(tier)  -> Hypothesis strategy producing a JSON-serialisable case, or
  cases(tier)     -> finite list of cases (exhaustive enumeration)
  run(case)       -> Outcome   (pure function of the case and of /repo's code)
`run` never raises for a property violation: it returns Outcome(ok=False, ...).
Exceptions escaping `run` are harness errors (exit 2) unless the sub-check says
`raises_are_violations` (contract: "never raises on admissible input").
"""
from __future__ import annotations

import dataclasses
import hashlib
import json
import math
from typing import Any, Callable, Optional

import numpy as np


def to_jsonable(x: Any) -> Any:
  """Converts numpy scalars/arrays/tuples to plain JSON values."""
  if isinstance(x, dict):
    return {str(k): to_jsonable(v) for k, v in x.items()}
  if isinstance(x, (list, tuple)):
    return [to_jsonable(v) for v in x]
  if isinstance(x, np.ndarray):
    return to_jsonable(x.tolist())
  if isinstance(x, (np.integer,)):
    return int(x)
  if isinstance(x, (np.floating,)):
    x = float(x)
  if isinstance(x, float):
    if math.isnan(x):
      return 'nan'
    if math.isinf(x):
      return 'inf' if x > 0 else '-inf'
    return x
  if isinstance(x, (np.bool_,)):
    return bool(x)
  if isinstance(x, bytes):
    return {'__bytes__': x.hex()}
  if isinstance(x, complex):
    return {'__complex__': [x.real, x.imag]}
  if x is None or isinstance(x, (bool, int, str)):
    return x
  if hasattr(x, 'tolist'):
    return to_jsonable(x.tolist())
  return repr(x)


def canon(case: Any) -> str:
  return json.dumps(to_jsonable(case), sort_keys=True, separators=(',', ':'))


def case_hash(case: Any) -> str:
  return hashlib.sha1(canon(case).encode()).hexdigest()[:12]


@dataclasses.dataclass
class Outcome:
  ok: bool = True
  nontrivial: bool = True
  labels: tuple = ()
  units: int = 1            # e.g. number of basis vectors / inputs evaluated under the case
  detail: Optional[dict] = None   # on failure: observed numbers
  known: Optional[str] = None     # id of the known finding this failure was verified to match
  excluded_known: int = 0         # inputs excluded by construction because of a known finding
  skipped: bool = False           # case was outside the domain (counted, not evaluated)

  def fail(self, **detail):
    self.ok = False
    self.detail = to_jsonable(detail)
    return self


@dataclasses.dataclass
class Subcheck:
  name: str
  run: Callable[[Any], Outcome]
  strategy: Optional[Callable[[str], Any]] = None
  cases: Optional[Callable[[str], list]] = None
  examples: dict = dataclasses.field(default_factory=lambda: {'quick': 50, 'thorough': 500})
  shards: dict = dataclasses.field(default_factory=lambda: {'quick': 1, 'thorough': 1})
  wall: dict = dataclasses.field(default_factory=lambda: {'quick': 400.0, 'thorough': 1800.0})
  rule: str = ''
  env: dict = dataclasses.field(default_factory=dict)   # extra environment for the worker
  raises_are_violations: bool = False
  doc: str = ''
  weight: int = 1   # relative cost hint for scheduling (heavier first)


# ----------------------------------------------------------------------------
# numeric helpers


def relerr(got, want, scale=None) -> float:
  """max|got-want| / scale with scale defaulting to max(|want|,|got|, tiny)."""
  got = np.asarray(got, dtype=np.float64 if not np.iscomplexobj(got) else np.complex128)
  want = np.asarray(want, dtype=got.dtype)
  if got.shape != want.shape:
    got, want = np.broadcast_arrays(got, want)
  if got.size == 0:
    return 0.0
  d = np.abs(got - want)
  if not np.all(np.isfinite(d)):
    # identical non-finite entries are equal; anything else is infinitely wrong
    same = (got == want) | (np.isnan(got) & np.isnan(want))
    if np.all(same | np.isfinite(d)):
      d = np.where(same, 0.0, d)
    else:
      return float('inf')
  if scale is None:
    scale = max(float(np.max(np.abs(want))), float(np.max(np.abs(got))))
  scale = float(scale)
  if scale == 0.0:
    return 0.0 if float(d.max()) == 0.0 else float('inf')
  return float(d.max() / scale)


def argmax_index(got, want):
  d = np.abs(np.asarray(got, dtype=np.float64) - np.asarray(want, dtype=np.float64))
  d = np.where(np.isnan(d), np.inf, d)
  idx = np.unravel_index(int(np.argmax(d)), d.shape) if d.size else ()
  return [int(i) for i in idx]
