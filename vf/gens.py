"""Shared generators (Hypothesis strategies producing JSON cases) and builders.

Every strategy returns plain JSON-able values; `build_*` turn them into
dinosaur objects. Generators construct admissible inputs (no rejection).
"""
from __future__ import annotations

import math

from hypothesis import strategies as st
import numpy as np

SPACINGS = ('gauss', 'equiangular', 'equiangular_with_poles')


# ----------------------------------------------------------------------------
# resolution rules (DESIGN.md 2.1)


def lat_exactness(spacing: str, n: int) -> int:
  """Largest polynomial degree in sin(lat) integrated exactly by the latitude quadrature."""
  if spacing == 'gauss':
    return 2 * n - 1
  return n - 1 if n % 2 == 0 else n


def min_lat_nodes(spacing: str, degree: int) -> int:
  n = 1
  while lat_exactness(spacing, n) < degree:
    n += 1
  if spacing == 'equiangular_with_poles':
    n = max(n, 2)
  return n


def required_degree(kind: str, L: int) -> int:
  """Degree the latitude quadrature must integrate exactly for `kind` of exactness."""
  if kind in ('any', 'modal_only'):
    return 0
  if kind == 'scalar':       # Gram / scalar round trip of all l <= L-1
    return 2 * (L - 1)
  if kind == 'vector':       # vor/div <-> u,v; laplacian through grad/div
    return 2 * L - 2
  if kind == 'quadratic':    # products of two full-spectrum (l<=L-2) fields projected with one gradient
    return 3 * (L - 1) + 1
  if kind == 'cubic':
    return 4 * (L - 1) + 1
  raise ValueError(kind)


def required_lon_nodes(kind: str, M: int) -> int:
  if kind in ('any', 'modal_only'):
    return 1
  k = {'scalar': 2, 'vector': 2, 'quadratic': 3, 'cubic': 4}[kind]
  return k * (M - 1) + 1


@st.composite
def grid_configs(draw, kind='scalar', max_m=12, min_m=1, impls=('real', 'fast'),
                 spacings=SPACINGS, allow_offset=True, allow_radius=True,
                 fast_options=True, max_slack=6):
  """A JSON description of a spherical_harmonic.Grid satisfying the exactness `kind`."""
  M = draw(st.integers(min_m, max_m))
  L = M + draw(st.sampled_from([0, 1, 1, 2]))
  spacing = draw(st.sampled_from(list(spacings)))
  deg = required_degree(kind, L)
  nlat = min_lat_nodes(spacing, deg) + draw(st.integers(0, max_slack))
  if kind in ('any', 'modal_only'):
    nlat = max(nlat, 1 if spacing != 'equiangular_with_poles' else 2)
  nlon = required_lon_nodes(kind, M) + draw(st.integers(0, max_slack))
  impl = draw(st.sampled_from(list(impls)))
  cfg = {'M': M, 'L': L, 'nlon': nlon, 'nlat': nlat, 'spacing': spacing, 'impl': impl}
  if allow_offset:
    cfg['offset'] = draw(st.sampled_from([0.0, 0.0, 0.3, -1.0, 2.5]))
  else:
    cfg['offset'] = 0.0
  if allow_radius:
    cfg['radius'] = draw(st.sampled_from([None, 1.0, 2.5, 0.01, 6.37e6, 37.0]))
  else:
    cfg['radius'] = None
  if impl == 'fast' and fast_options:
    cfg['bsm'] = draw(st.sampled_from([None, 1, 1, 2, 3, 8]))
    cfg['stacked'] = draw(st.sampled_from([None, True, False]))
    cfg['reverse'] = draw(st.sampled_from([None, True, False]))
    cfg['precision'] = draw(st.sampled_from(['tensorfloat32', 'float32', 'bfloat16']))
  return cfg


def build_grid(cfg, mesh=None, impl=None):
  from dinosaur import spherical_harmonic as sh
  impl = impl or cfg.get('impl', 'real')
  kw = dict(longitude_wavenumbers=cfg['M'], total_wavenumbers=cfg['L'],
            longitude_nodes=cfg['nlon'], latitude_nodes=cfg['nlat'],
            latitude_spacing=cfg.get('spacing', 'gauss'),
            longitude_offset=cfg.get('offset', 0.0) or 0.0, radius=cfg.get('radius'))
  if impl == 'real':
    kw['spherical_harmonics_impl'] = sh.RealSphericalHarmonics
  else:
    opts = {}
    for key, name in (('bsm', 'base_shape_multiple'), ('stacked', 'stacked_fourier_transforms'),
                      ('reverse', 'reverse_einsum_arg_order')):
      if cfg.get(key) is not None:
        opts[name] = cfg[key]
    if cfg.get('precision'):
      opts['transform_precision'] = cfg['precision']
    if opts:
      import functools
      kw['spherical_harmonics_impl'] = functools.partial(sh.FastSphericalHarmonics, **opts)
    else:
      kw['spherical_harmonics_impl'] = sh.FastSphericalHarmonics
    if mesh is not None:
      kw['spmd_mesh'] = mesh
  return sh.Grid(**kw)


def grid_labels(cfg):
  labs = [f"spacing={cfg.get('spacing', 'gauss')}", f"impl={cfg.get('impl')}",
          f"nlat_parity={'odd' if cfg['nlat'] % 2 else 'even'}",
          f"radius={'default' if cfg.get('radius') in (None, 1.0) else 'other'}"]
  if cfg.get('impl') == 'fast':
    labs.append(f"padded={'yes' if (cfg.get('bsm') or 1) > 1 else 'no'}")
  if cfg.get('offset'):
    labs.append('offset!=0')
  return labs


# ----------------------------------------------------------------------------
# sigma levels


@st.composite
def sigma_boundaries(draw, min_layers=1, max_layers=8, kinds=('equidistant', 'uneven', 'uneven', 'hybrid')):
  n = draw(st.integers(min_layers, max_layers))
  kind = draw(st.sampled_from(list(kinds)))
  if kind == 'equidistant' or n == 1:
    return [i / n for i in range(n + 1)]
  if kind == 'hybrid':
    # shape of typical NWP level sets: thin layers near the top and bottom
    s = np.linspace(0, 1, n + 1)
    p = draw(st.sampled_from([1.5, 2.0, 3.0]))
    b = (1 - np.cos(np.pi * s)) / 2 if p == 2.0 else s ** p
    b[0], b[-1] = 0.0, 1.0
    return [float(v) for v in b]
  ratio = draw(st.sampled_from([2.0, 5.0, 30.0]))
  t = [draw(st.floats(1.0, ratio, allow_nan=False, width=32)) for _ in range(n)]
  c = np.cumsum(t) / np.sum(t)
  b = np.concatenate([[0.0], c])
  b[-1] = 1.0
  b = np.round(b, 6)
  b[-1] = 1.0
  if np.any(np.diff(b) <= 0):
    return [i / n for i in range(n + 1)]
  return [float(v) for v in b]


def build_sigma(boundaries):
  from dinosaur import sigma_coordinates as sc
  return sc.SigmaCoordinates(np.asarray(boundaries, dtype=np.float64))


def sigma_labels(b):
  d = np.diff(np.asarray(b))
  r = float(d.max() / d.min()) if len(d) else 1.0
  return [f'layers={len(d)}' if len(d) <= 3 else 'layers>3',
          'levels=uneven' if r > 1.0001 else 'levels=equidistant'] + (['thickness_ratio>2'] if r > 2 else [])


# ----------------------------------------------------------------------------
# spectra / states


@st.composite
def sparse_entries(draw, fields, n_levels, M, L, lmax, max_entries=4):
  """[(field, level, m_signed, l, amplitude)] within the triangular truncation, l <= lmax."""
  out = []
  k = draw(st.integers(0, max_entries))
  for _ in range(k):
    f = draw(st.sampled_from(list(fields)))
    lev = draw(st.integers(0, max(n_levels - 1, 0)))
    l = draw(st.integers(0, max(lmax, 0)))
    am = draw(st.integers(0, min(l, M - 1)))
    m = am * draw(st.sampled_from([1, -1])) if am else 0
    amp = draw(st.sampled_from([1.0, -1.0, 0.5, 3.0]))
    out.append([f, lev, m, l, amp])
  return out


@st.composite
def input_descr(draw, fields, n_levels, M, L, lmax, noise=True):
  d = {'sparse': draw(sparse_entries(fields, n_levels, M, L, lmax))}
  if noise:
    d['noise_amp'] = draw(st.sampled_from([0.0, 1.0, 1.0, 0.3]))
    d['noise_seed'] = draw(st.integers(0, 2 ** 16))
    d['slope'] = draw(st.sampled_from([0, 0, 1, 2]))
  else:
    d['noise_amp'], d['noise_seed'], d['slope'] = 0.0, 0, 0
  return d


def modal_index(grid, m_signed: int):
  """Row index of signed wavenumber m in `grid`'s modal layout (derived from modal_axes)."""
  ms = np.asarray(grid.modal_axes[0])
  rows = grid.modal_shape[0]
  M = grid.longitude_wavenumbers
  if rows == 2 * M - 1:   # real layout [0, 1, -1, 2, -2 ...]
    return 0 if m_signed == 0 else (2 * abs(m_signed) - 1 + (1 if m_signed < 0 else 0))
  return 0 if m_signed == 0 else (2 * abs(m_signed) + (1 if m_signed < 0 else 0))


def modal_field(grid, prefix_shape, descr, field, lmax=None, zero_mean=False, amp=1.0):
  """Dense numpy modal array for `field` built from an input description."""
  L = grid.total_wavenumbers
  if lmax is None:
    lmax = L - 1
  _, l = grid.modal_mesh
  shape = tuple(prefix_shape) + tuple(grid.modal_shape)
  x = np.zeros(shape)
  if descr.get('noise_amp', 0.0):
    # independent stream per field name (stable: no use of hash())
    fid = sum((i + 1) * ord(c) for i, c in enumerate(field)) % 100003
    rng = np.random.default_rng([int(descr.get('noise_seed', 0)), fid])
    x = rng.standard_normal(shape) * descr['noise_amp'] / (1.0 + l) ** descr.get('slope', 0)
  x = x * grid.mask * (l <= lmax)
  for f, lev, m, ll, a in descr.get('sparse', []):
    if f != field or ll > lmax or ll >= L or abs(m) > ll or abs(m) >= grid.longitude_wavenumbers:
      continue
    idx = modal_index(grid, int(m))
    if len(prefix_shape) == 0:
      x[idx, ll] += a
    else:
      x[(min(int(lev), prefix_shape[0] - 1),) + (0,) * (len(prefix_shape) - 1) + (idx, ll)] += a
  if zero_mean:
    x[..., 0, 0] = 0.0
  return x * amp


def touches(descr, L, lmax):
  """Labels describing which structurally interesting entries an input touches."""
  labs = set()
  for f, lev, m, l, a in descr.get('sparse', []):
    if abs(m) == l:
      labs.add('touches m=l')
    if l == L - 2:
      labs.add('touches l=L-2')
    if l == L - 1:
      labs.add('touches l=L-1')
  if descr.get('noise_amp'):
    labs.add('dense noise')
  return sorted(labs)


# ----------------------------------------------------------------------------
# scales


@st.composite
def scale_quads(draw):
  """Four positive base scales (length m, time s, mass kg, temperature K), log-uniform over 12 decades."""
  return [float(10.0 ** draw(st.floats(-6, 6, allow_nan=False, width=32))) for _ in range(4)]


def build_scale(quad):
  from dinosaur import scales
  u = scales.units
  return scales.Scale(quad[0] * u.m, quad[1] * u.s, quad[2] * u.kg, quad[3] * u.degK)


# ----------------------------------------------------------------------------
# meshes (C07)


def all_meshes(max_devices=8):
  out = []
  for z in range(1, max_devices + 1):
    for x in (1, 2, 4, 6, 8):
      for y in (1, 2, 4, 6, 8):
        if z * x * y <= max_devices:
          out.append((z, x, y))
  return out
