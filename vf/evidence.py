"""Aggregates worker results into /verif/evidence/<ID>.json and validates it."""
from __future__ import annotations

import json
import os

HERE = os.path.dirname(os.path.dirname(os.path.abspath(__file__)))
SCHEMA = '/root/.vp/EVIDENCE.schema.json'


def write(pid, tier, seed, mod, subs, results, regress_results, violations, known_seen, wall):
  per = {}
  samples = []
  total_cases = total_units = total_nt = 0
  excluded = 0
  for s in subs:
    rs = [r for r in results if r['subcheck'] == s.name]
    nt = set(h for r in rs for h in r['nontrivial_hashes'])
    labels = {}
    for r in rs:
      for k, v in r['labels'].items():
        labels[k] = labels.get(k, 0) + v
    cases = sum(r['cases'] for r in rs)
    units = sum(r['units'] for r in rs)
    per[s.name] = {
        'kind': rs[0].get('kind'),
        'cases': cases,
        'units': units,
        'distinct': sum(r['distinct'] for r in rs),
        'nontrivial': len(nt),
        'labels': dict(sorted(labels.items())),
        'rule': s.rule,
        'excluded_known': sum(r['excluded_known'] for r in rs),
        'skipped_out_of_domain': sum(r['skipped'] for r in rs),
        'budget_truncated': any(r['budget_truncated'] for r in rs),
        'exhaustive': all(r.get('exhaustive') for r in rs),
        'known_finding_hits': {k: v for r in rs for k, v in r.get('known', {}).items()},
        'failing_evaluations': sum(r.get('n_failing_evaluations', 0) for r in rs),
        'wall_s': round(max(r['wall_s'] for r in rs), 1),
        'shards': len(rs),
    }
    total_cases += cases
    total_units += units
    total_nt += len(nt)
    excluded += per[s.name]['excluded_known']
    for r in rs[:1]:
      for c in r['samples'][:2]:
        samples.append({'subcheck': s.name, 'case': c})
  ev = {
      'property_id': pid,
      'tier': tier,
      'seed': int(seed),
      'level': 'exploration',
      'coverage': {
          'evaluations': int(total_cases),
          'units_evaluated': int(total_units),
          'distinct_nontrivial': int(total_nt),
          'rule': getattr(mod, 'RULE', '') or '; '.join(f'{s.name}: {s.rule}' for s in subs),
          'samples': samples,
          'subchecks': per,
          'regression_cases_replayed': len(regress_results),
          'excluded_known': int(excluded),
          'exhaustive': False,
          'units_note': 'evaluations = generated cases (configurations / histories); units_evaluated = '
                        'inputs pushed through the code under those cases (basis vectors, states, query points)',
      },
      'assumptions': list(getattr(mod, 'ASSUMPTIONS', [])),
      'wall_s': round(float(wall), 2),
      'violations': len(violations),
  }
  if known_seen:
    ev['coverage']['known_findings_observed'] = known_seen
  os.makedirs(os.path.join(HERE, 'evidence'), exist_ok=True)
  path = os.path.join(HERE, 'evidence', f'{pid}.json')
  validate(ev)
  with open(path, 'w') as f:
    json.dump(ev, f, indent=1, sort_keys=False)
  return path


def validate(ev):
  try:
    import jsonschema
  except ImportError:
    return
  if os.path.exists(SCHEMA):
    schema = json.load(open(SCHEMA))
  else:
    schema = json.load(open(os.path.join(HERE, 'vf', 'EVIDENCE.schema.json')))
  jsonschema.validate(ev, schema)
