#!/bin/sh
# Offline setup: third-party tooling the checks need beside /venv's packages.
set -e
cd "$(dirname "$0")"
if [ ! -f .deps/.ok ]; then
  rm -rf .deps
  PIP_NO_INDEX=1 /venv/bin/pip install -q --no-index --find-links /opt/veriftools/wheels \
      --target .deps hypothesis jsonschema atheris >/dev/null 2>.deps.log || { cat .deps.log; exit 2; }
  rm -f .deps.log
  touch .deps/.ok
fi
/venv/bin/python -c "import sys; sys.path.insert(0,'.deps'); import hypothesis, jsonschema, atheris" || exit 2
echo setup ok
