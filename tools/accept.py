#!/venv/bin/python
"""Sequential acceptance pass: tools/accept.py [--seeds 1,2,3] [--mutants] [--thorough] ID [ID ...]
Writes logs to /verif/.work/accept/<ID>.<step>.log and prints one summary line per step."""
import argparse, os, subprocess, sys, time, json
HERE = os.path.dirname(os.path.dirname(os.path.abspath(__file__)))
ap = argparse.ArgumentParser()
ap.add_argument('ids', nargs='+'); ap.add_argument('--seeds', default='1,2,3'); ap.add_argument('--mutants', action='store_true')
ap.add_argument('--thorough', action='store_true'); ap.add_argument('--no-quick', action='store_true')
a = ap.parse_args()
os.makedirs(os.path.join(HERE, '.work', 'accept'), exist_ok=True)
def run(cmd, log, env=None):
  t0 = time.time()
  with open(log, 'w') as f:
    r = subprocess.run(cmd, cwd=HERE, stdout=f, stderr=subprocess.STDOUT, env=env)
  return r.returncode, time.time() - t0
for pid in a.ids:
  pid = pid.upper()
  if not a.no_quick:
    for s in [x for x in a.seeds.split(',') if x]:
      log = os.path.join(HERE, '.work', 'accept', f'{pid}.seed{s}.log')
      rc, dt = run(['./check', pid, '--no-evidence'], log, dict(os.environ, VERIF_SEED=s))
      trunc = open(log).read().count('[budget-truncated]')
      print(f'{pid} quick seed={s}: rc={rc} {dt:.0f}s truncated_subchecks={trunc}', flush=True)
    log = os.path.join(HERE, '.work', 'accept', f'{pid}.evidence.log')
    rc, dt = run(['./check', pid], log, dict(os.environ, VERIF_SEED='1'))
    trunc = open(log).read().count('[budget-truncated]')
    ev = os.path.join(HERE, 'evidence', pid + '.json')
    cov = json.load(open(ev))['coverage'] if os.path.exists(ev) else {}
    print(f'{pid} quick evidence: rc={rc} {dt:.0f}s truncated_subchecks={trunc} evaluations={cov.get("evaluations")} units={cov.get("units_evaluated")} nontrivial={cov.get("distinct_nontrivial")}', flush=True)
  if a.mutants:
    log = os.path.join(HERE, '.work', 'accept', f'{pid}.mutants.log')
    rc, dt = run(['tools/run_mutants.py', pid], log)
    txt = open(log).read()
    print(f'{pid} mutants: caught={txt.count("caught ")} missed={txt.count("MISSED")} {dt:.0f}s', flush=True)
    for l in txt.splitlines():
      if l.startswith('MISSED'): print('   ', l, flush=True)
  if a.thorough:
    log = os.path.join(HERE, '.work', 'accept', f'{pid}.thorough.log')
    rc, dt = run(['./check', pid, '--tier', 'thorough', '--no-evidence'], log)
    trunc = open(log).read().count('[budget-truncated]')
    print(f'{pid} thorough: rc={rc} {dt:.0f}s truncated_subchecks={trunc}', flush=True)
