#!/venv/bin/python
"""Regenerates /verif/MANIFEST.json from the property modules present under vf/props."""
import importlib, json, os, sys
HERE = os.path.dirname(os.path.dirname(os.path.abspath(__file__)))
sys.path.insert(0, '/repo'); sys.path.insert(1, HERE); sys.path.append(os.path.join(HERE, '.deps'))
os.environ.setdefault('JAX_PLATFORMS', 'cpu')
props = [json.loads(l) for l in open(os.path.join(HERE, 'properties.jsonl'))]
checks, na = [], []
for p in props:
  pid = p['id']
  path = os.path.join(HERE, 'vf', 'props', pid.lower() + '.py')
  if not os.path.exists(path):
    na.append({'property_id': pid, 'reason': 'check not built yet in this round (planned: DESIGN.md section 5, ' + pid + ')'})
    continue
  mod = importlib.import_module('vf.props.' + pid.lower())
  m = getattr(mod, 'MANIFEST', {})
  checks.append({
      'property_id': pid,
      'quick_cmd': f'./check {pid} --tier quick',
      'thorough_cmd': f'./check {pid} --tier thorough',
      'evidence_file': f'/verif/evidence/{pid}.json',
      'replay_cmd_template': f'./check {pid} --replay {{path}}',
      'engine': 'vf',
      'level_claimed': {
          'category': 'exploration',
          'text': m.get('text', 'Generated-input search (Hypothesis / exhaustive enumeration) against explicit oracles: ' + '; '.join(s.name for s in mod.SUBCHECKS)),
          'design_ref': 'DESIGN.md section 5, ' + pid,
      },
      'level_note': m.get('note', '; '.join(getattr(mod, 'ASSUMPTIONS', [])) or 'oracles are independent re-implementations in vf/oracles and the sub-check module; float64 (jax_enable_x64) arithmetic'),
      'technique': m.get('technique', 'property-based testing (Hypothesis) with round-trip / differential / metamorphic oracles'),
  })
man = {
    'version': 1,
    'setup_cmd': './setup.sh',
    'hooks': {
        'guard': 'DINOSAUR_VERIF',
        'enable': 'no source hooks are needed: every observation point is a public function; checks run /repo\'s working tree via PYTHONPATH=/repo (pure Python, re-imported in a fresh process per sub-check)',
        'baseline_off_cmd': 'cd /repo && /venv/bin/python -m pytest -ra -q -p no:cacheprovider --timeout=900 --continue-on-collection-errors',
        'source_commits': [],
        'add_only': True,
    },
    'engines': [{'name': 'vf', 'path': '/verif/vf', 'serves_properties': [c['property_id'] for c in checks],
                 'kind_free_text': 'Hypothesis 6.168 property-based testing + exhaustive enumeration of finite domains, one fresh process per sub-check shard, JSON cases with direct replay'}],
    'checks': checks,
    'notes': 'Exit codes: 0 held / 1 VIOLATION / 2 harness error. VERIF_SEED selects the Hypothesis seed. Known findings: /verif/known_findings.json. Regression cases: /verif/regress/<ID>/. Seeded breaking changes: /verif/seeded/.',
    'not_applicable': na,
}
json.dump(man, open(os.path.join(HERE, 'MANIFEST.json'), 'w'), indent=1)
import jsonschema
jsonschema.validate(man, json.load(open('/root/.vp/MANIFEST.schema.json')))
print('MANIFEST.json:', len(checks), 'checks,', len(na), 'not yet built')
