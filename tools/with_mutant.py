#!/venv/bin/python
"""Runs a command against a scratch copy of /repo with a mutation applied (sensitivity experiments only).

  tools/with_mutant.py --replace dinosaur/foo.py 'old text' 'new text' [--replace ...] -- ./check C19 --no-evidence
  tools/with_mutant.py --patch /path/to.diff -- ./check C03 --no-evidence
  tools/with_mutant.py --revert <commit> -- ./check C19      (undo one of the fix: commits)

The copy lives under /var/tmp and is removed afterwards. The command sees VERIF_REPO=<copy>.
"""
import os, shutil, subprocess, sys, tempfile

def main():
  argv = sys.argv[1:]
  sep = argv.index('--')
  opts, cmd = argv[:sep], argv[sep + 1:]
  d = tempfile.mkdtemp(prefix='dino-mut-', dir='/var/tmp')
  try:
    subprocess.check_call(['git', '-C', '/repo', 'worktree', 'prune'])
    shutil.copytree('/repo', os.path.join(d, 'repo'), ignore=shutil.ignore_patterns('.git', '__pycache__', 'notebooks'))
    repo = os.path.join(d, 'repo')
    i = 0
    while i < len(opts):
      if opts[i] == '--replace':
        f, old, new = opts[i + 1:i + 4]
        p = os.path.join(repo, f)
        s = open(p).read()
        if s.count(old) != 1:
          print(f'mutation error: {old!r} occurs {s.count(old)} times in {f}'); return 3
        open(p, 'w').write(s.replace(old, new))
        i += 4
      elif opts[i] == '--patch':
        subprocess.check_call(['patch', '-p1', '-s', '-d', repo, '-i', os.path.abspath(opts[i + 1])])
        i += 2
      elif opts[i] == '--revert':
        diff = subprocess.check_output(['git', '-C', '/repo', 'show', opts[i + 1]])
        subprocess.run(['patch', '-p1', '-R', '-s', '-d', repo], input=diff, check=True)
        i += 2
      else:
        print('unknown option', opts[i]); return 3
    env = dict(os.environ, VERIF_REPO=repo)
    return subprocess.call(cmd, env=env, cwd='/verif')
  finally:
    shutil.rmtree(d, ignore_errors=True)

if __name__ == '__main__':
  sys.exit(main())
