#!/venv/bin/python
"""Sensitivity experiments: applies each mutant listed in /verif/mutants/<ID>.json to a scratch copy of
/repo and runs the property's quick check (or the listed sub-checks) against it.

  tools/run_mutants.py C19 [name ...]     -> prints caught / MISSED per mutant, exit 1 if any is missed

mutants/<ID>.json: [{"name": ..., "replace": [[file, old, new], ...] | "revert": <commit>,
                     "only": [subcheck, ...] (optional), "note": ...}, ...]
"""
import json, os, subprocess, sys, time
HERE = os.path.dirname(os.path.dirname(os.path.abspath(__file__)))

def main():
  pid = sys.argv[1].upper()
  names = sys.argv[2:]
  muts = json.load(open(os.path.join(HERE, 'mutants', pid + '.json')))
  missed = 0
  results = []
  for m in muts:
    if names and m['name'] not in names:
      continue
    cmd = [os.path.join(HERE, 'tools', 'with_mutant.py')]
    if 'revert' in m:
      cmd += ['--revert', m['revert']]
    if 'patch' in m:   # path relative to /verif (e.g. a stored seeded change)
      cmd += ['--patch', os.path.join(HERE, m['patch'])]
    for f, old, new in m.get('replace', []):
      cmd += ['--replace', f, old, new]
    cmd += ['--', './check', pid, '--no-evidence', '--tier', m.get('tier', 'quick')]
    for o in m.get('only', []):
      cmd += ['--only', o]
    t0 = time.time()
    r = subprocess.run(cmd, capture_output=True, text=True)
    dt = time.time() - t0
    viol = [l for l in r.stdout.splitlines() if l.startswith('VIOLATION')]
    failing = sorted(set(l.split()[2].rstrip(':') for l in r.stdout.splitlines() if l.strip().startswith('failing sub-check')))
    results.append({'name': m['name'], 'caught': bool(r.returncode == 1 and viol), 'by': failing,
                    'wall_s': round(dt), 'note': m.get('note', '')})
    if r.returncode == 1 and viol:
      print(f'caught  {pid} {m["name"]:40s} {dt:5.0f}s  by {",".join(failing)}', flush=True)
    else:
      missed += 1
      print(f'MISSED  {pid} {m["name"]:40s} {dt:5.0f}s  rc={r.returncode}')
      if r.returncode not in (0, 1):
        print(r.stdout[-1500:], r.stderr[-1500:])
  if not names:   # a complete run: keep the record
    os.makedirs(os.path.join(HERE, 'mutants', 'results'), exist_ok=True)
    json.dump({'property': pid, 'tier': 'quick', 'seed': int(os.environ.get('VERIF_SEED', '1')),
               'caught': sum(r['caught'] for r in results), 'total': len(results), 'mutants': results},
              open(os.path.join(HERE, 'mutants', 'results', pid + '.json'), 'w'), indent=1)
  return 1 if missed else 0

if __name__ == '__main__':
  sys.exit(main())
