#!/venv/bin/python
"""tools/process_seed.py verify <PID> <n>   : confirm /tmp/seed/<PID>/out/patch<n>.diff + demo<n>.py and store under /verif/seeded/<PID>-s<n>/
   tools/process_seed.py detect <PID>-s<n> [check ids...] : run the quick checks against the stored patch, record result in meta.json
"""
import json, os, re, shutil, subprocess, sys, time
HERE = os.path.dirname(os.path.dirname(os.path.abspath(__file__)))

def verify(pid, n):
  src = f'/tmp/seed/{pid}/out'
  second_round = pid.endswith('b')
  pid = pid[:3]
  sn = int(n) + (2 if second_round else 0)
  patch, demo, notes = (os.path.join(src, f) for f in (f'patch{n}.diff', f'demo{n}.py', f'notes{n}.md'))
  r = subprocess.run([os.path.join(HERE, 'tools', 'verify_seed.py'), patch, demo], capture_output=True, text=True)
  print(r.stdout[-2000:])
  if r.returncode != 0:
    print('not confirmed; nothing stored'); return 1
  d = os.path.join(HERE, 'seeded', f'{pid}-s{sn}')
  os.makedirs(d, exist_ok=True)
  shutil.copy(patch, os.path.join(d, 'patch.diff'))
  shutil.copy(demo, os.path.join(d, 'demo.py'))
  note = open(notes).read() if os.path.exists(notes) else ''
  files = sorted(set(re.findall(r'^\+\+\+ b/(\S+)', open(patch).read(), flags=re.M)))
  meta = {
      'property': pid, 'source': 'independent sub-agent given only the property text and a scratch worktree'
                                 + (' (second round: asked for cooperating-site / multi-step / feature-combination / subtle-accuracy changes, told which first-round changes were taken)' if second_round else ''),
      'files_changed': files, 'needs_to_manifest_and_why': note,
      'confirmed': {'tool': 'tools/verify_seed.py', 'log': r.stdout.strip().splitlines(),
                    'what_ran': ['demo.py on a clean scratch worktree of /repo HEAD (exit 0)',
                                 'git apply patch.diff; demo.py again (exit != 0)',
                                 'full pinned pytest suite on the patched worktree: every BASELINE stable_pass test passes']},
      'detection': {},
  }
  json.dump(meta, open(os.path.join(d, 'meta.json'), 'w'), indent=1)
  print('stored', d)
  return 0

def detect(sid, checks):
  d = os.path.join(HERE, 'seeded', sid)
  meta = json.load(open(os.path.join(d, 'meta.json')))
  checks = checks or [meta['property']]
  for c in checks:
    t0 = time.time()
    r = subprocess.run([os.path.join(HERE, 'tools', 'with_mutant.py'), '--patch', os.path.join(d, 'patch.diff'), '--',
                        './check', c, '--no-evidence'], capture_output=True, text=True, cwd=HERE)
    lines = r.stdout.splitlines()
    failing = sorted(set(l.split()[2].rstrip(':') for l in lines if l.strip().startswith('failing sub-check')))
    viol = [l for l in lines if l.startswith('VIOLATION')]
    res = {'tier': 'quick', 'seed': int(os.environ.get('VERIF_SEED', '1')), 'exit': r.returncode,
           'caught': bool(r.returncode == 1 and viol), 'by_subchecks': failing, 'wall_s': round(time.time() - t0)}
    if r.returncode not in (0, 1):
      res['harness_output'] = r.stdout[-1500:] + r.stderr[-500:]
    meta['detection'][c] = res
    print(sid, c, 'CAUGHT by ' + ','.join(failing) if res['caught'] else f'MISSED (rc={r.returncode})')
  json.dump(meta, open(os.path.join(d, 'meta.json'), 'w'), indent=1)
  return 0

if __name__ == '__main__':
  if sys.argv[1] == 'verify':
    sys.exit(verify(sys.argv[2], sys.argv[3]))
  sys.exit(detect(sys.argv[2], sys.argv[3:]))
