#!/venv/bin/python
"""Confirms a seeded breaking change: tools/verify_seed.py <patch.diff> <demo.py> [--skip-suite]

1. demo passes on a clean scratch worktree of /repo HEAD  (exit 0)
2. patch applies; demo fails on the patched worktree       (exit != 0)
3. the repository's pinned suite still passes with the patch (every BASELINE stable_pass test passes)
The scratch worktree lives under /var/tmp and is removed afterwards.
"""
import json, os, shutil, subprocess, sys, tempfile, xml.etree.ElementTree as ET

def run_demo(wt, demo):
  env = dict(os.environ, PYTHONPATH=wt, JAX_PLATFORMS='cpu', PYTHONDONTWRITEBYTECODE='1')
  r = subprocess.run(['/venv/bin/python', demo], cwd=wt, env=env, capture_output=True, text=True, timeout=3600)
  return r.returncode, (r.stdout + r.stderr)[-1200:]

def main():
  patch, demo = os.path.abspath(sys.argv[1]), os.path.abspath(sys.argv[2])
  skip_suite = '--skip-suite' in sys.argv
  d = tempfile.mkdtemp(prefix='dino-seed-', dir='/var/tmp')
  wt = os.path.join(d, 'wt')
  ok = True
  try:
    subprocess.check_call(['git', '-C', '/repo', 'worktree', 'add', '-q', '--detach', wt, 'HEAD'])
    rc, out = run_demo(wt, demo)
    print(f'[1] demo on clean tree: rc={rc} ({"ok" if rc == 0 else "SHOULD PASS"})')
    if rc != 0:
      print(out); ok = False
    r = subprocess.run(['git', '-C', wt, 'apply', patch], capture_output=True, text=True)
    if r.returncode != 0:
      print('[2] patch does not apply:', r.stderr); return 1
    rc, out = run_demo(wt, demo)
    print(f'[2] demo on patched tree: rc={rc} ({"fails as intended" if rc != 0 else "SHOULD FAIL"})')
    if rc == 0:
      ok = False
    else:
      print('    ' + out.strip().splitlines()[-1][:300] if out.strip() else '')
    if not skip_suite:
      xml = os.path.join(d, 'junit.xml')
      env = dict(os.environ, JAX_PLATFORMS='cpu', PYTHONDONTWRITEBYTECODE='1', PYTHONPATH=wt)
      subprocess.run(['/venv/bin/python', '-m', 'pytest', '-q', '-p', 'no:cacheprovider', '--timeout=900',
                      '--continue-on-collection-errors', f'--junitxml={xml}'], cwd=wt, env=env,
                     capture_output=True, text=True)
      passed = set()
      for tc in ET.parse(xml).getroot().iter('testcase'):
        if not any(ch.tag in ('failure', 'error', 'skipped') for ch in tc):
          passed.add(f"{tc.get('classname')}::{tc.get('name')}")
      stable = json.load(open('/root/.vp/BASELINE.json'))['stable_pass']
      missing = [t for t in stable if t not in passed]
      print(f'[3] suite with patch: {len(stable) - len(missing)}/{len(stable)} baseline tests pass')
      if missing:
        ok = False
        print('    now failing:', missing[:10])
    print('CONFIRMED' if ok else 'NOT CONFIRMED')
    return 0 if ok else 1
  finally:
    subprocess.run(['git', '-C', '/repo', 'worktree', 'remove', '--force', wt], capture_output=True)
    shutil.rmtree(d, ignore_errors=True)
    subprocess.run(['git', '-C', '/repo', 'worktree', 'prune'])

if __name__ == '__main__':
  sys.exit(main())
