#!/venv/bin/python
"""Regenerates the generated parts of DESIGN.md (9.7 result tables, Appendix C) from the modules,
mutants/results/*.json and seeded/*/meta.json. Everything between the BEGIN/END GENERATED markers is replaced."""
import glob, importlib, json, os, sys
HERE = os.path.dirname(os.path.dirname(os.path.abspath(__file__)))
sys.path.insert(0, '/repo'); sys.path.insert(1, HERE); sys.path.append(os.path.join(HERE, '.deps'))
os.environ.setdefault('JAX_PLATFORMS', 'cpu')
out = []
out.append('### 9.7 Results of the sensitivity runs (generated)\n')
out.append('Own mutants, quick tier, `tools/run_mutants.py` (complete runs only):\n')
out.append('| property | mutants | caught | missed |')
out.append('|---|---|---|---|')
tot = ctot = 0
for i in range(1, 21):
  pid = f'C{i:02d}'
  n = len(json.load(open(os.path.join(HERE, 'mutants', pid + '.json'))))
  rp = os.path.join(HERE, 'mutants', 'results', pid + '.json')
  if os.path.exists(rp):
    r = json.load(open(rp))
    missed = [m['name'] for m in r['mutants'] if not m['caught']]
    out.append(f"| {pid} | {n} | {r['caught']}/{r['total']} | {', '.join(missed) or '—'} |")
    tot += r['total']; ctot += r['caught']
  else:
    out.append(f'| {pid} | {n} | (no complete run recorded) | |')
out.append(f'\nTotal recorded: {ctot}/{tot} caught.\n')
out.append('Independently seeded changes (`seeded/<id>/meta.json`):\n')
out.append('| id | property | files | quick checks run → result |')
out.append('|---|---|---|---|')
for d in sorted(glob.glob(os.path.join(HERE, 'seeded', '*'))):
  mp = os.path.join(d, 'meta.json')
  if not os.path.exists(mp):
    continue
  m = json.load(open(mp))
  det = '; '.join(f"{c}: {'caught by ' + ','.join(v['by_subchecks']) if v.get('caught') else 'MISSED'}"
                  + (f" ({v['note']})" if v.get('note') else '') for c, v in m.get('detection', {}).items()) or 'not run yet'
  out.append(f"| {os.path.basename(d)} | {m['property']} | {', '.join(os.path.basename(f) for f in m['files_changed'])} | {det} |")
out.append('\n## Appendix C. Sub-checks as built (generated from vf/props/*.py)\n')
nsub = 0
for i in range(1, 21):
  pid = f'C{i:02d}'
  mod = importlib.import_module(f'vf.props.c{i:02d}')
  out.append(f'### {pid}\n')
  if getattr(mod, 'RULE', ''):
    out.append(f'*Rule.* {mod.RULE}\n')
  for s in mod.SUBCHECKS:
    nsub += 1
    kind = 'enumeration' if s.cases is not None else 'Hypothesis'
    ex = '' if s.cases is not None else f" examples quick/thorough {s.examples.get('quick')}/{s.examples.get('thorough')}"
    out.append(f"* `{s.name}` ({kind};{ex}) — {s.doc or ''} *Non-trivial:* {s.rule or 'see module rule'}")
  if getattr(mod, 'ASSUMPTIONS', None):
    out.append('\n*Built-in preconditions:*')
    for a in mod.ASSUMPTIONS:
      out.append(f'  - {a}')
  out.append('')
text = '\n'.join(out)
p = os.path.join(HERE, 'DESIGN.md')
s = open(p).read()
B, E = '<!-- BEGIN GENERATED -->', '<!-- END GENERATED -->'
if B in s:
  s = s[:s.index(B)] + B + '\n' + text + '\n' + E + s[s.index(E) + len(E):]
else:
  s = s.rstrip('\n') + '\n\n' + B + '\n' + text + '\n' + E + '\n'
nm = sum(len(json.load(open(f))) for f in glob.glob(os.path.join(HERE, 'mutants', 'C*.json')))
import re
s = re.sub(r'\(\d+ in total; every entry names', f'({nm} in total; every entry names', s)
s = re.sub(r'the sensitivity suite \(\d+ mutants\)', f'the sensitivity suite ({nm} mutants)', s)
s = re.sub(r'\d+ sub-checks in 20 modules', f'{nsub} sub-checks in 20 modules', s)
open(p, 'w').write(s)
print('DESIGN.md regenerated:', nsub, 'sub-checks,', nm, 'mutants')
